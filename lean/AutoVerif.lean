import AutoVerif.Gen.Consts
import AutoVerif.Model.Types
import AutoVerif.Props.C04
import AutoVerif.Props.C01
import AutoVerif.Props.C02
