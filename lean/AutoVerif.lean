import AutoVerif.Gen.Consts
import AutoVerif.Model.Types
import AutoVerif.Props.C04
