import AutoVerif.Drv.C04
import AutoVerif.Drv.C01
import AutoVerif.Drv.C02
import AutoVerif.Drv.C05
import AutoVerif.Drv.C09
import AutoVerif.Drv.C11
import AutoVerif.Drv.C20
import AutoVerif.Drv.C08
import AutoVerif.Drv.C03
import AutoVerif.Drv.C18
import AutoVerif.Drv.C14
import AutoVerif.Drv.C17
import AutoVerif.Drv.C16
import AutoVerif.Drv.C15
import AutoVerif.Drv.C07
import AutoVerif.Drv.C06
import AutoVerif.Drv.C12
import AutoVerif.Drv.C19
import AutoVerif.Drv.C13
import AutoVerif.Drv.C10
/-
`drv`: JSON lines in (`{"prop","case","input","impl"}`), JSON lines out
(`{"case","agree","spec_model","spec_impl",…}`).  For each case the model's
executable definitions are run on `input`, compared with `impl`, and the
property's decidable Spec predicate is evaluated on both.
-/
open Lean AutoVerif AutoVerif.Codec

def dispatch (prop : String) (input impl : Json) : R Reply :=
  match prop with
  | "C04" => C04.handle input impl
  | "C01" => C01.handle input impl
  | "C02" => C02.handle input impl
  | "C05" => C05.handle input impl
  | "C09" => C09.handle input impl
  | "C11" => C11.handle input impl
  | "C20" => C20.handle input impl
  | "C08" => C08.handle input impl
  | "C03" => C03.handle input impl
  | "C18" => C18.handle input impl
  | "C14" => C14.handle input impl
  | "C17" => C17.handle input impl
  | "C16" => C16.handle input impl
  | "C15" => C15.handle input impl
  | "C07" => C07.handle input impl
  | "C06" => C06.handle input impl
  | "C12" => C12.handle input impl
  | "C19" => C19.handle input impl
  | "C13" => C13.handle input impl
  | "C10" => C10.handle input impl
  | _ => throw s!"unknown property {prop}"

def handleLine (line : String) : String :=
  match Json.parse line with
  | .error e => (Json.mkObj [("case", .null), ("error", .str s!"parse: {e}")]).compress
  | .ok j =>
    let case := fieldD j "case" .null
    let r : R Reply := do
      let prop ← strF j "prop"
      dispatch prop (fieldD j "input" .null) (fieldD j "impl" .null)
    match r with
    | .ok rep => (rep.toJson case).compress
    | .error e => (Json.mkObj [("case", case), ("error", .str e)]).compress

partial def loop (hin hout : IO.FS.Stream) : IO Unit := do
  let line ← hin.getLine
  if line.isEmpty then return ()
  let t := line.trimAscii.toString
  if !t.isEmpty then
    hout.putStrLn (handleLine t)
  loop hin hout

def main : IO Unit := do
  let hin ← IO.getStdin
  let hout ← IO.getStdout
  loop hin hout
  hout.flush
