import AutoVerif.Model.C12
/-
Decidable statement of C12.  Two predicates, both evaluated by the driver on what the real code
did (oracle) and on what the model computes, and both proved of the model in Props/C12:

  `routingOk flow value results sinks` — after one pipeline run (`value` = payloads handed to the
      runner and to the post-processor, `results` = what the runner returned, in its order):
      staged / proposed / recorded-ineligible / retried are exactly what the property says.
      Everything is compared up to order (the runner's order is not part of the property).
      `retriesSafe` (part of `routingOk`) and `retriesCounted` (per run) are judged for EVERY run, also one
      outside the pipeline's contract: only payloads of the run are retried, as many as must be.
  `checkedOk keep built checked` — final flows: what reached the runner is exactly the payload builder's
      non-empty payloads that pass the coordinator's filter; an empty payload is never checked.
  `queueOk cfg log` — over a chronological log of retry-queue events (enqueues, and dequeues with
      what they handed out).  `queueSafe`: nothing is handed out before its interval, after its
      expiry window, twice without a new enqueue, never-enqueued, or with an older check block than the
      last one enqueued (true of EVERY model history).  `queueLive`: the clock does not run backwards,
      nothing is handed out more than the expiration after its work id's EARLIEST enqueue unless a
      purging dequeue came before the latest enqueue, and a dequeue with room hands out everything that
      is due (true of every model history in which `Dequeue` ranges over the whole map — as Go's does).
-/
namespace AutoVerif.C12

/-! ## routing -/

/-- some payload of the run carries the result's work id (the check pipeline's contract: one result per
payload, carrying that payload's work id) -/
def carried (value : List Payload) (r : Res) : Bool := value.any (fun p => decide (p.workID = r.cr.workID))

/-- the pipeline contract as far as the retry sink depends on it -/
def contractOk (value : List Payload) (results : List Res) : Bool :=
  results.all (fun r => !r.retryableFail || carried value r)

def expectStaged (flow : Flow) (results : List Res) : List CheckResult :=
  if flow.stages then (results.filter (·.succEligible)).map (·.cr) else []
def expectProposed (flow : Flow) (results : List Res) : List Proposal :=
  if flow.proposes then (results.filter (·.succEligible)).map (fun r => toProposal r.cr) else []
def expectIneligible (flow : Flow) (results : List Res) : List CheckResult :=
  if flow.recordsIneligible then (results.filter (·.succIneligible)).map (·.cr) else []

/-- a retry `e` is justified by the retryable failure `r`: same unit of work, `r`'s interval, and the
payload is the one checked at `r`'s block whenever the run had such a payload -/
def justifies (value : List Payload) (e : RetryRecord) (r : Res) : Bool :=
  r.retryableFail && decide (r.cr.workID = e.payload.workID) && decide (r.retryInterval = e.interval) &&
  (blockMatch e.payload r.cr || !(value.any (fun p => decide (p.workID = r.cr.workID) && blockMatch p r.cr)))

def retryKey (e : RetryRecord) : String × Int := (e.payload.workID, e.interval)
def failKey (r : Res) : String × Int := (r.cr.workID, r.retryInterval)

def retriesOk (flow : Flow) (value : List Payload) (results : List Res) (retries : List RetryRecord) : Bool :=
  if flow.retries then
    -- one retry per retryable failure, for that failure's unit of work, with its interval; nothing else
    (retries.map retryKey).isPerm ((results.filter (·.retryableFail)).map failKey) &&
    -- each retried payload is one of the run's payloads and is the right one for some failure
    retries.all (fun e => value.contains e.payload && results.any (justifies value e))
  else retries.isEmpty

/-- "nothing else is retried", for EVERY run — also one outside the pipeline's contract (a retryable failure whose
work id no payload carries, more results than payloads): each retried payload is a payload of the run and carries
the interval of some retryable failure of the run, and there are no more retries than retryable failures -/
def retriesSafe (flow : Flow) (value : List Payload) (results : List Res) (retries : List RetryRecord) : Bool :=
  if flow.retries then
    retries.all (fun e => value.contains e.payload &&
      results.any (fun r => r.retryableFail && decide (r.retryInterval = e.interval))) &&
    decide (retries.length ≤ (results.filter (·.retryableFail)).length)
  else retries.isEmpty

/-- how many retries ONE run must schedule, whatever the runner returned (`i` = position of the head of `results`):
one per retryable failure whose work id some payload carries, or — when none does — whose position is within the
payload list (the positional fallback); a retryable failure for an unknown work id past the payload list (more
results than payloads) schedules nothing -/
def retryCount (value : List Payload) : Nat → List Res → Nat
  | _, [] => 0
  | i, r :: rs =>
    (if r.retryableFail && (carried value r || decide (i < value.length)) then 1 else 0) + retryCount value (i + 1) rs

/-- over the runs of a case (payloads handed to the runner, what it returned): the retry sink received exactly as
many records as the runs must schedule -/
def retriesCounted (flow : Flow) (runs : List (List Payload × List Res)) (retries : List RetryRecord) : Bool :=
  !flow.retries || decide (retries.length = (runs.map (fun x => retryCount x.1 0 x.2)).sum)

def stagedOk (flow : Flow) (results : List Res) (s : Sinks) : Bool := s.staged.isPerm (expectStaged flow results)
def proposedOk (flow : Flow) (results : List Res) (s : Sinks) : Bool := s.proposed.isPerm (expectProposed flow results)
def ineligibleOk (flow : Flow) (results : List Res) (s : Sinks) : Bool := s.ineligible.isPerm (expectIneligible flow results)

/-- C12, routing part.  For runs that violate the pipeline contract (a retryable failure whose work id no
payload carries) the retry clause is not judged: the property's quantifier does not cover them. -/
def routingOk (flow : Flow) (value : List Payload) (results : List Res) (s : Sinks) : Bool :=
  stagedOk flow results s && proposedOk flow results s && ineligibleOk flow results s &&
  retriesSafe flow value results s.retries &&
  (!contractOk value results || retriesOk flow value results s.retries)

def explainRouting (flow : Flow) (value : List Payload) (results : List Res) (s : Sinks) : String :=
  if !stagedOk flow results s then "staged results differ from the eligible successes of the run"
  else if !proposedOk flow results s then "proposals differ from the eligible successes of the run"
  else if !ineligibleOk flow results s then "results recorded ineligible differ from the ineligible successes of the run"
  else if !retriesSafe flow value results s.retries then
    (if !flow.retries then "retry scheduled by a flow without retry sink"
     else if !s.retries.all (fun e => value.contains e.payload) then "retried payload is not a payload of the run"
     else "more retries than retryable failures, or a retry with an interval no retryable failure of the run has")
  else if !contractOk value results then "ok"
  else if !flow.retries then (if s.retries.isEmpty then "ok" else "retry scheduled by a flow without retry sink")
  else if !(s.retries.map retryKey).isPerm ((results.filter (·.retryableFail)).map failKey) then
    "retries do not match the retryable failures by work id (wrong payload retried, retry missing or extra)"
  else if !s.retries.all (fun e => value.contains e.payload) then "retried payload is not a payload of the run"
  else if !s.retries.all (fun e => results.any (justifies value e)) then
    "retried payload has the failure's work id but not its check block although the run had that payload"
  else "ok"

/-! ## what a final flow checks: the builder's non-empty payloads, each once, nothing else -/

/-- `checked` = all payloads handed to the runner over the case's ticks, `built` = what the payload builder returned
per tick, `keep` = the coordinator's filter: no empty payload is ever checked, and what is checked is exactly the
non-empty built payloads that pass the filter (up to order: ticks are processed concurrently) -/
def checkedOk (keep : Payload → Bool) (built : List (List Payload)) (checked : List Payload) : Bool :=
  checked.all (fun p => !payloadEmpty p) &&
  checked.isPerm ((built.flatMap id).filter (fun p => !payloadEmpty p && keep p))

def explainChecked (keep : Payload → Bool) (built : List (List Payload)) (checked : List Payload) : String :=
  if !checked.all (fun p => !payloadEmpty p) then "an empty payload (empty work id) was handed to the check pipeline"
  else if !checked.isPerm ((built.flatMap id).filter (fun p => !payloadEmpty p && keep p)) then
    "the payloads checked by a final flow are not the non-empty payloads its builder returned (lost, doubled or foreign)"
  else "ok"

/-! ## hypotheses of the exactness theorem -/

/-- the pipeline's contract at full strength: every result a run can return is the result of one of
its payloads and carries that payload's work id, check block and hash -/
def Faithful (runs : List (Payload × Res)) : Prop :=
  ∀ x ∈ runs, x.2.cr.workID = x.1.workID ∧ blockMatch x.1 x.2.cr = true

/-- no two different payloads of a run share work id, check block and hash -/
def DistinctKeys (ps : List Payload) : Prop :=
  ∀ p ∈ ps, ∀ p' ∈ ps, p.workID = p'.workID → p.trigger.blockNumber = p'.trigger.blockNumber →
    p.trigger.blockHash = p'.trigger.blockHash → p = p'

/-! ## retry queue, over the log in reverse chronological order (`older` = everything before) -/

def Ev.time : Ev → Nat
  | .enq t _ => t
  | .deq t _ _ => t

/-- the most recent enqueue of work id `k` -/
def lastEnq : List Ev → String → Option (Nat × RetryRecord)
  | [], _ => none
  | .enq t r :: older, k => if r.payload.workID = k then some (t, r) else lastEnq older k
  | .deq _ _ _ :: older, k => lastEnq older k

/-- was `k` handed out by a dequeue since its most recent enqueue? -/
def handedSince : List Ev → String → Bool
  | [], _ => false
  | .enq _ r :: older, k => if r.payload.workID = k then false else handedSince older k
  | .deq _ _ out :: older, k => out.any (fun p => decide (p.workID = k)) || handedSince older k

def isEnqOf (k : String) (f : Nat → RetryRecord → Bool) : Ev → Bool
  | .enq t r => decide (r.payload.workID = k) && f t r
  | .deq _ _ _ => false

/-- some enqueue of `k` lies within the expiration window before `now` -/
def enqWithin (cfg : Cfg) (older : List Ev) (k : String) (now : Nat) : Bool :=
  older.any (isEnqOf k (fun t _ => decide (now ≤ t + cfg.expiration)))

/-- payload `p` was enqueued (under its own work id) -/
def wasEnqueued (older : List Ev) (p : Payload) : Bool :=
  older.any (isEnqOf p.workID (fun _ r => decide (r.payload = p)))

def notBeforeInterval (cfg : Cfg) (now : Nat) (older : List Ev) (p : Payload) : Bool :=
  match lastEnq older p.workID with
  | none => false
  | some (te, r) => decide (now > te + effInterval cfg r.interval)

def notOlderThanLast (older : List Ev) (p : Payload) : Bool :=
  match lastEnq older p.workID with
  | none => false
  | some (_, r) => decide (p.trigger.blockNumber ≥ r.payload.trigger.blockNumber)

/-- conditions on one payload handed out at `now` -/
def retOk (cfg : Cfg) (now : Nat) (older : List Ev) (p : Payload) : Bool :=
  notBeforeInterval cfg now older p && !handedSince older p.workID && enqWithin cfg older p.workID now &&
  wasEnqueued older p && notOlderThanLast older p

def evOk (cfg : Cfg) (older : List Ev) : Ev → Bool
  | .enq _ _ => true
  | .deq t n out =>
    out.all (retOk cfg t older) && decide ((out.map (·.workID)).Nodup) && decide (out.length ≤ max n 1)

def logOk (cfg : Cfg) : List Ev → Bool
  | [] => true
  | ev :: older => evOk cfg older ev && logOk cfg older

/-- C12, queue part, safety clauses, on a chronological log -/
def queueSafe (cfg : Cfg) (log : List Ev) : Bool := logOk cfg log.reverse

/-! ### "every retryable failure schedules a retry": what is due does come out -/

/-- the earliest time at which `k` was enqueued -/
def minEnqTime : List Ev → String → Option Nat
  | [], _ => none
  | .enq t r :: older, k =>
    if r.payload.workID = k then
      (match minEnqTime older k with
       | some m => some (min t m)
       | none => some t)
    else minEnqTime older k
  | .deq _ _ _ :: older, k => minEnqTime older k

/-- `k` must be handed out by a full `Dequeue` at `now`: its most recent enqueue is older than its interval,
it has not been handed out since, and not even its earliest enqueue is older than the expiration (so the
record cannot have expired, whichever enqueue created it) -/
def dueNow (cfg : Cfg) (now : Nat) (older : List Ev) (k : String) : Bool :=
  match lastEnq older k, minEnqTime older k with
  | some (te, r), some t0 =>
    decide (now > te + effInterval cfg r.interval) && !handedSince older k && decide (now ≤ t0 + cfg.expiration)
  | _, _ => false

/-- everything older than the most recent enqueue of `k` -/
def beforeLastEnq : List Ev → String → List Ev
  | [], _ => []
  | .enq _ r :: older, k => if r.payload.workID = k then older else beforeLastEnq older k
  | .deq _ _ _ :: older, k => beforeLastEnq older k

def isDeqAfter (bound : Nat) : Ev → Bool
  | .deq t _ _ => decide (t > bound)
  | .enq _ _ => false

/-- the sharp form of "not after it has expired": a work id handed out at `now` is at most `expiration` past
its EARLIEST enqueue — unless a `Dequeue` ran past that expiry before the most recent enqueue (only such a call
can have purged the old record, so that a later enqueue started a new life) -/
def notAfterExpiry (cfg : Cfg) (now : Nat) (older : List Ev) (p : Payload) : Bool :=
  match minEnqTime older p.workID with
  | none => false
  | some t0 =>
    decide (now ≤ t0 + cfg.expiration) || (beforeLastEnq older p.workID).any (isDeqAfter (t0 + cfg.expiration))

def enqKeys (older : List Ev) : List String :=
  older.filterMap fun
    | .enq _ r => some r.payload.workID
    | .deq _ _ _ => none

/-- the clock does not run backwards; nothing is handed out past its expiry (sharp form); and a `Dequeue` that
returned fewer than `n` payloads (so its loop visited every record) handed out everything that was due -/
def evLive (cfg : Cfg) (older : List Ev) : Ev → Bool
  | .enq t _ => decide (lastEvTime older ≤ t)
  | .deq t n out =>
    decide (lastEvTime older ≤ t) && out.all (notAfterExpiry cfg t older) &&
    (decide (n ≤ out.length) ||
      (enqKeys older).all (fun k => !dueNow cfg t older k || (out.map (·.workID)).contains k))

def logLive (cfg : Cfg) : List Ev → Bool
  | [] => true
  | ev :: older => evLive cfg older ev && logLive cfg older

def queueLive (cfg : Cfg) (log : List Ev) : Bool := logLive cfg log.reverse

/-- C12, queue part, on a chronological log of the real queue (whose `Dequeue` ranges over the whole map) -/
def queueOk (cfg : Cfg) (log : List Ev) : Bool := queueSafe cfg log && queueLive cfg log

def explainRet (cfg : Cfg) (now : Nat) (older : List Ev) (p : Payload) : String :=
  if !wasEnqueued older p then "dequeued a payload that was never enqueued"
  else if !notBeforeInterval cfg now older p then "dequeued before its retry interval elapsed"
  else if handedSince older p.workID then "dequeued again while pending (no enqueue in between)"
  else if !enqWithin cfg older p.workID now then "dequeued after expiry (no enqueue of this work id within the expiration window)"
  else if !notOlderThanLast older p then "dequeued an older check block than the last one enqueued"
  else "ok"

def explainLog (cfg : Cfg) : List Ev → String
  | [] => "ok"
  | ev :: older =>
    match explainLog cfg older with
    | "ok" =>
      (match ev with
       | .enq _ _ => "ok"
       | .deq t n out =>
         match out.find? (fun p => !retOk cfg t older p) with
         | some p => explainRet cfg t older p
         | none =>
           if !decide ((out.map (·.workID)).Nodup) then "same work id twice in one dequeue"
           else if !decide (out.length ≤ max n 1) then "dequeue returned more than n payloads"
           else "ok")
    | s => s

def explainLive (cfg : Cfg) : List Ev → String
  | [] => "ok"
  | ev :: older =>
    match explainLive cfg older with
    | "ok" =>
      if evLive cfg older ev then "ok"
      else if !decide (lastEvTime older ≤ ev.time) then "clock ran backwards in the queue log"
      else if (match ev with | .deq t _ out => !out.all (notAfterExpiry cfg t older) | _ => false) then
        "dequeued more than the expiration after the work id's first enqueue (re-enqueueing extended its life)"
      else "a retry that was due was not handed out by a dequeue that had room for it"
    | s => s

def explainQueue (cfg : Cfg) (log : List Ev) : String :=
  match explainLog cfg log.reverse with
  | "ok" => explainLive cfg log.reverse
  | s => s

/-! ## node level: every retryable failure of every flow leads to another check -/

/-- one call of the check pipeline for a unit of work: when, the how-many-th, and with which check block -/
structure Check where
  t     : Nat
  att   : Nat
  block : Nat
deriving DecidableEq, Repr

/-- consecutive checks: the answer to the `j`-th was a retryable failure with interval `iv`; the next check comes
strictly after `eff iv` ("no earlier than its retry interval") and at most one retry tick after that (the retry
flow dequeues every `tick`; "every retryable failure schedules a retry") -/
def checksTimed (cfg : Cfg) (tick : Nat) : List Res → List Check → Bool
  | r :: rs, c :: c' :: cs =>
    decide (c'.t > c.t + effInterval cfg r.retryInterval) &&
    decide (c'.t ≤ c.t + effInterval cfg r.retryInterval + tick) &&
    checksTimed cfg tick rs (c' :: cs)
  | _, _ => true

def checksCounted (script : List Res) (cs : List Check) : Bool :=
  decide (cs.length = planChecks script) && decide (cs.map (·.att) = List.range cs.length)

def checksSamePayload (p : Payload) (cs : List Check) : Bool := cs.all (fun c => decide (c.block = p.trigger.blockNumber))

def stagedRight (p : Payload) (script : List Res) (perf : List CheckResult) : Bool :=
  decide (perf.filter (fun r => decide (r.workID = p.workID)) = planStaged script)

/-- one unit of work at node level: `cs` = the pipeline calls for it in time order, `perf` = what the node
finally offers as performable -/
def itemOk (cfg : Cfg) (tick : Nat) (p : Payload) (script : List Res) (cs : List Check) (perf : List CheckResult) : Bool :=
  checksCounted script cs && checksSamePayload p cs && checksTimed cfg tick script cs && stagedRight p script perf

def explainItem (cfg : Cfg) (tick : Nat) (p : Payload) (script : List Res) (cs : List Check) (perf : List CheckResult) : String :=
  if cs.length < planChecks script then
    (if !checksTimed cfg tick script cs then "retried outside (interval, interval + retry tick]"
     else "a retryable failure was never followed by another check of its payload (retry lost)")
  else if cs.length > planChecks script then "a unit of work was checked again although its last answer was not a retryable failure"
  else if !checksCounted script cs then "checks of a unit of work out of sequence"
  else if !checksSamePayload p cs then "retried with a payload of another check block"
  else if !checksTimed cfg tick script cs then "retried outside (interval, interval + retry tick]"
  else if !stagedRight p script perf then "terminal result of a unit of work is not what the node stages for it"
  else "ok"

/-! ## the batch limit must not starve: many calls, all records due at each -/

/-- how many calls make "never within the first `n`" practically impossible under Go's randomised map iteration
(the range starts at a uniformly random slot; with at most 16 records the table has at most 32 slots, so a record
is FIRST with probability ≥ 1/32 in every call: (31/32)^1000 < 2·10⁻¹⁴) -/
def fairRounds : Nat := 1000

/-- `d` records that are due at every one of `k` calls of `Dequeue(n)`: every call hands out `min n d` of them,
nothing else, and — over `fairRounds` calls or more — every record at least once -/
def fairOk (d n k : Nat) (counts : List Nat) (short foreign : Nat) : Bool :=
  decide (short = 0) && decide (foreign = 0) && decide (counts.length = d) && decide (counts.sum = k * min n d) &&
  (decide (k < fairRounds) || decide (16 < d) || counts.all (fun c => decide (1 ≤ c)))

end AutoVerif.C12
