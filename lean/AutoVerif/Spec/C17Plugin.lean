import AutoVerif.Model.C17Plugin
import AutoVerif.Spec.C17
/-
C17 at the level of the plugin: what `Observe` / `Observation`, `Report`'s key filter,
`ShouldAcceptFinalizedReport` and `ShouldTransmitAcceptedReport` must answer, stated from the *history*
(the ghost of the accepts and logs processed so far), not from the caches:

* an id whose lockout is running (per the history) is in no observation and in no report — asked again on every call;
* every key of an accepted report is registered (the accepts of the history are exactly the keys of the reports, up
  to the first unparsable one);
* a report is worth transmitting iff one of its keys is accepted and without a log.
-/
namespace AutoVerif.C17

def expPasses (g : Ghost) (key : Str) : Bool :=
  let r := expPending g key
  !(r.1 || r.2)

def expObserve (g : Ghost) (st : Stage) : List Str :=
  st.ids.filter fun id => expPasses g (makeUpkeepKey st.block id)

def expAccept (keys : List Str) : Bool × Bool :=
  if keys = [] then (false, true)
  else
    let e := keys.any fun k => (splitUpkeepKey k).isNone
    (!e, e)

def expTransmit (g : Ghost) (keys : List Str) : Bool × Bool :=
  if keys = [] then (false, true)
  else (keys.any fun k => !expConfirmed g k, false)

def expReport (g : Ghost) (block : Str) (ids : List Str) : List Str :=
  ((ids.map (makeUpkeepKey block)).filter (expPasses g)).eraseDups

/-- expected answer of an operation given the ghost of the history before it and the staged block / ids
    (`pick` is not prescribed: see `outOk`) -/
def expOut (g : Ghost) (st : Stage) : POp → POut
  | .acceptReport keys => { POut.none with flag := (expAccept keys).1, err := (expAccept keys).2 }
  | .observe =>
    let ids := expObserve g st
    { POut.none with block := st.block, ids := ids, pblock := st.block, pick := ids.take 1 }
  | .transmit keys => { POut.none with flag := (expTransmit g keys).1, err := (expTransmit g keys).2 }
  | .report b ids => { POut.none with block := b, ids := expReport g b ids }
  | _ => POut.none

/-- keys an operation asks `IsPending` about -/
def readKeys (st : Stage) : POp → List Str
  | .observe => st.ids.map (makeUpkeepKey st.block)
  | .report b ids => ids.map (makeUpkeepKey b)
  | _ => []

/-- `out` is an admissible answer: everything as expected, and the observation's pick any one of the expected ids -/
def outOk (pop : POp) (e out : POut) : Bool :=
  decide ({ out with pick := [] } = { e with pick := [] }) &&
    (match pop with
     | .observe => observationOk e.ids out.pick
     | _ => out.pick.isEmpty)

/-- the same over several lockout windows (`liveRegime`, Spec/C17): no lock had run out when an operation of `pre` was
    processed, and every id the operation asks about was never blocked or changed last at most one window ago -/
def liveReadOk (cfg : Cfg) (pre : List (Nat × Op)) (st : Stage) (now : Nat) (pop : POp) (out : POut) : Bool :=
  match liveRegime cfg pre now (readKeys st pop) with
  | none => true
  | some tg =>
    !(readKeys st pop).all (probeLive cfg.window tg now) || outOk pop (expOut (ghost cfg (pre.map (·.2))) st pop) out

/-- one operation, executed at `now` after the coordinator-level history `pre` with `st` staged -/
def readOk (cfg : Cfg) (pre : List (Nat × Op)) (st : Stage) (now : Nat) (pop : POp) (out : POut) : Bool :=
  (!regime cfg pre now (readKeys st pop) || outOk pop (expOut (ghost cfg (pre.map (·.2))) st pop) out) &&
    liveReadOk cfg pre st now pop out

/-- all operations of one execution against their answers -/
def readsOk (cfg : Cfg) : List (Nat × POp) → List (Nat × Op) → Stage → List POut → Bool
  | [], _, _, [] => true
  | (t, pop) :: h, pre, st, o :: os =>
    readOk cfg pre st t pop o &&
      readsOk cfg h (pre ++ (flat pop).map (fun op => (t, op))) (stageStep st pop) os
  | _, _, _, _ => false

/-- one execution through the plugin -/
structure PRun where
  ops    : List (Nat × POp)
  points : List (Nat × Nat)   -- probe points `(number of plugin-level operations processed, now)`
deriving Repr

/-- the coordinator-level execution it amounts to (probe points re-indexed) -/
def PRun.toRun (r : PRun) : Run :=
  { ops := flatten r.ops
    points := r.points.map fun p => ((flatten (r.ops.take p.1)).length, p.2) }

/-- poll regularity: the log provider of a started, open coordinator is asked at least every 2 s —
    whatever its earlier answers were (errors, panics included) -/
def twoSeconds : Nat := 2000000000

def regular (endT : Nat) (st : PollStats) : Bool :=
  if st.n = 0 then decide (endT < twoSeconds)
  else decide (st.first ≤ twoSeconds) && decide (st.maxGap ≤ twoSeconds) && decide (endT ≤ st.last + twoSeconds)

/-- C17 for executions through the plugin: the coordinator-level predicate on the flattened histories
    (lockout, boundaries, confirmed set, order independence), the answers of every operation, and the
    regularity of the background poller over each execution (`ends` = time at which each was observed last) -/
def pspec (cfg : Cfg) (probes ckeys : List Str) (runs : List PRun) (obs : List (List Obs)) (outs : List (List POut))
    (ends : List Nat) (polls : List PollStats) : Bool :=
  spec cfg probes ckeys (runs.map PRun.toRun) obs &&
    zipAll (fun r o => readsOk cfg r.ops [] Stage.init o) runs outs &&
    zipAll regular ends polls

/-! ### which conjunct fails -/

def explainOut (st : Stage) (pop : POp) (e out : POut) : String :=
  match pop with
  | .acceptReport _ => "accept: ShouldAcceptFinalizedReport answer differs from (all keys parse)"
  | .observe =>
    if out.block ≠ e.block ∨ out.pblock ≠ e.pblock then "observe: block differs from the staged block"
    else if out.ids.any (fun id => !e.ids.contains id) then
      (if out.ids.any (fun id => !st.ids.contains id) then "observe: id that is not staged"
       else "observe: locked upkeep id leaked into Observe()")
    else if e.ids.any (fun id => !out.ids.contains id) then "observe: unlocked staged id missing from Observe()"
    else if out.ids ≠ e.ids then "observe: ids out of order"
    else if out.pick.any (fun id => !e.ids.contains id) then "observe: locked upkeep id leaked into Observation()"
    else "observe: Observation() does not carry one of the unlocked staged ids"
  | .transmit _ => "unconfirmed_iff_no_log: ShouldTransmitAcceptedReport differs from (some key accepted and without log)"
  | .report _ _ =>
    if out.ids.any (fun k => !e.ids.contains k) then "report: locked upkeep key passed the IsPending filter of Report()"
    else "report: unlocked key missing from the keys Report() checks"
  | _ => "unexpected answer of an operation without answer"

def explainReads (cfg : Cfg) : List (Nat × POp) → List (Nat × Op) → Stage → List POut → Option String
  | [], _, _, [] => none
  | (t, pop) :: h, pre, st, o :: os =>
    if !readOk cfg pre st t pop o then
      some (explainOut st pop (expOut (ghost cfg (pre.map (·.2))) st pop) o)
    else explainReads cfg h (pre ++ (flat pop).map (fun op => (t, op))) (stageStep st pop) os
  | _, _, _, _ => some "wrong number of operation answers"

def pexplain (cfg : Cfg) (probes ckeys : List Str) (runs : List PRun) (obs : List (List Obs)) (outs : List (List POut))
    (ends : List Nat) (polls : List PollStats) : String :=
  if runs.length ≠ outs.length then "wrong number of runs" else
  if !zipAll regular ends polls then
    "poll regularity: a started coordinator did not ask its log provider for more than 2 s" else
  match (runs.zip outs).findSome? (fun ro => explainReads cfg ro.1.ops [] Stage.init ro.2) with
  | some s => s
  | none => explain cfg probes ckeys (runs.map PRun.toRun) obs

end AutoVerif.C17
