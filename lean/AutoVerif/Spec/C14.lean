import AutoVerif.Model.C14
/-
Decidable statement of C14 on an OBSERVATION of one run: what the harness can
see of the real worker group from outside (no hooks), and what `observe`
extracts from a state of the model.  Evaluated by the driver on the
implementation's observation (oracle Ω) and on the model's; `Props/C14.lean`
proves it of every final state of the model.

Per `RunJobs` caller the harness records: did the call return (verdict taken
when every goroutine of the synctest bubble was durably blocked, before
anything was released), the job indices whose result reached `resFunc` with
the job's own data (`delivered`), the number of results with zero data (the
worker saw the service context cancelled and did not invoke the job function:
`anon` — their identity is not observable), the job indices for which the job
function was invoked (`started`).  `Do` cannot be wrapped, so the number of
accepted jobs is observed only through its consequences:
`RunJobs` submits in order and stops at the first refusal, hence the accepted
jobs are a prefix `0..a-1`, every started job is accepted, and every accepted
job must have been delivered when `RunJobs` returns: `a = |delivered| + anon`.
-/
namespace AutoVerif.C14

structure CallerObs where
  jobs      : Nat          -- length of the caller's job list
  returned  : Bool
  delivered : List Nat     -- identified results, in delivery order
  anon      : Nat          -- results whose job function was not run
  started   : List Nat     -- job function invocations, in order
  atReturn  : Option Nat   -- number of `resFunc` calls made when `RunJobs` returned
  late      : Nat          -- `resFunc` calls after `RunJobs` returned
  panicked  : List Nat := []      -- job indices whose job function panicked
  errDelivered : List Nat := []   -- identified results that are the error result of a recovered panic
deriving DecidableEq, Repr, Inhabited

structure Obs where
  callers : List CallerObs
  maxConc : Nat            -- max number of job functions running at once
  leaked  : Nat            -- goroutines of the group / of RunJobs alive after Stop and cancel of everything
  crashed : Bool := false  -- the run could not be completed (harness process died, foreign panic)
deriving DecidableEq, Repr, Inhabited

structure Case where
  workers : Nat
  quiet   : Bool           -- neither Stop nor a cancellation happened before the verdict
  noStop  : Bool           -- Stop was not called before the verdict
deriving DecidableEq, Repr, Inhabited

def CallerObs.total (c : CallerObs) : Nat := c.delivered.length + c.anon

/-- the conjuncts of the property for one caller, in the order `explain` reports them -/
def callerChecks (cs : Case) (c : CallerObs) : List (Bool × String) :=
  [ (c.returned, "RunJobs did not return: every goroutine durably blocked (deadlock)"),
    (decide c.delivered.Nodup, "a job's result was delivered more than once"),
    (c.delivered.all (fun i => c.started.contains i), "a result was delivered for a job whose function never ran"),
    (c.started.all (fun i => c.delivered.contains i), "a job function ran but its result was not delivered"),
    (decide c.started.Nodup && c.started.all (fun i => decide (i < c.jobs)),
      "a job function ran twice or for a job that was not submitted"),
    (decide (c.total ≤ c.jobs), "more results delivered than jobs submitted"),
    (c.started.all (fun i => decide (i < c.total)), "a job ran but an earlier job of the same caller was never delivered"),
    (decide (c.late = 0) && (!c.returned || c.atReturn == some c.total),
      "a result was delivered after RunJobs returned"),
    (!cs.quiet || (decide (c.delivered.length = c.jobs) && decide (c.anon = 0)),
      "without stop or cancellation not every job was run and delivered"),
    (!cs.noStop || decide (c.anon = 0), "a job was skipped although the group was not stopped"),
    (c.panicked.all (fun i => c.errDelivered.contains i) && c.errDelivered.all (fun i => c.panicked.contains i) &&
      c.errDelivered.all (fun i => c.delivered.contains i),
      "a panicking job's error result was not delivered (or a panic result came from a job that did not panic)") ]

def globalChecks (cs : Case) (o : Obs) : List (Bool × String) :=
  [ (!o.crashed, "the run crashed"),
    (decide (o.maxConc ≤ cs.workers), "more job functions ran at once than workers configured"),
    (decide (o.leaked = 0), "goroutines left after Stop") ]

def callerOk (cs : Case) (c : CallerObs) : Bool := (callerChecks cs c).all (·.1)

/-- C14 on an observation: exactly-once delivery, every caller returned, bounded concurrency, no leak -/
def spec (cs : Case) (o : Obs) : Bool :=
  (globalChecks cs o).all (·.1) && o.callers.all (callerOk cs)

/-- which conjunct fails first (stable wording: used to match known findings) -/
def explain (cs : Case) (o : Obs) : String :=
  if o.callers.any (fun c => !c.returned) then
    "RunJobs did not return: every goroutine durably blocked (deadlock)"
  else if o.crashed then "the run crashed"
  else
    match (o.callers.flatMap (callerChecks cs)).find? (fun p => !p.1) with
    | some p => p.2
    | none =>
      match (globalChecks cs o).find? (fun p => !p.1) with
      | some p => p.2
      | none => "ok"

/-! ### the model's observation -/

def goroutinesLeft (cfg : Cfg) (s : State) : Nat :=
  (if s.q = .exited then 0 else 1) + (if s.p = .exited then 0 else 1) + busy s +
  sumTo cfg.ncallers (fun g => (if (s.callers g).sub = .returned then 0 else 1) +
                               (if (s.callers g).rd = .exited then 0 else 1))

/-- what an outside observer sees of caller `g` in state `s` -/
def observeCaller (cfg : Cfg) (s : State) (g : Nat) : CallerObs :=
  let del := s.delivered.filter (isGrp g)
  { jobs := cfg.jobs g,
    returned := decide ((s.callers g).sub = .returned),
    delivered := (del.filter (fun j => s.started.contains j)).map (·.idx),
    anon := (del.filter (fun j => !s.started.contains j)).length,
    started := ((s.started.filter (isGrp g)).map (·.idx)),
    atReturn := some del.length,
    late := 0,
    panicked := ((s.started.filter (isGrp g)).filter cfg.panics).map (·.idx),
    errDelivered := ((del.filter (fun j => s.started.contains j)).filter cfg.panics).map (·.idx) }

def observe (cfg : Cfg) (s : State) (maxConc : Nat) : Obs :=
  { callers := (List.range cfg.ncallers).map (observeCaller cfg s),
    maxConc := maxConc,
    leaked := goroutinesLeft cfg s }

end AutoVerif.C14
