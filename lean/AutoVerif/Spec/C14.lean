import AutoVerif.Model.C14
/-
Decidable statement of C14 on an OBSERVATION of one run: what the harness can
see of the real worker group from outside (no hooks), and what `observe`
extracts from a state of the model.  Evaluated by the driver on the
implementation's observation (oracle Ω) and on the model's; `Props/C14.lean`
proves it of every final state of the model.

Per `RunJobs` caller the harness records: did the call return (verdict taken
when every goroutine of the synctest bubble was durably blocked, before
anything was released), the job indices whose result reached `resFunc` with
the job's own data (`delivered`), the number of results with zero data (the
worker saw the service context cancelled and did not invoke the job function:
`anon` — their identity is not observable), the job indices for which the job
function was invoked (`started`).  `Do` cannot be wrapped, so the number of
accepted jobs is observed only through its consequences:
`RunJobs` submits in order and stops at the first refusal, hence the accepted
jobs are a prefix `0..a-1`, every started job is accepted, and every accepted
job must have been delivered when `RunJobs` returns: `a = |delivered| + anon`.
-/
namespace AutoVerif.C14

structure CallerObs where
  jobs      : Nat          -- length of the caller's job list
  returned  : Bool
  delivered : List Nat     -- identified results, in delivery order
  anon      : Nat          -- results whose job function was not run
  started   : List Nat     -- job function invocations, in order
  atReturn  : Option Nat   -- number of `resFunc` calls made when `RunJobs` returned
  late      : Nat          -- `resFunc` calls after `RunJobs` returned
  panicked  : List Nat := []      -- job indices whose job function panicked
  errDelivered : List Nat := []   -- identified results that are the error result of a recovered panic
deriving DecidableEq, Repr, Inhabited

structure Obs where
  callers : List CallerObs
  maxConc : Nat            -- max number of job functions running at once
  leaked  : Nat            -- goroutines of the group / of RunJobs alive after Stop and cancel of everything
  crashed : Bool := false  -- the run could not be completed (harness process died, foreign panic)
deriving DecidableEq, Repr, Inhabited

structure Case where
  workers : Nat
  quiet   : Bool           -- neither Stop nor a cancellation happened before the verdict
  noStop  : Bool           -- Stop was not called before the verdict
deriving DecidableEq, Repr, Inhabited

def CallerObs.total (c : CallerObs) : Nat := c.delivered.length + c.anon

/-- the conjuncts of the property for one caller, in the order `explain` reports them -/
def callerChecks (cs : Case) (c : CallerObs) : List (Bool × String) :=
  [ (c.returned, "RunJobs did not return: every goroutine durably blocked (deadlock)"),
    (decide c.delivered.Nodup, "a job's result was delivered more than once"),
    (c.delivered.all (fun i => c.started.contains i), "a result was delivered for a job whose function never ran"),
    (c.started.all (fun i => c.delivered.contains i), "a job function ran but its result was not delivered"),
    (decide c.started.Nodup && c.started.all (fun i => decide (i < c.jobs)),
      "a job function ran twice or for a job that was not submitted"),
    (decide (c.total ≤ c.jobs), "more results delivered than jobs submitted"),
    (c.started.all (fun i => decide (i < c.total)), "a job ran but an earlier job of the same caller was never delivered"),
    (decide (c.late = 0) && (!c.returned || c.atReturn == some c.total),
      "a result was delivered after RunJobs returned"),
    (!cs.quiet || (decide (c.delivered.length = c.jobs) && decide (c.anon = 0)),
      "without stop or cancellation not every job was run and delivered"),
    (!cs.noStop || decide (c.anon = 0), "a job was skipped although the group was not stopped"),
    (c.panicked.all (fun i => c.errDelivered.contains i) && c.errDelivered.all (fun i => c.panicked.contains i) &&
      c.errDelivered.all (fun i => c.delivered.contains i),
      "a panicking job's error result was not delivered (or a panic result came from a job that did not panic)") ]

def globalChecks (cs : Case) (o : Obs) : List (Bool × String) :=
  [ (!o.crashed, "the run crashed"),
    (decide (o.maxConc ≤ cs.workers), "more job functions ran at once than workers configured"),
    (decide (o.leaked = 0), "goroutines left after Stop") ]

def callerOk (cs : Case) (c : CallerObs) : Bool := (callerChecks cs c).all (·.1)

/-- C14 on an observation: exactly-once delivery, every caller returned, bounded concurrency, no leak -/
def spec (cs : Case) (o : Obs) : Bool :=
  (globalChecks cs o).all (·.1) && o.callers.all (callerOk cs)

/-- which conjunct fails first (stable wording: used to match known findings) -/
def explain (cs : Case) (o : Obs) : String :=
  if o.callers.any (fun c => !c.returned) then
    "RunJobs did not return: every goroutine durably blocked (deadlock)"
  else if o.crashed then "the run crashed"
  else
    match (o.callers.flatMap (callerChecks cs)).find? (fun p => !p.1) with
    | some p => p.2
    | none =>
      match (globalChecks cs o).find? (fun p => !p.1) with
      | some p => p.2
      | none => "ok"

/-! ### the model's observation -/

def goroutinesLeft (cfg : Cfg) (s : State) : Nat :=
  (if s.q = .exited then 0 else 1) + (if s.p = .exited then 0 else 1) + busy s +
  sumTo cfg.ncallers (fun g => (if (s.callers g).sub = .returned then 0 else 1) +
                               (if (s.callers g).rd = .exited then 0 else 1))

/-- what an outside observer sees of caller `g` in state `s` -/
def observeCaller (cfg : Cfg) (s : State) (g : Nat) : CallerObs :=
  let del := s.delivered.filter (isGrp g)
  { jobs := cfg.jobs g,
    returned := decide ((s.callers g).sub = .returned),
    delivered := (del.filter (fun j => s.started.contains j)).map (·.idx),
    anon := (del.filter (fun j => !s.started.contains j)).length,
    started := ((s.started.filter (isGrp g)).map (·.idx)),
    atReturn := some del.length,
    late := 0,
    panicked := ((s.started.filter (isGrp g)).filter cfg.panics).map (·.idx),
    errDelivered := ((del.filter (fun j => s.started.contains j)).filter cfg.panics).map (·.idx) }

def observe (cfg : Cfg) (s : State) (maxConc : Nat) : Obs :=
  { callers := (List.range cfg.ncallers).map (observeCaller cfg s),
    maxConc := maxConc,
    leaked := goroutinesLeft cfg s }


/-! ### direct use of the public API (result store, `Queue`): the property on a history of calls

The statement of C14 at the level of the worker group's own API: every result a job function produced is
handed out by `Results` of its group exactly once, oldest first — unless the client itself wiped the group
with `RemoveGroup` in between —, a stored result leaves a token on the group's notify channel (the reader
is woken), refused items leave nothing, no more job functions run than workers; `Queue` is FIFO and `Pop`
on the empty queue is an error.  The monitor below keeps NO map entries (a group without entry and a group
with an empty entry are the same to it): it is the view of `resultData` / `resultNotify` that the
transition system of `Model/C14.lean` uses (`results.filter (isGrp g)`, `notify`). -/

structure DMon where
  owed : Nat → List Nat := fun _ => []        -- stored, neither handed out nor wiped; oldest first
  sig : Nat → Bool := fun _ => false          -- a token is pending on the group's channel
  outstanding : Nat := 0
  fifo : List Nat := []                       -- what the `Queue` value must hold
  held : Nat → Held := fun _ => .none         -- the channels the client keeps (fetched with `NotifyResult`, not yet given up)
  -- history (ghost): never read by a check
  finished : Nat → List Nat := fun _ => []
  delivered : Nat → List Nat := fun _ => []
  wiped : Nat → List Nat := fun _ => []

/-- one call and its observed outcome; `none`: the outcome violates the property (second component of the
error: which conjunct) -/
def dmonStep (workers : Nat) (m : DMon) : DOp → DOut → Except String DMon
  | .submit _ _, .accepted r =>
    if r ≤ workers then .ok { m with outstanding := m.outstanding + 1 }
    else .error "more job functions ran at once than workers configured"
  | .submitCancelled _, .refused => .ok m
  | .finish g v, .finished r =>
    if r ≤ workers then
      .ok { m with owed := setAt m.owed g (m.owed g ++ [v]), sig := setAt m.sig g true,
                   outstanding := m.outstanding - 1, finished := setAt m.finished g (m.finished g ++ [v]) }
    else .error "more job functions ran at once than workers configured"
  | .remove g, .unit =>
    .ok { m with owed := setAt m.owed g [], sig := setAt m.sig g false, wiped := setAt m.wiped g (m.wiped g ++ m.owed g),
                 -- the channel kept for `g` (and for NO other group) is cut off, with the token it holds
                 held := setAt m.held g ((m.held g).cutOff (m.sig g)) }
  | .results g, .vals l =>
    if l = m.owed g then
      .ok { m with owed := setAt m.owed g [], delivered := setAt m.delivered g (m.delivered g ++ l) }
    else .error "Results did not hand out exactly the stored results of the group, each once, oldest first"
  | .poll g, .token b =>
    if b = m.sig g then .ok { m with sig := setAt m.sig g false }
    else .error "the group's notify channel did not hold exactly the token of the results stored (lost or spurious wake-up)"
  | .qAdd vs, .unit => .ok { m with fifo := m.fifo ++ vs }
  | .qPop, .popped o =>
    if o = m.fifo.head? then .ok { m with fifo := m.fifo.tail }
    else .error "Queue.Pop did not return the oldest value (or an error exactly on the empty queue)"
  | .qLen, .len n =>
    if n = m.fifo.length then .ok m else .error "Queue.Len is not the number of values added and not popped"
  | .watch g, .unit => .ok { m with held := setAt m.held g .attached }
  -- a reader parked on the channel it fetched earlier: as long as ITS group was not removed, every result
  -- stored for the group since the last wake-up has left a token on that very channel
  | .pollHeld g, .token b =>
    match m.held g with
    | .none =>
      if b = false then .ok m else .error "a token was received on a channel that was never fetched"
    | .attached =>
      if b = m.sig g then .ok { m with sig := setAt m.sig g false }
      else .error "a reader waiting on the channel it fetched for its group was not woken by a stored result (or woken without one) although the group was not removed"
    | .detached t =>
      if b = t then .ok { m with held := setAt m.held g (.detached false) }
      else .error "the channel of a removed group did not keep exactly the token it held"
  | _, _ => .error "a call had an outcome of the wrong kind (accepted / refused / error)"

def dmonRun (workers : Nat) : DMon → List DOp → List DOut → Except String DMon
  | m, [], [] => .ok m
  | m, op :: ops, out :: outs =>
    match dmonStep workers m op out with
    | .ok m' => dmonRun workers m' ops outs
    | .error e => .error e
  | _, _, _ => .error "number of outcomes differs from the number of calls"

/-- C14 on a history of direct calls -/
def directSpec (workers : Nat) (ops : List DOp) (outs : List DOut) : Bool :=
  match dmonRun workers {} ops outs with
  | .ok _ => true
  | .error _ => false

def directExplain (workers : Nat) (ops : List DOp) (outs : List DOut) : String :=
  match dmonRun workers {} ops outs with
  | .ok _ => "ok"
  | .error e => e

/-! ### trace validation (exact refinement check against instrumented code)

With the `verif` hooks of `pkg/util/worker.go` every atomic step of the model has an instrumentation
point right after the access to the shared object it stands for.  The harness records the hook
calls of one run in ONE log (mutex-protected append).  What the log order guarantees:
* events of one goroutine appear in program order;
* if hook call A returned before hook call B began, A is before B;
* the ACTION an event reports (channel operation, lock, atomic store …) happened after the previous
  event of the same goroutine was logged and before the event itself was logged — nothing more:
  two actions of different goroutines whose intervals overlap may be logged in either order.
  (Exception: the hooks in `storeResult` and `Results` are called while `wg.mu` is held, so the log
  order of those events is exactly the order of their critical sections.)
Therefore a trace is accepted iff SOME reordering of the log that keeps every goroutine's own order,
keeps the order of the events logged under `wg.mu`, and never moves an event before one that was
logged before its interval began (`wellOrdered`) is a
path of the model's `step` relation from `init` (`replay`), each event being interpreted as the
model label(s) it stands for, INCLUDING the outcome it reports (`interp`: which select branch, was
the notify channel full, how many results did `Results` return, which group's item was received,
new or reused worker …).  The reordering (`order`) is found by a search in the driver and then
checked here; `Props/C14.trace_sound` is about this checker.
-/

/-- one hook call: point name and up to two numeric arguments (caller index, worker execution id,
count) as resolved by the harness -/
structure Ev where
  pt : String
  a : Nat := 0
  b : Nat := 0
  c : Nat := 0
deriving DecidableEq, Repr, Inhabited

def hasPrefix (p s : String) : Bool := p.toList.isPrefixOf s.toList

/-- the goroutine an event belongs to: (kind, id) -/
def Ev.thread (e : Ev) : Nat × Nat :=
  if hasPrefix "rj." e.pt || hasPrefix "do." e.pt then (0, e.a)
  else if hasPrefix "rd." e.pt || hasPrefix "res." e.pt then (1, e.a)
  else if hasPrefix "rq." e.pt then (2, 0)
  else if hasPrefix "rp." e.pt || hasPrefix "pq." e.pt || hasPrefix "dj." e.pt then (3, 0)
  else if hasPrefix "wk." e.pt || hasPrefix "sr." e.pt then (4, e.a)
  else if hasPrefix "stop." e.pt then (5, 0)
  else (6, e.a)

/-- model state plus the job each worker execution (goroutine started by `doJob`) works on -/
structure TState where
  s : State
  execs : List (Nat × Job) := []     -- worker execution (goroutine started by doJob) ↦ its job
  doneBy : List (Job × Nat) := []    -- job ↦ number of the worker that executes it

def TState.job (t : TState) (e : Nat) : Option Job := (t.execs.find? (fun p => p.1 == e)).map (·.2)

def guardL (c : Bool) (ls : List Label) : Option (List Label) := if c then some ls else none

/-- the model labels an event stands for in state `t` (`none`: the event is impossible here);
the second component is the execution table after the event -/
def interp (cfg : Cfg) (t : TState) (e : Ev) : Option (List Label × List (Nat × Job) × List (Job × Nat)) :=
  let s : State := t.s
  let g : Nat := e.a
  let c : Caller := s.callers g
  let keep : Option (List Label) → Option (List Label × List (Nat × Job) × List (Job × Nat)) :=
    fun o => o.map (fun ls => (ls, t.execs, t.doneBy))
  match e.pt with
  -- RunJobs / Do (submitter of caller g)
  | "rj.start" => keep (guardL (c.sub == .loop && c.next == 0 && e.b == cfg.jobs g) [])
  | "rj.add" => keep (some [.subAdd g])
  | "do.ctxerr" => keep (guardL c.cancelled [.subCtx g])
  | "do.ctxok" => keep (guardL (!c.cancelled) [.subCtx g])
  | "do.rlock" => keep (some [.subRLock g])
  | "do.closed" => keep (guardL s.queueClosed [.subClosed g])
  | "do.open" => keep (guardL (!s.queueClosed) [.subClosed g])
  | "do.sent" => keep (some [.subSend g])
  | "do.selctx" => keep (some [.subSelCtx g])
  | "do.selstop" => keep (some [.subSelStop g])
  | "do.runlocked" =>
    keep (if c.sub == .runlockOk then some [.subRUnlockOk g]
          else if c.sub == .runlockFail then some [.subRUnlockFail g] else none)
  | "rj.done" => keep (some [.subFailDone g])
  | "rj.loopend" =>
    keep (if c.sub == .loop then some [.subLoopEnd g] else if c.sub == .wait then some [] else none)
  | "rj.waited" => keep (some [.subWait g])
  | "rj.removed" => keep (some [.subRemove g])
  | "rj.closed" => keep (some [.subCloseEnd g])
  -- reader of caller g
  | "rd.notify" => keep (some [.rdNotify g])
  | "res.take" => keep (guardL ((s.results.filter (isGrp g)).length == e.b) [.rdResults g])
  -- the next result of the reader's slice; it carries the name of the worker that produced it
  | "rd.done" => keep ((s.rbatch.find? (fun k => k.grp == g)).bind fun j =>
      guardL ((t.doneBy.find? (fun p => p.1 == j)).map (·.2) == some e.b) [.rdDeliver j])
  | "rd.batchend" => keep (some [.rdBatchEnd g])
  | "rd.end" => keep (some [.rdEnd g])
  -- runQueuing
  | "rq.recv" => keep (match s.input with
      | some j => guardL (j.grp == g) [.qRecv j]
      | none => none)
  | "rq.added" => keep (match s.q with
      | .add j => some [.qAdd j]
      | _ => none)
  | "rq.notified" => keep (guardL (!s.inputNotify) [.qNotify])
  | "rq.notify-full" => keep (guardL s.inputNotify [.qNotify])
  | "rq.stop" => keep (if s.q == .select then some [.tSend] else if s.q == .drain && s.t == .done then some [] else none)
  | "rq.drain-recv" => keep (match s.input with
      | some j => guardL (j.grp == g) [.qDrainRecv j]
      | none => none)
  | "rq.drain-added" => keep (match s.q with
      | .drainAdd j => some [.qDrainAdd j]
      | _ => none)
  | "rq.drain-empty" => keep (some [.qDrainEmpty])
  | "rq.stopsent" => keep (if s.q == .sendStop then some [.qSendStop] else if s.q == .exited then some [] else none)
  -- run / runProcessing / processQueue / doJob
  | "rp.notify" => keep (some [.pNotify])
  | "rp.stop" => keep (if s.q == .sendStop then some [.qSendStop]
                       else if s.q == .exited && s.p == .len true then some [] else none)
  | "pq.empty" => keep (match s.p with
      | .len f => guardL s.queue.isEmpty [.pLen f]
      | _ => none)
  | "pq.nonempty" => keep (match s.p with
      | .len f => guardL (!s.queue.isEmpty) [.pLen f]
      | _ => none)
  | "pq.pop-err" => keep (match s.p with
      | .pop f => some [.pPopEmpty f]
      | _ => none)
  | "pq.popped" => keep (match s.p, s.queue.head? with
      | .pop f, some j => guardL (j.grp == g) [.pPop f j]
      | _, _ => none)
  | "dj.new" => (match s.p with
      | .doJob f j => if j.grp == e.b then some ([.pSpawnNew f j], (e.a, j) :: t.execs, (j, e.c) :: t.doneBy) else none
      | _ => none)
  | "dj.reuse" => (match s.p with
      | .doJob f j => if j.grp == e.b then some ([.pSpawnReuse f j], (e.a, j) :: t.execs, (j, e.c) :: t.doneBy) else none
      | _ => none)
  -- worker execution e.a
  | "wk.ctxerr" => keep ((t.job e.a).map fun j => [.wCheckErr j])
  | "wk.ctxok" => keep ((t.job e.a).map fun j => [.wCheckOk j])
  | "wk.ran" => keep ((t.job e.a).map fun j => [.wRun j])
  | "sr.notified" => keep ((t.job e.a).bind fun j => guardL (j.grp == e.b && !(s.callers j.grp).notify) [.wStore j])
  | "sr.notify-full" => keep ((t.job e.a).bind fun j => guardL (j.grp == e.b && (s.callers j.grp).notify) [.wStore j])
  | "wk.put" => keep (guardL (decide (s.idle < cfg.maxWorkers)) [.wPut])
  | "wk.put-dropped" => keep (guardL (!decide (s.idle < cfg.maxWorkers)) [.wPut])
  -- Stop
  | "stop.closed" => keep (some [.stopBegin])
  | "stop.locked" => keep (some [.tLockReq, .tLockAcq])
  | "stop.set" => keep (some [.tSet])
  | "stop.unlocked" => keep (some [.tUnlock])
  | "stop.sent" => keep (if s.t == .send then some [.tSend] else if s.t == .done then some [] else none)
  -- the harness cancels caller g's ctx
  | "env.cancel-pre" => keep (some [])
  | "env.cancel" => keep (if c.cancelled then some [] else some [.cancel g])
  | _ => none

/-- one event: interpret, then take the model steps -/
def tstep (cfg : Cfg) (t : TState) (e : Ev) : Option TState :=
  match interp cfg t e with
  | none => none
  | some (ls, ex, by') =>
    match runSched cfg t.s ls with
    | some s' => some { s := s', execs := ex, doneBy := by' }
    | none => none

/-- replay the events in the given order (indices into the log) -/
def replay (cfg : Cfg) (evs : Array Ev) : TState → List Nat → Option TState
  | t, [] => some t
  | t, i :: is =>
    match evs[i]? with
    | none => none
    | some e =>
      match tstep cfg t e with
      | some t' => replay cfg evs t' is
      | none => none

/-- events logged while `wg.mu` is held (`storeResult`, `Results`): the hook call is inside the critical
section that contains the action, critical sections are serialised, hence the log order of these
events IS the order of their actions -/
def Ev.underMu (e : Ev) : Bool := hasPrefix "sr." e.pt || hasPrefix "res." e.pt

/-- the first index ≥ `f` that is not marked (at most `fuel` steps) -/
def advance (seen : Array Bool) : Nat → Nat → Nat
  | 0, f => f
  | fuel + 1, f => if seen.getD f false then advance seen fuel (f + 1) else f

/-- for every position with key `some k`: the last earlier position with the same key -/
def prevTable : List (Option (Nat × Nat)) → Nat → List ((Nat × Nat) × Nat) → List (Option Nat)
  | [], _, _ => []
  | none :: ks, i, last => none :: prevTable ks (i + 1) last
  | some k :: ks, i, last =>
    ((last.find? (fun p => p.1 == k)).map (·.2)) :: prevTable ks (i + 1) ((k, i) :: last.filter (fun p => p.1 != k))

/-- index of the previous event of the same goroutine, for every event -/
def prevSame (evs : Array Ev) : Array (Option Nat) :=
  (prevTable (evs.toList.map fun e => some e.thread) 0 []).toArray

/-- index of the previous event logged under `wg.mu`, for every event logged under `wg.mu` -/
def prevMu (evs : Array Ev) : Array (Option Nat) :=
  (prevTable (evs.toList.map fun e => if e.underMu then some (0, 0) else none) 0 []).toArray

/-- `order` uses every event exactly once, keeps every goroutine's own order and the order of the
events logged under `wg.mu`, and never places an event before one that was logged before its
interval began (= before its goroutine's previous event) -/
def wellOrdered (evs : Array Ev) (order : List Nat) : Bool :=
  let n := evs.size
  let prev : Array (Option Nat) := prevSame evs
  let pmu : Array (Option Nat) := prevMu evs
  decide (order.length = n) &&
  (order.foldl (fun (acc : Option (Array Bool × Nat)) i =>
      match acc with
      | none => none
      | some (seen, first) =>
        if i < n && !seen.getD i true then
          let ok1 := match prev.getD i none with
            | none => true
            | some p => seen.getD p false && decide (p ≤ first)   -- everything logged before p is placed
          let ok2 := match pmu.getD i none with
            | none => true
            | some p => seen.getD p false
          if ok1 && ok2 then
            let seen := seen.set! i true
            -- advance `first` = the first log index not placed yet
            some (seen, advance seen n first)
          else none
        else none)
    (some ((List.replicate n false).toArray, 0))).isSome

/-- the trace check: `order` is an admissible reordering of the log and a path of the model -/
def traceOk (cfg : Cfg) (evs : Array Ev) (order : List Nat) : Bool :=
  wellOrdered evs order && (replay cfg evs { s := init cfg } order).isSome

end AutoVerif.C14
