import AutoVerif.Model.C19
/-
Decidable statement of C19, evaluated by the driver on what the real
broadcaster / listeners / history trackers / transmit loader / report trackers
produced (and on the model's output), and proved of the model in Props/C19.

  1. one consistent chain: numbers `genesis, genesis+1, …`, each once;
     every subscriber received, once, every block broadcast between its
     subscription and its unsubscription, equal (hash and content) to the
     chain's block of that number, and nothing else;
  2. every history handed out is strictly descending (newest first), at most
     `defaultHistoryDepth` long, made of chain blocks with their hashes; the
     last one is the newest `min count depth` blocks;
  3. a `(report, round)` is accepted from exactly one submitter, appears once
     in `Results()` and in exactly one block;
  4. transmit events: every answer of `GetLatestEvents` consists of exactly the
     events of the newest `ReportTrackerBlockRange` blocks carrying transmits
     among the blocks the node has received so far, each event once, with
     `confirmations = (highest block number received so far) - transmitBlock`,
     never negative.
-/
namespace AutoVerif.C19

/-- the part of a case the statement refers to -/
structure Params where
  genesis : Nat
  count   : Nat                    -- number of blocks broadcast
  depth   : Nat                    -- defaultHistoryDepth
  range   : Nat                    -- ReportTrackerBlockRange
  reports : List (List String)     -- work ids of each report
  subms   : List Submission
  attach  : List Nat               -- per subscriber: instant of its subscription (µs; 0: before `Start`)
  detach  : List Nat               -- per subscriber: instant of its unsubscription (µs; 0: never)
  grace   : Nat                    -- µs a delivery may be on its way when a subscriber unsubscribes (cut off by `Unsubscribe`)
deriving Repr

/-- the parameters of the statement for a generated case (what the driver evaluates `spec` with) -/
def paramsOf (inp : Input) : Params :=
  { genesis := inp.genesis, count := inp.count, depth := Gen.simHistoryDepth,
    range := reportTrackerBlockRange, reports := inp.reports, subms := inp.txs.map (·.2),
    attach := inp.attach, detach := inp.detach, grace := inp.grace }

/-! ### 2. histories -/

/-- strictly descending (adjacent comparison; `Props.C19.descStrict_iff` relates it to `Pairwise (· > ·)`) -/
def descStrict : List Nat → Bool
  | [] => true
  | [_] => true
  | a :: b :: rest => decide (a > b) && descStrict (b :: rest)

def entryInChain (chain : List Block) (e : BlockKey) : Bool :=
  chain.any fun b => b.number == e.number && b.hash == e.hash

/-- one history -/
def histOk (depth : Nat) (chain : List Block) (h : List BlockKey) : Bool :=
  descStrict (h.map (·.number)) && decide (h.length ≤ depth) && h.all (entryInChain chain)

/-- the newest `depth` blocks of the chain, newest first -/
def newest (depth : Nat) (chain : List Block) : List BlockKey :=
  (chain.reverse.take depth).map fun b => { number := b.number, hash := b.hash }

def histsOk (p : Params) (chain : List Block) (hs : List (List BlockKey)) : Bool :=
  hs.all (histOk p.depth chain) &&
  (chain.isEmpty || hs.getLast? == some (newest p.depth chain))

/-! ### 1. chain and delivery -/

def chainOk (p : Params) (chain : List Block) (times : List Nat) : Bool :=
  decide (chain.map (·.number) = chainNumbers p.genesis p.count) && decide (times.length = chain.length)

/-- the blocks subscriber `i` must receive: those broadcast while it was attached -/
def dueTo (p : Params) (o : Out) (i : Nat) : List Block :=
  subChain (p.attach.getD i 0) (p.detach.getD i 0) o.chain o.times

/-- … of which those broadcast at least `grace` before it unsubscribed cannot have been cut off -/
def mustGet (p : Params) (o : Out) (i : Nat) : List Block :=
  subChainG (p.attach.getD i 0) (p.detach.getD i 0) p.grace o.chain o.times

/-- what a subscriber received: no block number twice, only blocks of its subscription, equal (hash,
    content) to the chain's, and every block whose delivery could not be cut off by its own `Unsubscribe`
    (with `grace = 0`: exactly the blocks broadcast while attached) -/
def recvOk (must allowed recv : List Block) : Bool :=
  decide ((recv.map (·.number)).Nodup) && recv.all (allowed.contains ·) && must.all (recv.contains ·)

/-- the blocks of its subscription a subscriber did receive, in chain order -/
def gotOf (allowed recv : List Block) : List Block := allowed.filter (recv.contains ·)

/-- the active-upkeep tracker knows exactly the upkeeps created in the received blocks, each once -/
def activeOk (got : List Block) (active : List Nat) : Bool :=
  active == sortBy (fun a b => decide (a ≤ b)) (got.flatMap (·.created))

/-! ### 3. transmits -/

def keyOf (t : Transmit) : Nat × Nat := (t.rep, t.round)

/-- the submissions of a loader schedule that were answered `nil`, in schedule order -/
def acceptedOf : List TLOp → List Bool → List Transmit
  | [], _ => []
  | .load :: ops, oks => acceptedOf ops oks
  | .submit t :: ops, ok :: oks => (if ok then [t] else []) ++ acceptedOf ops oks
  | .submit _ :: ops, [] => acceptedOf ops []

/-- distinct `(report, round)` keys submitted by at least one node, in first-submission order -/
def submittedKeys (subms : List Submission) : List (Nat × Nat) :=
  ((subms.filter (!·.nodes.isEmpty)).map fun s => (s.rep, s.round)).eraseDups

/-- number of accepted calls for a key -/
def acceptedCount (subms : List Submission) (acc : List (List Bool)) (k : Nat × Nat) : Nat :=
  ((subms.zip acc).map fun (s, fl) => if (s.rep, s.round) == k then fl.count true else 0).sum

/-- the accepted submitter of `r` really submitted that key and was told so -/
def senderOk (subms : List Submission) (acc : List (List Bool)) (r : Rec) : Bool :=
  (subms.zip acc).any fun (s, fl) =>
    (s.rep, s.round) == keyOf r.t && (s.nodes.zip fl).any fun (n, ok) => ok && senderName n == r.t.sender

def onChain (chain : List Block) : List (Nat × Transmit) :=
  chain.flatMap fun b => b.txs.map fun t => (b.number, t)

def transmitsOk (p : Params) (o : Out) : Bool :=
  let keys := submittedKeys p.subms
  decide (o.accepted.length = p.subms.length) &&
  ((p.subms.zip o.accepted).all fun (s, fl) => decide (fl.length = s.nodes.length)) &&
  keys.all (fun k => acceptedCount p.subms o.accepted k == 1) &&
  decide ((o.results.map fun r => keyOf r.t).Nodup) &&
  keys.all (fun k => (o.results.map fun r => keyOf r.t).contains k) &&
  o.results.all (fun r => keys.contains (keyOf r.t) && senderOk p.subms o.accepted r) &&
  decide (((onChain o.chain).map fun x => keyOf x.2).Nodup) &&
  (onChain o.chain).all (fun (n, t) => o.results.contains { t := t, block := some n }) &&
  o.results.all (fun r => match r.block with
    | some n => (onChain o.chain).contains (n, r.t)
    | none => !((onChain o.chain).map (·.2)).contains r.t)

/-! ### 4. transmit events -/

/-- highest block number among the first `k` blocks a node received -/
def highestSeen (recv : List Block) (k : Nat) : Nat := ((recv.take k).map (·.number)).foldl max 0

/-- what `GetLatestEvents` must return when the node has received `blocks` (ascending) and the
    highest of them is `l`: the events of the newest `range` blocks that carry transmits -/
def expectedEvents (p : Params) (blocks : List Block) (l : Nat) : List Ev :=
  ((blocks.filter (!·.txs.isEmpty)).reverse.take p.range).flatMap fun b =>
    b.txs.flatMap fun t => (p.reports.getD t.rep []).map fun w =>
      { wid := w, block := b.number, conf := confirmations l b.number, rep := t.rep, round := t.round }

/-- an answer of `GetLatestEvents` given when the node had received `recv.take k`: no negative
    confirmations, no event twice, and exactly the expected events (in any order), whose
    confirmations are counted from the highest block received so far -/
def eventsOk (p : Params) (chain recv : List Block) (k : Nat) (evs : List Ev) : Bool :=
  let got := recv.take k
  let want := expectedEvents p (chain.filter (got.contains ·)) (highestSeen recv k)
  evs.all (fun e => decide (e.conf ≥ 0)) && decide (evs.Nodup) &&
  evs.all (want.contains ·) && want.all (evs.contains ·)

def subEventsOk (p : Params) (chain : List Block) (s : SubOut) : Bool :=
  decide (s.events.length = s.seen.length) &&
  (s.events.zip s.seen).all fun (evs, k) => eventsOk p chain s.recv k evs

/-- some event of the answer counts its confirmations from a block below the highest one received -/
def staleLatest (recv : List Block) (k : Nat) (evs : List Ev) : Bool :=
  evs.any fun e => decide (e.conf + (e.block : Int) < (highestSeen recv k : Int))

/-! ### the property -/

def spec (p : Params) (o : Out) : Bool :=
  chainOk p o.chain o.times && decide (o.chainAfter = o.chain) &&
  (o.subs.zip (List.range o.subs.length)).all (fun (s, i) => recvOk (mustGet p o i) (dueTo p o i) s.recv) &&
  (o.subs.zip (List.range o.subs.length)).all (fun (s, i) => recvOk (mustGet p o i) (dueTo p o i) s.slow) &&
  (o.subs.zip (List.range o.subs.length)).all (fun (s, i) => histsOk p (gotOf (dueTo p o i) s.recv) s.hists) &&
  (o.subs.zip (List.range o.subs.length)).all (fun (s, i) => activeOk (gotOf (dueTo p o i) s.recv) s.active) &&
  transmitsOk p o &&
  o.subs.all (subEventsOk p o.chain)

/-- which conjunct fails first (stable wording: used to match known findings) -/
def explain (p : Params) (o : Out) : String :=
  let subs := o.subs.zip (List.range o.subs.length)
  if !chainOk p o.chain o.times then "chain: block numbers are not genesis, genesis+1, … each once"
  else if o.chainAfter != o.chain then "chain: the content of a block changed after it was broadcast"
  else if subs.any (fun (s, i) => !decide ((s.recv.map (·.number)).Nodup) || !(mustGet p o i).all (s.recv.contains ·)) then
    "delivery: a subscriber did not receive every block broadcast while it was attached exactly once"
  else if subs.any (fun (s, i) => !s.recv.all ((dueTo p o i).contains ·)) then
    "delivery: same block number with different hash or content, or a block from outside the subscription"
  else if subs.any (fun (s, i) => !recvOk (mustGet p o i) (dueTo p o i) s.slow) then
    "delivery: a consumer that had stopped reading for a while did not get every block broadcast while attached exactly once"
  else if o.subs.any (fun s => s.hists.any fun h => !descStrict (h.map (·.number))) then
    "history: block numbers not strictly descending (newest first)"
  else if o.subs.any (fun s => s.hists.any fun h => decide (h.length > p.depth)) then
    "history: longer than the history depth"
  else if subs.any (fun (s, i) => s.hists.any fun h => !h.all (entryInChain (gotOf (dueTo p o i) s.recv))) then
    "history: entry is not a received block of the subscription with its hash"
  else if subs.any (fun (s, i) => !histsOk p (gotOf (dueTo p o i) s.recv) s.hists) then
    "history: last history is not the newest received blocks"
  else if subs.any (fun (s, i) => !activeOk (gotOf (dueTo p o i) s.recv) s.active) then
    "content: a node's active-upkeep tracker does not know exactly the upkeeps created in the blocks it received"
  else if !transmitsOk p o then
    (if (submittedKeys p.subms).any (fun k => acceptedCount p.subms o.accepted k != 1) then
      "transmit: a (report, round) was not accepted from exactly one submitter"
     else if !decide (((onChain o.chain).map fun x => keyOf x.2).Nodup) then
      "transmit: a (report, round) is recorded on chain more than once"
     else "transmit: Results() and the chain do not record each (report, round) exactly once")
  else if o.subs.any (fun s => (s.events.zip s.seen).any fun (evs, k) => staleLatest s.recv k evs) then
    "confirmations: event reported with confirmations computed against a block older than the newest one received"
  else if o.subs.any (fun s => (s.events.zip s.seen).any fun (evs, k) =>
      evs.any fun e => decide (e.conf < 0) || e.conf + (e.block : Int) != (highestSeen s.recv k : Int)) then
    "confirmations: not (highest block received) minus (transmit block), or negative"
  else if o.subs.any (fun s => !subEventsOk p o.chain s) then
    "events: answer is not exactly the transmits of the newest received transmit blocks within the look-back, each once"
  else "ok"

/-! ### un-timed `Transmit` ∥ `Load` -/

structure StressParams where
  nodes  : Nat
  rounds : Nat
  nrep   : Nat      -- round `r` carries report `r % nrep`
deriving Repr

/-- no element twice (`Props.C19.nodupB_iff`: this is `List.Nodup`; evaluated in quadratic time) -/
def nodupB {α} [BEq α] : List α → Bool
  | [] => true
  | x :: xs => !xs.contains x && nodupB xs

def ascending : List Nat → Bool
  | [] => true
  | [_] => true
  | a :: b :: rest => decide (a < b) && ascending (b :: rest)

/-- every round's report is accepted from exactly one node; blocks were built after the last call
    returned, so every accepted call is in exactly one block, `Results()` lists exactly those with
    their block numbers, and nothing else is on chain -/
def stressOk (p : StressParams) (o : StressOut) : Bool :=
  let onChain := o.blocks.flatMap (·.2)
  decide (o.accepted.length = p.rounds) &&
  o.accepted.all (fun fl => decide (fl.length = p.nodes) && fl.count true == 1) &&
  nodupB (onChain.map keyOf) &&
  (o.accepted.zipIdx.all fun (fl, r) => fl.zipIdx.all fun (ok, k) =>
    !ok || onChain.contains { sender := senderName k, rep := r % p.nrep, round := r }) &&
  onChain.all (fun t => t.rep == t.round % p.nrep &&
    (o.accepted.getD t.round []).zipIdx.any fun (ok, k) => ok && senderName k == t.sender) &&
  nodupB (o.results.map fun r => keyOf r.t) && decide (o.results.length = onChain.length) &&
  o.blocks.all (fun (n, ts) => ts.all fun t => o.results.contains { t := t, block := some n }) &&
  ascending (o.blocks.map (·.1))

def stressExplain (p : StressParams) (o : StressOut) : String :=
  let onChain := o.blocks.flatMap (·.2)
  if o.accepted.length != p.rounds || o.accepted.any (fun fl => fl.length != p.nodes) then "stress: malformed observation"
  else if o.accepted.any (fun fl => fl.count true != 1) then
    "transmit: a (report, round) was not accepted from exactly one submitter"
  else if !nodupB (onChain.map keyOf) then "transmit: a (report, round) is recorded on chain more than once"
  else if (o.accepted.zipIdx.any fun (fl, r) => fl.zipIdx.any fun (ok, k) =>
      ok && !onChain.contains { sender := senderName k, rep := r % p.nrep, round := r }) then
    "transmit: an accepted submission is in no block although blocks were built after it returned"
  else if !stressOk p o then "transmit: Results() and the chain do not record each (report, round) exactly once"
  else "ok"

end AutoVerif.C19
