import AutoVerif.Model.C18
/-
Decidable statement of C18 on one observed case (one plugin instance: ten
recoverers side by side), evaluated by the driver on what the harness observed
of the real code (oracle Ω) and on the model's prediction for the same case.
-/
namespace AutoVerif.C18

/-- the case as the harness set it up -/
structure Case where
  scenario   : String   -- "close" | "panic" | "panic-close"
  panicSite  : String   -- "" | logProvider | recoveryProvider | upkeepGetter | eventsProvider | pipeline | stateUpdater
  coolDownNs : Nat      -- service.PanicRestartWait
  intervalNs : Nat      -- tick interval of the flow that owns `panicSite`
  latencyNs  : Nat      -- virtual latency of a pipeline call
  services   : Nat      -- recoverers per plugin
deriving DecidableEq, Repr

/-- canonical observation -/
structure Obs where
  survived           : Bool   -- the process was still alive at the end of the case
  closeCalled        : Bool
  closeReturned      : Bool
  errNotRunning      : Nat    -- Close errors: recoverer's running flag was false
  errNotStarted      : Nat    -- Close errors: the wrapped service refused to stop because it had not (completely) started
  errOther           : Nat    -- any other Close error
  leakedServiceStart : Nat    -- `recoverer.serviceStart` goroutines alive 35 virtual seconds after Close
  leakedService      : Nat    -- service loops alive then
  leakedOther        : Nat    -- helper / in-flight goroutines of the repository alive then
  ticking            : Bool   -- provider calls between Close+25s and Close+35s, or a block subscription still registered
  bubbleEnded        : Bool   -- after a second Close every goroutine ended (the synctest bubble could be left)
  panicsInjected     : Nat
  resumed            : Bool   -- scenario "panic": the site was called again (without panicking) after the last panic
  resumedWithinNs    : Nat
  othersTicked       : Bool   -- scenario "panic": every other flow kept ticking during the cool-down
deriving DecidableEq, Repr

/-- something of the instance is still there after Close -/
def Obs.leak (o : Obs) : Bool :=
  decide (o.leakedServiceStart > 0) || decide (o.leakedService > 0) || decide (o.leakedOther > 0) || o.ticking || !o.bubbleEnded

/-- the bound of the property: "the affected flow resumes after at most the restart cool-down" (+ its own tick and
    one pipeline latency) -/
def resumeBound (cs : Case) : Nat := cs.coolDownNs + cs.intervalNs + cs.latencyNs

def panicClauseApplies (cs : Case) (o : Obs) : Bool := cs.scenario == "panic" && decide (o.panicsInjected > 0)

/-- C18 on one case -/
def spec (cs : Case) (o : Obs) : Bool :=
  o.survived &&
  (!o.closeCalled || o.closeReturned) &&
  !o.leak &&
  (!panicClauseApplies cs o || (o.resumed && decide (o.resumedWithinNs ≤ resumeBound cs) && o.othersTicked))

/-- which conjunct fails, in stable words; the FIRST string is the known finding (a), every other failure
    has a different prefix -/
def explain (cs : Case) (o : Obs) : String :=
  let n := o.errNotRunning
  let k := o.errNotStarted
  if !o.survived then
    s!"panic-escaped: a panic injected in {cs.panicSite} terminated the process"
  else if o.closeCalled && !o.closeReturned then
    "close-did-not-return: Close had not returned when the case ended"
  else if o.leak then
    if k = 0 ∧ n > 0 ∧ o.errOther = 0 ∧ o.leakedServiceStart = n ∧ o.leakedService = n ∧ o.bubbleEnded then
      s!"close-before-running: Close returned not-running for {n} services and they kept running"
    else if k > 0 ∧ o.leakedService = n + k ∧ o.leakedServiceStart = n then
      s!"close-before-service-start: Close was refused by {k} services that had not completed their start (not-running for {n} more); they started afterwards and can no longer be closed"
    else if o.leakedServiceStart > n ∧ o.leakedService = n + k then
      s!"close-signal-dropped: {o.leakedServiceStart - n} serviceStart goroutines outlive a Close that reported no error for them"
    else
      s!"leak-unexplained: after Close {o.leakedServiceStart} serviceStart, {o.leakedService} service and {o.leakedOther} other goroutines remain (ticking={o.ticking}, bubbleEnded={o.bubbleEnded}) with close errors not-running={n} not-started={k} other={o.errOther}"
  else if panicClauseApplies cs o && !o.resumed then
    s!"panic-not-resumed: the flow calling {cs.panicSite} did not resume within the cool-down plus one tick after the panic"
  else if panicClauseApplies cs o && !decide (o.resumedWithinNs ≤ resumeBound cs) then
    s!"panic-resumed-late: the flow calling {cs.panicSite} resumed later than the cool-down plus one tick"
  else if panicClauseApplies cs o && !o.othersTicked then
    "panic-stalled-others: another flow stopped ticking during the cool-down"
  else "ok"

/-! ### the model's prediction for a case

The harness cannot see program counters; what it does see is, per recoverer, the kind of error its Close
returned.  Each kind selects the canonical schedule of the model with that outcome (Model: `predictClose`),
the fault site selects the kind of goroutine that panics. -/

/-- fault schedule on a settled instance for a panic at `site` (fixed ticker) -/
def faultSched (site : String) : List Label :=
  if site == "pipeline" then [.tick, .pJob, .wPanic]
  else if site == "eventsProvider" then [.core .gPanic, .core .gSendStopped, .core .coolElapsed, .core .sRespawn, .core .sSel, .core .gCall, .core .gSendErr, .core .sSel]
  else if site == "" then []
  else [.tick, .pPanic]

def predict (cs : Case) (nNotRunning nNotStarted : Nat) (closeCalled : Bool) (panics : Nat) : Obs :=
  let after := if panics > 0 then run true settledS (faultSched cs.panicSite) else some settledS
  let survived := match after with
    | some s => !s.crashed
    | none => true
  -- the flow resumes iff its service loop is still (or again) running once the cool-down is over
  let resumed := match after with
    | some s => decide (s.core.nRun > 0)
    | none => false
  let la := (predictClose .notRunning).getD ⟨0, 0⟩
  let lb := (predictClose .svcRefused).getD ⟨0, 0⟩
  let lo := (predictClose .ok).getD ⟨0, 0⟩
  let nOk := cs.services - nNotRunning - nNotStarted
  let ss := nNotRunning * la.serviceStart + nNotStarted * lb.serviceStart + nOk * lo.serviceStart
  let sv := nNotRunning * la.service + nNotStarted * lb.service + nOk * lo.service
  { survived := survived, closeCalled := closeCalled && survived, closeReturned := closeCalled && survived,
    errNotRunning := nNotRunning, errNotStarted := nNotStarted, errOther := 0,
    leakedServiceStart := if closeCalled then ss else 0, leakedService := if closeCalled then sv else 0, leakedOther := 0,
    ticking := closeCalled && decide (sv > 0),
    bubbleEnded := survived && decide (nNotStarted = 0),   -- (a) is repaired by a second Close, (b) is not (Props)
    panicsInjected := panics, resumed := resumed, resumedWithinNs := if resumed then cs.intervalNs else 0,
    othersTicked := true }

end AutoVerif.C18
