import AutoVerif.Model.C18
/-
Decidable statement of C18 on one observed case (one plugin instance: ten
recoverers side by side), evaluated by the driver on what the harness observed
of the real code (oracle Ω) and on the model's prediction for the same case.
-/
namespace AutoVerif.C18

/-- the case as the harness set it up -/
structure Case where
  scenario   : String   -- "close" | "panic" | "panic-close" | "hold-close"
  panicSite  : String   -- "" | logProvider | recoveryProvider | upkeepGetter | eventsProvider | pipeline | stateUpdater | resultStoreGC | v2…
  coolDownNs : Nat      -- service.PanicRestartWait
  intervalNs : Nat      -- tick interval of the flow that owns `panicSite`
  latencyNs  : Nat      -- virtual latency of a pipeline call
  services   : Nat      -- recoverers per plugin
  holdCtx    : Bool     -- "hold-close": the held call (and every other call of the fakes) honours cancellation — it returns only when its context ends
  work       : Nat      -- log payloads handed out per tick (> 0: the pipeline is exercised throughout the case)
  auxMax     : Nat      -- helper goroutines all services of one plugin own together (cache GCs, worker-group loops)
  family     : String := ""   -- "" = OCR3 plugin, "v2" = OCR2 plugin
  ctorFault  : String := ""   -- scenario "ctor-fail": what makes the constructor fail ("" = nothing)
  closeFault : String := ""   -- a collaborator's close step fails: "v2-coordinator-close" | "unsubscribe" ("" = nothing)
deriving DecidableEq, Repr

/-- canonical observation -/
structure Obs where
  survived           : Bool   -- the process was still alive at the end of the case
  crashed            : Bool   -- … it was terminated by a panic / fatal error that the harness did not inject (bad data, bad config)
  hung               : Bool   -- the case stopped making progress in real time (goroutines blocked on a lock stop the virtual clock)
  closeCalled        : Bool
  closeReturned      : Bool
  closePanicked      : Bool   -- Close raised a panic instead of returning
  firstCloseBad      : Bool   -- factory reuse: closing the FIRST instance (after it had run for seconds) returned an error or panicked
  soonLeft           : Nat    -- goroutines of the repository alive ONE virtual second after Close returned
  roundsBlocked      : Nat    -- foreground OCR rounds (Observation with a previous outcome) on the open instance that did not return
  progress           : Nat    -- check-pipeline calls of the instance under test that completed before its Close
  closedAtNs         : Nat    -- virtual time between the plugin's creation and the Close call.  0 = the very instant of creation:
                              -- virtual time only advances when every goroutine is durably blocked, so any value > 0 means the
                              -- services' start-up had quiesced (every recoverer `settled`) before Close was called
  errNotRunning      : Nat    -- Close errors: recoverer's running flag was false
  errNotStarted      : Nat    -- Close errors: the wrapped service refused to stop because it had not (completely) started
  errOther           : Nat    -- any other Close error
  leakedServiceStart : Nat    -- `recoverer.serviceStart` goroutines alive 35 virtual seconds after Close
  leakedService      : Nat    -- service loops alive then
  leakedAux          : Nat    -- helper goroutines owned by a service (cache GC, worker-group loops) alive then
  leakedInflight     : Nat    -- any other goroutine of the repository alive then (a Process / worker in the middle of a call)
  ticking            : Bool   -- provider calls between Close+25s and Close+35s, or a block subscription still registered
  bubbleEnded        : Bool   -- after a second Close every goroutine ended (the synctest bubble could be left)
  after2ndServiceStart : Nat  -- `recoverer.serviceStart` goroutines alive 12 virtual seconds after the second Close
  after2ndService    : Nat    -- service loops alive then
  panicsInjected     : Nat
  resumed            : Bool   -- scenario "panic": the site was called again (without panicking) after the last panic
  resumedWithinNs    : Nat
  othersTicked       : Bool   -- scenario "panic": every other flow kept ticking during the cool-down period after the first and after the last panic
  pipelineDone       : Bool   -- scenario "panic": a pipeline call that began after the last panic has returned
  ctorFailed         : Bool := true   -- scenario "ctor-fail": the constructor returned an error and no instance
  ctorLeft           : Nat := 0       -- … goroutines of the repository + provider calls + block subscriptions 35 virtual seconds after that call
deriving DecidableEq, Repr

/-- something of the instance is still there after Close -/
def Obs.leak (o : Obs) : Bool :=
  decide (o.leakedServiceStart > 0) || decide (o.leakedService > 0) || decide (o.leakedAux > 0) || decide (o.leakedInflight > 0) || o.ticking || !o.bubbleEnded

/-- the bound of the property: "the affected flow resumes after at most the restart cool-down" (+ its own tick and
    one pipeline latency) -/
def resumeBound (cs : Case) : Nat := cs.coolDownNs + cs.intervalNs + cs.latencyNs

def panicClauseApplies (cs : Case) (o : Obs) : Bool := cs.scenario == "panic" && decide (o.panicsInjected > 0)

/-- an open instance must get work through: in a plain Close case (no fault, no held call) with payloads offered on
    every tick, an instance that stayed open for 2.5 s plus one pipeline latency has completed a pipeline call — also
    when it is the second instance of a reused factory -/
def progressDue (cs : Case) (o : Obs) : Bool :=
  cs.scenario == "close" && decide (cs.work > 0) && decide (o.closedAtNs ≥ 2500000000 + cs.latencyNs)

def progressOk (cs : Case) (o : Obs) : Bool := !progressDue cs o || decide (o.progress > 0)

/-- Close must REACH what is in flight: when every call of the environment honours cancellation (a held call returns only
    when its context ends), one virtual second after Close returned no goroutine of the instance may be running — a call
    still in flight then was handed a context that Close does not end -/
def lingerOk (cs : Case) (o : Obs) : Bool :=
  !(cs.scenario == "hold-close" && cs.holdCtx) || decide (o.soonLeft = 0)

/-- the panic clause of `spec` -/
def panicOk (cs : Case) (o : Obs) : Bool :=
  !panicClauseApplies cs o ||
    (o.resumed && decide (o.resumedWithinNs ≤ resumeBound cs) && o.othersTicked && (decide (cs.work = 0) || o.pipelineDone))

/-- C18 on one case -/
def spec (cs : Case) (o : Obs) : Bool :=
  o.survived && !o.hung &&
  (!o.closeCalled || o.closeReturned) &&
  !o.closePanicked && !o.firstCloseBad && decide (o.roundsBlocked = 0) &&
  !o.leak &&
  lingerOk cs o && progressOk cs o &&
  panicOk cs o

/-- the leak is exactly what schedule (a) leaves behind, and nothing else is wrong with the case:
    Close was issued at the very instant of creation (inside the services' start-up — a Close that is refused at any
    later time is a different defect), only not-running errors, one serviceStart and one service loop per such error, no more helpers than the services
    own, the panic clause (if any) satisfied, and EVERYTHING gone after a second Close (`bubbleEnded`) — which is what
    tells work in flight of the still running services (expected) from anything stuck -/
def isCloseBeforeRunning (cs : Case) (o : Obs) : Bool :=
  decide (o.closedAtNs = 0) && decide (o.errNotStarted = 0) && decide (o.errNotRunning > 0) && decide (o.errOther = 0) &&
  decide (o.leakedServiceStart = o.errNotRunning) && decide (o.leakedService = o.errNotRunning) &&
  decide (o.leakedAux ≤ cs.auxMax) && o.bubbleEnded && panicOk cs o

/-- the leak is exactly what schedules (b) (and (a) on the other recoverers) leave behind, and nothing else is wrong:
    one service loop per refused or not-running Close, one serviceStart per not-running Close, and after a second
    Close exactly the refused services — no serviceStart — are still there -/
def isCloseBeforeServiceStart (cs : Case) (o : Obs) : Bool :=
  decide (o.closedAtNs = 0) && decide (o.errNotStarted > 0) && decide (o.errOther = 0) &&
  decide (o.leakedService = o.errNotRunning + o.errNotStarted) && decide (o.leakedServiceStart = o.errNotRunning) &&
  decide (o.leakedAux ≤ cs.auxMax) && !o.bubbleEnded &&
  decide (o.after2ndService = o.errNotStarted) && decide (o.after2ndServiceStart = 0) && panicOk cs o

/-- which conjunct fails (first match) -/
inductive Verdict
  | ok | panicEscaped | processDied | hung | closeDidNotReturn | closePanicked | firstInstanceCloseFailed | noProgress | roundBlocked | lingersAfterClose
  | closeBeforeRunning        -- KNOWN FINDING (a)
  | closeBeforeServiceStart   -- KNOWN FINDING (b)
  | closeRefusedLate          -- a Close issued after start-up had quiesced was refused by a recoverer / service
  | leakAndPanic | closeSignalDropped | leakUnexplained
  | panicNotResumed | panicResumedLate | panicStalledOthers | panicStalledPipeline
deriving DecidableEq, Repr

/-- something is left after Close: which footprint -/
def classifyLeak (cs : Case) (o : Obs) : Verdict :=
  if isCloseBeforeRunning cs o then .closeBeforeRunning
  else if isCloseBeforeServiceStart cs o then .closeBeforeServiceStart
  else if decide (o.closedAtNs > 0) && decide (o.errNotRunning + o.errNotStarted > 0) then .closeRefusedLate
  else if !panicOk cs o then .leakAndPanic
  else if decide (o.leakedServiceStart > o.errNotRunning) && decide (o.leakedService = o.errNotRunning + o.errNotStarted) &&
          decide (o.errOther = 0) && decide (o.leakedInflight = 0) then .closeSignalDropped
  else .leakUnexplained

/-- nothing is left: progress and the panic clause -/
def classifyQuiet (cs : Case) (o : Obs) : Verdict :=
  if !lingerOk cs o then .lingersAfterClose
  else if !progressOk cs o then .noProgress
  else if panicClauseApplies cs o && !o.resumed then .panicNotResumed
  else if panicClauseApplies cs o && !decide (o.resumedWithinNs ≤ resumeBound cs) then .panicResumedLate
  else if panicClauseApplies cs o && !o.othersTicked then .panicStalledOthers
  else if panicClauseApplies cs o && decide (cs.work > 0) && !o.pipelineDone then .panicStalledPipeline
  else .ok

def classify (cs : Case) (o : Obs) : Verdict :=
  if !o.survived then (if o.crashed then .processDied else .panicEscaped)
  else if o.hung then .hung
  else if o.closePanicked then .closePanicked
  else if o.closeCalled && !o.closeReturned then .closeDidNotReturn
  else if o.firstCloseBad then .firstInstanceCloseFailed
  else if decide (o.roundsBlocked > 0) then .roundBlocked
  else if o.leak then classifyLeak cs o
  else classifyQuiet cs o

/-- stable words per verdict.  The two KNOWN FINDINGS are the strings starting `close-before-running:` and
    `close-before-service-start:`; each verdict has its own prefix, and `classify` yields those two verdicts only
    when the process survived, Close returned, and `isCloseBeforeRunning` / `isCloseBeforeServiceStart` hold
    (Props: `known_finding_a_exclusive`, `known_finding_b_exclusive`) — any additional or different defect in the
    same case yields another prefix. -/
def render (cs : Case) (o : Obs) : Verdict → String
  | .ok => "ok"
  | .panicEscaped => s!"panic-escaped: a panic injected in {cs.panicSite} terminated the process"
  | .processDied => "process-died: the process was terminated by a panic or fatal error on a background goroutine that the harness did not inject (pipeline result shape / configuration value)"
  | .hung => "hung: the instance stopped making progress in real time (goroutines of a flow blocked on a lock that is never released; the virtual clock cannot advance)"
  | .closeDidNotReturn => "close-did-not-return: Close had not returned when the case ended"
  | .closePanicked => "close-panicked: Close raised a panic instead of returning"
  | .firstInstanceCloseFailed => "first-instance-close-failed: closing the factory's first instance after it had run returned an error or panicked"
  | .roundBlocked => s!"round-blocked: {o.roundsBlocked} Observation call(s) on the open instance did not return within 5 virtual seconds (a background flow holds a lock of a shared store for ever)"
  | .lingersAfterClose => s!"lingers-after-close: {o.soonLeft} goroutine(s) of the instance are still running one virtual second after Close returned, although every call in flight returns as soon as its context ends (a tick in progress was not handed a context that Close ends)"
  | .noProgress => s!"no-progress: the instance stayed open for {o.closedAtNs} ns with payloads on every tick and completed no check-pipeline call"
  | .closeBeforeRunning => s!"close-before-running: Close returned not-running for {o.errNotRunning} services and they kept running"
  | .closeBeforeServiceStart => s!"close-before-service-start: Close was refused by {o.errNotStarted} services that had not completed their start (not-running for {o.errNotRunning} more); they started afterwards and can no longer be closed"
  | .closeRefusedLate => s!"close-refused-after-start-up: Close, issued {o.closedAtNs} ns after creation (start-up had quiesced), was refused with not-running by {o.errNotRunning} and with not-started by {o.errNotStarted} services; {o.leakedServiceStart} serviceStart and {o.leakedService} service goroutines remain"
  | .leakAndPanic => s!"leak-and-panic: goroutines remain after Close and the flow calling {cs.panicSite} did not resume in time after a panic"
  | .closeSignalDropped => s!"close-signal-dropped: {o.leakedServiceStart - o.errNotRunning} serviceStart goroutines outlive a Close that reported no error for them"
  | .leakUnexplained => s!"leak-unexplained: after Close {o.leakedServiceStart} serviceStart, {o.leakedService} service, {o.leakedAux} helper and {o.leakedInflight} in-flight goroutines remain (ticking={o.ticking}, bubbleEnded={o.bubbleEnded}) with close errors not-running={o.errNotRunning} not-started={o.errNotStarted} other={o.errOther}"
  | .panicNotResumed => s!"panic-not-resumed: the flow calling {cs.panicSite} did not resume within the cool-down plus one tick after the panic"
  | .panicResumedLate => s!"panic-resumed-late: the flow calling {cs.panicSite} resumed later than the cool-down plus one tick"
  | .panicStalledOthers => "panic-stalled-others: another flow stopped ticking after the first or after the last panic"
  | .panicStalledPipeline => "panic-stalled-pipeline: no pipeline call that began after the last panic has completed"

def explain (cs : Case) (o : Obs) : String := render cs o (classify cs o)

/-- tag of a failing verdict (the known findings are matched on fail string AND tag) -/
def Verdict.tag : Verdict → String
  | .ok => "" | .panicEscaped => "panic-escaped" | .processDied => "process-died" | .hung => "hung" | .closeDidNotReturn => "close-did-not-return"
  | .closePanicked => "close-panicked" | .firstInstanceCloseFailed => "first-instance-close-failed" | .lingersAfterClose => "lingers-after-close" | .noProgress => "no-progress" | .roundBlocked => "round-blocked"
  | .closeBeforeRunning => "close-before-running" | .closeBeforeServiceStart => "close-before-service-start"
  | .closeRefusedLate => "close-refused-after-start-up"
  | .leakAndPanic => "leak-and-panic" | .closeSignalDropped => "close-signal-dropped" | .leakUnexplained => "leak-unexplained"
  | .panicNotResumed => "panic-not-resumed" | .panicResumedLate => "panic-resumed-late" | .panicStalledOthers => "panic-stalled-others"
  | .panicStalledPipeline => "panic-stalled-pipeline"

/-! ### the model's prediction for a case

The harness cannot see program counters; what it does see is, per recoverer, the kind of error its Close
returned.  Each kind selects the canonical schedule of the model with that outcome (Model: `predictClose`),
the fault site selects the kind of goroutine that panics. -/

/-- fault schedule on a settled instance for a panic at `site`; after an uncontained poll panic the recoverer's
    cool-down and restart attempt are played out, so that "resumed" means "the service loop runs when the cool-down is over" -/
def faultSched (fx : Fixes) (site : String) : List Label :=
  if site == "pipeline" then [.tick, .pJob, .wPanic]
  else if site == "eventsProvider" then
    (if fx.poll then [.pollPanic]
     else [.pollPanic, .core .gSendStopped, .core .coolElapsed, .core .sRespawn, .core .sSel, .core .gCall, .core .gSendErr, .core .sSel])
  else if site == "v2PerformLogs" || site == "v2StaleLogs" || site == "v2CoordEncoder" then [.v2PollPanic]
  else if site == "resultStoreGC" || site == "v2ActiveUpkeeps" || site == "v2ObsEncoder" || site == "v2CheckUpkeep" then
    -- escapes the service's blocking call (result store's Start; the OCR2 polling observer's head loop, which sits behind
    -- internal/util.RecoverableService — same protocol: recover, cool-down, run again): restartable kind, runs again
    [.core .gPanic, .core .gSendStopped, .core .coolElapsed, .core .sRespawn, .core .sSel, .core .gCall]
  else if site == "" then []
  else [.tick, .pPanic]

/-- the settled instance the fault schedule starts from: the service kind that owns the site -/
def faultStart (site : String) : State :=
  if site == "resultStoreGC" || site == "v2ActiveUpkeeps" || site == "v2ObsEncoder" || site == "v2CheckUpkeep" then
    { settledS with core := settledL }
  else settledS

def predict (fx : Fixes) (cs : Case) (closedAtNs nNotRunning0 nNotStarted0 : Nat) (closeCalled : Bool) (panics : Nat) : Obs :=
  -- a Close issued after start-up has quiesced finds every recoverer settled: the model has no schedule in which it is
  -- refused (`close_stops_all_partial`), so no refusals are predicted whatever was observed
  let nNotRunning := if closedAtNs = 0 then nNotRunning0 else 0
  let nNotStarted := if closedAtNs = 0 then nNotStarted0 else 0
  let after := if panics > 0 then run fx (faultStart cs.panicSite) (faultSched fx cs.panicSite) else some settledS
  let survived := match after with
    | some s => !s.crashed
    | none => true
  -- the flow resumes iff its service loop is still (or again) running once the cool-down is over
  let resumed := match after with
    | some s => decide (s.core.nRun > 0)
    | none => false
  let la := (predictClose .notRunning).getD ⟨0, 0⟩
  let lb := (predictClose .svcRefused).getD ⟨0, 0⟩
  let lo := (predictClose .ok).getD ⟨0, 0⟩
  let nOk := cs.services - nNotRunning - nNotStarted
  let ss := nNotRunning * la.serviceStart + nNotStarted * lb.serviceStart + nOk * lo.serviceStart
  let sv := nNotRunning * la.service + nNotStarted * lb.service + nOk * lo.service
  { survived := survived, crashed := false, hung := false, closeCalled := closeCalled && survived, closeReturned := closeCalled && survived,
    closedAtNs := closedAtNs, closePanicked := false, firstCloseBad := false, soonLeft := 0, roundsBlocked := 0,
    progress := if survived then 1 else 0,   -- instances share nothing (each has its own runner): a second one works like a first
    errNotRunning := nNotRunning, errNotStarted := nNotStarted, errOther := 0,
    leakedServiceStart := if closeCalled then ss else 0, leakedService := if closeCalled then sv else 0, leakedAux := 0, leakedInflight := 0,
    ticking := closeCalled && decide (sv > 0),
    bubbleEnded := survived && decide (nNotStarted = 0),   -- (a) is repaired by a second Close, (b) is not (Props)
    after2ndServiceStart := 0, after2ndService := if closeCalled then nNotStarted else 0,
    panicsInjected := panics, resumed := resumed, resumedWithinNs := if resumed then cs.intervalNs else 0,
    othersTicked := true, pipelineDone := survived }


/-! ### exact trace validation of the recoverer (code built with the `verif` hooks of pkg/v3/service)

One hook event follows every step of `recoverable.go` on its shared state and reports the step's OUTCOME (the flag
value read, the message received or sent, sent vs. dropped, whether `service.Close()` / `service.Start()` returned an
error).  The wrapped service is not instrumented: its internal steps (`StartOnce`, leaving the loop, `StopOnce`,
waiting for `done`, a panic, and serviceStart PARKING in its select — which happens inside the Go runtime) are
filled in by the checker as hidden steps, constrained by the model's service semantics and by what the events assert
about them (e.g. `rs.returned nil` can only be placed once the service goroutine has left its loop).

A proposed explanation of a log is a list of items: event indices and hidden labels.  `traceOk` accepts it iff the
event indices are an admissible reordering of the whole log (`wellOrdered`: every goroutine's own order, and never an
event before one that was logged before its interval began) and replaying the items from the fresh recoverer is
possible — every event's reported outcome agreeing with the model state at that point.  Props: `trace_sound`. -/

/-- one hook event of one recoverer -/
structure Ev where
  pt : String
  g  : Nat     -- goroutine
  k  : Nat     -- outcome: error kind 0 nil / 1 other error / 2 errServiceStopped / 3 errServiceContextCancelled
  pos : Nat := 0  -- position in the one log of all recoverers of the case (strictly increasing along `evs`)
  pa : Nat := 0  -- 1 + position of the previous event of the same goroutine in that log (whatever recoverer); 0 = none
deriving DecidableEq, Repr, Inhabited

inductive Item
  | ev (i : Nat)        -- the i-th event of the log
  | hid (l : CLabel)    -- a step the hooks cannot see
deriving DecidableEq, Repr

def msgOfKind : Nat → Msg
  | 0 => .nil | 2 => .stopped | 3 => .cancelled | _ => .svcErr

/-- trace state: the model state plus the message handed to a parked serviceStart whose `ss.recv` event has not been
    placed yet (Go hands the value over inside the sender's step; the receiver's hook runs when it is scheduled again) -/
structure TState where
  c : Core
  handed : Option Msg := none
deriving DecidableEq, Repr

/-- steps without a hook: the wrapped service's internals and serviceStart parking in its select -/
def hiddenOk (t : TState) : CLabel → Bool
  | .gCall | .gStarted | .gStopSeen | .gPanic | .cSvcClose | .cWaitDone => true
  | .sSel => decide (t.c.buf = none) && decide (t.handed = none)   -- parking only; receiving has a hook
  | _ => false

def runT (old : Bool) (t : TState) (ls : List CLabel) (handed : Option Msg) : Option TState :=
  ((if old then runCOld t.c ls else runC t.c ls)).map fun c' => { c := c', handed := handed }

/-- a send on `stopped` that succeeds: direct hand-off if serviceStart is parked (remember the message until its
    `ss.recv` is placed), otherwise into the free buffer slot -/
def sendT (old : Bool) (t : TState) (l : CLabel) (m : Msg) : Option TState :=
  if t.handed ≠ none then none
  else if t.c.spc = .parked then runT old t [l] (some m)
  else if t.c.buf = none then runT old t [l] none
  else none

/-- one event: check its reported outcome against the model state and take the model step(s) it stands for.
    `old = true`: the pre-fix Close (`stepCoreOld`: one non-blocking send, event `close.dropped`), kept so that a log of the
    pre-fix code can be recognised as such; the check proper (`traceOk`, `trace_sound`) uses `old = false`. -/
def tstep (old : Bool) (t : TState) (e : Ev) : Option TState :=
  let runT := runT old
  let sendT := sendT old
  let c := t.c
  let closeL : CLabel := if c.cpc = .idle then .closeCall else .closeAgain
  match e.pt with
  -- recoverer.Start
  | "start.running" => if c.running then runT t [.sInit] t.handed else none
  | "start.idle" => if c.running then none else runT t [.sInit] t.handed
  | "start.spawned" => runT t [.sSpawn] t.handed
  -- serviceStart
  | "ss.stored" => runT t [.sStore] t.handed
  | "ss.recv" =>
    (match t.handed with
     | some m => if m = msgOfKind e.k then some { t with handed := none } else none
     | none => if c.spc = .sel ∧ c.buf = some (msgOfKind e.k) then runT t [.sSel] none else none)
  | "ss.cooled" => if t.handed = none then runT t [.coolElapsed] none else none
  | "ss.respawned" => if t.handed = none then runT t [.sRespawn] none else none
  | "ss.cleared" => if t.handed = none then runT t [.sClear] none else none
  -- recoverableStart
  | "rs.enter" => if c.gs > 0 then some t else none
  | "rs.returned" => if e.k = 0 then (if c.nSendNil > 0 then some t else none) else (if c.nSendErr > 0 then some t else none)
  | "rs.recovered" => if c.nSendStopped > 0 then some t else none
  | "rs.sent" =>
    (match msgOfKind e.k with
     | .nil => sendT t .gSendNil .nil
     | .svcErr => sendT t .gSendErr .svcErr
     | .stopped => sendT t .gSendStopped .stopped
     | .cancelled => none)
  -- recoverer.Close
  | "close.notrunning" => if c.running then none else runT t [closeL, .cLoad] t.handed
  | "close.running" => if c.running then runT t [closeL, .cLoad] t.handed else none
  | "close.svc" => if c.cpc = .signal ∧ c.svcErr = decide (e.k ≠ 0) then some t else none
  | "close.sent" => if c.cpc = .signal then sendT t .cSignal .cancelled else none
  | "close.full" =>      -- the send attempt found the channel full
    if !old ∧ c.cpc = .signal ∧ t.handed = none ∧ c.spc ≠ .parked ∧ c.buf ≠ none then runT t [.cSignal] none else none
  | "close.drained" =>   -- the drain attempt took a message out
    if !old ∧ c.cpc = .drain ∧ c.buf ≠ none then runT t [.cDrain] t.handed else none
  | "close.empty" =>     -- the drain attempt found nothing (serviceStart had taken the message meanwhile)
    if !old ∧ c.cpc = .drain ∧ c.buf = none then runT t [.cDrain] t.handed else none
  | "close.dropped" =>   -- pre-fix code only: the one non-blocking send gave up
    if old ∧ c.cpc = .signal ∧ t.handed = none ∧ c.spc ≠ .parked ∧ c.buf ≠ none then runT t [.cSignal] none else none
  | _ => none

/-- replay a proposed explanation -/
def replay (old : Bool) (evs : Array Ev) : TState → List Item → Option TState
  | t, [] => some t
  | t, .ev i :: is =>
    (match evs[i]? with
     | none => none
     | some e =>
       match tstep old t e with
       | some t' => replay old evs t' is
       | none => none)
  | t, .hid l :: is =>
    if hiddenOk t l then
      (match stepCore t.c l with   -- hidden steps are never Close's send: the same in both variants
       | some c' => replay old evs { t with c := c' } is
       | none => none)
    else none

def evIndices : List Item → List Nat
  | [] => []
  | .ev i :: is => i :: evIndices is
  | .hid _ :: is => evIndices is

/-- the first index ≥ `f` that is not marked (at most `fuel` steps) -/
def advance (seen : Array Bool) : Nat → Nat → Nat
  | 0, f => f
  | fuel + 1, f => if seen.getD f false then advance seen fuel (f + 1) else f

/-- positions strictly increase along the log -/
def atSorted : List Ev → Bool
  | a :: b :: rest => decide (a.pos < b.pos) && atSorted (b :: rest)
  | _ => true

/-- `order` uses every event of this recoverer exactly once and never places an event before one of its events that was
    logged at or before the previous event of the same goroutine — i.e. before the event's interval began; that
    previous event may belong to another recoverer (the Close goroutine visits them in turn), which is why positions
    in the common log are used.  This includes every goroutine's own order. -/
def wellOrdered (evs : Array Ev) (order : List Nat) : Bool :=
  let n := evs.size
  atSorted evs.toList && decide (order.length = n) &&
  (order.foldl (fun (acc : Option (Array Bool × Nat)) i =>
      match acc with
      | none => none
      | some (seen, first) =>
        if i < n && !seen.getD i true then
          -- `first` = the first event not placed yet; everything logged at or before the goroutine's previous event is placed
          let ok1 := decide ((evs.getD i default).pa = 0) || decide ((evs.getD first default).pos + 1 > (evs.getD i default).pa)
          if ok1 then
            let seen := seen.set! i true
            some (seen, advance seen n first)
          else none
        else none)
    (some ((List.replicate n false).toArray, 0))).isSome

/-- the fresh recoverer of the given service kind -/
def initOf (latched : Bool) : Core := if latched then initL else init

/-- the trace check -/
def traceOk (latched : Bool) (evs : Array Ev) (items : List Item) : Bool :=
  wellOrdered evs (evIndices items) && (replay false evs { c := initOf latched } items).isSome

/-- the same against the pre-fix Close: used only to say of a REJECTED log that it is a run of the old code -/
def traceOkOld (latched : Bool) (evs : Array Ev) (items : List Item) : Bool :=
  wellOrdered evs (evIndices items) && (replay true evs { c := initOf latched } items).isSome


/-! ### trace validation of the OCR2 `RecoverableService` (hooks in internal/util)

Here every step has a hook (Start / Stop as a whole — they run under the mutex —, every receive, the end of the
cool-down, every `run()`, `Do` entered / returned / panicked, every send); the only hidden step is the watcher parking
in its select. -/
namespace V2

inductive VItem
  | ev (i : Nat)
  | park            -- the watcher parks in its select (`wSel` on an empty channel)
deriving DecidableEq, Repr

structure VTState where
  c : VCore
  handed : Option Msg := none
deriving DecidableEq, Repr

def vrunT (t : VTState) (ls : List VLabel) (handed : Option Msg) : Option VTState :=
  (vrun t.c ls).map fun c' => { c := c', handed := handed }

def vsendT (t : VTState) (l : VLabel) (m : Msg) : Option VTState :=
  if t.handed ≠ none then none
  else if t.c.wpc = .parked then vrunT t [l] (some m)
  else if t.c.buf = none then vrunT t [l] none
  else none

def vtstep (t : VTState) (e : Ev) : Option VTState :=
  let c := t.c
  match e.pt with
  | "v2.start.running" => if c.running then vrunT t [.start] t.handed else none
  | "v2.started" => if c.running then none else vrunT t [.start] t.handed
  | "v2.stop.notrunning" => if c.running then none else vrunT t [.stop] t.handed
  | "v2.stopped" => if c.running then vrunT t [.stop] t.handed else none
  | "v2.w.recv" =>
    (match t.handed with
     | some m => if m = msgOfKind e.k then some { t with handed := none } else none
     | none => if c.wpc = .sel ∧ c.buf = some (msgOfKind e.k) then vrunT t [.wSel] none else none)
  | "v2.w.cooled" => if t.handed = none then vrunT t [.coolElapsed] none else none
  | "v2.w.rerun" => if t.handed = none then vrunT t [.wRerun] none else none
  | "v2.w.stopseen" => if t.handed = none then vrunT t [.wStopSeen] none else none
  | "v2.g.enter" => vrunT t [.gEnter] t.handed
  | "v2.g.returned" => if e.k = 0 then vrunT t [.gReturnNil] t.handed else vrunT t [.gReturnErr] t.handed
  | "v2.g.recovered" => vrunT t [.gPanic] t.handed
  | "v2.g.sent" =>
    (match msgOfKind e.k with
     | .nil => vsendT t .gSendNil .nil
     | .svcErr => vsendT t .gSendErr .svcErr
     | .stopped => vsendT t .gSendStopped .stopped
     | .cancelled => none)
  | _ => none

def vreplay (evs : Array Ev) : VTState → List VItem → Option VTState
  | t, [] => some t
  | t, .ev i :: is =>
    (match evs[i]? with
     | none => none
     | some e =>
       match vtstep t e with
       | some t' => vreplay evs t' is
       | none => none)
  | t, .park :: is =>
    if t.c.wpc = .sel ∧ t.c.buf = none ∧ t.handed = none then
      (match vstep t.c .wSel with
       | some c' => vreplay evs { t with c := c' } is
       | none => none)
    else none

def vevIndices : List VItem → List Nat
  | [] => []
  | .ev i :: is => i :: vevIndices is
  | .park :: is => vevIndices is

def vtraceOk (evs : Array Ev) (items : List VItem) : Bool :=
  wellOrdered evs (vevIndices items) && (vreplay evs { c := vinit } items).isSome

end V2

/-! ### constructors that fail, collaborators whose close step fails

`spec` / `classify` above are about an instance that was built.  `specFull` adds the two clauses that are about the
edges of its life: a constructor that fails must return an error and NO instance and leave nothing running (whatever
it had built by then); a close step of a collaborator that fails (the OCR2 coordinator's Close; the block source's
Unsubscribe) is reported by Close and must not keep Close from stopping everything else — nor, for Unsubscribe, the
metadata store's own loop. -/

/-- the constructor clause -/
def ctorOk (cs : Case) (o : Obs) : Bool := cs.ctorFault == "" || (o.ctorFailed && decide (o.ctorLeft = 0))

/-- what the instance's Close leaves when `Unsubscribe` fails and the metadata store gives up before its stop signal:
    exactly that store's loop (and its subscription), reported by exactly one error, nothing else wrong — also not
    repaired by a second Close (the recoverer has cleared its flag) -/
def isUnsubLeak (cs : Case) (o : Obs) : Bool :=
  cs.closeFault == "unsubscribe" && o.survived && !o.hung && o.closeReturned && !o.closePanicked &&
  decide (o.errOther = 1) && decide (o.errNotRunning = 0) && decide (o.errNotStarted = 0) &&
  decide (o.leakedService = 1) && decide (o.leakedServiceStart = 0) && decide (o.leakedAux = 0) && decide (o.leakedInflight = 0) &&
  decide (o.after2ndService = 1) && decide (o.after2ndServiceStart = 0)

inductive VerdictFull
  | base (v : Verdict)
  | ctorAccepted        -- the constructor returned no error (or an instance) for an input it must refuse
  | ctorLeftRunning     -- it failed and left something running
  | unsubLeak           -- Unsubscribe failed and the metadata store's loop was left running
deriving DecidableEq, Repr

def classifyFull (cs : Case) (o : Obs) : VerdictFull :=
  if !ctorOk cs o then (if !o.ctorFailed then .ctorAccepted else .ctorLeftRunning)
  else if isUnsubLeak cs o then .unsubLeak
  else .base (classify cs o)

def specFull (cs : Case) (o : Obs) : Bool := ctorOk cs o && !isUnsubLeak cs o && spec cs o

def explainFull (cs : Case) (o : Obs) : String :=
  match classifyFull cs o with
  | .base v => render cs o v
  | .ctorAccepted => s!"constructor-accepted: the constructor was given {cs.ctorFault} and did not fail (no error, or an instance next to the error)"
  | .ctorLeftRunning => s!"constructor-failed-left-running: the constructor failed on {cs.ctorFault} and 35 virtual seconds later {o.ctorLeft} goroutine(s) / provider call(s) / subscription(s) of the half-built instance are still there"
  | .unsubLeak => "unsubscribe-error-store-runs: the block source's Unsubscribe failed; Close reported it, stopped the other services and left the metadata store's loop running for good (a second Close is refused: the recoverer has cleared its flag)"

def VerdictFull.tag : VerdictFull → String
  | .base v => v.tag
  | .ctorAccepted => "constructor-accepted" | .ctorLeftRunning => "constructor-failed-left-running" | .unsubLeak => "unsubscribe-error-store-runs"

/-- the model of the failing constructor: which step fails, and how many services had been started by then -/
def ctorPredict (cs : Case) : Ctor × Nat :=
  let f := cs.ctorFault
  if cs.family == "v2" then newReportingPluginOutcomeV2 (f == "bad-json") (f == "coordinator-factory") (f == "observer-factory")
  else newReportingPluginOutcome (f == "bad-json") (f == "bad-probability") (f == "probability-range" || f == "nodes-range")
         (decide ((newPluginOutcome (f == "subscribe") false false cs.services).1 = .failed)) cs.services

/-- the tree as it is ("fix: metadata store: a failing Unsubscribe no longer leaves the Start loop running after Close"): the
    store's Close sends its stop signal whatever Unsubscribe returned, then reports the error -/
def unsubStopsNow : Bool := true

/-- `predict` plus the faults of this section.  `unsubStops`: the metadata store sends its stop signal whatever Unsubscribe
    returned (false = the tree as it is: it returns the error first) -/
def predictFull (fx : Fixes) (unsubStops : Bool) (cs : Case) (closedAtNs nNotRunning0 nNotStarted0 : Nat) (closeCalled : Bool) (panics : Nat) : Obs :=
  let m := predict fx cs closedAtNs nNotRunning0 nNotStarted0 closeCalled panics
  let m := if cs.ctorFault == "" then m
           else { m with ctorFailed := decide ((ctorPredict cs).1 = .failed), ctorLeft := if (ctorPredict cs).1 = .failed then (ctorPredict cs).2 else 0 }
  if cs.closeFault == "" || !closeCalled then m
  else
    let (closed, errs) := closeAll ((List.range cs.services).map fun i => decide (i = 0))   -- one sub-service's close step fails
    let m := { m with errOther := errs, leakedService := m.leakedService + (cs.services - closed) }
    if cs.closeFault == "unsubscribe" && !unsubStops then
      { m with leakedService := m.leakedService + 1, ticking := true, bubbleEnded := false, after2ndService := m.after2ndService + 1 }
    else m

/-! ### scripts on one service (family "svc")

One real service, bare or behind `service.NewRecoverer`, driven by caller operations issued at rest.  What C18 and the
documented contract of `Start` / `Close` ("returns an error if the recoverer is already running / already stopped") say
about such a run, on the observation alone: -/

structure OpObs where
  op  : String     -- start | cancel | close | panic | wait | cool (time: the restart cool-down elapsed)
  res : String     -- start: pending | nil | refused; close: ok | not-running | refused | error | pending; else ""
  serviceStart : Nat
  service      : Nat
  inflight     : Nat
deriving DecidableEq, Repr

structure ScriptObs where
  survived : Bool
  hung     : Bool
  ops      : List OpObs
  finalServiceStart : Nat     -- 25 virtual seconds after the last operation (more than a cool-down)
  finalService      : Nat
  finalInflight     : Nat
  closesReturned    : Bool    -- every Close call had returned by then
  process   : Nat             -- ticker: observer.Process calls
  goodTicks : Nat             -- ticker: getter calls that returned a tick
  finalSubscribed : Nat := 0  -- metadata store: block subscriptions still registered at the end (0 for every other kind)
deriving DecidableEq, Repr

/-- a Start call is in progress after this operation -/
def OpObs.busy (wrap : Bool) (o : OpObs) : Bool := if wrap then decide (o.serviceStart > 0) else decide (o.service > 0)

/-- Start while a Start is in progress is refused at once; (recoverer) Start while none is in progress is accepted -/
def startsOk (wrap guarded : Bool) : Bool → List OpObs → Bool
  | _, [] => true
  | busy, o :: os =>
    (if o.op == "start" then
       (if busy then (!guarded || o.res == "refused") else (!wrap || o.res == "pending"))
     else true) && startsOk wrap guarded (o.busy wrap) os

/-- a Close that finds the service running is not turned away: behind the recoverer it is never "not running" while a Start
    call is in progress whose context was not cancelled (at rest the flag is set), and a bare service whose loop runs does
    not refuse it -/
def closesOk (wrap : Bool) : Bool → Bool → Nat → List OpObs → Bool
  | _, _, _, [] => true
  | cancelled, busy, loops, o :: os =>
    (if o.op == "close" then
       (if wrap then (cancelled || !busy || o.res != "not-running") else (decide (loops = 0) || o.res != "refused"))
     else true) && closesOk wrap (cancelled || o.op == "cancel") (o.busy wrap) o.service os

/-- the last thing the caller did to a Start call in progress was to cancel its context (no accepted Start since) -/
def endsCancelled (ops : List OpObs) : Bool :=
  match (ops.filter fun o => (o.op == "start" && o.res == "pending") || o.op == "cancel").getLast? with
  | some o => o.op == "cancel"
  | none => false

/-- when the context of Start ends, the recoverer's Start returns — at the latest when a cool-down in progress is over — and
    a service that selects on that context (ticker, result store, metadata store) has left its loop -/
def cancelsOk (wrap honours : Bool) (o : ScriptObs) : Bool :=
  !endsCancelled o.ops || ((!wrap || decide (o.finalServiceStart = 0)) && (!honours || decide (o.finalService = 0)))

/-- some Start was accepted -/
def everStarted (ops : List OpObs) : Bool := ops.any fun o => o.op == "start" && o.res == "pending"

/-- a service that has been started and whose loop is gone holds no block subscription any more -/
def subscriptionOk (o : ScriptObs) : Bool := decide (o.finalService > 0) || !everStarted o.ops || decide (o.finalSubscribed = 0)

/-- the service's loop does not end on its own: from the first accepted Start until the caller cancels, closes or injects a
    panic, a service loop is running after every operation (a loop that has vanished died of a panic nobody injected) -/
def loopAliveOk : Bool → Bool → List OpObs → Bool
  | _, _, [] => true
  | started, disturbed, o :: os =>
    let started := started || (o.op == "start" && o.res == "pending")
    let disturbed := disturbed || o.op == "cancel" || o.op == "close" || o.op == "panic"
    (!started || disturbed || decide (o.service ≥ 1)) && loopAliveOk started disturbed os

/-- the last caller operation was a Close that returned nil -/
def endsClosed (ops : List OpObs) : Bool :=
  match (ops.filter fun o => o.op == "start" || o.op == "close" || o.op == "cancel" || o.op == "panic").getLast? with
  | some o => o.op == "close" && o.res == "ok"
  | none => false

/-- no Start / Close call of the script raised a panic on the caller's goroutine -/
def noOpPanics (ops : List OpObs) : Bool := ops.all fun o => o.res != "panicked!"

def specScript (wrap guarded : Bool) (o : ScriptObs) (honours : Bool := false) : Bool :=
  o.survived && !o.hung && o.closesReturned && noOpPanics o.ops &&
  startsOk wrap guarded false o.ops && closesOk wrap false false 0 o.ops && cancelsOk wrap honours o && loopAliveOk false false o.ops && subscriptionOk o &&
  (!endsClosed o.ops || (decide (o.finalServiceStart = 0) && decide (o.finalService = 0) && decide (o.finalInflight = 0))) &&
  decide (o.process = o.goodTicks)

def explainScript (wrap guarded : Bool) (o : ScriptObs) (honours : Bool := false) : String :=
  if !o.survived then "script/process-died: the process was terminated while the script ran"
  else if o.hung then "script/hung: the case stopped making progress in real time"
  else if !noOpPanics o.ops then "script/call-panicked: a Start or Close call raised a panic on the caller's goroutine"
  else if !o.closesReturned then "script/close-did-not-return: a Close call had not returned 25 virtual seconds after the last operation"
  else if !startsOk wrap guarded false o.ops then "script/start-discipline: a Start issued while a Start was in progress was not refused at once, or a Start issued while none was in progress was refused"
  else if !closesOk wrap false false 0 o.ops then "script/close-turned-away: a Close issued while the service was running was refused (\"not running\" by the recoverer while its Start was in progress, or by the bare service while its loop ran)"
  else if !loopAliveOk false false o.ops then "script/service-loop-gone: the service's loop ended on its own (no Close, no cancelled context, no injected panic) while its Start call was still in progress"
  else if !cancelsOk wrap honours o then s!"script/outlives-context: 25 virtual seconds after the context of Start was cancelled {o.finalServiceStart} serviceStart and {o.finalService} service loop(s) are still there"
  else if !subscriptionOk o then s!"script/subscription-left: the service's loop is gone and {o.finalSubscribed} block subscription(s) of it are still registered"
  else if !decide (o.process = o.goodTicks) then s!"script/tick-discipline: the observer was called {o.process} times for {o.goodTicks} ticks the getter delivered"
  else if specScript wrap guarded o honours then "ok"
  else s!"script/left-after-close: the last operation was a Close that returned nil; {o.finalServiceStart} serviceStart, {o.finalService} service and {o.finalInflight} other goroutine(s) remain"

def XRes.str : XRes → String
  | .none => "" | .accepted => "pending" | .refused => "refused" | .closeOk => "ok" | .closeNotRunning => "not-running"
  | .closeRefused => "refused" | .blocked => "pending" | .outside => "outside"

def BRes.str : BRes → String
  | .none => "" | .pending => "pending" | .returnedNil => "nil" | .returnedErr => "error" | .refused => "refused"
  | .closeOk => "ok" | .closeRefused => "refused" | .closeError => "error" | .blocked => "pending"

def XOp.str : XOp → String
  | .start => "start" | .cancel => "cancel" | .close => "close" | .panic => "panic" | .coolDown => "cool"

/-- the model's observation of a recoverer script (`cools` = where the cool-down elapses is part of the script) -/
def xscriptObs (latched honours : Bool) (ops : List XOp) : ScriptObs :=
  let (rs, xf) := xscript scriptFuel (xfresh latched honours) ops
  -- 25 s later: a pending cool-down has elapsed, everything has come to rest
  let xe := (xapply scriptFuel xf .coolDown).1
  { survived := true, hung := false,
    ops := (ops.zip rs).map fun (op, (r, a)) => { op := op.str, res := r.str, serviceStart := a.serviceStart, service := a.service, inflight := a.inflight },
    finalServiceStart := xe.aliveNow.serviceStart, finalService := xe.aliveNow.service, finalInflight := xe.aliveNow.inflight,
    closesReturned := decide (xe.c.cpc = .idle ∨ xe.c.cpc = .ret), process := 0, goodTicks := 0 }

def BOp.str : BOp → String
  | .start => "start" | .cancel => "cancel" | .close => "close"

def bscriptObs (b : Bare) (ops : List BOp) : ScriptObs :=
  let (rs, bf) := bscript b ops
  { survived := true, hung := false,
    ops := (ops.zip rs).map fun (op, (r, n)) => { op := op.str, res := r.str, serviceStart := 0, service := n, inflight := if r = .blocked then 1 else 0 },
    finalServiceStart := 0, finalService := bf.loops, finalInflight := if rs.any (fun p => p.1 = .blocked) then 1 else 0,
    closesReturned := !rs.any (fun p => p.1 = .blocked), process := 0, goodTicks := 0 }

/-! ### trace validation of a directly driven recoverer: `tstep` plus the steps of `xstep` -/

structure TStateX where
  t       : TState
  ctxDone : Bool := false
  honours : Bool
  cancels : Nat        -- cancellations of a Start context the script still holds
  closeErrOk : Bool := false   -- the case injects a collaborator failure into the wrapped service's Close (`cSvcCloseErr` may be filled in)
deriving DecidableEq, Repr

def TStateX.x (s : TStateX) : XCore := { c := s.t.c, ctxDone := s.ctxDone, honours := s.honours }

def TStateX.withX (s : TStateX) (x : XCore) : TStateX := { s with t := { s.t with c := x.c }, ctxDone := x.ctxDone }

def liftT (s : TStateX) (r : Option TState) : Option TStateX := r.map fun t' => { s with t := t' }

def tstepX (s : TStateX) (e : Ev) : Option TStateX :=
  match e.pt with
  | "ss.ctxdone" =>     -- serviceStart took the `ctx.Done()` arm (nothing had been handed to it)
    if s.t.handed = none then (xrun s.x [.sCtxDone]).map s.withX else none
  | "start.running" =>
    if s.t.c.spc = .init then liftT s (tstep false s.t e)
    else if s.t.c.spc = .done then (if s.t.c.running then (xrun s.x [.startAgain, .core .sInit]).map s.withX else none)
    else (xrun s.x [.startRefused]).map s.withX
  | "start.idle" =>
    if s.t.c.spc = .done then (if s.t.c.running then none else (xrun s.x [.startAgain, .core .sInit]).map s.withX)
    else liftT s (tstep false s.t e)
  | _ => liftT s (tstep false s.t e)

inductive ItemX
  | ev (i : Nat)
  | hid (l : CLabel)
  | cancel            -- the caller cancels the context (no hook: the harness does it)
  | gctx              -- the wrapped service's loop sees its context end (no hook: inside the service)
  | closeErr          -- the wrapped service's Close stops it and returns an error (no hook: inside the service)
deriving DecidableEq, Repr

def replayX (evs : Array Ev) : TStateX → List ItemX → Option TStateX
  | s, [] => some s
  | s, .ev i :: is =>
    (match evs[i]? with
     | none => none
     | some e =>
       match tstepX s e with
       | some s' => replayX evs s' is
       | none => none)
  | s, .hid l :: is =>
    if hiddenOk s.t l then
      (match xrun s.x [.core l] with
       | some x' => replayX evs (s.withX x') is
       | none => none)
    else none
  | s, .cancel :: is =>
    if s.cancels = 0 then none
    else (match xrun s.x [.ctxCancel] with
      | some x' => replayX evs { s.withX x' with cancels := s.cancels - 1 } is
      | none => none)
  | s, .gctx :: is =>
    (match xrun s.x [.gCtxSeen] with
     | some x' => replayX evs (s.withX x') is
     | none => none)
  | s, .closeErr :: is =>
    if s.closeErrOk then
      (match xrun s.x [.cSvcCloseErr] with
       | some x' => replayX evs (s.withX x') is
       | none => none)
    else none

def evIndicesX : List ItemX → List Nat
  | [] => []
  | .ev i :: is => i :: evIndicesX is
  | _ :: is => evIndicesX is

/-- the recoverer as constructed: no Start call yet -/
def tinitX (latched honours : Bool) (cancels : Nat) (closeErrOk : Bool := false) : TStateX :=
  { t := { c := (xfresh latched honours).c }, honours := honours, cancels := cancels, closeErrOk := closeErrOk }

def traceOkX (latched honours : Bool) (cancels : Nat) (evs : Array Ev) (items : List ItemX) (closeErrOk : Bool := false) : Bool :=
  wellOrdered evs (evIndicesX items) && (replayX evs (tinitX latched honours cancels closeErrOk) items).isSome

/-! ### scripts on the OCR2 polling observer (its `RecoverableService` is reachable through `polling.NewPollingObserver` only) -/
namespace V2

def vsysLabels : List VLabel := [.wStopSeen, .wSel, .gEnter, .gReturnErr, .gSendNil, .gSendErr, .gSendStopped, .wRerun]

def vsettle : Nat → VCore → VCore
  | 0, c => c
  | fuel + 1, c =>
    match vsysLabels.findSome? (vstep c) with
    | some c' => vsettle fuel c'
    | none => c

/-- observer.Start / observer.Close behind their `sync.Once` guards: only the first call of each reaches the service -/
structure VObs where
  c : VCore
  started : Bool := false
  stopped : Bool := false
deriving DecidableEq, Repr

def vapplyOp (o : VObs) (start : Bool) : VObs :=
  if start then
    (if o.started then o else { o with started := true, c := vsettle 32 ((vstep o.c .start).getD o.c) })
  else
    (if o.stopped then o else { o with stopped := true, c := vsettle 32 ((vstep o.c .stop).getD o.c) })

def VCore.aliveNow (c : VCore) : Alive :=
  { serviceStart := if c.wpc = .absent ∨ c.wpc = .done then 0 else 1, service := c.nDo,
    inflight := c.nCall + c.nSendNil + c.nSendErr + c.nSendStopped }

end V2

end AutoVerif.C18
