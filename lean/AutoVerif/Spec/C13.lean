import AutoVerif.Model.C13
/-
Decidable statement of C13 — "a check call returns, for every payload whose batch
succeeded, exactly one result for that unit of work (none lost, none duplicated,
none for payloads not asked) and reports an error only when every batch failed; a
cached result is served only for the identical unit of work, check block number
and block hash, and only successful pipeline executions are cached".

Two additions about the code around a check call: the life-cycle calls on the runner (`lifeOk`: `Start` of a running
runner and `Close` of one that is not running answer an error and change nothing — whatever they do, the check calls
of the history are judged as always), and a check call made through `Observer.Process` (`ProcObs.ok`: the runner is
asked exactly what the pre-processors returned, the post-processor gets exactly the runner's results, and the first
failing stage ends the process with its error before any later stage runs).

It speaks only about what can be observed at the runner's two boundaries: the
arguments/return values of `Runner.CheckUpkeeps` and the calls the wrapped
pipeline saw (with its answers).  The driver evaluates it on the implementation's
observations and on the model's; Props/C13 proves it of the model for all inputs.
-/
namespace AutoVerif.C13

/-- unit of work as far as the runner can tell: work id, check block number, check block hash -/
abbrev Key := String × Nat × String

def keyP (p : Payload) : Key := (p.workID, p.trigger.blockNumber, p.trigger.blockHash)
def keyR (r : CheckResult) : Key := (r.workID, r.trigger.blockNumber, r.trigger.blockHash)

/-- multiset difference `l − m` (one occurrence removed per element of `m`) -/
def mdiff {α} [BEq α] : List α → List α → List α
  | l, [] => l
  | l, b :: bs => mdiff (l.erase b) bs

/-- `a ⊆ b` as multisets -/
def msub {α} [BEq α] (a b : List α) : Bool := (mdiff a b).isEmpty

/-- everything observed about one call -/
structure CallObs where
  payloads : List Payload                       -- argument of `CheckUpkeeps`
  dones    : List (List Payload × BatchOut)     -- calls seen by the pipeline with their answers, in completion order
  ret      : Ret                                -- what `CheckUpkeeps` returned
  hist     : List CheckResult                   -- results of pipeline calls that succeeded on this runner before the call's look-ups
  cancelled : Bool                              -- the caller's context was done (cancelled / deadline passed) when the call returned

namespace CallObs
variable (o : CallObs)

/-- payloads handed to the pipeline -/
def seen : List Payload := o.dones.flatMap (·.1)
/-- results of the batches that succeeded -/
def fresh : List CheckResult := o.dones.flatMap (fun d => d.2.res.getD [])
/-- payloads of the batches that failed -/
def failed : List Payload := (o.dones.filter (fun d => d.2.res.isNone)).flatMap (·.1)
/-- returned results that did not come from this call's batches, i.e. were served from the cache -/
def rest : List CheckResult := mdiff o.ret.values o.fresh
/-- payloads that were not handed to the pipeline -/
def unrun : List Payload := mdiff o.payloads o.seen

/-- the pipeline contract for one batch: one result per payload, for that payload's unit of work -/
def contractOk (d : List Payload × BatchOut) : Bool :=
  match d.2.res with
  | none => true
  | some rs => (rs.map keyR).isPerm (d.1.map keyP)

/-- error exactly when there was at least one batch and every batch failed; nothing is returned with an error -/
def errOk : Bool :=
  (o.ret.err == (!o.dones.isEmpty && o.dones.all (fun d => d.2.res.isNone))) &&
  (!o.ret.err || o.ret.values.isEmpty)
/-- the pipeline is asked only about payloads of the call, each at most as often as it was asked -/
def askedOk : Bool := (mdiff o.seen o.payloads).isEmpty
/-- every result of a successful batch is returned (none lost) -/
def noneLostOk : Bool := o.ret.err || (mdiff o.fresh o.ret.values).isEmpty
/-- the remaining returned results are one per payload that was not run, each for exactly that
payload's work id, block number and block hash (nothing stale, nothing duplicated, nothing foreign).
Only a call whose context was done may leave payloads both unrun and unanswered (batches that were
never submitted): then at most one such result per unrun payload. -/
def servedOk : Bool :=
  o.ret.err ||
  (if o.cancelled then msub (o.rest.map keyR) (o.unrun.map keyP)
   else (o.rest.map keyR).isPerm (o.unrun.map keyP))
/-- what is served from the cache is a result of an earlier successful pipeline execution -/
def cachedOk : Bool := o.ret.err || o.rest.all (fun r => r.pes == 0 && o.hist.contains r)
/-- under the pipeline contract: exactly one result per payload outside the failed batches (at most
one, and only for such payloads, when the caller's context was done) -/
def onePerPayloadOk : Bool :=
  o.ret.err || !o.dones.all contractOk ||
  (if o.cancelled then msub (o.ret.values.map keyR) ((mdiff o.payloads o.failed).map keyP)
   else (o.ret.values.map keyR).isPerm ((mdiff o.payloads o.failed).map keyP))

def ok : Bool := o.errOk && o.askedOk && o.noneLostOk && o.servedOk && o.cachedOk && o.onePerPayloadOk

def explain : String :=
  if !o.errOk then
    (if o.ret.err then "error returned although not every batch failed (or no batch ran)"
     else if !o.dones.isEmpty && o.dones.all (fun d => d.2.res.isNone) then "no error although every batch failed"
     else "results returned together with an error")
  else if !o.askedOk then "pipeline was asked about a payload that is not in the call"
  else if !o.noneLostOk then "result of a successful batch lost"
  else if !o.servedOk then "results not from this call's batches do not match the payloads that were not run (stale, duplicated or foreign result)"
  else if !o.cachedOk then "served a result that is not a successful earlier pipeline result"
  else if !o.onePerPayloadOk then "not exactly one result per payload outside the failed batches"
  else "ok"

end CallObs

/-! ### a whole history on one runner -/

/-- results of the successful pipeline calls in a history -/
def histOf : List Ev → List CheckResult
  | [] => []
  | .done _ _ o :: es => o.res.getD [] ++ histOf es
  | .start _ _ _ :: es => histOf es

/-- return value of call `cid` and whether its context was done at that moment -/
def retOf (rets : List (Nat × Ret × Bool)) (cid : Nat) : Option (Ret × Bool) := (rets.find? (fun x => x.1 == cid)).map (·.2)

/-- observations of the calls of a history: for the `start` at position `i`, the later `done`s of
that call id, the call's return value, and the successful results before position `i` -/
def obsOf (rets : List (Nat × Ret × Bool)) : List Ev → List Ev → List (Nat × Option CallObs)
  | _, [] => []
  | before, e :: es =>
    (match e with
     | .start cid _ ps =>
       [(cid, (retOf rets cid).map fun r =>
          { payloads := ps, dones := donesOf cid es, ret := r.1, hist := histOf before.reverse, cancelled := r.2 })]
     | .done _ _ _ => []) ++ obsOf rets (e :: before) es

/-- C13 over a history: every call that returned satisfies the per-call predicate -/
def specTrace (evs : List Ev) (rets : List (Nat × Ret × Bool)) : Bool :=
  (obsOf rets [] evs).all fun x => match x.2 with
    | some o => o.ok
    | none => false

def explainTrace (evs : List Ev) (rets : List (Nat × Ret × Bool)) : String :=
  match (obsOf rets [] evs).find? (fun x => match x.2 with | some o => !o.ok | none => true) with
  | none => "ok"
  | some (_, some o) => o.explain
  | some (_, none) => "call without return value"

/-! ### the life cycle, as observed: which `Start` / `Close` calls answered an error -/

/-- the runner's flag as the observed answers imply it: a `Start` without error sets it, a `Close`
without error clears it, a call that answered an error leaves it -/
def flagAfter (running : Bool) : List (LifeOp × Bool) → Bool
  | [] => running
  | (_, true) :: xs => flagAfter running xs
  | (.start, false) :: xs => flagAfter true xs
  | (.close, false) :: xs => flagAfter false xs

/-- every life-cycle call answers an error exactly when it is pointless: `Start` of a runner that is
running (it must not take the runner over a second time), `Close` of one that is not -/
def lifeOk (running : Bool) : List (LifeOp × Bool) → Bool
  | [] => true
  | (op, err) :: xs =>
    (err == (match op with | .start => running | .close => !running)) &&
    lifeOk (flagAfter running [(op, err)]) xs

def lifeExplain (running : Bool) : List (LifeOp × Bool) → String
  | [] => "ok"
  | (op, err) :: xs =>
    if err == (match op with | .start => running | .close => !running) then lifeExplain (flagAfter running [(op, err)]) xs
    else match op, err with
      | .start, false => "Start on a running runner did not answer an error (a second Start took the runner over)"
      | .start, true => "Start on a runner that is not running answered an error"
      | .close, false => "Close on a runner that is not running did not answer an error"
      | .close, true => "Close on a running runner answered an error"

/-! ### a check call made through `Observer.Process`, as observed -/

/-- everything observed about one `Process` -/
structure ProcObs where
  tickFails : Bool
  tick      : List Payload           -- what the tick hands out
  pres      : List PreSpec           -- the observer's pre-processors
  postFails : Bool
  out       : ProcOut                -- error returned; pre-processors invoked; arguments of processor and post-processor
  ret       : Option Ret             -- what the processor answered, if it was called

namespace ProcObs
variable (o : ProcObs)

/-- the first failing stage ends the call with its own error -/
def codeOk : Bool :=
  o.out.code ==
    (if o.tickFails then 1
     else if (runPres o.pres o.tick).1.isNone then 2
     else match o.ret with
       | some r => if r.err then 3 else if o.postFails then 4 else 0
       | none => 5)
/-- pre-processors are invoked in order up to and including the first that fails, none after a failing tick -/
def preOk : Bool := o.out.preCalls == (if o.tickFails then 0 else (runPres o.pres o.tick).2)
/-- the processor is asked exactly what the last pre-processor returned — and not at all when the tick
or a pre-processor failed -/
def askedOk : Bool :=
  (o.out.asked == (if o.tickFails then none else (runPres o.pres o.tick).1)) && (o.out.asked.isSome == o.ret.isSome)
/-- the post-processor gets exactly the processor's results, together with the payloads the processor
was asked about — and is not called when an earlier stage failed -/
def postOk : Bool :=
  o.out.post ==
    (match o.out.asked, o.ret with
     | some ps, some r => if r.err then none else some (r.values, ps)
     | _, _ => none)

def ok : Bool := o.codeOk && o.preOk && o.askedOk && o.postOk

def explain : String :=
  if !o.preOk then "pre-processors not invoked in order up to the first failure"
  else if !o.askedOk then "the processor was not asked exactly what the pre-processors returned (or was asked after a failed stage)"
  else if !o.postOk then "the post-processor did not get exactly the processor's results with the processed payloads (or was called after a failed stage)"
  else if !o.codeOk then "Process did not return the error of the first failing stage"
  else "ok"

end ProcObs

/-! ### notions used in the statements of Props/C13 (not evaluated at run time) -/

section
open List

/-- cache keys are the work ids of the stored results (`cache.Set(result.WorkID, result, …)`) -/
def WF (c : Cache) : Prop := ∀ e ∈ c, e.key = e.item.workID

/-- results of the successful ones among the given answers, in the given order -/
def freshOf (outs : List BatchOut) : List CheckResult := outs.flatMap (fun o => o.res.getD [])

/-- every cache entry is keyed by its result's work id, holds a result of a successful pipeline
execution (`PipelineExecutionState = 0`), and that result is one of `hist` -/
def Good (c : Cache) (hist : List CheckResult) : Prop :=
  ∀ e ∈ c, e.key = e.item.workID ∧ e.item.pes = 0 ∧ e.item ∈ hist

/-- the pipeline contract: a successful batch answers with one result per payload of the batch, each
for that payload's work id, check block number and check block hash -/
def Contract (bs : List (List Payload)) (out : Nat → BatchOut) : Prop :=
  ∀ i rs, (out i).res = some rs → rs.map keyR ~ (bs.getD i []).map keyP

/-- payloads of the batches that failed, among the first `k` batches -/
def failedPayloads (bs : List (List Payload)) (out : Nat → BatchOut) (k : Nat) : List Payload :=
  (List.range k).flatMap (fun i => if (out i).res.isNone then bs.getD i [] else [])

/-- payloads of the batches that were never submitted (only `k` were) -/
def abandoned (bs : List (List Payload)) (k : Nat) : List Payload := (bs.drop k).flatten

/-- a history `evs` with return values `rets` is one the model produces: every call's batches (as
seen by the pipeline after its `start`) are the first `k` of the model's batches in some delivery
order — all of them unless the caller's context was done — and its return value is `parallelCheck`
on the cache left by the events before its `start` -/
def Explained (E : Nat) (rets : List (Nat × Ret × Bool)) (evs : List Ev) : Prop :=
  ∀ pre cid now ps post, evs = pre ++ Ev.start cid now ps :: post →
    ∃ out order k cancelled, k ≤ (batches (cacheAt E [] pre) now ps).length ∧
      (k < (batches (cacheAt E [] pre) now ps).length → cancelled = true) ∧
      order ~ List.range k ∧
      donesOf cid post = order.map (fun i => ((batches (cacheAt E [] pre) now ps).getD i [], out i)) ∧
      retOf rets cid = some ((parallelCheck E (cacheAt E [] pre) now ps out order).2, cancelled)

end

end AutoVerif.C13
