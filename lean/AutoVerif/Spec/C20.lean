import AutoVerif.Model.C20
/-
Decidable statement of C20, evaluated by the driver on the implementation's
outputs and proved of the model in Props/C20 (as far as a model can express it).

  verdict   : success ⇔ every registered count reached its total before the
              close was seen (a zero total: no increment at all)
  plan      : load (save p) = p (event types set, `expected` defaulted)
  summary   : the statistics block evaluates without an index out of range
  record    : every transmitted upkeep was checked at its check block by ≥ f+1
              distinct nodes; no transmitted report is empty
  churn     : subscribers (plugin instances) that come and go on a running block
              source: nothing is ever sent on a closed channel (the process survives),
              every one of them is attached, served newest-first and detached
-/
namespace AutoVerif.C20

/-! ### verdict -/

/-- walking the selections in order: does the running sum reach `total` before a `done` is taken? -/
def reachedFrom (total : Nat) (acc : Nat) : List Sel → Bool
  | [] => false
  | .inc n :: es => if acc + n ≥ total then true else reachedFrom total (acc + n) es
  | .done :: _ => false

/-- what the property demands of one counter: a positive total is reached (exceeding it is accepted, as the
code does); a zero total sees the close before any increment -/
def satisfied (total : Nat) (sels : List Sel) : Bool :=
  if total = 0 then
    match sels with
    | .done :: _ => true
    | _ => false
  else reachedFrom total 0 sels

/-- the verdict a run must have, from what each counter received -/
def expectedVerdict (trackers : List (Nat × List Sel)) : Bool :=
  trackers.all fun t => satisfied t.1 t.2

def verdictFaithful (trackers : List (Nat × List Sel)) (v : Bool) : Bool :=
  v == expectedVerdict trackers

/-! ### the count a plan expects -/

/-- a log counts for a log-trigger upkeep when it carries the upkeep's trigger value, is emitted at or after the
upkeep's creation, and the upkeep is eligible at or after the log (always, or at one of its eligible blocks) -/
def logCounts (u : Upkeep) (l : LogEv) : Bool :=
  decide (u.createInBlock ≤ l.triggerAt) && (l.triggerValue == u.triggeredBy) &&
  (u.alwaysEligible || u.eligibleAt.any fun b => decide (l.triggerAt ≤ b))

/-- the number of performs a plan expects: one per eligible block of an expected conditional upkeep, one per
counting log of an expected log-trigger upkeep -/
def expectedSpec (ups : List Upkeep) (logs : List LogEv) : Nat :=
  ((ups.filter (·.expected)).map fun u =>
    match u.type with
    | .conditional => u.eligibleAt.length
    | .logTrigger => (logs.filter (logCounts u)).length).sum

def transmitNamespace (expected : Nat) : String :=
  if expected = 0 then "No upkeep perform events expected" else "Collecting upkeep perform events"

/-- what `NewOCR3TransmitLoader` must register for the perform counter -/
def registeredOk (ups : List Upkeep) (logs : List LogEv) (total : Int) (ns : String) : Bool :=
  decide (total = (expectedSpec ups logs : Int)) && ns == transmitNamespace (expectedSpec ups logs)

/-! ### plan round trip -/

def roundtripOk (p : Plan) (loaded : Except DecErr Plan) : Bool :=
  match loaded with
  | .ok q => decide (q = normalize p)
  | .error _ => false

/-- the events of a plan that was itself loaded: types set, `expected` non-empty -/
def Plan.savedForm (p : Plan) : Bool :=
  p.configEvents.all (fun e => e.head? == some (.str ocr3ConfigEventType)) &&
  p.generateUpkeeps.all (fun e => e.head? == some (.str generateUpkeepEventType) && e.getLast? != some (.str "")) &&
  p.logEvents.all (fun e => e.head? == some (.str logTriggerEventType))

/-! ### summary -/

def summaryOk (r : Option Summary) : Bool := r.isSome

/-! ### run record -/

/-- one row of the "Transmitted Results" table -/
structure Row where
  included   : Bool      -- `false`: block number `<nil>`, never put into a block
  block      : Nat
  round      : Nat
  sender     : String
  upkeep     : String    -- full decimal id, or its 8-character prefix when ambiguous
  checkBlock : Nat
deriving DecidableEq, Repr

/-- a check line of a node's contract log -/
structure CheckRec where
  node     : Nat
  upkeep   : String
  block    : Nat
  eligible : Bool
deriving DecidableEq, Repr

/-- an accepted transmit (`transmit sent from A in round R`) -/
structure Sent where
  sender : String
  round  : Nat
deriving DecidableEq, Repr

def sameUpkeep (rowId checkId : String) : Bool :=
  rowId == checkId || (rowId.length == 8 && checkId.startsWith rowId)

/-- the distinct nodes that logged a check of the row's upkeep at the row's check block -/
def checkedBy (checks : List CheckRec) (r : Row) : List Nat :=
  ((checks.filter fun c => sameUpkeep r.upkeep c.upkeep && c.block == r.checkBlock).map (·.node)).eraseDups

def rowQuorum (f : Nat) (checks : List CheckRec) (r : Row) : Bool :=
  decide ((checkedBy checks r).length ≥ f + 1)

/-- every accepted report contributed at least one row (counted per sender and round) -/
def noEmptyReport (sent : List Sent) (rows : List Row) : Bool :=
  sent.all fun s =>
    decide ((rows.filter fun r => r.sender == s.sender && r.round == s.round).length ≥
            (sent.filter fun s' => s' == s).length)

/-- a transmit that counts as performed sits in a block the chain produced: `genesis ≤ block ≤ last` -/
def onChain (genesis last : Int) (r : Row) : Bool :=
  !r.included || (decide (genesis ≤ (r.block : Int)) && decide ((r.block : Int) ≤ last))

def recordOk (f : Nat) (checks : List CheckRec) (sent : List Sent) (rows : List Row) : Bool :=
  rows.all (rowQuorum f checks) && noEmptyReport sent rows

def explainRecord (f : Nat) (checks : List CheckRec) (sent : List Sent) (rows : List Row) : String :=
  match rows.find? (fun r => !rowQuorum f checks r) with
  | some r => s!"transmitted upkeep checked at its check block by fewer than f+1 distinct nodes (upkeep {r.upkeep.take 8} check block {r.checkBlock}: {(checkedBy checks r).length} node(s), f={f})"
  | none => if !noEmptyReport sent rows then "empty report transmitted" else "ok"

/-! ### subscribers coming and going on a running block source -/

/-- what a churn case observed (the process survived: the counts exist) -/
structure ChurnObs where
  attached  : Nat
  detached  : Nat
  saw       : Nat
  badOrder  : Nat
  notClosed : Nat
  errors    : Nat
  afterOk   : Bool
  done      : Bool
deriving DecidableEq, Repr

/-- every instance was attached and detached, histories arrived newest first, every detached channel was closed,
somebody received a history, and the source still serves a fresh subscriber afterwards -/
def churnOk (want : Nat) (o : ChurnObs) : Bool :=
  o.done && o.attached == want && o.detached == want && o.badOrder == 0 && o.notClosed == 0 && o.errors == 0 &&
  o.afterOk && (want == 0 || decide (o.saw ≥ 1))

/-- the model's side of the same demand: no send ever hits a closed channel -/
def Hub.crashFree (h : Hub) : Bool := h.closedSends == 0

end AutoVerif.C20
