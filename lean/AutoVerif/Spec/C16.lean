import AutoVerif.Model.C16
/-
Decidable statement of C16.  `specReport` / `specObservation` are evaluated by the
driver on what the implementation produced (oracle Ω) and on the model's output;
Props/C16 proves them of the model (`spec_report_model`, `spec_observation_model`).
-/
namespace AutoVerif.C16

/-- the observations that decode and validate, in order -/
def validOnes (attr : List (Option Obs)) : List Obs :=
  attr.filterMap fun o => match o with
    | some ob => if validObs ob then some ob else none
    | none => none

/-- block numbers of the valid observations -/
def validBlocks (attr : List (Option Obs)) : List Nat := (validOnes attr).map fun ob => decVal ob.block

/-- the block key every upkeep key of the round carries: upper median of the valid blocks -/
def medianBlock (attr : List (Option Obs)) : Bytes := decOf (median (validBlocks attr))

/-- identifiers a report may be built from: the first `ObservationUpkeepsLimit` of each valid observation -/
def candidateIds (attr : List (Option Obs)) : List Bytes :=
  (validOnes attr).flatMap fun ob => ob.ids.take Gen.v2ObservationUpkeepsLimit

/-- real (unbounded) gas of a report: Σ (gas + per-upkeep overhead) -/
def gasSum (cfg : Cfg) (perf : List Res) : Nat :=
  (perf.map fun r => r.gas.toNat + cfg.overhead.toNat).sum

def eligibleRes (r : Res) : Bool := r.eligible && !r.eligErr && !r.detailErr

/-- C16, report half.  `pend` = the coordinator's answers, `inflight` = identifiers known to be
in flight, `answered` = what the report-time check returned for `o.checked`. -/
def specReport (cfg : Cfg) (attr : List (Option Obs)) (pend : Bytes → Bool) (inflight : List Bytes)
    (answered : List Res) (o : Out) : Bool :=
  let med := medianBlock attr
  let cands := (candidateIds attr).map (mkKey med)
  let flying := inflight.map (mkKey med)
  -- the call returns
  (o.status != .panicked) &&
  -- keys: identifiers of valid observations only, keyed at the upper median of the block numbers of
  -- exactly the observations that decode AND validate (recomputed here from the inputs)
  o.checked.all (fun k => cands.contains k) &&
  -- once, not in flight, at most ten
  decide o.checked.Nodup &&
  o.checked.all (fun k => !pend k) &&
  o.checked.all (fun k => !flying.contains k) &&
  decide (o.checked.length ≤ Gen.v2ReportKeysLimit) &&
  -- report: eligible at report time, batch, gas
  o.performed.all (fun r => eligibleRes r && answered.contains r) &&
  decide (o.performed.length ≤ cfg.batch) &&
  decide (gasSum cfg o.performed ≤ cfg.gasLimit.toNat) &&
  (!decide (answered.map (·.key)).Nodup || decide (o.performed.map (·.key)).Nodup) &&
  (o.status != .report || !o.performed.isEmpty)

/-- which conjunct fails first (stable wording; used for replay files and known findings) -/
def explainReport (cfg : Cfg) (attr : List (Option Obs)) (pend : Bytes → Bool) (inflight : List Bytes)
    (answered : List Res) (o : Out) : String :=
  let med := medianBlock attr
  let cands := (candidateIds attr).map (mkKey med)
  let flying := inflight.map (mkKey med)
  if o.status == .panicked then "report: panic in Report"
  else if !o.checked.all (fun k => k.take (med.length + 1) == med ++ [124]) then
    "report: key not at the upper median of the valid observations' block numbers"
  else if !o.checked.all (fun k => cands.contains k) then
    "report: key's identifier not among the first ids of a valid observation"
  else if !decide o.checked.Nodup then "same key checked twice"
  else if !o.checked.all (fun k => !pend k) then "key the coordinator reports pending was checked"
  else if !o.checked.all (fun k => !flying.contains k) then
    "in-flight upkeep was checked"
  else if !decide (o.checked.length ≤ Gen.v2ReportKeysLimit) then "more than ReportKeysLimit keys checked"
  else if !o.performed.all (fun r => answered.contains r) then "reported result not returned by the report-time check"
  else if !o.performed.all eligibleRes then "reported upkeep was not eligible at report time"
  else if !decide (o.performed.length ≤ cfg.batch) then "report larger than batch size"
  else if !decide (gasSum cfg o.performed ≤ cfg.gasLimit.toNat) then "report over gas limit"
  else if !(!decide (answered.map (·.key)).Nodup || decide (o.performed.map (·.key)).Nodup) then
    "same upkeep key twice in one report"
  else if !(o.status != .report || !o.performed.isEmpty) then "empty report"
  else "ok"

/-- domain of the size clause: a block key of at most 20 digits (or the empty initial one) and
identifiers of at most 78 digits -/
def inDomain (st : Stager) : Bool :=
  st.block.all isDigit && decide (st.block.length ≤ 20) &&
  st.ids.all fun id => match id with
    | some b => b.all isDigit && decide (b.length ≤ 78)
    | none => false

/-- C16, observation half.  `out` = the observation bytes, `dec` = how they decode
(`none` = they do not). -/
def specObservation (st : Stager) (pend : Bytes → Bool) (out : Bytes)
    (dec : Option (Bytes × List (Option Bytes))) : Bool :=
  let allowed := (observe pend st).2
  (match dec with
   | some (b, ids) =>
     -- the block carried is the one last sampled, and every id was sampled eligible AT THAT BLOCK
     -- (`allowed` ⊆ the identifiers staged from the head with block `st.block`) and is not in flight
     b == st.block &&
     decide (ids.length ≤ Gen.v2ObservationUpkeepsLimit) && ids.all fun id => allowed.contains id
   | none => true) &&
  (!inDomain st ||
    (decide (out.length ≤ Gen.v2MaxObservationLength) && dec.isSome && decodeObs out == dec))

/-- the bytes handed to libocr stay what they were: `later` = the very slice `Observation` returned,
read again after further calls on this or any other instance in the process -/
def specRetained (out later : Bytes) : Bool := out == later

def explainObservation (st : Stager) (pend : Bytes → Bool) (out : Bytes)
    (dec : Option (Bytes × List (Option Bytes))) : String :=
  let allowed := (observe pend st).2
  match dec with
  | some (b, ids) =>
    if !(b == st.block) then "observation: carries a block other than the one last sampled"
    else if !decide (ids.length ≤ Gen.v2ObservationUpkeepsLimit) then "observation lists more than ObservationUpkeepsLimit ids"
    else if !(ids.all fun id => st.ids.contains id) then
      "observation: id was not sampled eligible at the block the observation carries"
    else if !(ids.all fun id => allowed.contains id) then "observation: id is in flight"
    else if !inDomain st then "ok"
    else if !decide (out.length ≤ Gen.v2MaxObservationLength) then "observation longer than MaxObservationLength"
    else if !(decodeObs out == dec) then "strict decoder and encoding/json disagree"
    else "ok"
  | none => if inDomain st then "observation does not decode" else "ok"

end AutoVerif.C16
