import AutoVerif.Model.C17
/-
Decidable statement of C17, in plain numbers, about a *history* (not about the
caches): what has been accepted, which accepted keys have had a log, and per
upkeep id the contributions `(check block, released-up-to)` — the state the
property talks about is their lexicographic maximum.

The statement is made for histories whose block keys are canonical numerals
(what `BasicEncoder.ValidateBlockKey` enforces on every key that reaches a
report) and that lie inside one lockout window (`regime`); outside it only the
correspondence model = implementation is compared.
-/
namespace AutoVerif.C17

/-- `s` is the canonical decimal numeral of a natural number -/
def isCanon (s : Str) : Bool :=
  match parseBig s with
  | some (.ofNat n) => s == renderNat n
  | _ => false

/-- numeric value of a (canonical) block key -/
def num (s : Str) : Nat :=
  match parseBig s with
  | some x => x.toNat
  | none => 0

def two64 : Nat := 18446744073709551616

/-- per-id blocking state in numbers: `upto = 0` blocks indefinitely, `upto = t + 1`
    blocks check blocks `≤ t` (`t` = transmit block of a perform, check block + 1 of a stale report) -/
structure NB where
  check : Nat
  upto  : Nat
deriving DecidableEq, Repr

/-- a transmit block as `upto`; the numeral of 2^64 *is* the indefinite key -/
def rankOf (t : Nat) : Nat := if t = two64 then 0 else t + 1

/-- strict lexicographic order: check block, then released-up-to with indefinite lowest -/
def NB.lt (a b : NB) : Bool := decide (a.check < b.check ∨ (a.check = b.check ∧ a.upto < b.upto))

/-- maximum (`a` stored, `b` arriving) -/
def NB.join (a b : NB) : NB := if a.lt b then b else a

/-- maximum of all contributions (newest first) -/
def joinAll : List NB → Option NB
  | [] => none
  | x :: l => match joinAll l with
    | none => some x
    | some a => some (a.join x)

/-- what a history has shown so far -/
structure Ghost where
  accepted : List Str          -- keys accepted
  logged   : List Str          -- accepted keys for which a sufficiently confirmed log was processed afterwards
  contribs : List (Str × NB)   -- (upkeep id, contribution), newest first
deriving Repr

def Ghost.init : Ghost := { accepted := [], logged := [], contribs := [] }

/-- a log that passes its own checks: `(key, id, contribution)` -/
def logContrib (cfg : Cfg) : Op → Option (Str × Str × NB)
  | .accept _ => none
  | .perform l =>
    if l.confs < cfg.minConfs then none
    else match splitUpkeepKey l.key with
      | none => none
      | some (c, id) => some (l.key, id, { check := num c, upto := rankOf (num l.transmit) })
  | .stale l =>
    if l.confs < cfg.minConfs then none
    else match splitUpkeepKey l.key with
      | none => none
      | some (c, id) =>
        match parseBig c with
        | none => none
        | some _ => some (l.key, id, { check := num c, upto := rankOf (num c + 1) })

/-- a log counts only for a key accepted before it -/
def Ghost.addLog (cfg : Cfg) (g : Ghost) (op : Op) : Ghost :=
  match logContrib cfg op with
  | none => g
  | some (k, id, x) =>
    if k ∈ g.accepted then { g with logged := k :: g.logged, contribs := (id, x) :: g.contribs } else g

def Ghost.step (cfg : Cfg) (g : Ghost) : Op → Ghost
  | .accept k =>
    match splitUpkeepKey k with
    | none => g
    | some (c, id) => { g with accepted := k :: g.accepted, contribs := (id, { check := num c, upto := 0 }) :: g.contribs }
  | .perform l => g.addLog cfg (.perform l)
  | .stale l => g.addLog cfg (.stale l)

def ghostFrom (cfg : Cfg) (g : Ghost) : List Op → Ghost
  | [] => g
  | op :: h => ghostFrom cfg (g.step cfg op) h

def ghost (cfg : Cfg) (h : List Op) : Ghost := ghostFrom cfg Ghost.init h

/-- contributions for one upkeep id -/
def Ghost.forId (g : Ghost) (id : Str) : List NB := (g.contribs.filter (fun p => p.1 = id)).map (·.2)

/-- the blocking state the history prescribes for `id` -/
def Ghost.block (g : Ghost) (id : Str) : Option NB := joinAll (g.forId id)

/-- does block `blk` stay filtered under `nb`?  (`IsPending` compares with the numeral 2^64 when indefinite) -/
def pendingN (nb : NB) (blk : Nat) : Bool :=
  if nb.upto = 0 then decide (blk ≤ two64) else decide (blk < nb.upto)

/-- expected `IsPending(key)`: `(pending, error)` -/
def expPending (g : Ghost) (key : Str) : Bool × Bool :=
  match splitUpkeepKey key with
  | none => (true, true)
  | some (b, id) =>
    match g.block id with
    | none => (false, false)
    | some nb => (pendingN nb (num b), false)

/-- expected `IsTransmissionConfirmed(key)`: unconfirmed exactly while accepted and no log seen -/
def expConfirmed (g : Ghost) (key : Str) : Bool := !(decide (key ∈ g.accepted)) || decide (key ∈ g.logged)

/-! ### the regime of the statement -/

/-- block keys of an operation are canonical numerals (whenever its key splits) -/
def opCanon : Op → Bool
  | .accept k => match splitUpkeepKey k with
    | none => true
    | some (c, _) => isCanon c
  | .perform l => match splitUpkeepKey l.key with
    | none => true
    | some (c, _) => isCanon c && isCanon l.transmit
  | .stale l => match splitUpkeepKey l.key with
    | none => true
    | some (c, _) => isCanon c

def probeCanon (key : Str) : Bool :=
  match splitUpkeepKey key with
  | none => true
  | some (b, _) => isCanon b

/-- the shorter of the two cache lifetimes -/
def Cfg.horizon (cfg : Cfg) : Nat := min cfg.window activeTtlNs

/-- every operation and the probe happen within one lockout window of `t0` -/
def inWindow (cfg : Cfg) (t0 : Nat) (h : List (Nat × Op)) (now : Nat) : Bool :=
  h.all (fun p => decide (t0 ≤ p.1) && decide (p.1 ≤ t0 + cfg.horizon)) && decide (now ≤ t0 + cfg.horizon)

def minTime : List (Nat × Op) → Nat → Nat
  | [], d => d
  | p :: h, d => min p.1 (minTime h d)

def regime (cfg : Cfg) (h : List (Nat × Op)) (now : Nat) (probes : List Str) : Bool :=
  h.all (fun p => opCanon p.2) && probes.all probeCanon && inWindow cfg (minTime h now) h now

/-- the proviso of the order-independence clause: a key's accept precedes its logs
    (`all` = keys accepted anywhere in the history, `acc` = accepted so far) -/
def acceptFirstFrom (all acc : List Str) : List Op → Bool
  | [] => true
  | .accept k :: h => acceptFirstFrom all (k :: acc) h
  | .perform l :: h => (decide (l.key ∈ acc) || !decide (l.key ∈ all)) && acceptFirstFrom all acc h
  | .stale l :: h => (decide (l.key ∈ acc) || !decide (l.key ∈ all)) && acceptFirstFrom all acc h

def acceptedKeys : List Op → List Str
  | [] => []
  | .accept k :: h => k :: acceptedKeys h
  | _ :: h => acceptedKeys h

def acceptFirst (h : List Op) : Bool := acceptFirstFrom (acceptedKeys h) [] h

/-! ### observations and the predicate -/

/-- answers at one probe point -/
structure Obs where
  pending   : List (Bool × Bool)   -- `IsPending` per probe key: (pending, error)
  confirmed : List Bool            -- `IsTransmissionConfirmed` per key
deriving DecidableEq, Repr

/-- one execution of (a permutation of) the history: timed operations and probe points
    `(n, now)` = "after the first `n` operations, at time `now`" -/
structure Run where
  ops    : List (Nat × Op)
  points : List (Nat × Nat)
deriving Repr

/-- the model's answers -/
def observe (cfg : Cfg) (probes ckeys : List Str) (h : List (Nat × Op)) (now : Nat) : Obs :=
  let s := run cfg State.init h
  { pending := probes.map (isPending s now), confirmed := ckeys.map (isConfirmed s now) }

def modelRun (cfg : Cfg) (probes ckeys : List Str) (r : Run) : List Obs :=
  r.points.map fun p => observe cfg probes ckeys (r.ops.take p.1) p.2

/-- what the property prescribes at a probe point -/
def expected (cfg : Cfg) (probes ckeys : List Str) (h : List (Nat × Op)) : Obs :=
  let g := ghost cfg (h.map (·.2))
  { pending := probes.map (expPending g), confirmed := ckeys.map (expConfirmed g) }

/-! ### a second window: the lockout of everything before a long pause has run out

"… until a log arrives OR the lockout expires": the two events in the other order.  If every operation before a pause
is more than one lockout window older than the first operation after it, the id blocks start afresh after the pause
(while the keys stay active for their hour): a log that arrives only now is applied to the expired id. -/

def opFreeB (pa pl : List Str) : Op → Bool
  | .accept k => !decide (k ∈ pa)
  | .perform l => !decide (l.key ∈ pl)
  | .stale l => !decide (l.key ∈ pl)

def pauseBefore (w : Nat) (pre recent : List (Nat × Op)) : Bool :=
  match recent with
  | [] => false
  | r :: _ => pre.all fun p => decide (p.1 + w < r.1)

/-- the latest pause longer than the window: `(before, after)` -/
def lateSplitFrom (w : Nat) (h : List (Nat × Op)) : Nat → Option (List (Nat × Op) × List (Nat × Op))
  | 0 => none
  | i + 1 => if pauseBefore w (h.take (i + 1)) (h.drop (i + 1)) then some (h.take (i + 1), h.drop (i + 1))
             else lateSplitFrom w h i

def lateSplit (w : Nat) (h : List (Nat × Op)) : Option (List (Nat × Op) × List (Nat × Op)) :=
  lateSplitFrom w h (h.length - 1)

/-- what the history shows for the window after the pause: accepted / logged keys of the whole history, contributions
    of the operations after the pause only -/
def ghostLate (cfg : Cfg) (pre recent : List (Nat × Op)) : Ghost :=
  ghostFrom cfg { ghost cfg (pre.map (·.2)) with contribs := [] } (recent.map (·.2))

/-- canonical keys; `pre` inside one window; `recent` and the probe inside the next one; all within the hour an
    accepted key stays active; after the pause no key accepted before it is accepted again and no key that already had
    a log gets another one -/
def lateRegime (cfg : Cfg) (pre recent : List (Nat × Op)) (now : Nat) (probes : List Str) : Bool :=
  match recent with
  | [] => false
  | r :: _ =>
    let t0 := minTime pre now
    let tr0 := r.1
    let g := ghost cfg (pre.map (·.2))
    pre.all (fun p => opCanon p.2) && recent.all (fun p => opCanon p.2) && probes.all probeCanon &&
    pre.all (fun p => decide (t0 ≤ p.1) && decide (p.1 ≤ t0 + cfg.window) && decide (p.1 + cfg.window < tr0)) &&
    recent.all (fun p => decide (tr0 ≤ p.1) && decide (p.1 ≤ tr0 + cfg.window) && decide (p.1 ≤ t0 + activeTtlNs) &&
      opFreeB g.accepted g.logged p.2) &&
    decide (t0 ≤ tr0) && decide (tr0 ≤ now) && decide (now ≤ tr0 + cfg.window) && decide (now ≤ t0 + activeTtlNs)

def expectedLate (cfg : Cfg) (probes ckeys : List Str) (pre recent : List (Nat × Op)) : Obs :=
  let g := ghostLate cfg pre recent
  { pending := probes.map (expPending g), confirmed := ckeys.map (expConfirmed g) }

def lateOk (cfg : Cfg) (probes ckeys : List Str) (h : List (Nat × Op)) (now : Nat) (o : Obs) : Bool :=
  match lateSplit cfg.window h with
  | none => true
  | some (pre, recent) => !lateRegime cfg pre recent now probes || decide (o = expectedLate cfg probes ckeys pre recent)

/-! ### several windows: every change of an upkeep's blocking state starts its lockout afresh

"… filtered until a log arrives or the lockout expires": the lockout that counts is the one of the blocking state
in force.  The coordinator rewrites an upkeep's lock on every event that changes it (the accept of a newer check block,
the first log of the in-flight key, a re-orged perform), and each rewrite renews the deadline.  So a history may span
any number of lockout windows: as long as no lock had run out when something happened, the blocking state of an id is
still the join of ALL its contributions, and it stays in force for one whole window after its LAST change — not after
its first. -/

/-- the upkeep id an operation is about -/
def opId : Op → Option Str
  | .accept k => (splitUpkeepKey k).map (·.2)
  | .perform l => (splitUpkeepKey l.key).map (·.2)
  | .stale l => (splitUpkeepKey l.key).map (·.2)

/-- `id ↦ time` (first binding counts) -/
def sinceOf : List (Str × Nat) → Str → Option Nat
  | [], _ => none
  | (k', r) :: l, k => if k' = k then some r else sinceOf l k

def setSince (l : List (Str × Nat)) (id : Str) (t : Nat) : List (Str × Nat) :=
  (id, t) :: l.filter (fun p => p.1 ≠ id)

/-- the ghost of a timed history and, per upkeep id blocked so far, the time at which the blocking state the history
    prescribes for it changed last (the lock started, or was raised to a higher (check block, released-up-to)) -/
structure TGhost where
  g     : Ghost
  since : List (Str × Nat)
deriving Repr

def TGhost.init : TGhost := { g := Ghost.init, since := [] }

/-- at time `t` no lock has run out: every id blocked so far changed last at most one window ago -/
def TGhost.liveAt (w : Nat) (tg : TGhost) (t : Nat) : Bool :=
  tg.since.all fun p => decide (p.2 ≤ t) && decide (t ≤ p.2 + w)

def TGhost.step (cfg : Cfg) (tg : TGhost) (t : Nat) (op : Op) : TGhost :=
  let g' := tg.g.step cfg op
  { g := g'
    since := match opId op with
      | none => tg.since
      | some id => if g'.block id = tg.g.block id then tg.since else setSince tg.since id t }

/-- `none`: some lock had run out when an operation was processed (outside the statement) -/
def tghostFrom (cfg : Cfg) (tg : TGhost) : List (Nat × Op) → Option TGhost
  | [] => some tg
  | (t, op) :: h => if tg.liveAt cfg.window t then tghostFrom cfg (tg.step cfg t op) h else none

/-- canonical keys, everything within the hour an accepted key stays active, and no lock had run out when an
    operation was processed -/
def liveRegime (cfg : Cfg) (h : List (Nat × Op)) (now : Nat) (probes : List Str) : Option TGhost :=
  let t0 := minTime h now
  if h.all (fun p => opCanon p.2) && probes.all probeCanon &&
      h.all (fun p => decide (t0 ≤ p.1) && decide (p.1 ≤ t0 + activeTtlNs)) && decide (now ≤ t0 + activeTtlNs)
  then tghostFrom cfg TGhost.init h else none

/-- the probe's id was never blocked, or its blocking state changed last at most one window before `now` -/
def probeLive (w : Nat) (tg : TGhost) (now : Nat) (key : Str) : Bool :=
  match splitUpkeepKey key with
  | none => true
  | some (_, id) =>
    match sinceOf tg.since id with
    | some r => decide (now ≤ r + w)
    | none => true

/-- the answers for the probes whose lock (if any) is still running -/
def maskLive (w : Nat) (tg : TGhost) (now : Nat) (probes : List Str) (ans : List (Bool × Bool)) :
    List (Option (Bool × Bool)) :=
  List.zipWith (fun k a => if probeLive w tg now k then some a else none) probes ans

def liveOk (cfg : Cfg) (probes ckeys : List Str) (h : List (Nat × Op)) (now : Nat) (o : Obs) : Bool :=
  match liveRegime cfg h now probes with
  | none => true
  | some tg =>
    let e := expected cfg probes ckeys h
    decide (o.confirmed = e.confirmed) && decide (o.pending.length = probes.length) &&
      decide (maskLive cfg.window tg now probes o.pending = maskLive cfg.window tg now probes e.pending)

def pointOk (cfg : Cfg) (probes ckeys : List Str) (r : Run) (p : Nat × Nat) (o : Obs) : Bool :=
  let h := r.ops.take p.1
  (!regime cfg h p.2 probes || decide (o = expected cfg probes ckeys h)) && lateOk cfg probes ckeys h p.2 o &&
    liveOk cfg probes ckeys h p.2 o

def zipAll {α β} (f : α → β → Bool) : List α → List β → Bool
  | [], [] => true
  | a :: as, b :: bs => f a b && zipAll f as bs
  | _, _ => false

def runOk (cfg : Cfg) (probes ckeys : List Str) (r : Run) (out : List Obs) : Bool :=
  zipAll (pointOk cfg probes ckeys r) r.points out

/-- the final probe point of a run is `(all ops, now)` -/
def finalPoint (r : Run) : Option Nat :=
  match r.points.getLast? with
  | some (n, now) => if n = r.ops.length then some now else none
  | none => none

/-- is the order-independence clause applicable to this run's final observation? -/
def orderApplies (cfg : Cfg) (probes : List Str) (r : Run) : Bool :=
  match finalPoint r with
  | some now => regime cfg r.ops now probes && acceptFirst (r.ops.map (·.2))
  | none => false

/-- two executions of permutations of one history end with the same answers -/
def pairOk (cfg : Cfg) (probes : List Str) (r₁ r₂ : Run) (o₁ o₂ : List Obs) : Bool :=
  !(orderApplies cfg probes r₁ && orderApplies cfg probes r₂ &&
      (r₁.ops.map (·.2)).isPerm (r₂.ops.map (·.2))) ||
    decide (o₁.getLast? = o₂.getLast?)

def crossOk (cfg : Cfg) (probes : List Str) : List Run → List (List Obs) → Bool
  | r :: rs, o :: os => zipAll (fun r' o' => pairOk cfg probes r r' o o') rs os
  | [], [] => true
  | _, _ => false

/-- C17 on the outputs of all executions of one case -/
def spec (cfg : Cfg) (probes ckeys : List Str) (runs : List Run) (outs : List (List Obs)) : Bool :=
  zipAll (runOk cfg probes ckeys) runs outs && crossOk cfg probes runs outs

/-! ### which conjunct fails (stable wording) -/

def explainProbe (g : Ghost) (key : Str) (got : Bool × Bool) : String :=
  match splitUpkeepKey key with
  | none => "IsPending on an unparsable key did not return (true, error)"
  | some (b, id) =>
    if got.2 then "IsPending returned an error for a canonical key" else
    match g.block id with
    | none => "pending_until_log: id never accepted but reported pending"
    | some nb =>
      if nb.upto = 0 then "pending_until_log: accepted id not pending although no log for its latest check block was seen"
      else if got.1 then "unblock: id still pending for a check block after the unblocking log (perform: > transmit block; stale: > check block + 1)"
      else if decide (num b < nb.upto) then "lockout released early: id not pending at or below the unblocking boundary"
      else "unblock: boundary mismatch"

def explainObs (cfg : Cfg) (probes ckeys : List Str) (h : List (Nat × Op)) (o : Obs) : String :=
  let g := ghost cfg (h.map (·.2))
  let e := expected cfg probes ckeys h
  if o.confirmed ≠ e.confirmed then "unconfirmed_iff_no_log: IsTransmissionConfirmed differs from (not accepted or log seen)"
  else if o.pending.length ≠ probes.length then "wrong number of probe answers"
  else
    match (probes.zip (o.pending.zip e.pending)).find? (fun t => t.2.1 ≠ t.2.2) with
    | some t => explainProbe g t.1 t.2.1
    | none => "ok"

def explainLive (cfg : Cfg) (probes ckeys : List Str) (h : List (Nat × Op)) (now : Nat) (o : Obs) : String :=
  match liveRegime cfg h now probes with
  | none => "ok"
  | some tg =>
    let g := ghost cfg (h.map (·.2))
    let e := expected cfg probes ckeys h
    if o.confirmed ≠ e.confirmed then "unconfirmed_iff_no_log (several windows): IsTransmissionConfirmed differs from (not accepted or log seen)"
    else if o.pending.length ≠ probes.length then "wrong number of probe answers"
    else
      match (probes.zip (o.pending.zip e.pending)).find? (fun t => probeLive cfg.window tg now t.1 && t.2.1 != t.2.2) with
      | some t =>
        if t.2.2.1 && !t.2.1.1 then
          "lockout_renewed: id not filtered although its blocking state changed last less than one lockout window ago (the lockout counts from the last change, not from the first write)"
        else "lockout_renewed: " ++ explainProbe g t.1 t.2.1
      | none => "ok"

def explainRun (cfg : Cfg) (probes ckeys : List Str) (r : Run) (out : List Obs) : Option String :=
  match (r.points.zip out).find? (fun po => !pointOk cfg probes ckeys r po.1 po.2) with
  | some (p, o) =>
    if !lateOk cfg probes ckeys (r.ops.take p.1) p.2 o then
      some "late log: after the lockout ran out, the answers differ from (logs since the pause applied to the expired ids; keys still active)"
    else if !(!regime cfg (r.ops.take p.1) p.2 probes || decide (o = expected cfg probes ckeys (r.ops.take p.1))) then
      some (explainObs cfg probes ckeys (r.ops.take p.1) o)
    else some (explainLive cfg probes ckeys (r.ops.take p.1) p.2 o)
  | none => if r.points.length ≠ out.length then some "wrong number of observations" else none

def explain (cfg : Cfg) (probes ckeys : List Str) (runs : List Run) (outs : List (List Obs)) : String :=
  if runs.length ≠ outs.length then "wrong number of runs" else
  match (runs.zip outs).findSome? (fun ro => explainRun cfg probes ckeys ro.1 ro.2) with
  | some s => s
  | none =>
    if !crossOk cfg probes runs outs then
      "order_independent: two admissible orderings of one history end in different IsPending / IsTransmissionConfirmed answers"
    else "ok"

end AutoVerif.C17
