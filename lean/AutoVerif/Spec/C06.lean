import AutoVerif.Model.C06
/-
Decidable statement of C06 over the *log of a history* (`List LogE`, newest
first).  The log records every `Accept` with its answer and every event handed
to the event loop with what the loop did with it (`Disp`).

Reading of "has not yet seen a sufficiently confirmed transmit event for it":
an event counts as *seen* when it was **processed while a record for the work
id existed** (`Disp.processed`: it had enough confirmations, was not yet marked
visited and found a live record).  Events that arrive before the first
acceptance (`Disp.unknown`) are deliberately not marked visited by the code, so
they are processed when the provider reports them again after the acceptance;
an event the provider never repeats is not "seen" in this sense.  This is the
weaker of the two possible readings; Props/C06 `visited_masks_old_event` shows
the stronger reading fails for `Disp.old` events.

The driver evaluates these predicates on the implementation's answers (oracle
Ω): `Accept`/`ShouldTransmit` answers come from the real coordinator, the
dispositions of events (not observable through the API) from the model run.
-/
namespace AutoVerif.C06

/-- `Expires` written by a `Set` with the default expiration at time `t` -/
def expOf (cfg : Cfg) (t : Nat) : Nat := if cfg.window > 0 then t + cfg.window else 0

/-- something written at `t` is inside its lockout window at `now` -/
def liveAt (cfg : Cfg) (t now : Nat) : Bool := !expired (expOf cfg t) now

/-- newest record write for `w` since the last restart: the record written and when -/
def lastWrite (w : String) : List LogE → Option (Rec × Nat)
  | [] => none
  | .restart :: _ => none
  | .accept t w' b ok :: rest =>
    if w' = w ∧ ok = true then some (acceptRec b, t) else lastWrite w rest
  | .event t e d :: rest =>
    if e.workID = w ∧ d.updating = true then some (eventRec e, t) else lastWrite w rest

/-- the latest thing known about `w` at `now` (none: never accepted, forgotten by a restart, or expired) -/
def known (cfg : Cfg) (log : List LogE) (now : Nat) (w : String) : Option Rec :=
  match lastWrite w log with
  | some (r, t) => if liveAt cfg t now then some r else none
  | none => none

/-- Scan back from now: the time of the successful `Accept(w, b)` such that since
    then there was no restart, no other successful accept of `w`, and no processed
    event for `w` with check block `≥ b`.  `none` if there is no such accept. -/
def awaited (w : String) (b : Nat) : List LogE → Option Nat
  | [] => none
  | .restart :: _ => none
  | .accept t w' b' ok :: rest =>
    if w' = w ∧ ok = true then (if b' = b then some t else none)
    else awaited w b rest
  | .event _ e d :: rest =>
    if e.workID = w ∧ d.processed = true ∧ e.checkBlock ≥ b then none else awaited w b rest

/-- a log entry that does not disturb a standing acceptance of `(w, b)`:
    not a restart, not a successful accept of `w`, not a processed event for `(w, ≥ b)` -/
def Quiet (w : String) (b : Nat) : LogE → Prop
  | .restart => False
  | .accept _ w' _ ok => ¬ (w' = w ∧ ok = true)
  | .event _ e d => ¬ (e.workID = w ∧ d.processed = true ∧ e.checkBlock ≥ b)

/-- record writes for `w` since the last restart: (time, check block, by `Accept`?) -/
def writes (w : String) : List LogE → List (Nat × Nat × Bool)
  | [] => []
  | .restart :: _ => []
  | .accept t w' b ok :: rest =>
    if w' = w ∧ ok = true then (t, b, true) :: writes w rest else writes w rest
  | .event t e d :: rest =>
    if e.workID = w ∧ d.updating = true then (t, e.checkBlock, false) :: writes w rest else writes w rest

/-- no record-rewriting event for `(w, ≥ b)` is inside its window at `now` (anywhere since the restart) -/
def noLiveEvent (cfg : Cfg) (log : List LogE) (now : Nat) (w : String) (b : Nat) : Bool :=
  (writes w log).all fun (t, x, byAccept) => byAccept || !liveAt cfg t now || decide (x < b)

/-- C06, transmit clause: `ShouldTransmit(w, b) = true` is allowed only if this holds -/
def transmitOk (cfg : Cfg) (log : List LogE) (now : Nat) (w : String) (b : Nat) : Bool :=
  (match awaited w b log with
   | some t => liveAt cfg t now
   | none => false) && noLiveEvent cfg log now w b

/-- C06, accept clause: a successful `Accept(w, b)` at `now` is allowed only if every
    write for `w` that is still inside its window carries a check block `≤ b`
    (`strict`: `< b`, which is what the code guarantees), and strictly below `b` for
    event writes (a processed event for `≥ b` must not be forgotten by re-accepting). -/
def acceptOk (strict : Bool) (cfg : Cfg) (log : List LogE) (now : Nat) (w : String) (b : Nat) : Bool :=
  (writes w log).all fun (t, x, byAccept) =>
    !liveAt cfg t now || decide (x < b) || (byAccept && !strict && decide (x = b))

/-- which conjunct of the transmit clause fails (stable wording) -/
def explainTransmit (cfg : Cfg) (log : List LogE) (now : Nat) (w : String) (b : Nat) : String :=
  match awaited w b log with
  | none => "transmit offered without a standing acceptance of exactly this check block (never accepted, restarted, superseded by another acceptance, or a confirmed transmit event for this or a higher check block was processed since)"
  | some t =>
    if !liveAt cfg t now then "transmit offered after the lockout window of the acceptance expired"
    else if !noLiveEvent cfg log now w b then "transmit offered although a processed transmit event for this or a higher check block is inside its lockout window"
    else "ok"

def explainAccept (cfg : Cfg) (log : List LogE) (now : Nat) (w : String) (b : Nat) : String :=
  if acceptOk false cfg log now w b then "ok"
  else "accept moved the awaited check block backwards (or re-armed a confirmed one) inside the lockout window"

/-! ### acceptance racing the event loop: linearisability

An *episode*: a state `s0`, thread programs `progs` (thread 0: the events of one provider
answer that concern the work id, in answer order; the others: `Accept` calls issued while that
answer is processed) and, once all of them have returned, probes on the final state.  What
the harness can see of an episode for one work id is a `RaceObs`.  The clause "event polling
racing with acceptance" of C06 is read as: **the observation is one that some sequential
order of the episode's operations produces** (thread program order kept).  Nothing else is
assumed: if the operations do not commute, every order's outcome is allowed. -/

structure RaceObs where
  answers  : List (List Bool)   -- per thread: the answers of its `Accept`s in program order
  transmit : List Bool          -- `ShouldTransmit(w, b)` for the probe blocks
  process  : List Bool          -- `ShouldProcess(w, uid, b)` for the probe blocks
  reaccept : List Bool          -- then `Accept(w, b)` for the probe blocks, in order
deriving DecidableEq, Repr

structure Probes where
  transmit : List Nat
  process  : List Nat
  reaccept : List Nat
deriving Repr

/-- `Accept(w, b)` for each probe block in order: the answers -/
def reaccepts (cfg : Cfg) : St → String → List Nat → List Bool
  | _, _, [] => []
  | s, w, b :: bs => (accept cfg s w b).2 :: reaccepts cfg (accept cfg s w b).1 w bs

/-- what is observed of final state `r.1` and tagged answers `r.2` -/
def observe (cfg : Cfg) (utype : String → UpkeepType) (nthreads : Nat) (w uid : String) (pr : Probes)
    (r : St × List (Nat × Bool)) : RaceObs :=
  { answers := (List.range nthreads).map fun i => (r.2.filter fun p => decide (p.1 = i)).map (·.2),
    transmit := pr.transmit.map (shouldTransmit r.1 w),
    process := pr.process.map (shouldProcess utype r.1 w uid),
    reaccept := reaccepts cfg r.1 w pr.reaccept }

/-- the observations of all sequential orders of the episode -/
def linOutcomes (cfg : Cfg) (utype : String → UpkeepType) (s0 : St) (progs : List (List Job)) (w uid : String)
    (pr : Probes) : List RaceObs :=
  (merges (totalJobs progs) progs).map fun ord => observe cfg utype progs.length w uid pr (runTagged cfg s0 ord)

/-- C06, race clause: the observation is the one of some sequential order -/
def linOk (cfg : Cfg) (utype : String → UpkeepType) (s0 : St) (progs : List (List Job)) (w uid : String)
    (pr : Probes) (o : RaceObs) : Bool :=
  (linOutcomes cfg utype s0 progs w uid pr).contains o

end AutoVerif.C06
