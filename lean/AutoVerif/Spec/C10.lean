import AutoVerif.Model.C10
/-
Decidable statement of C10 over a recorded history (atomic events, each with
its clock reading; `view` events carry what the call returned).  The driver
evaluates it on the implementation's views; Props/C10 proves it of every
history whose views the model allows (`conforms_spec`).

The predicate speaks about events and views only — never about the model's
store — so it is an independent reading of the property:

* `nodup`  a view holds at most one result per work id;
* `sound`  every viewed result `r` was handed in by an `add r` event that is
           (i) not followed, up to the view, by a removal of its work id or an
           add for its work id with a strictly higher check block and (ii) not
           older than the TTL at the time of the view
           — "never a removed or expired one", and nothing invented;
* `kept`   a result seen in a view is in every later view until a removal of
           its work id, an add with a strictly higher check block, or the TTL
           (counted from the oldest add that can account for it) — adds with a
           lower or equal check block in between do not release the obligation:
           "kept until agreed, replaced only by newer".

Reading of "handed to the staging store" (DESIGN §7 C10, the weaker reading):
an add takes effect iff no entry for the work id is stored or the stored one
has a strictly lower check block; the obligation `kept` starts from a result
that *is stored* (witnessed by a view).  The stronger reading — every add is
either visible or dominated by a visible result while young enough — is
`handedStrong`; the code does not satisfy it (Props/C10
`handedStrong_fails`), the driver reports it as a tag, not as a failure.
-/
namespace AutoVerif.C10

/-- the event removes work id `w` -/
def removes (w : String) : Ev → Bool
  | .remove _ id => id == w
  | _ => false

/-- the event adds a result for `w` with a check block strictly above `b` -/
def addsHigher (w : String) (b : Nat) : Ev → Bool
  | .add _ r => r.workID == w && decide (b < blk r)
  | _ => false

/-- the event neither removes `w` nor replaces a stored result of block `b` -/
def clean (w : String) (b : Nat) (e : Ev) : Bool := !removes w e && !addsHigher w b e

/-- time of the event if it is `add r` -/
def addTime (r : CheckResult) : Ev → Option Nat
  | .add t r' => if r' = r then some t else none
  | _ => none

/-- clock readings of the `add r` events that can account for `r` being stored now:
those after the last removal / higher add.  `revPre` is the history so far, newest first. -/
def candTimes (r : CheckResult) (revPre : List Ev) : List Nat :=
  (revPre.takeWhile (clean r.workID (blk r))).filterMap (addTime r)

/-- not past the TTL: the negation of `time.Since(addedAt) > ttl` -/
def fresh (ttl t ta : Nat) : Bool := decide (t - ta ≤ ttl)

def viewNodup (out : List CheckResult) : Bool := decide ((out.map (·.workID)).Nodup)

def viewSound (ttl : Nat) (revPre : List Ev) (t : Nat) (out : List CheckResult) : Bool :=
  out.all (fun r => (candTimes r revPre).any (fresh ttl t))

/-- `r` was in a view; `cands` are the add times that can account for it; walk forward -/
def keptFwd (ttl : Nat) (r : CheckResult) (cands : List Nat) : List Ev → Bool
  | [] => true
  | e :: rest =>
    if clean r.workID (blk r) e then
      (match e with
       | .view t out => !cands.all (fresh ttl t) || out.contains r
       | _ => true) && keptFwd ttl r cands rest
    else true

def viewOk (ttl : Nat) (revPre : List Ev) (t : Nat) (out : List CheckResult) (rest : List Ev) : Bool :=
  viewNodup out && viewSound ttl revPre t out &&
  out.all (fun r => keptFwd ttl r (candTimes r revPre) rest)

def specGo (ttl : Nat) : List Ev → List Ev → Bool
  | _, [] => true
  | revPre, e :: rest =>
    (match e with
     | .view t out => viewOk ttl revPre t out rest
     | _ => true) && specGo ttl (e :: revPre) rest

/-- C10 on a recorded history -/
def spec (ttl : Nat) (evs : List Ev) : Bool := specGo ttl [] evs

/-- which conjunct fails first (stable wording; used to match known findings) -/
def explainGo (ttl : Nat) : List Ev → List Ev → String
  | _, [] => "ok"
  | revPre, e :: rest =>
    match e with
    | .view t out =>
      if !viewNodup out then "view holds two results for one work id"
      else if !viewSound ttl revPre t out then
        (if out.any (fun r => (candTimes r revPre).isEmpty) then
           "view holds a removed, replaced or never added result"
         else "view holds an expired result")
      else if !out.all (fun r => keptFwd ttl r (candTimes r revPre) rest) then
        "stored result missing from a later view before removal, expiry or a higher check block"
      else explainGo ttl (e :: revPre) rest
    | _ => explainGo ttl (e :: revPre) rest

def explain (ttl : Nat) (evs : List Ev) : String := explainGo ttl [] evs

/-! ### the stronger reading of "handed to the store" (reported, not required) -/

/-- after `add r` at `ta`: every later view, while no removal / higher add intervenes and
`r` is younger than the TTL, shows `r` or a result of the same work id with a check block at
least as high -/
def handedFwd (ttl : Nat) (r : CheckResult) (ta : Nat) : List Ev → Bool
  | [] => true
  | e :: rest =>
    if clean r.workID (blk r) e then
      (match e with
       | .view t out => !fresh ttl t ta ||
           out.any (fun r' => r'.workID == r.workID && decide (blk r ≤ blk r'))
       | _ => true) && handedFwd ttl r ta rest
    else true

def handedStrong (ttl : Nat) : List Ev → Bool
  | [] => true
  | e :: rest =>
    (match e with
     | .add ta r => handedFwd ttl r ta rest
     | _ => true) && handedStrong ttl rest

end AutoVerif.C10
