import AutoVerif.Model.C10
/-
Decidable statement of C10 over a recorded history (atomic events, each with
its clock reading; `view` events carry what the call returned).  The driver
evaluates it on the implementation's views; Props/C10 proves it of every
history whose views the model allows (`conforms_spec`).

The predicate speaks about events and views only — never about the model's
store — so it is an independent reading of the property:

* `nodup`  a view holds at most one result per work id;
* `sound`  every viewed result `r` was handed in by an `add r` event that is
           (i) not followed, up to the view, by a removal of its work id or an
           add for its work id with a strictly higher check block and (ii) not
           older than the TTL at the time of the view
           — "never a removed or expired one", and nothing invented;
* `kept`   a result seen in a view is in every later view until a removal of
           its work id, an add with a strictly higher check block, or the TTL
           (counted from the oldest add that can account for it) — adds with a
           lower or equal check block in between do not release the obligation:
           "kept until agreed, replaced only by newer".

* `handed` every `add r` at `ta` takes effect or is dominated: each later view — until a
           removal of the work id, an add with a strictly higher check block, or `r`'s TTL —
           shows `r` or a result of the same work id with a check block at least as high,
           unless an entry with such a block was handed in earlier, was still *live* (not past
           its TTL) at `ta`, could still be the stored one (`domTimes`), and has itself outlived
           the TTL by the time of the view.  This is the first clause of C10 at full strength
           for the code after `fix: result store: an expired, not yet collected entry no longer
           blocks a new result`; the pinned tree violates it (Props/C10 `handedStrong_fails_old`).
           What remains outside: a result rejected by a live higher-or-equal entry is not
           resurrected when that entry expires first — by design of "replace only by newer".
-/
namespace AutoVerif.C10

/-- the event removes work id `w` -/
def removes (w : String) : Ev → Bool
  | .remove _ id => id == w
  | _ => false

/-- the event adds a result for `w` with a check block strictly above `b` -/
def addsHigher (w : String) (b : Nat) : Ev → Bool
  | .add _ r => r.workID == w && decide (b < blk r)
  | _ => false

/-- the event neither removes `w` nor replaces a stored result of block `b` -/
def clean (w : String) (b : Nat) (e : Ev) : Bool := !removes w e && !addsHigher w b e

/-- time of the event if it is `add r` -/
def addTime (r : CheckResult) : Ev → Option Nat
  | .add t r' => if r' = r then some t else none
  | _ => none

/-- clock readings of the `add r` events that can account for `r` being stored now:
those after the last removal / higher add.  `revPre` is the history so far, newest first. -/
def candTimes (r : CheckResult) (revPre : List Ev) : List Nat :=
  (revPre.takeWhile (clean r.workID (blk r))).filterMap (addTime r)

/-- not past the TTL: the negation of `time.Since(addedAt) > ttl` -/
def fresh (ttl t ta : Nat) : Bool := decide (t - ta ≤ ttl)

def viewNodup (out : List CheckResult) : Bool := decide ((out.map (·.workID)).Nodup)

def viewSound (ttl : Nat) (revPre : List Ev) (t : Nat) (out : List CheckResult) : Bool :=
  out.all (fun r => (candTimes r revPre).any (fresh ttl t))

/-- `r` was in a view; `cands` are the add times that can account for it; walk forward -/
def keptFwd (ttl : Nat) (r : CheckResult) (cands : List Nat) : List Ev → Bool
  | [] => true
  | e :: rest =>
    if clean r.workID (blk r) e then
      (match e with
       | .view t out => !cands.all (fresh ttl t) || out.contains r
       | _ => true) && keptFwd ttl r cands rest
    else true

def viewOk (ttl : Nat) (revPre : List Ev) (t : Nat) (out : List CheckResult) (rest : List Ev) : Bool :=
  viewNodup out && viewSound ttl revPre t out &&
  out.all (fun r => keptFwd ttl r (candTimes r revPre) rest)

/-! ### `handed`: every add takes effect or is dominated by a live entry -/

/-- clock readings of the earlier `add` events for `w` that can excuse dropping a result of
block `b` handed in at `ta`: block at least `b`, not followed (up to `ta`) by a removal of `w`
or an add for `w` with a strictly higher block (`mx` = highest block met so far walking back),
and not older than the TTL at `ta`.  `revPre` newest first. -/
def domTimes (ttl : Nat) (w : String) (b ta : Nat) : List Ev → Nat → List Nat
  | [], _ => []
  | e :: rest, mx =>
    match e with
    | .remove _ id => if id == w then [] else domTimes ttl w b ta rest mx
    | .add t' r' =>
      if r'.workID == w then
        (if decide (mx ≤ blk r') && decide (b ≤ blk r') && fresh ttl ta t' then [t'] else []) ++
          domTimes ttl w b ta rest (max mx (blk r'))
      else domTimes ttl w b ta rest mx
    | _ => domTimes ttl w b ta rest mx

/-- after `add r` at `ta` with excuses `doms`: walk forward -/
def handedFwd (ttl : Nat) (r : CheckResult) (ta : Nat) (doms : List Nat) : List Ev → Bool
  | [] => true
  | e :: rest =>
    if clean r.workID (blk r) e then
      (match e with
       | .view t out =>
           out.any (fun r' => r'.workID == r.workID && decide (blk r ≤ blk r')) ||
           (ta :: doms).any (fun a => !fresh ttl t a)
       | _ => true) && handedFwd ttl r ta doms rest
    else true

/-- wording only: did some later view, before a removal / higher add, show `r` or a dominating result? -/
def shownFwd (r : CheckResult) : List Ev → Bool
  | [] => false
  | e :: rest =>
    if clean r.workID (blk r) e then
      (match e with
       | .view _ out => out.any (fun r' => r'.workID == r.workID && decide (blk r ≤ blk r'))
       | _ => false) || shownFwd r rest
    else false

def addOk (ttl : Nat) (revPre : List Ev) (ta : Nat) (r : CheckResult) (rest : List Ev) : Bool :=
  handedFwd ttl r ta (domTimes ttl r.workID (blk r) ta revPre 0) rest

/-- the clause without the excuse (tagging only: which histories need it) -/
def handedStrict (ttl : Nat) : List Ev → Bool
  | [] => true
  | e :: rest =>
    (match e with
     | .add ta r => handedFwd ttl r ta [] rest
     | _ => true) && handedStrict ttl rest

def specGo (ttl : Nat) : List Ev → List Ev → Bool
  | _, [] => true
  | revPre, e :: rest =>
    (match e with
     | .view t out => viewOk ttl revPre t out rest
     | .add ta r => addOk ttl revPre ta r rest
     | _ => true) && specGo ttl (e :: revPre) rest

/-- C10 on a recorded history -/
def spec (ttl : Nat) (evs : List Ev) : Bool := specGo ttl [] evs

/-- which conjunct fails first (stable wording; used to match known findings) -/
def explainGo (ttl : Nat) : List Ev → List Ev → String
  | _, [] => "ok"
  | revPre, e :: rest =>
    match e with
    | .view t out =>
      if !viewNodup out then "view holds two results for one work id"
      else if !viewSound ttl revPre t out then
        (if out.any (fun r => (candTimes r revPre).isEmpty) then
           "view holds a removed, replaced or never added result"
         else "view holds an expired result")
      else if !out.all (fun r => keptFwd ttl r (candTimes r revPre) rest) then
        "stored result missing from a later view before removal, expiry or a higher check block"
      else explainGo ttl (e :: revPre) rest
    | .add ta r =>
      if !addOk ttl revPre ta r rest then
        (if shownFwd r rest then
           "stored result missing from a later view before removal, expiry or a higher check block"
         else "add dropped although no live entry with an equal or higher check block was stored")
      else explainGo ttl (e :: revPre) rest
    | _ => explainGo ttl (e :: revPre) rest

def explain (ttl : Nat) (evs : List Ev) : String := explainGo ttl [] evs

end AutoVerif.C10
