import AutoVerif.Model.C08
/-
C08 as a decidable predicate on (what the node holds, the observation it produced).
Evaluated by the driver on the implementation's decoded observation (oracle Ω) and on the model's
observation; Props/C08 proves it of the model for all inputs.
-/
namespace AutoVerif.C08
open AutoVerif.Outcome

/-- `p` is a prefix of `l` -/
def isPrefix {α} [DecidableEq α] (p l : List α) : Bool := decide (l.take p.length = p)

/-- the performables are the first results of the canonical order among the node's candidates … -/
def prefixOk (ctx : Ctx) (staged : List CheckResult) (inflight : CheckResult → Bool) (o : Observation) : Bool :=
  isPrefix o.performable (canonical ctx staged inflight)

/-- … cut only by the cap or by the byte limit: either all `min cap n` of them are there, or that many do not fit into
`maxLen` bytes, and then what is sent fits (`obsLen` = measured `len(bytes)`) -/
def cutOk (lim : Limits) (maxLen : Nat) (si : SizeInfo) (c : List CheckResult) (o : Observation) (obsLen : Nat) : Bool :=
  let full := min lim.obsPerformables c.length
  (decide (o.performable.length = full) && decide (sizeOf si c full ≤ maxLen)) ||
  (decide (sizeOf si c full > maxLen) && decide (o.performable.length < full) && decide (obsLen ≤ maxLen))

/-- proposals: the log ones then the conditional ones, each a duplicate-free selection of `min 5 available` of the node's
own unexpired, not-in-flight proposals of that type -/
def proposalsOk (ctx : Ctx) (lim : Limits) (availLog availCond : List Proposal) (o : Observation) : Bool :=
  let lg := o.proposals.filter (fun p => ctx.utg p.upkeepID = .log)
  let cd := o.proposals.filter (fun p => ctx.utg p.upkeepID = .condition)
  decide (lg.length + cd.length = o.proposals.length) &&
  choiceOk lim.obsLogProposals availLog lg &&
  choiceOk lim.obsCondProposals availCond cd

def historyOk (lim : Limits) (hist : List BlockKey) (o : Observation) : Bool :=
  decide (o.blockHistory = hist.take lim.obsBlockHistory)

/-- nothing twice -/
def nodupOk (o : Observation) : Bool :=
  decide ((o.performable.map (·.workID)).Nodup) && decide ((o.proposals.map (·.workID)).Nodup)

def spec (ctx : Ctx) (lim : Limits) (maxLen : Nat) (staged : List CheckResult) (inflight : CheckResult → Bool)
    (availLog availCond : List Proposal) (hist : List BlockKey) (si : SizeInfo) (o : Observation) (obsLen : Nat) : Bool :=
  prefixOk ctx staged inflight o &&
  cutOk lim maxLen si (canonical ctx staged inflight) o obsLen &&
  proposalsOk ctx lim availLog availCond o &&
  historyOk lim hist o &&
  nodupOk o

def explain (ctx : Ctx) (lim : Limits) (maxLen : Nat) (staged : List CheckResult) (inflight : CheckResult → Bool)
    (availLog availCond : List Proposal) (hist : List BlockKey) (si : SizeInfo) (o : Observation) (obsLen : Nat) : String :=
  if !prefixOk ctx staged inflight o then
    "performables are not a prefix of the canonical (shuffled work id) order of the node's staged, unexpired, not-in-flight results"
  else if !cutOk lim maxLen si (canonical ctx staged inflight) o obsLen then
    "performables cut short although neither the 100-result cap nor the byte limit requires it (or the observation still exceeds the byte limit)"
  else if !proposalsOk ctx lim availLog availCond o then
    "proposals are not a duplicate-free selection of min(5, available) per trigger type from the node's unexpired not-in-flight proposals"
  else if !historyOk lim hist o then "block history is not the leading 256 entries of the node's block-history view"
  else if !nodupOk o then "a unit of work appears twice in the observation"
  else "ok"

/-- two nodes: when their candidate sets coincide both lists are prefixes of one order, hence one is a prefix of the
other; they are EQUAL when the byte limit cut neither, or when the rest of the two observations has the same length -/
def pairOk (ctx : Ctx) (stagedA stagedB : List CheckResult) (inflightA inflightB : CheckResult → Bool)
    (baseA baseB : Nat) (trimmedA trimmedB : Bool) (a b : Observation) : Bool :=
  let ca := canonical ctx stagedA inflightA
  let cb := canonical ctx stagedB inflightB
  if ca.all (cb.contains ·) && cb.all (ca.contains ·) then
    (isPrefix a.performable b.performable || isPrefix b.performable a.performable) &&
    ((trimmedA || trimmedB) && decide (baseA ≠ baseB) || decide (a.performable = b.performable))
  else true

end AutoVerif.C08
