import AutoVerif.Model.C15
/-
Decidable statement of C15, evaluated by the driver on what the implementation
did with a message and on what the model does with the same message.

Three clauses, one per stream of the harness:
  * round trip   — a valid value, encoded, decodes to an equal value;
  * strictness   — a message breaking a documented rule is rejected;
  * arbitrary    — on arbitrary bytes the decoder does not panic, and whatever it
                   accepts satisfies every rule.
-/
namespace AutoVerif.C15

def V.isOk : V → Bool
  | .ok _ => true
  | .error _ => false

/-- the rule a validation failed on (`none` = passed) -/
def V.rule : V → Option Rule
  | .ok _ => none
  | .error r => some r

/-- what a decoder answered, canonicalised -/
inductive Answer (α : Type) where
  | accepted (v : α)
  | malformed
  | rejected (r : Rule)
  | panicked
deriving DecidableEq, Repr

def answerOf {α} : Except DecodeErr α → Answer α
  | .ok v => .accepted v
  | .error .malformed => .malformed
  | .error (.rule r) => .rejected r

/-- round trip: the encoded valid value `x` came back equal -/
def specRoundTrip {α} [DecidableEq α] (x : α) (a : Answer α) : Bool :=
  match a with
  | .accepted v => decide (v = x)
  | _ => false

/-- strictness: the message was not accepted (and the decoder did not crash) -/
def specRejected {α} (a : Answer α) : Bool :=
  match a with
  | .malformed | .rejected _ => true
  | _ => false

/-- arbitrary bytes: no panic; an accepted value passes `validate` -/
def specArbitrary {α} (validate : α → V) (a : Answer α) : Bool :=
  match a with
  | .panicked => false
  | .accepted v => (validate v).isOk
  | _ => true

/-- memory safety, as far as the harness can observe it: the decoder neither
killed the process nor wrote outside a decoded array (`oob` is the verdict of
the harness' explicit-zeros probe, which does not involve the model) -/
def specNoCrash {α} (a : Answer α) (oob : Bool) : Bool :=
  !oob && match a with
    | .panicked => false
    | _ => true

def explainRoundTrip {α} (a : Answer α) : String :=
  match a with
  | .accepted _ => "round trip: decoded value differs from the encoded one"
  | .malformed => "round trip: encoder output rejected as malformed"
  | .rejected _ => "round trip: valid value rejected by validation"
  | .panicked => "no-crash: decoder panicked or killed the process"

def explainRejected {α} (a : Answer α) : String :=
  match a with
  | .accepted _ => "strictness: message breaking a documented rule was accepted"
  | .panicked => "no-crash: decoder panicked or killed the process"
  | _ => "ok"

def explainArbitrary {α} (a : Answer α) : String :=
  match a with
  | .panicked => "no-crash: decoder panicked or killed the process"
  | .accepted _ => "arbitrary bytes: accepted value breaks a documented rule"
  | _ => "ok"

/-- a message stays what it was for as long as its holder keeps it: `alias` is
the harness' observation that the bytes returned by an earlier `Encode` changed
when another message was encoded (also concurrently), or that a decoded value
changed when the input buffer was reused -/
def specRetained (alias : Bool) : Bool := !alias

def explainAlias : String :=
  "round trip: a message did not stay what it was after it had been handed out (result shares memory with a later call)"

def explainRepeat : String :=
  "round trip: the same bytes decoded again (after the first result had been written to) do not give the same answer"

def explainAltPair : String :=
  "strictness: the verdict on the same bytes under a second (utg, wg) pair does not follow that pair"

/-- the answer is a function of the JSON document, not of the white space around it
(`ws` = the harness saw the padded bytes answered differently from the bytes themselves) -/
def specWhitespace (ws : Bool) : Bool := !ws

def explainWs : String :=
  "strictness: the answer depends on insignificant white space (on the size of the message)"

def explainOob : String :=
  "no-crash: short [32]byte array: the decoder's zero-fill wrote outside the array (decoded value differs from the same message with explicit zeros)"

/-! ### the documented rules as readable predicates

`validate… = ok` is proved equivalent to these conjunctions
(`validate_iff_all_rules_obs`, `validate_iff_all_rules_outcome` in Props/C15). -/

/-- a price is present and lies in the uint256 range -/
def PriceOk (p : Option Int) : Prop := ∃ v, p = some v ∧ 0 ≤ v ∧ v ≤ uint256Max

/-- rules on one check result -/
def ResultRules (utg : String → UpkeepType) (wg : String → Trigger → String) (r : CheckResult) : Prop :=
  (r.pes = 0 ∧ r.retryable = false) ∧                       -- pipeline run succeeded
  (r.eligible = true ∧ r.reason = 0) ∧                      -- eligible
  triggerExtTypeOk r.trigger (utg r.upkeepID) = true ∧      -- extension matches the upkeep type
  wg r.upkeepID r.trigger = r.workID ∧                      -- work id is the generated one
  r.gas ≠ 0 ∧                                               -- gas allocated
  PriceOk r.fastGasWei ∧ PriceOk r.linkNative               -- prices present and in range

/-- rules on one proposal -/
def ProposalRules (utg : String → UpkeepType) (wg : String → Trigger → String) (p : Proposal) : Prop :=
  triggerExtTypeOk p.trigger (utg p.upkeepID) = true ∧ wg p.upkeepID p.trigger = p.workID

/-- all rules of `validateAutomationObservation` -/
def ObsRules (utg : String → UpkeepType) (wg : String → Trigger → String) (o : Observation) : Prop :=
  o.blockHistory.length ≤ Gen.observationBlockHistoryLimit ∧
  (o.blockHistory.map (·.number)).Nodup ∧
  o.performable.length ≤ Gen.observationPerformablesLimit ∧
  (∀ r ∈ o.performable, ResultRules utg wg r) ∧
  (o.performable.map (·.workID)).Nodup ∧
  o.proposals.length ≤ Gen.observationConditionalsProposalsLimit + Gen.observationLogRecoveryProposalsLimit ∧
  (∀ p ∈ o.proposals, ProposalRules utg wg p) ∧
  (o.proposals.map (·.workID)).Nodup ∧
  countType utg .condition o.proposals ≤ Gen.observationConditionalsProposalsLimit ∧
  countType utg .log o.proposals ≤ Gen.observationLogRecoveryProposalsLimit

/-- all rules of `validateAutomationOutcome` -/
def OutcomeRules (utg : String → UpkeepType) (wg : String → Trigger → String) (o : Outcome) : Prop :=
  o.agreed.length ≤ Gen.outcomeAgreedPerformablesLimit ∧
  (∀ r ∈ o.agreed, ResultRules utg wg r) ∧
  (o.agreed.map (·.workID)).Nodup ∧
  o.surfaced.length ≤ Gen.outcomeSurfacedProposalsRoundHistoryLimit ∧
  (∀ round ∈ o.surfaced, round.length ≤ Gen.outcomeSurfacedProposalsLimit) ∧
  (∀ round ∈ o.surfaced, ∀ p ∈ round, ProposalRules utg wg p) ∧
  (o.surfaced.flatten.map (·.workID)).Nodup          -- no work id twice, within or across rounds

end AutoVerif.C15
