import AutoVerif.Model.Outcome
/-
C02 as a decidable predicate on what repeated evaluations on differently
conditioned plugin instances returned: all outcome byte strings equal, all
report byte-string lists equal.
-/
namespace AutoVerif.C02

def allEq {α} [DecidableEq α] : List α → Bool
  | [] => true
  | x :: xs => xs.all (fun y => decide (y = x))

def spec (evals : List String) (reports : List (List String)) : Bool :=
  allEq evals && allEq reports

def explain (evals : List String) (reports : List (List String)) : String :=
  if !allEq evals then "outcome bytes differ between evaluations / plugin instances for the same round inputs"
  else if !allEq reports then "report bytes differ between evaluations / plugin instances for the same outcome"
  else "ok"

end AutoVerif.C02
