import AutoVerif.Spec.C06
/-
Decidable statement of C07 over the log of a history (same log as C06): what
the node *knows* about a unit of work is the newest record write since the last
restart, as long as it is inside its lockout window.
-/
namespace AutoVerif.C07
open AutoVerif.C06

/-- C07: may a payload / result for `(w, uid)` checked at `checkBlock` be processed? -/
def specProcess (utype : String → UpkeepType) (cfg : Cfg) (log : List LogE) (now : Nat)
    (w uid : String) (checkBlock : Nat) : Bool :=
  match known cfg log now w with
  | none => true                                   -- nothing known: process
  | some r =>
    if r.pending then false                        -- accepted, unconfirmed: withheld
    else if r.ttype = performEvent then            -- confirmed perform
      match utype uid with
      | .log => false
      | .condition => decide (checkBlock ≥ r.tblock)
      | .other => true
    else true                                      -- stale / reorg / insufficient funds: released

/-- C07: may a proposal for `(w, uid)` go into an observation? -/
def specPropose (utype : String → UpkeepType) (cfg : Cfg) (log : List LogE) (now : Nat)
    (w uid : String) : Bool :=
  match known cfg log now w with
  | none => true
  | some r =>
    if r.pending then false
    else if r.ttype = performEvent then
      match utype uid with
      | .log => false
      | _ => true
    else true

end AutoVerif.C07
