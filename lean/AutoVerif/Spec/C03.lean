import AutoVerif.Model.C08
import AutoVerif.Model.C04
/-
C03 — Whatever a node emits passes the network's own validation and size limits.
Decidable predicates evaluated by the driver on what the implementation emitted (oracle Ω);
Props/C03 proves them of the model.
-/
namespace AutoVerif.C03
open AutoVerif.Outcome

/-- `quorumhelper.ObservationCountReachesObservationQuorum(QuorumTwoFPlusOne, n, f, aos)`: `len(aos) >= 2*f+1` -/
def observationQuorum (f count : Nat) : Bool := decide (count ≥ 2 * f + 1)

/-- JSON length of an array whose elements have the given lengths: `[` e₁ `,` … `,` e_k `]` -/
def arrLen (items : List Nat) : Nat := 2 + items.sum + (items.length - 1)

/-- `len(outcome.Encode())`: `{"AgreedPerformables":[…],"SurfacedProposals":[[…],…]}` (both slices are never nil in an
outcome built by `Outcome`); `rl`/`pl` are the JSON lengths of a result / a proposal (external encoder) -/
def outcomeLen (rl : CheckResult → Nat) (pl : Proposal → Nat) (o : Outcome) : Nat :=
  22 + arrLen (o.agreed.map rl) + 21 + arrLen (o.surfaced.map (fun r => arrLen (r.map pl))) + 1

/-- the advertised limits (`ReportingPluginInfo.Limits`) -/
structure Advertised where
  maxObservationLength : Nat
  maxOutcomeLength : Nat
  maxReportCount : Nat
deriving DecidableEq, Repr

/-- (a) an observation a node produced: passes validation (the model's and the peer's) and respects the advertised length -/
def observationOk (ctx : Ctx) (lim : Limits) (adv : Advertised) (o : Observation) (len : Nat) (peerAccepts : Bool) : Bool :=
  validObservation ctx lim o && peerAccepts && decide (len ≤ adv.maxObservationLength)

def explainObservation (ctx : Ctx) (lim : Limits) (adv : Advertised) (o : Observation) (len : Nat) (peerAccepts : Bool) : String :=
  if !peerAccepts then "a peer's ValidateObservation rejects an observation produced by Observation"
  else if !validObservation ctx lim o then "an observation produced by Observation violates a validation rule"
  else if !decide (len ≤ adv.maxObservationLength) then "an observation produced by Observation is longer than the advertised MaxObservationLength"
  else "ok"

/-- (b) one round of a chain: the outcome is valid and within the advertised length, the next round decodes it, the number of
reports stays within the advertised count, the observation quorum is reached exactly from `2f+1` observations on -/
structure RoundFacts where
  outcome : Outcome
  outcomeLen : Nat
  nextDecodes : Bool        -- the next round's Observation and Outcome accepted these bytes as previous outcome
  identical : Bool          -- every node computed the same bytes
  reports : Nat
  quorum : List Bool        -- ObservationQuorum for 0, 1, …, n observations
  again : List Bool := []   -- Outcome / Reports evaluated once more on an instance that had evaluated them on the same
                            -- inputs: the same bytes came back (the functions are pure: `outcome_reevaluated`)

def quorumTableOk (f : Nat) (tbl : List Bool) : Bool :=
  (tbl.zipIdx).all (fun (b, k) => b == observationQuorum f k)

def roundOk (ctx : Ctx) (lim : Limits) (adv : Advertised) (f : Nat) (rf : RoundFacts) : Bool :=
  validOutcome ctx lim rf.outcome &&
  decide (rf.outcomeLen ≤ adv.maxOutcomeLength) &&
  rf.nextDecodes && rf.identical &&
  decide (rf.reports ≤ adv.maxReportCount) &&
  quorumTableOk f rf.quorum &&
  rf.again.all id

def explainRound (ctx : Ctx) (lim : Limits) (adv : Advertised) (f : Nat) (rf : RoundFacts) : String :=
  if !validOutcome ctx lim rf.outcome then "an outcome computed from validated observations and a valid previous outcome violates a validation rule"
  else if !decide (rf.outcomeLen ≤ adv.maxOutcomeLength) then "an outcome is longer than the advertised MaxOutcomeLength"
  else if !rf.nextDecodes then "the next round cannot decode the outcome"
  else if !rf.identical then "nodes computed different outcome bytes from the same inputs"
  else if !decide (rf.reports ≤ adv.maxReportCount) then "more reports than the advertised MaxReportCount"
  else if !quorumTableOk f rf.quorum then "ObservationQuorum is not (number of observations >= 2f+1)"
  else if !rf.again.all id then "an instance that evaluates Outcome / Reports again on the same inputs emits something else"
  else "ok"

/-! ### notions the theorems of Props/C03 are stated with -/

open AutoVerif.C08 in
/-- what a well-behaved check pipeline, proposal flows and block source leave in a node's stores -/
structure WellFormedNode (ctx : Ctx) (v : NodeView) : Prop where
  staged_valid : ∀ r ∈ v.staged, validCheckResult ctx r = true       -- eligible, well-formed results only
  staged_nodup : (v.staged.map (·.workID)).Nodup                      -- the result store is a map keyed by work id
  hist_nodup   : (v.hist.map (·.number)).Nodup                        -- one block per height
  props_valid  : ∀ p ∈ v.logProps ++ v.condProps, validProposal ctx p = true
  log_typed    : ∀ p ∈ v.logProps, ctx.utg p.upkeepID = .log          -- AddProposals files by trigger type
  cond_typed   : ∀ p ∈ v.condProps, ctx.utg p.upkeepID = .condition
  props_nodup  : ((v.logProps ++ v.condProps).map (·.workID)).Nodup   -- maps keyed by work id; ids of different upkeeps differ


/-- the inputs of one round as libocr supplies them, with the two map iteration orders of the Go code -/
structure RoundIn where
  obs : List (Option Observation)
  πres : List String
  πblk : List BlockKey

/-- the outcomes of consecutive rounds, each computed on the previous one -/
def chain (ctx : Ctx) (lim : Limits) : Outcome → List RoundIn → List Outcome
  | _, [] => []
  | prev, r :: rs =>
    let o := outcome ctx lim prev r.obs r.πres r.πblk
    o :: chain ctx lim o rs

/-- rounds as libocr runs them: a round that does not commit (`commits = false`: leader change, timeout, lost messages)
leaves the previous outcome in place — the next round is computed on the SAME previous outcome, which every node has
decoded and worked on before.  The list holds the outcome of every round, committed or not. -/
def runs (ctx : Ctx) (lim : Limits) : Outcome → List (RoundIn × Bool) → List Outcome
  | _, [] => []
  | prev, (r, commits) :: rs =>
    let o := outcome ctx lim prev r.obs r.πres r.πblk
    o :: runs ctx lim (if commits then o else prev) rs

end AutoVerif.C03
