import AutoVerif.Model.Outcome
/-
C01 as a decidable predicate on (valid observations, agreed performables).
`votes` counts observations; libocr delivers at most one observation per
oracle, so this is the number of distinct oracles (Props/C01 `votes_le_oracles`).
-/
namespace AutoVerif.C01
open AutoVerif.Outcome

/-- how many of the round's valid observations list `r`, identical in every field -/
def votes (os : List Observation) (r : CheckResult) : Nat :=
  (os.filter (fun o => o.performable.contains r)).length

/-- every agreed result has f+1 votes -/
def sound (F : Nat) (os : List Observation) (agreed : List CheckResult) : Bool :=
  agreed.all (fun r => decide (F + 1 ≤ votes os r))

/-- no unit of work twice -/
def nodupWork (agreed : List CheckResult) : Bool := decide ((agreed.map (·.workID)).Nodup)

/-- a result with f+1 votes is agreed unless displaced by another quorum result for the same work or by the cap -/
def completeFor (ctx : Ctx) (lim : Limits) (os : List Observation) (agreed : List CheckResult) (r : CheckResult) : Bool :=
  !decide (ctx.F + 1 ≤ votes os r) ||
  agreed.contains r ||
  agreed.any (fun a => a.workID == r.workID && decide (ctx.F + 1 ≤ votes os a)) ||
  (decide (lim.agreedLimit ≤ agreed.length) &&
    agreed.all (fun a => decide (ctx.key a.workID ≤ ctx.key r.workID)))

def complete (ctx : Ctx) (lim : Limits) (os : List Observation) (agreed : List CheckResult) : Bool :=
  (os.flatMap (·.performable)).all (completeFor ctx lim os agreed)

def spec (ctx : Ctx) (lim : Limits) (os : List Observation) (agreed : List CheckResult) : Bool :=
  sound ctx.F os agreed && nodupWork agreed && complete ctx lim os agreed

def explain (ctx : Ctx) (lim : Limits) (os : List Observation) (agreed : List CheckResult) : String :=
  if !sound ctx.F os agreed then
    match agreed.find? (fun r => !decide (ctx.F + 1 ≤ votes os r)) with
    | some r => s!"agreed performable {r.workID} vouched identically by only {votes os r} valid observation(s), quorum is {ctx.F + 1}"
    | none => "unsound"
  else if !nodupWork agreed then "a unit of work appears twice among the agreed performables"
  else if !complete ctx lim os agreed then
    match (os.flatMap (·.performable)).find? (fun r => !completeFor ctx lim os agreed r) with
    | some r => s!"result {r.workID} has {votes os r} identical votes (quorum {ctx.F + 1}) but is not agreed and is displaced neither by the cap nor by another quorum result for the same work"
    | none => "incomplete"
  else "ok"

end AutoVerif.C01
