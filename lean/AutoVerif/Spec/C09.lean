import AutoVerif.Model.Types
import AutoVerif.Model.C09Sample
/-
C09 safety clauses as decidable predicates over a recorded network trace
(harness/net_test.go): what every member's pipeline returned, every round's
attributed observations with the validation verdict, the agreed performables,
the reports, and every ShouldAccept / ShouldTransmit answer.
-/
namespace AutoVerif.C09

structure PipeEntry where
  node : Nat
  res  : CheckResult
deriving DecidableEq, Repr

structure AObs where
  oracle : Nat
  byz    : Bool
  valid  : Bool
  perf   : List CheckResult
deriving DecidableEq, Repr

structure Round where
  obs     : List AObs
  agreed  : List CheckResult
  reports : List Nat
  disagree : Bool
deriving Repr

structure Report where
  id      : Nat
  round   : Nat
  upkeeps : List CheckResult
deriving Repr

structure Query where
  round    : Nat
  node     : Nat
  report   : Nat
  isAccept : Bool
  accept   : Bool
  transmit : Bool
  pre      : Bool
deriving Repr

/-- a transmit event as first returned by a member's event provider -/
structure EvSeen where
  round : Nat
  node  : Nat
  wid   : String
  checkBlock : Nat
deriving Repr

structure Trace where
  events : List EvSeen := []
  n : Nat
  f : Nat
  honest  : List Nat   -- not Byzantine
  correct : List Nat   -- not Byzantine and never restarted
  pipeline : List PipeEntry
  rounds  : List Round
  reports : List Report
  queries : List Query
deriving Repr

def reportOf (t : Trace) (id : Nat) : Option Report := t.reports.find? (fun r => r.id == id)

/-- number of the round's validated observations that list `u` identically -/
def vouchers (rd : Round) (u : CheckResult) : Nat :=
  (rd.obs.filter (fun o => o.valid && o.perf.contains u)).length

/-- S1 for one upkeep of a report an honest member is willing to transmit -/
def upkeepVouched (t : Trace) (rd : Round) (u : CheckResult) : Bool :=
  t.pipeline.any (fun e => t.honest.contains e.node && e.res == u) && decide (t.f + 1 ≤ vouchers rd u)

/-- S1: every upkeep inside a report that an honest member answers "transmit" for was found eligible, identical, by
an honest member's pipeline and vouched by f+1 validated observations of the round that agreed on it -/
def transmitVouched (t : Trace) : Bool :=
  t.queries.all fun q =>
    if !q.isAccept && q.transmit && t.honest.contains q.node then
      match reportOf t q.report with
      | none => false
      | some r =>
        match t.rounds[r.round]? with
        | none => false
        | some rd => r.upkeeps.all (upkeepVouched t rd)
    else true

def workIDs (r : Report) : List String := r.upkeeps.map (·.workID)

/-- reports with a "transmit" answer from `node` in the query batch (`round`, `pre`) -/
def willing (t : Trace) (node round : Nat) (pre : Bool) : List Nat :=
  (t.queries.filter (fun q => !q.isAccept && q.transmit && q.node == node && q.round == round && q.pre == pre)).map (·.report)

def disjointReports (t : Trace) (ids : List Nat) : Bool :=
  ids.all fun a => ids.all fun b =>
    a == b ||
    match reportOf t a, reportOf t b with
    | some ra, some rb => (workIDs ra).all (fun w => !(workIDs rb).contains w)
    | _, _ => false

/-- S2 at full strength: an honest member is never willing to transmit two different reports for one unit of work at
once.  FALSE of the code at two corners (proved: `Props/C09Net.one_report_per_work_false_diff_blocks` and
`…_false_same_block`; both are known findings) — `s2Class` tells them apart from everything else. -/
def oneReportPerWork (t : Trace) : Bool :=
  t.honest.all fun h =>
    (List.range t.rounds.length).all fun r =>
      disjointReports t (willing t h r false) && disjointReports t (willing t h r true)

/-- how a pair of reports offered at once by one member relates -/
inductive S2Class where
  | ok         -- no unit of work in common
  | sameBlock  -- every shared unit of work is listed at the same check block in both (what the coordinator guarantees)
  | anyOf      -- some shared unit of work at two check blocks, one of the reports lists further upkeeps
  | hard       -- some shared unit of work at two check blocks in two single-upkeep reports: impossible for the model
deriving DecidableEq, Repr

def S2Class.rank : S2Class → Nat
  | .ok => 0 | .sameBlock => 1 | .anyOf => 2 | .hard => 3

def S2Class.max (a b : S2Class) : S2Class := if a.rank < b.rank then b else a

def blocksOf (r : Report) (w : String) : List Nat := (r.upkeeps.filter (·.workID == w)).map (·.trigger.blockNumber)

def pairClass (ra rb : Report) : S2Class :=
  let shared := (workIDs ra).filter (fun w => (workIDs rb).contains w)
  if shared.isEmpty then .ok
  else if shared.all (fun w => (blocksOf ra w).all (fun b => (blocksOf rb w).all (· == b))) then .sameBlock
  else if ra.upkeeps.length ≥ 2 || rb.upkeeps.length ≥ 2 then .anyOf
  else .hard

def idsClass (t : Trace) (ids : List Nat) : S2Class :=
  ids.foldl (fun acc a => ids.foldl (fun acc b =>
    if a == b then acc else
    match reportOf t a, reportOf t b with
    | some ra, some rb => acc.max (pairClass ra rb)
    | _, _ => .hard) acc) .ok

/-- the worst relation between two reports offered at once by an honest member anywhere in the trace -/
def s2Class (t : Trace) : S2Class :=
  t.honest.foldl (fun acc h =>
    (List.range t.rounds.length).foldl (fun acc r =>
      (acc.max (idsClass t (willing t h r false))).max (idsClass t (willing t h r true))) acc) .ok

/-- `w` is in flight on member `h` right before round `r`'s observations -/
def inFlight (t : Trace) (h r : Nat) (w : String) : Bool :=
  (willing t h r true).any fun id =>
    match reportOf t id with
    | some rep => (workIDs rep).contains w
    | none => false

/-- S3: a unit of work in flight on every correct member is not agreed again -/
def notReagreedInFlight (t : Trace) : Bool :=
  (List.range t.rounds.length).all fun r =>
    match t.rounds[r]? with
    | none => true
    | some rd => rd.agreed.all fun u => !(!t.correct.isEmpty && t.correct.all (fun h => inFlight t h r u.workID))

/-- ground truth: `w` is in flight on the correct member `h` right before round `r`: `h` accepted (answer true) a report
carrying `w` at check block `b` in an earlier round and its event provider has not yet returned any transmit event for
`w` with check block ≥ `b` (an event for an OLDER check block does not release the newer report). The lockout window of
the network runs (100 s) is longer than a run. -/
def inFlightTruth (t : Trace) (h r : Nat) (w : String) : Bool :=
  t.queries.any fun a =>
    a.isAccept && a.accept && a.node == h && decide (a.round < r) &&
    (match reportOf t a.report with
     | none => false
     | some rep => rep.upkeeps.any fun u =>
         u.workID == w &&
         !(t.events.any fun e => e.node == h && e.wid == w && decide (u.trigger.blockNumber ≤ e.checkBlock) && decide (e.round ≤ r)))

/-- S3': a unit of work that is (ground truth) in flight on every correct member is not agreed again -/
def notReagreedInFlightTruth (t : Trace) : Bool :=
  (List.range t.rounds.length).all fun r =>
    match t.rounds[r]? with
    | none => true
    | some rd => rd.agreed.all fun u => !(!t.correct.isEmpty && t.correct.all (fun h => inFlightTruth t h r u.workID))

/-- the most recent restart of member `h` at or before round `r` (0 if none); restarts happen at the start of a round -/
def lastRestart (restarts : List (Nat × Nat)) (h r : Nat) : Nat :=
  ((restarts.filter (fun p => p.1 == h && decide (p.2 ≤ r))).map (·.2)).foldl max 0

/-- S4: a member is willing to transmit a report only if, since its last restart, it was handed (ShouldAccept) a report
carrying the same unit of work at the same check block for at least one of the report's upkeeps -/
def transmitOnlyAcceptedSinceRestart (t : Trace) (restarts : List (Nat × Nat)) : Bool :=
  t.queries.all fun q =>
    if !q.isAccept && q.transmit && t.honest.contains q.node then
      match reportOf t q.report with
      | none => false
      | some r =>
        let since := lastRestart restarts q.node q.round
        r.upkeeps.any fun u =>
          t.queries.any fun a =>
            a.isAccept && a.node == q.node && decide (since ≤ a.round) && decide (a.round ≤ q.round) &&
            (match reportOf t a.report with
             | some ra => ra.upkeeps.any (fun v => v.workID == u.workID && decide (v.trigger.blockNumber = u.trigger.blockNumber))
             | none => false)
    else true

/-- all honest members computed the same outcome bytes in every round (C02 at network level) -/
def outcomesAgree (t : Trace) : Bool := t.rounds.all (fun rd => !rd.disagree)

def spec (t : Trace) (restarts : List (Nat × Nat)) : Bool :=
  transmitVouched t && oneReportPerWork t && notReagreedInFlight t && outcomesAgree t &&
  transmitOnlyAcceptedSinceRestart t restarts && notReagreedInFlightTruth t

def explain (t : Trace) (restarts : List (Nat × Nat)) : String :=
  if !transmitOnlyAcceptedSinceRestart t restarts then "a member is willing to transmit a report it has not accepted since its last restart (no acceptance of that unit of work at that check block)"
  else if !outcomesAgree t then "honest members computed different outcome bytes for the same round"
  else if !transmitVouched t then "an honest member is willing to transmit an upkeep that no honest pipeline found eligible with identical data, or that fewer than f+1 validated observations vouched for"
  else if s2Class t == .hard then "two-reports-one-work: an honest member is willing to transmit two single-upkeep reports for the same unit of work at different check blocks at once"
  else if !notReagreedInFlight t then "a unit of work was agreed again while in flight on every correct member"
  else if !notReagreedInFlightTruth t then "a unit of work was agreed again although every correct member had accepted a report for it and had been shown no transmit event for that (or a newer) check block"
  -- the two corners where the clause is false of the code (known findings) come last, so that they never mask another failure
  else if s2Class t == .anyOf then "two-reports-one-work/any-of: an honest member is willing to transmit two reports listing one unit of work at different check blocks at once; the older one lists further upkeeps and stays offered on their account (any-of rule of ShouldTransmitAcceptedReport)"
  else if s2Class t == .sameBlock then "two-reports-one-work/same-block: an honest member is willing to transmit two different reports that list one unit of work at the same check block at once (one coordinator record per unit of work; the reports differ in their other upkeeps or in the round that produced them)"
  else "ok"

/-! ### sampling coverage runs (`kind = cover`, harness/net_test.go `runCoverage`)

Fairness of the conditional sampling flow, the first link of the liveness clause: in a run whose sampling ratio CUTS
(`size < k`), over enough sampling ticks every upkeep of the registry is handed to the check pipeline by the sampling
flow of every live member, and an upkeep that is eligible on every member is eventually reported.  Only facts that do
not depend on the shuffle's luck are compared: coverage sets, tick counts, the smallest / largest number of upkeeps a
tick handed on, and WHETHER the eligible upkeeps were reported before the bound. -/

structure CoverMember where
  id      : Nat
  ticks   : Nat        -- sampling ticks (calls of the member's upkeep provider)
  covered : List Nat   -- registry positions the sampling flow handed to this member's pipeline at least once
  minTick : Nat        -- fewest upkeeps one tick handed on
  maxTick : Nat        -- most upkeeps one tick handed on
  upMs    : Nat        -- virtual time the member's instance was running
deriving Repr

structure CoverRun where
  n : Nat
  f : Nat
  k : Nat               -- conditional upkeeps in the registry (same order on every member)
  num : Nat             -- the sampling ratio the factory computes from the off-chain config, exactly: num / den
  den : Nat
  size : Nat            -- ratio.OfInt(k), as computed by the harness
  eligible : List Nat   -- registry positions that are eligible on every member at every block until performed
  slack : Nat           -- sampling ticks granted for proposal → coordination → final check → agreement → report
  members : List CoverMember   -- the live members (at least 2f+1, all honest)
  reported : List Nat   -- registry positions that appeared in a report
  roundTicks : Nat      -- fewest sampling ticks any live member had seen when the harness stopped running rounds
deriving Repr

/-- `SamplingConditionInterval`, ms -/
def samplingIntervalMs : Nat := 3000

/-- F1 (per member): once the run is long enough (`Sample.coverageDue`), the sampling flow has handed every upkeep that
never became eligible to the member's pipeline at least once.  (An eligible upkeep may legitimately be withheld from
the pipeline: it is filtered while in flight.  It is covered by F3.) -/
def memberCovered (c : CoverRun) (m : CoverMember) : Bool :=
  !Sample.coverageDue c.k c.size c.members.length m.ticks ||
    ((Sample.missed c.k m.covered).filter (fun i => !c.eligible.contains i)).isEmpty

/-- F2 (per member): no tick handed fewer upkeeps to the pipeline than the ratio prescribes (eligible upkeeps may be
filtered or answered from the runner's cache) -/
def sampleNotTooSmall (c : CoverRun) (m : CoverMember) : Bool :=
  m.ticks == 0 || decide (c.size ≤ m.minTick + c.eligible.length)

/-- the sampling flow keeps its cadence -/
def ticksRegular (m : CoverMember) : Bool := decide (m.upMs ≤ (m.ticks + 2) * samplingIntervalMs)

/-- the rounds phase was long enough for the eventual-report clause to be due: the probability that some eligible
upkeep was in no live member's sample during `roundTicks - slack` ticks is below `10⁻¹²` -/
def reportDue (c : CoverRun) : Bool :=
  let t := (c.roundTicks - c.slack) * c.members.length
  decide (c.slack ≤ c.roundTicks) && decide ((c.k - c.size) ^ t * (c.eligible.length * 10 ^ 12) < c.k ^ t)

/-- F3 (network): every upkeep that is eligible on every live member was reported -/
def eligibleReported (c : CoverRun) : Bool :=
  !reportDue c || c.eligible.all (fun i => c.reported.contains i)

def coverSpec (c : CoverRun) : Bool :=
  c.members.all (fun m => memberCovered c m && sampleNotTooSmall c m && ticksRegular m) && eligibleReported c

def showNats (l : List Nat) : String := ", ".intercalate (l.map toString)

def coverExplain (c : CoverRun) : String :=
  match c.members.find? (fun m => !ticksRegular m) with
  | some m => s!"sampling-stalled: member {m.id} ran {m.upMs} ms with {c.k} conditional upkeeps registered and its sampling flow ticked only {m.ticks} time(s) (cadence {samplingIntervalMs} ms)"
  | none =>
  match c.members.find? (fun m => !memberCovered c m) with
  | some m =>
    let miss := (Sample.missed c.k m.covered).filter (fun i => !c.eligible.contains i)
    s!"sampling-unfair: member {m.id} sampled {c.size} of {c.k} conditional upkeeps per tick for {m.ticks} ticks and NEVER handed registry position(s) [{showNats miss}] to its check pipeline (with a shuffle of the whole registry each is missed with probability (({c.k}-{c.size})/{c.k})^{m.ticks}, below 1e-12 for the whole run): these upkeeps can never be proposed by this member"
  | none =>
  match c.members.find? (fun m => !sampleNotTooSmall c m) with
  | some m => s!"sample-too-small: member {m.id} handed only {m.minTick} upkeep(s) to its pipeline in one tick; ratio.OfInt({c.k}) = {c.size}, {c.eligible.length} eligible"
  | none =>
  if !eligibleReported c then
    let miss := c.eligible.filter (fun i => !c.reported.contains i)
    let nowhere := miss.filter (fun i => c.members.all (fun m => !m.covered.contains i))
    s!"eligible-never-reported: registry position(s) [{showNats miss}] of {c.k} stayed eligible on all {c.members.length} live members (n={c.n}, f={c.f}) for at least {c.roundTicks} sampling ticks and were never reported" ++
      (if nowhere.isEmpty then "" else s!"; position(s) [{showNats nowhere}] were never sampled by any member")
  else "ok"

end AutoVerif.C09
