import AutoVerif.Model.C11
/-
Decidable statement of C11 over a history of operations and the outputs observed
for them (the implementation's, or the model's).

The reference state is abstract: each pending set is a plain map
`work id ↦ (proposal, creation time)` — no key order, no slices —, the queue is the map
`work id ↦ (proposal, dequeued flag, first-seen time)` advanced with the *observed* dequeue
results.  Clauses:

* every `ViewProposals` result is exactly the set of unexpired pending proposals of that type,
  no work id twice; expired ones are purged; proposals surfaced in an outcome (or removed)
  are no longer pending;
* every build hook of an observation proposes unexpired pending proposals only (none that an outcome
  surfaced and that was not added again since), none twice, at most its limit, and all of them when
  they fit; starting, closing and restarting the store changes none of this;
* the proposal filterer (a viewer of the pending set inside the node's own flows) withholds exactly the
  payloads of unexpired pending proposals;
* hand-outs (`Dequeue` results): whenever the same (work id, check block) is handed out twice,
  the second record was first seen more than `proposalExpiry` after the first one — so within
  the 20 s window of a record it is handed out at most once, however often it is re-enqueued.
-/
namespace AutoVerif.C11

/-- abstract reference state -/
structure SSt where
  cond : GMap Rec
  log  : GMap Rec
  q    : Queue
  now  : Nat
deriving DecidableEq, Repr

def SSt.init (now : Nat) : SSt := { cond := [], log := [], q := [], now := now }

def sAdd1 (tg : String → Nat) (now : Nat) (s : SSt) (p : Proposal) : SSt :=
  if tg p.upkeepID = logT then { s with log := s.log.set p.workID { createdAt := now, proposal := p } }
  else if tg p.upkeepID = condT then { s with cond := s.cond.set p.workID { createdAt := now, proposal := p } }
  else s

def sRemove1 (tg : String → Nat) (s : SSt) (p : Proposal) : SSt :=
  if tg p.upkeepID = logT then { s with log := s.log.del p.workID }
  else if tg p.upkeepID = condT then { s with cond := s.cond.del p.workID }
  else s

/-- the unexpired entries -/
def liveOf (expr now : Nat) (a : GMap Rec) : GMap Rec := a.filter (fun e => !recExpired expr now e.2)

/-- a view result is exactly the live set, no work id twice -/
def viewOk (live : GMap Rec) (out : List Proposal) : Bool :=
  decide ((out.map (·.workID)).Nodup) &&
  live.all (fun e => out.contains e.2.proposal) &&
  out.all (fun p => live.any (fun e => e.2.proposal == p))

/-- what a build hook of the observation may propose out of the live set: pending, unexpired proposals
only (so nothing that an outcome surfaced and the remove hook took out, nothing expired), no work id
twice, at most `limit` — and every live proposal when they all fit (no omission) -/
def obsOk (limit : Nat) (live : GMap Rec) (out : List Proposal) : Bool :=
  decide ((out.map (·.workID)).Nodup) &&
  out.all (fun p => live.any (fun e => e.2.proposal == p)) &&
  decide (out.length ≤ limit) &&
  (decide (out.length = limit) || live.all (fun e => out.contains e.2.proposal))

/-- the proposal filterer withholds exactly the payloads of pending, unexpired proposals -/
def filterOk (live : GMap Rec) (ps out : List Proposal) : Bool :=
  out == ps.filter (fun p => !live.any (fun e => e.2.proposal.workID == p.workID))

/-- reference state after `op` whose observed output was `out`; view verdict; hand-outs -/
def sStep (tg : String → Nat) (s : SSt) (op : Op) (out : List Proposal) : SSt × Bool × List Ev :=
  match op with
  | .add ps => (ps.foldl (sAdd1 tg s.now) s, true, [])
  | .remove ps => (ps.foldl (sRemove1 tg) s, true, [])
  | .view t =>
    if t = logT then
      let l := liveOf Gen.logRecoveryExpiryNs s.now s.log
      ({ s with log := l }, viewOk l out, [])
    else if t = condT then
      let l := liveOf Gen.conditionalExpiryNs s.now s.cond
      ({ s with cond := l }, viewOk l out, [])
    else (s, out.isEmpty, [])
  | .adv d => ({ s with now := s.now + d }, true, [])
  | .enq ps => ({ s with q := enqueue s.now ps s.q }, true, [])
  | .deq t _ order =>
    let q1 := (dequeueScan tg t s.now order s.q []).2
    ({ s with q := markRemoved q1 out }, true,
     out.map (mkEv q1 s.now))
  | .outcome sf =>
    ({ (sf.flatten.foldl (sRemove1 tg) s) with q := addToProposalQHook s.now sf s.q }, true, [])
  | .tick t n order _ =>
    -- `out` = the payloads that reached the runner of the finalisation flow: each is a hand-out
    let q1 := (dequeueScan tg t s.now order s.q []).2
    ({ s with q := (dequeue tg t n s.now order s.q).2 }, true, out.map (mkEv q1 s.now))
  | .observe t limit _ =>
    -- `out` = what the build hook added to the observation
    if t = logT then
      let l := liveOf Gen.logRecoveryExpiryNs s.now s.log
      ({ s with log := l }, obsOk limit l out, [])
    else if t = condT then
      let l := liveOf Gen.conditionalExpiryNs s.now s.cond
      ({ s with cond := l }, obsOk limit l out, [])
    else (s, out.isEmpty, [])
  | .svc _ => (s, true, [])   -- starting / closing the store leaves every pending proposal where it is
  | .filter t ps =>
    if t = logT then
      let l := liveOf Gen.logRecoveryExpiryNs s.now s.log
      ({ s with log := l }, filterOk l ps out, [])
    else if t = condT then
      let l := liveOf Gen.conditionalExpiryNs s.now s.cond
      ({ s with cond := l }, filterOk l ps out, [])
    else (s, out == ps, [])

/-- replay: all view verdicts, all hand-outs in order -/
def sRun (tg : String → Nat) : List Op → List (Option (List Proposal)) → SSt → Bool × List Ev
  | [], _, _ => (true, [])
  | op :: ops, outs, s =>
    let (s', ok, evs) := sStep tg s op (outs.head?.join.getD [])
    let (ok', evs') := sRun tg ops outs.tail s'
    (ok && ok', evs ++ evs')

/-- two hand-outs of the same (work id, block) belong to records first seen > 20 s apart -/
def sep (e1 e2 : Ev) : Prop := e1.w = e2.w → e1.b = e2.b → e2.c > e1.c + Gen.proposalExpiryNs

instance : DecidableRel sep := fun e1 e2 => by unfold sep; exact inferInstance

def eventsOk (evs : List Ev) : Bool := decide (List.Pairwise sep evs)

/-- C11 over a history that starts with empty stores at time `now0` -/
def spec (tg : String → Nat) (now0 : Nat) (ops : List Op) (outs : List (Option (List Proposal))) : Bool :=
  let (ok, evs) := sRun tg ops outs (SSt.init now0)
  ok && eventsOk evs

/-! ### views taken while other goroutines remove and add (linearizability window)

Every store method is one critical section, so a concurrent history is equivalent to some sequential
one that respects real-time order.  For a `ViewProposals` call that overlaps removals `rem` (issued
one by one, in order) and additions `add` (likewise), with `rds`/`ads` = how many removals/additions
had RETURNED when the view began and `rse`/`ase` = how many had STARTED when it returned, every such
sequential history gives a result that contains `required` and lies within `allowed`: -/

def concRequired (init rem add : List Proposal) (rse ads : Nat) : List Proposal :=
  init.filter (fun p => !(rem.take rse).any (fun r => r.workID == p.workID)) ++ add.take ads

def concAllowed (init rem add : List Proposal) (rds ase : Nat) : List Proposal :=
  init.filter (fun p => !(rem.take rds).any (fun r => r.workID == p.workID)) ++ add.take ase

def concViewOk (required allowed out : List Proposal) : Bool :=
  decide ((out.map (·.workID)).Nodup) && required.all (out.contains ·) && out.all (allowed.contains ·)

def explainConcView (required allowed out : List Proposal) : String :=
  if !decide ((out.map (·.workID)).Nodup) then "concurrent view: a proposal is returned twice"
  else match required.find? (fun p => !out.contains p) with
    | some p => s!"concurrent view: pending proposal {p.workID}, untouched by any removal that had started, is missing"
    | none => match out.find? (fun p => !allowed.contains p) with
      | some p => s!"concurrent view: returns {p.workID}, which was removed before the view began (or never added)"
      | none => "ok"

/-! ### explanation of a failure (for replay files) -/

/-- `gone`: (type, work id) pairs surfaced in an outcome and not re-added since -/
def explainView (t : Nat) (gone : List (Nat × String)) (live : GMap Rec) (out : List Proposal) : String :=
  if !decide ((out.map (·.workID)).Nodup) then "view: a proposal is returned twice"
  else if !live.all (fun e => out.contains e.2.proposal) then "view: an unexpired pending proposal is missing from the result"
  else
    match out.find? (fun p => gone.contains (t, p.workID) && !live.any (fun e => e.2.proposal == p)) with
    | some p => s!"view: a proposal surfaced in an outcome is still pending and would be proposed again (work id {p.workID})"
    | none => "view: result contains a proposal that is expired, removed or was never added"

def explainObs (t limit : Nat) (gone : List (Nat × String)) (live : GMap Rec) (out : List Proposal) : String :=
  if !decide ((out.map (·.workID)).Nodup) then "observation: a proposal is proposed twice"
  else match out.find? (fun p => !live.any (fun e => e.2.proposal == p)) with
    | some p =>
      if gone.contains (t, p.workID) then
        s!"observation: a proposal surfaced in an outcome (removed from the node's pending set) is proposed again (work id {p.workID})"
      else s!"observation: proposes {p.workID}, which is not an unexpired pending proposal of this node"
    | none =>
      if out.length > limit then s!"observation: {out.length} proposals of one type, the limit is {limit}"
      else s!"observation: carries {out.length} of {live.length} unexpired pending proposals although the limit {limit} is not reached: a pending proposal is omitted"

def explainFilter (live : GMap Rec) (ps out : List Proposal) : String :=
  match out.find? (fun p => live.any (fun e => e.2.proposal.workID == p.workID)) with
  | some p => s!"proposal filterer: the payload of {p.workID} passes although a proposal for it is pending and unexpired (the view the filterer takes omits it)"
  | none =>
    match ps.find? (fun p => !live.any (fun e => e.2.proposal.workID == p.workID) && !out.contains p) with
    | some p => s!"proposal filterer: the payload of {p.workID} is withheld although no unexpired proposal for it is pending"
    | none => "proposal filterer: the payloads that pass are not the given ones in the given order"

def explainEvents : List Ev → String
  | [] => "ok"
  | e :: es =>
    if es.any (fun e2 => !decide (sep e e2)) then
      s!"queue: (work id {e.w}, block {e.b}) handed to the finalisation flow twice within the 20 s window"
    else explainEvents es

def explainRun (tg : String → Nat) : List Op → List (Option (List Proposal)) → SSt → Nat → List (Nat × String) →
    Option String
  | [], _, _, _, _ => none
  | op :: ops, outs, s, i, gone =>
    let out := outs.head?.join.getD []
    let (s', ok, _) := sStep tg s op out
    if !ok then
      match op with
      | .view t =>
        if t = logT then some s!"op {i}: {explainView t gone (liveOf Gen.logRecoveryExpiryNs s.now s.log) out}"
        else if t = condT then some s!"op {i}: {explainView t gone (liveOf Gen.conditionalExpiryNs s.now s.cond) out}"
        else some s!"op {i}: view: non-empty result for an unknown upkeep type"
      | .observe t limit _ =>
        if t = logT then some s!"op {i}: {explainObs t limit gone (liveOf Gen.logRecoveryExpiryNs s.now s.log) out}"
        else if t = condT then some s!"op {i}: {explainObs t limit gone (liveOf Gen.conditionalExpiryNs s.now s.cond) out}"
        else some s!"op {i}: observation: proposals of an unknown upkeep type"
      | .filter t ps =>
        if t = logT then some s!"op {i}: {explainFilter (liveOf Gen.logRecoveryExpiryNs s.now s.log) ps out}"
        else if t = condT then some s!"op {i}: {explainFilter (liveOf Gen.conditionalExpiryNs s.now s.cond) ps out}"
        else some s!"op {i}: proposal filterer of an unknown upkeep type withholds a payload"
      | _ => some s!"op {i}: unexpected verdict"
    else
      let gone' := match op with
        | .outcome sf => sf.flatten.map (fun p => (tg p.upkeepID, p.workID)) ++ gone
        | .add ps => gone.filter (fun g => !ps.any (fun p => tg p.upkeepID == g.1 && p.workID == g.2))
        | _ => gone
      explainRun tg ops outs.tail s' (i + 1) gone'

def explain (tg : String → Nat) (now0 : Nat) (ops : List Op) (outs : List (Option (List Proposal))) : String :=
  match explainRun tg ops outs (SSt.init now0) 0 [] with
  | some s => s
  | none => explainEvents (sRun tg ops outs (SSt.init now0)).2

end AutoVerif.C11
