import AutoVerif.Model.C04
/-
Decidable statement of C04, evaluated by the driver on the implementation's
output and proved of the model in Props/C04.
-/
namespace AutoVerif.C04

def gasOf (cfg : Cfg) (rep : List CheckResult) : Nat :=
  (rep.map fun r => r.gas + cfg.overhead).sum

/-- per-report conditions -/
def reportOk (cfg : Cfg) (rep : List CheckResult) : Bool :=
  decide (rep ≠ []) &&
  decide (rep.length ≤ cfg.batch) &&
  decide ((rep.map (·.upkeepID)).Nodup) &&
  (decide (gasOf cfg rep ≤ cfg.gasLimit) || decide (rep.length = 1))

/-- C04: conservation/order (`flatten = agreed`) and the per-report conditions -/
def spec (cfg : Cfg) (agreed : List CheckResult) (reps : List (List CheckResult)) : Bool :=
  decide (reps.flatten = agreed) && reps.all (reportOk cfg)

/-- which conjunct fails first (for replay files) -/
def explain (cfg : Cfg) (agreed : List CheckResult) (reps : List (List CheckResult)) : String :=
  if reps.flatten ≠ agreed then "flatten(reports) != agreed performables (lost, duplicated, reordered or foreign upkeep)"
  else if reps.any (· == []) then "empty report"
  else if reps.any (fun r => decide (r.length > cfg.batch)) then "report larger than batch size"
  else if reps.any (fun r => !decide ((r.map (·.upkeepID)).Nodup)) then "same upkeep id twice in one report"
  else if reps.any (fun r => !(decide (gasOf cfg r ≤ cfg.gasLimit) || decide (r.length = 1))) then "multi-upkeep report over gas limit"
  else "ok"

end AutoVerif.C04
