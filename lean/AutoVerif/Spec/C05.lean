import AutoVerif.Model.Outcome
/-
C05 as a decidable predicate on (previous outcome, valid observations, agreed performables, surfaced proposals).
-/
namespace AutoVerif.C05
open AutoVerif.Outcome

/-- blocks listed by at least `thr` of the valid observations (an observation lists a block number at most once) -/
def quorumBlocks (thr : Nat) (os : List Observation) : List BlockKey :=
  ((os.flatMap (·.blockHistory)).eraseDups).filter (fun b => decide (thr ≤ blockVotes os b))

/-- all proposals of a round carry block `b`, and log extensions have their block number zeroed -/
def stampedWith (b : BlockKey) (round : List Proposal) : Bool :=
  round.all (fun p => decide (p.trigger.blockNumber = b.number) && p.trigger.blockHash == b.hash &&
    (match p.trigger.ext with | some e => decide (e.blockNumber = 0) | none => true))

/-- `b` has quorum support and no higher-numbered block has it -/
def latestSupported (thr : Nat) (os : List Observation) (b : BlockKey) : Bool :=
  decide (thr ≤ blockVotes os b) && (quorumBlocks thr os).all (fun c => decide (c.number ≤ b.number))

/-- the retained history: ≤ 20 rounds, ≤ 50 each, every unit of work at most once, none also agreed -/
def historyOk (lim : Limits) (agreed : List CheckResult) (sur : List (List Proposal)) : Bool :=
  decide (sur.length ≤ lim.roundHistory) &&
  sur.all (fun r => decide (r.length ≤ lim.perRound)) &&
  decide ((sur.flatten.map (·.workID)).Nodup) &&
  sur.flatten.all (fun p => !performableExists agreed p)

/-- the new round holds only stamped versions of this round's proposals that are new, and all of them unless capped -/
def newRoundOk (lim : Limits) (agreed : List CheckResult) (hist : List (List Proposal)) (os : List Observation)
    (b : BlockKey) (latest : List Proposal) : Bool :=
  let cand := (os.flatMap (·.proposals)).filter (fun p => !proposalExists hist p && !performableExists agreed p)
  latest.all (fun q => cand.any (fun p => stamp b p == q)) &&
  decide ((latest.map (·.workID)).Nodup) &&
  (decide (lim.perRound ≤ latest.length) || cand.all (fun p => latest.any (fun q => q.workID == p.workID)))

inductive Verdict where
  | ok | noQuorumButChanged | quorumButNoRound | zeroHashQuorumIgnored | notLatestQuorum | notStamped
  | carryWrong | historyBad | newRoundBad
deriving DecidableEq, Repr

def judge (ctx : Ctx) (lim : Limits) (prev : List (List Proposal)) (os : List Observation)
    (agreed : List CheckResult) (sur : List (List Proposal)) : Verdict :=
  let thr := ctx.F + 1
  let carried := carryOver agreed prev
  let q := quorumBlocks thr os
  if q.isEmpty then
    if sur = carried then .ok else .noQuorumButChanged
  else
    match sur with
    | [] => if q.all (fun b => b.hash == zeroHash) then .zeroHashQuorumIgnored else .quorumButNoRound
    | latest :: hist =>
      let hist' := if carried.length ≥ lim.roundHistory then carried.take (lim.roundHistory - 1) else carried
      if hist ≠ hist' then
        -- no new round at all although a quorum block exists?
        if sur = carried then
          (if q.all (fun b => b.hash == zeroHash) then .zeroHashQuorumIgnored else .quorumButNoRound)
        else .carryWrong
      else
        -- the coordinated block: read it off the stamped proposals if there are any, otherwise any latest quorum block fits
        match latest with
        | [] => .ok
        | p :: _ =>
          let b : BlockKey := { number := p.trigger.blockNumber, hash := p.trigger.blockHash }
          if !stampedWith b latest then .notStamped
          else if !latestSupported thr os b then
            (if decide (thr ≤ blockVotes os b) &&
                (q.filter (fun c => decide (c.number > b.number))).all (fun c => c.hash == zeroHash)
             then .zeroHashQuorumIgnored else .notLatestQuorum)
          else if !newRoundOk lim agreed hist os b latest then .newRoundBad
          else .ok

/-- C05; the history clauses are required when the previous outcome was itself valid -/
def spec (ctx : Ctx) (lim : Limits) (prev : Outcome) (os : List Observation)
    (agreed : List CheckResult) (sur : List (List Proposal)) : Bool :=
  judge ctx lim prev.surfaced os agreed sur = .ok &&
  (!validOutcome ctx lim prev || historyOk lim agreed sur)

def explain (ctx : Ctx) (lim : Limits) (prev : Outcome) (os : List Observation)
    (agreed : List CheckResult) (sur : List (List Proposal)) : String :=
  match judge ctx lim prev.surfaced os agreed sur with
  | .noQuorumButChanged => "no block has f+1 support but the surfaced proposals are not just the carried-over rounds"
  | .quorumButNoRound => "a block has f+1 support but no new round of proposals was surfaced"
  | .zeroHashQuorumIgnored => "zero-hash-quorum-block: the latest block with f+1 support has an all-zero hash and was not coordinated on"
  | .notLatestQuorum => "new proposals are stamped with a block that lacks f+1 support or is not the highest-numbered such block"
  | .notStamped => "new proposals are not all stamped with one block (number, hash) / log extension block number not zeroed"
  | .carryWrong => "earlier rounds were not carried over exactly (minus performed; oldest dropped only at the limit)"
  | .historyBad => "history invariant broken"
  | .newRoundBad => "new round contains a foreign/duplicate proposal or omits one without being capped"
  | .ok =>
    if validOutcome ctx lim prev && !historyOk lim agreed sur then
      "retained history breaks a limit, repeats a unit of work, or contains work that is also agreed"
    else "ok"

end AutoVerif.C05
