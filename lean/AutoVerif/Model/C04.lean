import AutoVerif.Model.Types
/-
Model of `ocr3Plugin.Reports` (pkg/v3/plugin/ocr3.go): the greedy batching loop.

Go state `(toPerform, gasUsed, seenUpkeepIDs)` becomes `(cur, gas)`; the
`seenUpkeepIDs` map is always exactly the set of upkeep ids of `cur`
(`UpkeepID.String()` is the decimal rendering of the 32 bytes, injective).
`gasUsed` is a `uint64` in Go; `reports_no_wrap` (Props/C04) shows the sums
stay below `2^64` for allocations below `2^62`, so `Nat` arithmetic is exact.
-/
namespace AutoVerif.C04

structure Cfg where
  batch    : Nat   -- MaxUpkeepBatchSize (int; negative values cannot be decoded into the model)
  gasLimit : Nat   -- GasLimitPerReport (uint32)
  overhead : Nat   -- GasOverheadPerUpkeep (uint32)
deriving DecidableEq, Repr

/-- `config.ensureMinimumDefaults` on the three fields `Reports` reads (pkg/v3/config/config.go): a zero gas limit or
overhead and a non-positive batch size are replaced by the defaults (the wire value of the batch size is an `int`) -/
def ensureDefaults (batch : Int) (gasLimit overhead : Nat) : Cfg :=
  { batch := if batch ≤ 0 then 1 else batch.toNat,
    gasLimit := if gasLimit = 0 then 5300000 else gasLimit,
    overhead := if overhead = 0 then 300000 else overhead }

/-- the three members of the off-chain configuration DOCUMENT that `Reports` depends on, as they are on the wire: a
member may be absent (or `null`, which the JSON decoder treats the same way: the target field is not written) -/
structure WireCfg where
  batch    : Option Int
  gasLimit : Option Nat
  overhead : Option Nat
deriving DecidableEq, Repr

/-- the Go struct the document is decoded into (before defaults): three plain fields -/
structure RawCfg where
  batch    : Int
  gasLimit : Nat
  overhead : Nat
deriving DecidableEq, Repr

/-- `json.Unmarshal(doc, &target)`: a member that occurs in the document overwrites the field, an absent (or null)
member leaves the field of the TARGET as it was -/
def unmarshalInto (target : RawCfg) (doc : WireCfg) : RawCfg :=
  { batch := doc.batch.getD target.batch,
    gasLimit := doc.gasLimit.getD target.gasLimit,
    overhead := doc.overhead.getD target.overhead }

def rawZero : RawCfg := { batch := 0, gasLimit := 0, overhead := 0 }

/-- `config.DecodeOffchainConfig`: unmarshal into a FRESH zero value, then `ensureMinimumDefaults`. The configuration
of an instance is a function of its own document and of nothing else. -/
def decodeCfg (doc : WireCfg) : Cfg :=
  let raw := unmarshalInto rawZero doc
  ensureDefaults raw.batch raw.gasLimit raw.overhead

/-- what a factory does that keeps ONE configuration value and decodes every new document into it (not what the code
does — Props/C04 shows why it must not): the result depends on the documents seen before -/
def decodeRetained (held : RawCfg) (doc : WireCfg) : Cfg :=
  let raw := unmarshalInto held doc
  ensureDefaults raw.batch raw.gasLimit raw.overhead

/-- the flush condition of the loop, as in the code after `fix: reports: never flush an empty batch on gas` -/
def flush (cfg : Cfg) (cur : List CheckResult) (gas : Nat) (r : CheckResult) : Bool :=
  decide (cur.length ≥ cfg.batch) ||
  (decide (cur.length > 0) && decide (gas + r.gas + cfg.overhead > cfg.gasLimit)) ||
  (cur.map (·.upkeepID)).contains r.upkeepID

/-- the flush condition of the pinned tree (before the fix): no emptiness guard on the gas clause -/
def flushOld (cfg : Cfg) (cur : List CheckResult) (gas : Nat) (r : CheckResult) : Bool :=
  decide (cur.length ≥ cfg.batch) ||
  decide (gas + r.gas + cfg.overhead > cfg.gasLimit) ||
  (cur.map (·.upkeepID)).contains r.upkeepID

def loop (fl : Cfg → List CheckResult → Nat → CheckResult → Bool) (cfg : Cfg) :
    List CheckResult → List CheckResult → Nat → List (List CheckResult)
  | [], cur, _ => if cur.length > 0 then [cur] else []
  | r :: rs, cur, gas =>
    if fl cfg cur gas r then
      cur :: loop fl cfg rs [r] (r.gas + cfg.overhead)
    else
      loop fl cfg rs (cur ++ [r]) (gas + r.gas + cfg.overhead)

/-- `Reports`: the lists handed to the report encoder, in order -/
def reports (cfg : Cfg) (agreed : List CheckResult) : List (List CheckResult) :=
  loop flush cfg agreed [] 0

/-- the loop of `Reports` with a report encoder that fails on its `failAt`-th call (1-based, 0 = never): `k` calls were
made so far, `acc` are the reports appended so far; a failing call returns what was appended before it together with an
error (`true`), exactly like `return reports, fmt.Errorf(…)` in the two places `getReportFromPerformables` is called -/
def loopE (cfg : Cfg) (failAt : Nat) :
    List CheckResult → List CheckResult → Nat → Nat → List (List CheckResult) → List (List CheckResult) × Bool
  | [], cur, _, k, acc =>
    if cur.length > 0 then (if k + 1 = failAt then (acc, true) else (acc ++ [cur], false)) else (acc, false)
  | r :: rs, cur, gas, k, acc =>
    if flush cfg cur gas r then
      if k + 1 = failAt then (acc, true)
      else loopE cfg failAt rs [r] (r.gas + cfg.overhead) (k + 1) (acc ++ [cur])
    else loopE cfg failAt rs (cur ++ [r]) (gas + r.gas + cfg.overhead) k acc

/-- `Reports` as a call: the returned reports and whether an error was returned -/
def reportsCall (cfg : Cfg) (agreed : List CheckResult) (failAt : Nat) : List (List CheckResult) × Bool :=
  loopE cfg failAt agreed [] 0 0 []

/-- `Reports` on raw outcome bytes: bytes that do not decode and validate (`valid = false`) make the call fail before
anything is built (`return nil, err`) -/
def reportsOnBytes (cfg : Cfg) (valid : Bool) (agreed : List CheckResult) (failAt : Nat) : List (List CheckResult) × Bool :=
  if valid then reportsCall cfg agreed failAt else ([], true)

/-- what the encoder was handed, call by call (the failing call included) -/
def encoderCalls (cfg : Cfg) (agreed : List CheckResult) (failAt : Nat) : List (List CheckResult) :=
  let all := reports cfg agreed
  if failAt = 0 then all else all.take failAt

def reportsOld (cfg : Cfg) (agreed : List CheckResult) : List (List CheckResult) :=
  loop flushOld cfg agreed [] 0

end AutoVerif.C04
