import AutoVerif.Model.Types
/-
Model of `ocr3Plugin.Reports` (pkg/v3/plugin/ocr3.go): the greedy batching loop.

Go state `(toPerform, gasUsed, seenUpkeepIDs)` becomes `(cur, gas)`; the
`seenUpkeepIDs` map is always exactly the set of upkeep ids of `cur`
(`UpkeepID.String()` is the decimal rendering of the 32 bytes, injective).
`gasUsed` is a `uint64` in Go; `reports_no_wrap` (Props/C04) shows the sums
stay below `2^64` for allocations below `2^62`, so `Nat` arithmetic is exact.
-/
namespace AutoVerif.C04

structure Cfg where
  batch    : Nat   -- MaxUpkeepBatchSize (int; negative values cannot be decoded into the model)
  gasLimit : Nat   -- GasLimitPerReport (uint32)
  overhead : Nat   -- GasOverheadPerUpkeep (uint32)
deriving DecidableEq, Repr

/-- `config.ensureMinimumDefaults` on the three fields `Reports` reads (pkg/v3/config/config.go): a zero gas limit or
overhead and a non-positive batch size are replaced by the defaults (the wire value of the batch size is an `int`) -/
def ensureDefaults (batch : Int) (gasLimit overhead : Nat) : Cfg :=
  { batch := if batch ≤ 0 then 1 else batch.toNat,
    gasLimit := if gasLimit = 0 then 5300000 else gasLimit,
    overhead := if overhead = 0 then 300000 else overhead }

/-- the flush condition of the loop, as in the code after `fix: reports: never flush an empty batch on gas` -/
def flush (cfg : Cfg) (cur : List CheckResult) (gas : Nat) (r : CheckResult) : Bool :=
  decide (cur.length ≥ cfg.batch) ||
  (decide (cur.length > 0) && decide (gas + r.gas + cfg.overhead > cfg.gasLimit)) ||
  (cur.map (·.upkeepID)).contains r.upkeepID

/-- the flush condition of the pinned tree (before the fix): no emptiness guard on the gas clause -/
def flushOld (cfg : Cfg) (cur : List CheckResult) (gas : Nat) (r : CheckResult) : Bool :=
  decide (cur.length ≥ cfg.batch) ||
  decide (gas + r.gas + cfg.overhead > cfg.gasLimit) ||
  (cur.map (·.upkeepID)).contains r.upkeepID

def loop (fl : Cfg → List CheckResult → Nat → CheckResult → Bool) (cfg : Cfg) :
    List CheckResult → List CheckResult → Nat → List (List CheckResult)
  | [], cur, _ => if cur.length > 0 then [cur] else []
  | r :: rs, cur, gas =>
    if fl cfg cur gas r then
      cur :: loop fl cfg rs [r] (r.gas + cfg.overhead)
    else
      loop fl cfg rs (cur ++ [r]) (gas + r.gas + cfg.overhead)

/-- `Reports`: the lists handed to the report encoder, in order -/
def reports (cfg : Cfg) (agreed : List CheckResult) : List (List CheckResult) :=
  loop flush cfg agreed [] 0

def reportsOld (cfg : Cfg) (agreed : List CheckResult) : List (List CheckResult) :=
  loop flushOld cfg agreed [] 0

end AutoVerif.C04
