import AutoVerif.Model.Types
import AutoVerif.Gen.Consts
/-
Model of the simulated chain (tools/simulator):

  util/sort.go                    `SortedKeyMap`  (`Set`, `Get`, `Keys n`)
  simulate/chain/broadcaster.go   block numbering and per-subscriber fan-out
  simulate/chain/history.go       `BlockHistoryTracker.run / broadcast`
  simulate/loader/ocr3transmit.go `OCR3TransmitLoader.Transmit / Load / Results`
  simulate/ocr/report.go          `ReportTracker.run / GetLatestEvents`, `createPluginTransmitEvents`

Keys of the sorted map are the decimal renderings `big.Int.String()` of block
numbers, kept as `String`s.  Go's `len(s)` is the byte length and `<` on
strings is byte-wise; for the ASCII strings `big.Int.String()` produces both
coincide with `String.length` / `<` on `String` (code points), which is what
the model uses.

Nondeterminism is explicit:
  * the order in which blocks reach a subscriber is a list (the arrival order);
  * the order in which concurrent `Transmit` calls take the loader's mutex is
    the order of a list of submissions;
  * block hashes (sha256 over a gob encoding) are opaque strings supplied from
    outside.
-/
namespace AutoVerif.C19

/-! ## util/sort.go -/

/-- the `less` function handed to `sort.Slice` in `SortedKeyMap.Set`
    (after "fix: simulator: order block-number keys numerically"):
    shorter key first, equal lengths by string order -/
def numLt (a b : String) : Bool :=
  if a.length ≠ b.length then decide (a.length < b.length) else decide (a < b)

/-- the `less` function of the tree before that fix: plain string order -/
def lexLt (a b : String) : Bool := decide (a < b)

/-- value of a decimal numeral, in the style of `String.toNat!` (no `_` separators) -/
def numVal (s : String) : Nat := Nat.ofDigitChars 10 s.toList 0

/-- canonical decimal numeral: non-empty, digits only, no leading zero except "0" itself
    (exactly the strings `big.Int.String()` returns for non-negative numbers) -/
def isCanon (s : String) : Bool :=
  match s.toList with
  | [] => false
  | [c] => c.isDigit
  | c :: cs => c.isDigit && c != '0' && cs.all Char.isDigit

/-- `append` followed by `sort.Slice` on a list that was sorted before: the new
    key ends up in front of the first key that is greater.  (`Props.C19.sorted_perm_unique`
    shows that every sorted permutation of `keys ++ [k]` is this list, so the
    choice of sorting algorithm is immaterial.) -/
def insertSorted (lt : String → String → Bool) (k : String) : List String → List String
  | [] => [k]
  | x :: xs => if lt k x then k :: x :: xs else x :: insertSorted lt k xs

/-- `SortedKeyMap[T]`: `keys` ascending, `vals` the Go map as an association
    list (newest binding first; `lookup` finds the live one) -/
structure SKM (α : Type) where
  keys : List String := []
  vals : List (String × α) := []

/-- `Get` -/
def SKM.get {α} (m : SKM α) (k : String) : Option α := m.vals.lookup k

/-- `Set`: a new key is appended and the slice re-sorted; an existing key only has its value replaced -/
def SKM.set {α} (lt : String → String → Bool) (m : SKM α) (k : String) (v : α) : SKM α :=
  if (m.get k).isSome then { m with vals := (k, v) :: m.vals }
  else { keys := insertSorted lt k m.keys, vals := (k, v) :: m.vals }

/-- `Keys(count)`: `count` is clamped to `len(keys)`; `keys[i-1] = m.keys[keysLen-i]` for `i = 1..count` -/
def SKM.keysDesc {α} (m : SKM α) (count : Nat) : List String :=
  let keysLen := m.keys.length
  let count := if count > keysLen then keysLen else count
  (List.range count).map fun j => m.keys.getD (keysLen - (j + 1)) ""

/-! ## blocks, broadcaster -/

/-- `chain.TransmitEvent` as far as the property is concerned; `rep` identifies the report bytes -/
structure Transmit where
  sender : String
  rep    : Nat
  round  : Nat
deriving DecidableEq, Repr, Inhabited

/-- `chain.Block`; `txs` are the transmits of its `PerformUpkeepTransaction` (`[]`: no such transaction) -/
structure Block where
  number  : Nat
  hash    : String
  txs     : List Transmit
  content : String := ""    -- opaque digest of everything else in the block (compared for equality only)
  created : List Nat := []  -- ids of the upkeeps its `UpkeepCreatedTransaction`s register
deriving DecidableEq, Repr, Inhabited

/-- block numbers produced by `BlockBroadcaster.run`: `genesis`, then `+1` per tick up to the limit -/
def chainNumbers (genesis count : Nat) : List Nat := (List.range count).map (genesis + ·)

/-- `broadcast`: one message value, one delivery goroutine per subscription -/
def fanout (subs : List Nat) (b : Block) : List (Nat × Block) := subs.map fun s => (s, b)

/-! ## history tracker -/

abbrev HT := SKM Block

/-- `case Block: ht.history.Set(evt.Number.String(), evt)` -/
def HT.onBlock (lt : String → String → Bool) (m : HT) (b : Block) : HT :=
  m.set lt (toString b.number) b

/-- `broadcast`: the newest `defaultHistoryDepth` keys, each turned into a `BlockKey`
    (`Number.Uint64()` truncates to 64 bits; a key without value gives the zero block) -/
def HT.history (m : HT) : List BlockKey :=
  (m.keysDesc Gen.simHistoryDepth).map fun k =>
    match m.get k with
    | some b => { number := b.number % 2 ^ 64, hash := b.hash }
    | none => { number := 0, hash := "" }

/-- tracker state after the blocks `arrivals` were received in that order -/
def trackerAfter (lt : String → String → Bool) (arrivals : List Block) : HT :=
  arrivals.foldl (HT.onBlock lt) {}

/-- every history handed out from state `m` on: one per received block -/
def historiesFrom (lt : String → String → Bool) : HT → List Block → List (List BlockKey)
  | _, [] => []
  | m, b :: bs =>
    let m' := HT.onBlock lt m b
    m'.history :: historiesFrom lt m' bs

def histories (lt : String → String → Bool) (arrivals : List Block) : List (List BlockKey) :=
  historiesFrom lt {} arrivals

/-- key order of the tree before the fix, kept for the counter-example -/
def keysOldLex (numbers : List Nat) (count : Nat) : List String :=
  (numbers.foldl (fun (m : SKM Unit) n => m.set lexLt (toString n) ()) {}).keysDesc count

/-! ## transmit loader -/

/-- `OCR3TransmitLoader`: `queue` and the `transmitted` map (in insertion order; keyed by `(rep, round)`) -/
structure TL where
  queue       : List Transmit := []
  transmitted : List Transmit := []
deriving DecidableEq, Repr

def sameKey (a b : Transmit) : Bool := a.rep == b.rep && a.round == b.round

/-- `Transmit(from, report, round)`: rejected when the `(report, round)` key is present -/
def TL.transmit (tl : TL) (t : Transmit) : TL × Bool :=
  if tl.transmitted.any (sameKey t) then (tl, false)
  else ({ queue := tl.queue ++ [t], transmitted := tl.transmitted ++ [t] }, true)

/-- `Load(block)`: the whole queue goes into the block -/
def TL.load (tl : TL) : TL × List Transmit := ({ tl with queue := [] }, tl.queue)

/-- a step of the loader seen from outside: a submission or a block being built -/
inductive TLOp where
  | submit (t : Transmit)
  | load
deriving DecidableEq, Repr

/-- runs a schedule; returns the final state, the accept flags of the submissions and the
    transmit lists of the blocks built, all in schedule order -/
def TL.runOps : TL → List TLOp → TL × List Bool × List (List Transmit)
  | tl, [] => (tl, [], [])
  | tl, .submit t :: ops =>
    let (tl', ok) := tl.transmit t
    let (tl'', oks, blocks) := TL.runOps tl' ops
    (tl'', ok :: oks, blocks)
  | tl, .load :: ops =>
    let (tl', q) := tl.load
    let (tl'', oks, blocks) := TL.runOps tl' ops
    (tl'', oks, q :: blocks)

/-! ## report tracker -/

/-- `ReportTrackerBlockRange` (simulate/ocr/report.go), regenerated from the source on every run -/
def reportTrackerBlockRange : Nat := Gen.simReportTrackerBlockRange

/-- `ReportTracker`: `latest` and `blockEvents` (value: the block number stamped by `Load`, and the transmits) -/
structure RT where
  latest      : Option Block := none
  blockEvents : SKM (Nat × List Transmit) := {}

/-- `(*big.Int).Cmp` on non-negative numbers: −1, 0, +1 -/
def bigCmp (a b : Nat) : Int := if a < b then -1 else if a = b then 0 else 1

/-- `case chain.Block: rt.updateBlock(evt)` after "fix: simulator: confirmations are computed
    against the highest block seen": `latest` only moves to a higher block number
    (`rt.latest == nil || … || block.Number.Cmp(rt.latest.Number) > 0`) -/
def RT.onBlock (rt : RT) (b : Block) : RT :=
  match rt.latest with
  | none => { rt with latest := some b }
  | some l => if b.number > l.number then { rt with latest := some b } else rt

/-- `updateBlock` of the tree before that fix: `latest` is whatever block arrived last -/
def RT.onBlockOld (rt : RT) (b : Block) : RT := { rt with latest := some b }

/-- `case chain.PerformUpkeepTransaction: rt.blockEvents.Set(event.BlockNumber.String(), evt.Transmits)` -/
def RT.onPerform (rt : RT) (b : Block) : RT :=
  { rt with blockEvents := rt.blockEvents.set numLt (toString b.number) (b.number, b.txs) }

/-- a block reaches the tracker: the listener publishes the block and, if it carries one,
    its perform transaction (the two updates commute) -/
def RT.onArrivalWith (upd : RT → Block → RT) (rt : RT) (b : Block) : RT :=
  let rt := upd rt b
  if b.txs.isEmpty then rt else rt.onPerform b

def RT.onArrival : RT → Block → RT := RT.onArrivalWith RT.onBlock

def rtAfter (arrivals : List Block) : RT := arrivals.foldl RT.onArrival {}

/-- the tracker of the tree before the fix -/
def rtAfterOld (arrivals : List Block) : RT := arrivals.foldl (RT.onArrivalWith RT.onBlockOld) {}

/-- `Confirmations: new(big.Int).Sub(latest.Number, chainEvent.BlockNumber).Int64()` -/
def confirmations (latest transmitBlock : Nat) : Int := (latest : Int) - (transmitBlock : Int)

/-- `ocr2keepers.TransmitEvent` as compared: work id, transmit block, confirmations, and which transmit it came from -/
structure Ev where
  wid   : String
  block : Nat
  conf  : Int
  rep   : Nat
  round : Nat
deriving DecidableEq, Repr, Inhabited

/-- `createPluginTransmitEvents`: one event per check result of the report (`reports[rep]` = its work ids) -/
def pluginEvents (reports : List (List String)) (latest : Block) (blk : Nat) (t : Transmit) : List Ev :=
  (reports.getD t.rep []).map fun w =>
    { wid := w, block := blk, conf := confirmations latest.number blk, rep := t.rep, round := t.round }

/-- `GetLatestEvents`: nothing before the first block; otherwise the events of the newest
    `ReportTrackerBlockRange` keys, newest first -/
def RT.latestEvents (reports : List (List String)) (rt : RT) : List Ev :=
  match rt.latest with
  | none => []
  | some l =>
    (rt.blockEvents.keysDesc reportTrackerBlockRange).flatMap fun k =>
      match rt.blockEvents.get k with
      | some (blk, ts) => ts.flatMap (pluginEvents reports l blk)
      | none => []

/-! ## a whole run (what the correspondence harness executes) -/

/-- what one attached node observed -/
structure SubOut where
  recv   : List Block              -- blocks received from its listener, in order
  slow   : List Block              -- the same, as received by a second consumer that may stop reading for a while
  active : List Nat                -- ids of the upkeeps its active-upkeep tracker knows at the end (ascending, with repetitions)
  hists  : List (List BlockKey)    -- histories received from its history tracker, in order
  events : List (List Ev)          -- answers of its report tracker, one per query; the last is the final one
  seen   : List Nat                -- per query: how many blocks the node had received when it was asked
deriving DecidableEq, Repr

/-- an entry of `OCR3TransmitLoader.Results()`; `block = none`: never loaded into a block -/
structure Rec where
  t     : Transmit
  block : Option Nat
deriving DecidableEq, Repr

structure Out where
  chain    : List Block            -- as broadcast, in order
  times    : List Nat              -- broadcast instant of each block (µs after `Start`)
  chainAfter : List Block          -- the same block values looked at again at the end of the run
  subs     : List SubOut
  accepted : List (List Bool)      -- per submission, per submitting node: `Transmit` returned nil
  results  : List Rec              -- `Results()` (a Go map: compared in the canonical order of `recLe`)
deriving DecidableEq, Repr

/-- a group of concurrent `Transmit` calls with the same report and round -/
structure Submission where
  rep   : Nat
  round : Nat
  nodes : List Nat
deriving DecidableEq, Repr

/-- a generated case.  Times: `cadence` and `delays` in ms, `txs` / `queries` in µs after `Start`
    (never a multiple of 1000, so no operation coincides with a block or a delivery). -/
structure Input where
  genesis : Nat
  count   : Nat                        -- blocks broadcast: genesis … genesis+count-1
  cadence : Nat
  nsubs   : Nat
  delays  : List (List Nat)            -- per subscriber, per block index
  reports : List (List String)         -- work ids of each report
  txs     : List (Nat × Submission)    -- ascending in time
  queries : List Nat                   -- ascending; mid-run queries of every report tracker
  attach  : List Nat                   -- per subscriber: instant (µs) at which it subscribes; 0: before `Start`
  detach  : List Nat                   -- per subscriber: instant (µs) at which it unsubscribes; 0: never
  upkeeps : List (Nat × List Nat)      -- (block index, ids of the upkeeps created in that block)
  grace   : Nat                        -- µs a delivery may still be on its way when a subscriber unsubscribes
                                       -- (the broadcaster's own `maxDelay`; 0 when deliveries are never cut off)
deriving Repr

/-- the implementation's choices the model is told about -/
structure Choices where
  hashes  : List (String × String)     -- hash and content digest of the i-th block
  winners : List (List Bool)           -- per submission: which callers were accepted (they took the mutex first)
  orders  : List (Option (List Nat))   -- per subscriber: arrival order (block indices) at its history and report
                                       -- trackers when the input does not fix it
  recvs   : List (Option (List Nat))   -- per subscriber: the same for the plain block subscription (separate goroutines)
  slows   : List (Option (List Nat))   -- per subscriber: the same for the second, stallable block subscription
deriving Repr

def senderName (n : Nat) : String := s!"node-{n}"

/-- callers in the order they took the loader's mutex: accepted ones first -/
def callOrder (nodes : List Nat) (win : List Bool) : List Nat :=
  let idx := List.range nodes.length
  idx.filter (fun i => win.getD i false) ++ idx.filter (fun i => !win.getD i false)

/-- index of the block a call at time `at` (µs) is loaded into: the first block built after it -/
def blockIndexOf (cadence at_ : Nat) : Nat := at_ / (cadence * 1000) + 1

/-- the concurrent calls of one submission, in the order they took the mutex: (position in `nodes`, call) -/
def groupCalls (s : Submission) (win : List Bool) : List (Nat × Transmit) :=
  (callOrder s.nodes win).map fun i =>
    (i, { sender := senderName (s.nodes.getD i 0), rep := s.rep, round := s.round })

/-- a sequence of `Transmit` calls; the answers in call order -/
def TL.submitAll : TL → List Transmit → TL × List Bool
  | tl, [] => (tl, [])
  | tl, t :: ts =>
    let (tl', ok) := tl.transmit t
    let (tl'', oks) := TL.submitAll tl' ts
    (tl'', ok :: oks)

/-- one submission: its calls one after the other; the answers in the order of `nodes` -/
def TL.submitGroup (tl : TL) (s : Submission) (win : List Bool) : TL × List Bool :=
  let calls := groupCalls s win
  let (tl', oks) := tl.submitAll (calls.map (·.2))
  (tl', (List.range s.nodes.length).map fun i => (((calls.map (·.1)).zip oks).lookup i).getD false)

/-- `n` consecutive blocks are built: `Load` each time -/
def TL.loads : TL → Nat → TL × List (List Transmit)
  | tl, 0 => (tl, [])
  | tl, n + 1 =>
    let (tl', q) := tl.load
    let (tl'', qs) := TL.loads tl' n
    (tl'', q :: qs)

/-- the loader's timeline from block `cur` on: before each submission the blocks due by then
    are built, after the last one the remaining blocks up to `count`.  Returns the final state,
    the answers per submission and the transmit lists of the blocks built. -/
def feed (cadence count : Nat) :
    Nat → TL → List ((Nat × Submission) × List Bool) → TL × List (List Bool) × List (List Transmit)
  | cur, tl, [] =>
    let (tl', qs) := tl.loads (count - cur)
    (tl', [], qs)
  | cur, tl, ((at_, s), win) :: rest =>
    let n := min (blockIndexOf cadence at_) count - cur
    let (tl1, qs) := tl.loads n
    let (tl2, flags) := tl1.submitGroup s win
    let (tl3, fl, qs') := feed cadence count (cur + n) tl2 rest
    (tl3, flags :: fl, qs ++ qs')

def insertBy {α} (le : α → α → Bool) (x : α) : List α → List α
  | [] => [x]
  | y :: ys => if le x y then x :: y :: ys else y :: insertBy le x ys

def sortBy {α} (le : α → α → Bool) (l : List α) : List α := l.foldr (insertBy le) []

/-- canonical order of `Results()` entries -/
def recLe (a b : Rec) : Bool :=
  a.t.rep < b.t.rep || (a.t.rep == b.t.rep && a.t.round ≤ b.t.round)

/-- broadcast instant (µs after `Start`) of block `i`: `run` broadcasts block 0 at once, then one per tick -/
def blockTime (cadence i : Nat) : Nat := i * cadence * 1000

/-- a block going out at instant `t` is sent to a subscriber that subscribed at `att` (0: before
    `Start`) and unsubscribes at `det` (0: never): `broadcast` ranges over the subscriptions of that moment -/
def inWindow (att det t : Nat) : Bool := decide (att ≤ t) && (det == 0 || decide (t < det))

/-- the blocks broadcast while the subscriber was attached -/
def subChain (att det : Nat) (chain : List Block) (times : List Nat) : List Block :=
  ((chain.zip times).filter fun x => inWindow att det x.2).map (·.1)

/-- … and at least `grace` before it unsubscribed: their delivery cannot have been cut off by `Unsubscribe` -/
def inWindowG (att det grace t : Nat) : Bool := decide (att ≤ t) && (det == 0 || decide (t + grace < det))

def subChainG (att det grace : Nat) (chain : List Block) (times : List Nat) : List Block :=
  ((chain.zip times).filter fun x => inWindowG att det grace x.2).map (·.1)

/-- arrival order of the blocks `idx` at a subscriber whose deliveries are delayed by `delays`
    (distinct arrival instants): (arrival time in ms, block index) -/
def arrivalOrder (cadence : Nat) (idx : List Nat) (delays : List Nat) : List (Nat × Nat) :=
  sortBy (fun a b => a.1 < b.1 || (a.1 == b.1 && a.2 ≤ b.2))
    (idx.map fun i => (i * cadence + delays.getD i 0, i))

/-- the chain of a run: block `i` has number `genesis + i`, the hash the implementation gave it and
    the transmits the loader put into it -/
def runChain (inp : Input) (ch : Choices) (blockTxs : List (List Transmit)) : List Block :=
  (List.range inp.count).map fun i =>
    { number := inp.genesis + i, hash := (ch.hashes.getD i ("", "")).1, txs := blockTxs.getD i [],
      content := (ch.hashes.getD i ("", "")).2,
      created := (inp.upkeeps.filter (·.1 == i)).flatMap (·.2) }

/-- `Results()`: every recorded transmit with the number of the block that carries it -/
def runResults (chain : List Block) (tl : TL) : List Rec :=
  sortBy recLe (tl.transmitted.map fun t =>
    { t := t, block := (chain.find? fun b => b.txs.contains t).map (·.number) : Rec })

/-- indices of the blocks broadcast while subscriber `s` is attached -/
def runWindow (inp : Input) (s : Nat) : List Nat :=
  (List.range inp.count).filter fun i =>
    inWindow (inp.attach.getD s 0) (inp.detach.getD s 0) (blockTime inp.cadence i)

/-- (arrival time in ms, block index) of the deliveries to subscriber `s`, in arrival order -/
def runTimed (inp : Input) (ch : Choices) (s : Nat) : List (Nat × Nat) :=
  match ch.orders.getD s none with
  | some ord => ord.map fun i => (0, i)
  | none => arrivalOrder inp.cadence (runWindow inp s) (inp.delays.getD s [])

/-- what subscriber `s` observes; it exists from its subscription on and answers the queries made after that -/
def runSub (inp : Input) (ch : Choices) (chain : List Block) (s : Nat) : SubOut :=
  let timed := runTimed inp ch s
  let arrivals := timed.filterMap fun x => chain[x.2]?
  let before (q : Nat) : List Block := timed.filterMap fun x => if x.1 * 1000 < q then chain[x.2]? else none
  let answer (arr : List Block) : List Ev := (rtAfter arr).latestEvents inp.reports
  let recv := match ch.recvs.getD s none with
    | some ord => ord.filterMap (chain[·]?)
    | none => arrivals
  let queries := inp.queries.filter fun q => decide (inp.attach.getD s 0 < q)
  -- a consumer that stops reading loses nothing: the listener's senders wait and are served in order
  let slow := match ch.slows.getD s none with
    | some ord => ord.filterMap (chain[·]?)
    | none => arrivals
  { recv := recv, slow := slow, active := sortBy (fun a b => decide (a ≤ b)) (arrivals.flatMap (·.created)), hists := histories numLt arrivals,
    events := queries.map (fun q => answer (before q)) ++ [answer arrivals],
    seen := queries.map (fun q => (before q).length) ++ [arrivals.length] }

def run (inp : Input) (ch : Choices) : Out :=
  let groups := inp.txs.zipIdx.map fun (x, j) => (x, ch.winners.getD j [])
  let r := feed inp.cadence inp.count 0 {} groups
  let chain := runChain inp ch r.2.2
  { chain := chain, times := (List.range inp.count).map (blockTime inp.cadence),
    chainAfter := chain,  -- nobody writes to a block once `broadcast` has handed it out
    subs := (List.range inp.nsubs).map (runSub inp ch chain),
    accepted := r.2.1, results := runResults chain r.1 }

/-! ## un-timed `Transmit` ∥ `Load` (the stress cases of the harness) -/

/-- what such a run shows: the answers per round and node, the blocks that got transmits (number,
    transmits) in the order they were built, and `Results()` -/
structure StressOut where
  accepted : List (List Bool)
  blocks   : List (Nat × List Transmit)
  results  : List Rec
deriving DecidableEq, Repr

/-- a schedule of the loader that explains observed blocks: the accepted calls of each block, then
    its `Load` (refused calls change nothing and are left out) -/
def stressSchedule (blocks : List (List Transmit)) : List TLOp :=
  blocks.flatMap fun b => b.map TLOp.submit ++ [TLOp.load]

/-- the model run on that schedule: accepted everywhere, the same blocks, every transmit recorded
    with the number of its block -/
def stressReplay (blocks : List (Nat × List Transmit)) : Bool × List (List Transmit) × List Rec :=
  let r := TL.runOps {} (stressSchedule (blocks.map (·.2)))
  (r.2.1.all id && r.1.queue.isEmpty, r.2.2,
   sortBy recLe (r.1.transmitted.map fun t =>
     { t := t, block := (blocks.find? fun b => b.2.contains t).map (·.1) : Rec }))

end AutoVerif.C19
