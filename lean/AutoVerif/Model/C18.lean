/-
Model for C18 — `recoverer` (pkg/v3/service/recoverable.go) wrapped around one
start-once / stop-once service (pkg/v3/tickers/time.go `timeTicker`, and, with
the tick work done inline, pkg/v3/coordinator/coordinator.go), as a transition
system over the atomic steps of the goroutines involved.  Core Lean only.

Goroutines (one recoverer; the plugin runs ten of them side by side, they share
nothing):

  S   the goroutine that called `recoverer.Start` (plugin.startServices):
        init    `if m.running.Load() { return ErrServiceAlreadyStarted }`
        spawn   `go m.recoverableStart(ctx)`
        store   serviceStart: `m.running.Store(true)`
        sel     about to execute `select { case err := <-m.stopped … }` (NOT parked yet)
        parked  parked in that select (`ctx` is `context.Background()`: its case never fires)
        cool    `<-time.After(m.coolDown)`          (after `errServiceStopped`)
        respawn `go m.recoverableStart(ctx)`        (after the cool-down; then back to `sel`)
        clear   `m.running.Store(false)`            (after `errServiceContextCancelled`)
        done    returned
  G…  the goroutines running `recoverableStart` → `service.Start(ctx)`.  They have no
      local state besides their program counter, so they are kept as counters:
        nCall      about to call `s.Start(ctx)`            (`StartOnce`: CAS Unstarted→Starting)
        nStarting  inside `StartOnce` between the two CAS  (state `Starting`)
        nRun       inside the service loop `select { <-ctx.Done() … <-ticker.C … }`
        nSendNil / nSendErr / nSendStopped   at `chStop <- err` with nil / a start error / errServiceStopped
  C   a caller of `recoverer.Close`:
        load     `if !m.running.Load() { return ErrServiceNotRunning }`
        svcClose `err := m.service.Close()` = `StopOnce`: under the state lock, CAS Started→Stopping,
                 `close(t.stopCh)`; any other state: error, nothing closed
        waitDone `<-t.done`, then CAS Stopping→Stopped
        signal   the send attempt of the loop `for { select { case m.stopped <- errServiceContextCancelled: return err; default: }; …`
                 (sent: `ret`; channel full: on to `drain`)
        drain    `select { case <-m.stopped: default: }` — a pending message of the service being closed gives way; back to `signal`
                 (before "fix: recoverer: Close could lose its stop signal …" there was ONE non-blocking send, dropped when the
                 channel was full: `stepCoreOld`)
        ret      returned (label `closeCall` starts the first Close, `closeAgain` a further one after a return)
  P…  `go Process` goroutines spawned per tick (counter `procs`), and the worker-group
      goroutines that execute the pipeline call for them (counter `workers`,
      pkg/util/worker.go `doJob`: `go func() { … wkr.Do(…) }()`).

The channel `m.stopped` has capacity 1 and a single receiver (S).  Go semantics,
kept exactly: a send finds either the receiver parked (direct hand-off, the
buffer stays empty), or a free buffer slot, or it blocks / (for the `select`
with `default` in Close) is dropped.

The wrapped service is the start-once / stop-once kind (`services.StateMachine`: the seven ticker flows and
the coordinator).  The metadata store and the runner guard Start/Close with their own `running` flag and
behave the same way for this model's purposes (Close before their Start has run is refused with an error and
closes nothing; their Start then runs); the result store latches its close signal in a buffered channel, so
a Close that comes before its Start is not lost.

Nothing is hidden: the scheduler is the list of labels; time is the label
`coolElapsed`; faults are the labels `gPanic` (a panic that reaches the service's own
goroutine — what an uncontained panic of the coordinator's inline poll used to be),
`pPanic` (panic inside a `Process` goroutine — log / recovery / upkeep provider,
pre- and post-processors), `wPanic` (panic inside a worker goroutine — the
check pipeline) and `pollPanic` (panic inside the poll the coordinator's own
goroutine performs — the transmit-event provider).  Which of them are contained
is a parameter (`Fixes`): the current tree contains all of them — also `v2PollPanic`, the same for the OCR2
report coordinator's log poll, which runs on a bare goroutine.
-/
namespace AutoVerif.C18

/-- values sent on `recoverer.stopped` -/
inductive Msg
  | nil        -- `Start` returned nil
  | svcErr     -- `Start` returned an error (e.g. "has already been started once")
  | stopped    -- errServiceStopped (sent from the `recover()` branch)
  | cancelled  -- errServiceContextCancelled (sent by Close)
deriving DecidableEq, Repr

/-- `services.StateMachine` of the wrapped service -/
inductive Svc | unstarted | starting | started | stopping | stopped
deriving DecidableEq, Repr

inductive SPc | init | spawn | store | sel | parked | cool | respawn | clear | done
deriving DecidableEq, Repr

inductive CPc | idle | load | svcClose | waitDone | signal | drain | ret
deriving DecidableEq, Repr

/-- what the last `Close` returned -/
inductive CRes
  | none        -- no Close has returned yet
  | notRunning  -- ErrServiceNotRunning (running flag was false)
  | ok          -- nil
  | svcRefused  -- error of the wrapped service: it was not in state Started (nothing was stopped)
deriving DecidableEq, Repr

/-- the part of the state the recoverer / service protocol depends on -/
structure Core where
  spc      : SPc
  running  : Bool            -- recoverer.running
  buf      : Option Msg      -- recoverer.stopped (capacity 1)
  svc      : Svc             -- StateMachine of the service
  stopReq  : Bool            -- service's stopCh closed
  done     : Bool            -- service's done channel closed (its Start has left the loop)
  nCall : Nat
  nStarting : Nat
  nRun : Nat
  nSendNil : Nat
  nSendErr : Nat
  nSendStopped : Nat
  cpc      : CPc
  svcErr   : Bool            -- C: `err` of service.Close() is non-nil
  cres     : CRes
  dropped  : Bool            -- ghost: some Close found the channel full and DROPPED its cancel signal (pre-fix step only)
  panicked : Bool            -- ghost: the service's own goroutine has panicked at least once
  latched  : Bool            -- service kind: false = start-once/stop-once (StateMachine: tickers, coordinator);
                             --   true = restartable with a latched close signal (result store: `close chan bool` of capacity 1,
                             --   no StateMachine — `Start` can run again after a panic, `Close` never waits)
  latch    : Bool            -- latched kind: a close signal is sitting in the service's `close` channel
deriving DecidableEq, Repr

inductive CLabel
  | sInit | sSpawn | sStore | sSel | coolElapsed | sRespawn | sClear
  | gCall | gStarted | gStopSeen | gPanic | gSendNil | gSendErr | gSendStopped
  | closeCall | closeAgain | cLoad | cSvcClose | cWaitDone | cSignal | cDrain
deriving DecidableEq, Repr

def allCLabels : List CLabel :=
  [.sInit, .sSpawn, .sStore, .sSel, .coolElapsed, .sRespawn, .sClear,
   .gCall, .gStarted, .gStopSeen, .gPanic, .gSendNil, .gSendErr, .gSendStopped,
   .closeCall, .closeAgain, .cLoad, .cSvcClose, .cWaitDone, .cSignal, .cDrain]

/-- the `error` value a message carries, as far as `err != nil` is concerned: 0 = nil -/
def Msg.errCode : Msg → Nat
  | .nil => 0 | .svcErr => 1 | .stopped => 2 | .cancelled => 3

/-- the start/close guard shared by the recoverer and by the services that keep their own `running` flag (metadata
    store, runner, v2 report coordinator): Start is refused when the flag is set, Close when it is not -/
def flagStartRefuses (running : Bool) : Bool := running
def flagCloseRefuses (running : Bool) : Bool := !running

/-- the ticker loop skips a tick (spawns no `Process` goroutine) when it has no getter; the label `tick` stands for a
    tick on which this is false (every flow of the plugin passes a getter) -/
def tickSkipped (getter nilFn : Nat) : Bool := decide (getter = nilFn)

/-- where S continues after receiving `m` (serviceStart's `case err := <-m.stopped`) -/
def afterRecv : Msg → SPc
  | .nil => .sel          -- `if err != nil` false: next loop iteration
  | .svcErr => .sel       -- neither errServiceStopped nor …Cancelled: next loop iteration
  | .stopped => .cool     -- `<-time.After(m.coolDown)`
  | .cancelled => .clear  -- `m.running.Store(false); return`

/-- `ch <- m` on `recoverer.stopped`: hand-off to the parked receiver, else the free slot, else `none` (cannot proceed) -/
def send (c : Core) (m : Msg) : Option Core :=
  if c.spc = .parked then some { c with spc := afterRecv m }
  else if c.buf = none then some { c with buf := some m }
  else none

def stepCore (c : Core) : CLabel → Option Core
  -- S ------------------------------------------------------------------
  | .sInit => if c.spc = .init then (if c.running then some { c with spc := .done } else some { c with spc := .spawn }) else none
  | .sSpawn => if c.spc = .spawn then some { c with spc := .store, nCall := c.nCall + 1 } else none
  | .sStore => if c.spc = .store then some { c with spc := .sel, running := true } else none
  | .sSel =>
    if c.spc = .sel then
      match c.buf with
      | some m => some { c with buf := none, spc := afterRecv m }
      | none => some { c with spc := .parked }
    else none
  | .coolElapsed => if c.spc = .cool then some { c with spc := .respawn } else none
  | .sRespawn => if c.spc = .respawn then some { c with spc := .sel, nCall := c.nCall + 1 } else none
  | .sClear => if c.spc = .clear then some { c with spc := .done, running := false } else none
  -- G ------------------------------------------------------------------
  | .gCall =>
    if c.nCall = 0 then none
    else if c.latched then some { c with nCall := c.nCall - 1, nRun := c.nRun + 1 }   -- no StateMachine: straight into the loop
    else if c.svc = .unstarted then some { c with nCall := c.nCall - 1, nStarting := c.nStarting + 1, svc := .starting }
    else some { c with nCall := c.nCall - 1, nSendErr := c.nSendErr + 1 }   -- StartOnce: "has already been started once"
  | .gStarted =>
    if c.nStarting = 0 then none
    else some { c with nStarting := c.nStarting - 1, nRun := c.nRun + 1, svc := .started }
  | .gStopSeen =>   -- `<-ctx.Done()`: return nil; deferred `close(t.done)`   (latched kind: `case <-s.close:` return nil)
    if c.latched then
      (if c.nRun = 0 ∨ c.latch = false then none
       else some { c with nRun := c.nRun - 1, latch := false, nSendNil := c.nSendNil + 1 })
    else if c.nRun = 0 ∨ c.stopReq = false then none
    else some { c with nRun := c.nRun - 1, done := true, nSendNil := c.nSendNil + 1 }
  | .gPanic =>      -- panic in the service goroutine: deferred `close(t.done)`, recovered in recoverableStart; StateMachine untouched
    if c.nRun = 0 then none
    else some { c with nRun := c.nRun - 1, done := true, nSendStopped := c.nSendStopped + 1, panicked := true }
  | .gSendNil => if c.nSendNil = 0 then none else (send c .nil).map fun c' => { c' with nSendNil := c.nSendNil - 1 }
  | .gSendErr => if c.nSendErr = 0 then none else (send c .svcErr).map fun c' => { c' with nSendErr := c.nSendErr - 1 }
  | .gSendStopped => if c.nSendStopped = 0 then none else (send c .stopped).map fun c' => { c' with nSendStopped := c.nSendStopped - 1 }
  -- C ------------------------------------------------------------------
  | .closeCall => if c.cpc = .idle then some { c with cpc := .load, svcErr := false } else none
  | .closeAgain => if c.cpc = .ret then some { c with cpc := .load, svcErr := false } else none   -- a further Close after one has returned
  | .cLoad =>
    if c.cpc = .load then
      (if c.running then some { c with cpc := .svcClose } else some { c with cpc := .ret, cres := .notRunning })
    else none
  | .cSvcClose =>
    if c.cpc = .svcClose then
      (if c.latched then
         (if c.latch then none                                   -- `s.close <- true` on a full channel: blocks
          else some { c with cpc := .signal, latch := true })    -- signal latched whether or not Start is running; no wait
       else if c.svc = .started then some { c with cpc := .waitDone, svc := .stopping, stopReq := true }
       else some { c with cpc := .signal, svcErr := true })
    else none
  | .cWaitDone => if c.cpc = .waitDone ∧ c.done then some { c with cpc := .signal, svc := .stopped } else none
  | .cSignal =>   -- the send attempt of Close's loop (same cases as `send`; a full channel leads to the drain attempt, never to giving up)
    if c.cpc = .signal then
      let res := if c.svcErr then CRes.svcRefused else CRes.ok
      if c.spc = .parked then some { c with spc := afterRecv .cancelled, cpc := .ret, cres := res }
      else if c.buf = none then some { c with buf := some .cancelled, cpc := .ret, cres := res }
      else some { c with cpc := .drain }
    else none
  | .cDrain =>    -- `select { case <-m.stopped: default: }`: takes the pending message if there (still) is one; then the next attempt
    if c.cpc = .drain then some { c with buf := none, cpc := .signal } else none

/-- the tree before "fix: recoverer: Close could lose its stop signal and leave the watcher running": Close made ONE
    non-blocking send and gave up when the channel was full (`default:`) -/
def stepCoreOld (c : Core) : CLabel → Option Core
  | .cSignal =>
    if c.cpc = .signal then
      let res := if c.svcErr then CRes.svcRefused else CRes.ok
      if c.spc = .parked then some { c with spc := afterRecv .cancelled, cpc := .ret, cres := res }
      else if c.buf = none then some { c with buf := some .cancelled, cpc := .ret, cres := res }
      else some { c with cpc := .ret, cres := res, dropped := true }
    else none
  | .cDrain => none
  | l => stepCore c l

def runCOld : Core → List CLabel → Option Core
  | c, [] => some c
  | c, l :: ls => match stepCoreOld c l with
    | some c' => runCOld c' ls
    | none => none

/-- full state: the core plus the goroutines that do not interact with it -/
structure State where
  core    : Core
  procs   : Nat    -- live `go Process` goroutines
  workers : Nat    -- live worker goroutines executing a pipeline call
  crashed : Bool   -- an unrecovered panic has terminated the process
deriving DecidableEq, Repr

inductive Label
  | core (l : CLabel)
  | tick      -- `case tm := <-ticker.C`: `go func(){ defer recover…; o.Process(…) }()`
  | pJob      -- a Process goroutine hands a job to the worker group (`doJob` spawns a worker goroutine)
  | pFinish   -- a Process goroutine returns
  | pPanic    -- a Process goroutine panics (provider `Value`, pre-processor, post-processor)
  | wFinish   -- a worker goroutine returns
  | wPanic    -- a worker goroutine panics (the check pipeline called from `wrapWorkerFunc`)
  | pollPanic -- the poll run by the service's own goroutine panics (coordinator.run → checkEvents → GetLatestEvents)
  | v2PollPanic -- the OCR2 report coordinator's log poll panics (reportCoordinator.run → checkLogs → PerformLogs /
                -- StaleReportLogs / the encoder): `run` is a bare goroutine (`go rc.run()`), no recoverer above it
deriving DecidableEq, Repr

/-- which panics the tree contains where they are raised:
    `ticker` pkg/v3/tickers/time.go — recover inside the spawned `go Process` goroutine
             ("fix: time ticker: contain a panic raised while processing a tick");
    `worker` pkg/util/worker.go — `worker.Do` runs the item through `runWorkItem`, which turns a panic into an error result
             ("fix: worker group: a panicking work item becomes an error result instead of killing the process");
    `poll`   pkg/v3/coordinator/coordinator.go — `run` calls `safeCheckEvents`, which turns a panic into an error, logged, next poll continues
             ("fix: coordinator: a panic while polling transmit events no longer stops event processing for good"). -/
structure Fixes where
  ticker : Bool
  worker : Bool
  poll   : Bool
  v2poll : Bool   -- pkg/v2/coordinator/coordinator.go — `run` calls `safeCheckLogs` ("fix: v2 coordinator: a panic while polling
                  -- perform and stale report logs no longer kills the process")
deriving DecidableEq, Repr

/-- the tree as it is now -/
def current : Fixes := { ticker := true, worker := true, poll := true, v2poll := true }

def step (fx : Fixes) (s : State) : Label → Option State
  | .core l => if s.crashed then none else (stepCore s.core l).map fun c => { s with core := c }
  | .tick => if s.crashed ∨ s.core.nRun = 0 then none else some { s with procs := s.procs + 1 }
  | .pJob => if s.crashed ∨ s.procs = 0 then none else some { s with workers := s.workers + 1 }
  | .pFinish => if s.crashed ∨ s.procs = 0 then none else some { s with procs := s.procs - 1 }
  | .pPanic =>
    if s.crashed ∨ s.procs = 0 then none
    else if fx.ticker then some { s with procs := s.procs - 1 }   -- recovered and logged; the ticker loop is untouched
    else some { s with crashed := true }
  | .wFinish => if s.crashed ∨ s.workers = 0 then none else some { s with workers := s.workers - 1 }
  | .wPanic =>
    if s.crashed ∨ s.workers = 0 then none
    else if fx.worker then some { s with workers := s.workers - 1 }   -- the item's result is an error; the submitter gets it
    else some { s with crashed := true }                              -- no recover on the worker goroutine
  | .pollPanic =>
    if s.crashed ∨ s.core.nRun = 0 then none
    else if fx.poll then some s                                      -- an error for this poll; the loop goes on to the next one
    else (stepCore s.core .gPanic).map fun c => { s with core := c }  -- escapes into the service goroutine: `gPanic`
  | .v2PollPanic =>
    if s.crashed ∨ s.core.nRun = 0 then none
    else if fx.v2poll then some s               -- an error for this poll, logged; the loop goes on to the next one
    else some { s with crashed := true }        -- nothing between the panic and the top of a bare goroutine

def runC : Core → List CLabel → Option Core
  | c, [] => some c
  | c, l :: ls => match stepCore c l with
    | some c' => runC c' ls
    | none => none

def run (fx : Fixes) : State → List Label → Option State
  | s, [] => some s
  | s, l :: ls => match step fx s l with
    | some s' => run fx s' ls
    | none => none

/-- a freshly constructed recoverer whose `Start` has just been requested (`go svc.Start(ctx)` in startServices) -/
def init : Core :=
  { spc := .init, running := false, buf := none, svc := .unstarted, stopReq := false, done := false,
    nCall := 0, nStarting := 0, nRun := 0, nSendNil := 0, nSendErr := 0, nSendStopped := 0,
    cpc := .idle, svcErr := false, cres := .none, dropped := false, panicked := false, latched := false, latch := false }

/-- start-up has quiesced: serviceStart is parked in its select, the flag is set, the service loop runs -/
def settled : Core :=
  { init with spc := .parked, running := true, svc := .started, nRun := 1 }

/-- the same for the restartable (latched-close) service kind -/
def initL : Core := { init with latched := true }
def settledL : Core := { initL with spc := .parked, running := true, nRun := 1 }

def initS : State := { core := init, procs := 0, workers := 0, crashed := false }
def settledS : State := { core := settled, procs := 0, workers := 0, crashed := false }

/-- number of live `recoverableStart` goroutines -/
def Core.gs (c : Core) : Nat := c.nCall + c.nStarting + c.nRun + c.nSendNil + c.nSendErr + c.nSendStopped

/-- nothing of this recoverer is left: serviceStart returned, flag cleared, no service goroutine, Close returned -/
def Core.clean (c : Core) : Bool :=
  decide (c.spc = .done) && !c.running && decide (c.gs = 0) && decide (c.cpc = .ret)

/-- a goroutine of this recoverer is still alive (the opposite of what Close promises) -/
def Core.alive (c : Core) : Bool := !decide (c.spc = .done) || decide (c.gs ≠ 0)

/-! ### canonical schedules used by the driver (and by the explicit-schedule theorems)

The start-up order observed under a cooperative single-P schedule is
`sInit sSpawn sStore sSel gCall gStarted`; Close inserted before `sStore`
gives (a), between `sSel` and `gCall` gives (b). -/

def startUp : List CLabel := [.sInit, .sSpawn, .sStore, .sSel, .gCall, .gStarted]

def closeSteps : List CLabel := [.closeCall, .cLoad, .cSvcClose]

/-- Close on a settled recoverer, fair completion -/
def schedCloseSettled : List CLabel :=
  startUp ++ [.closeCall, .cLoad, .cSvcClose, .gStopSeen, .gSendNil, .cWaitDone, .cSignal, .sSel, .sClear]

/-- (a) Close before `running.Store(true)` -/
def schedCloseBeforeRunning : List CLabel :=
  [.sInit, .sSpawn, .closeCall, .cLoad, .sStore, .sSel, .gCall, .gStarted]

/-- (b) Close after `running.Store(true)` but before the service's `StartOnce` -/
def schedCloseBeforeServiceStart : List CLabel :=
  [.sInit, .sSpawn, .sStore, .sSel, .closeCall, .cLoad, .cSvcClose, .cSignal, .sClear, .gCall, .gStarted]

/-- (c) Close's cancel signal dropped: the service's nil is buffered while serviceStart is between
    `running.Store(true)` and its select -/
def schedSignalDropped : List CLabel :=
  [.sInit, .sSpawn, .gCall, .gStarted, .sStore, .closeCall, .cLoad, .cSvcClose, .gStopSeen, .gSendNil, .cWaitDone, .cSignal, .sSel, .sSel]

/-- panic in the service's own goroutine, full cool-down, restart attempt -/
def schedServicePanic : List CLabel :=
  startUp ++ [.gPanic, .gSendStopped, .coolElapsed, .sRespawn, .sSel, .gCall, .gSendErr, .sSel]

/-- restartable kind: panic of the service goroutine, full cool-down, restart: the loop runs again -/
def schedRestart : List CLabel := [.gPanic, .gSendStopped, .coolElapsed, .sRespawn, .sSel, .gCall]

/-- restartable kind: panic, Close during the cool-down (the close signal is latched, the cancel signal buffered),
    cool-down elapses, the restarted Start finds the latched signal and returns, serviceStart finds the cancel -/
def schedCloseDuringCoolDownL : List CLabel :=
  [.gPanic, .gSendStopped, .closeCall, .cLoad, .cSvcClose, .cSignal, .coolElapsed, .sRespawn, .sSel, .sClear, .gCall, .gStopSeen, .gSendNil]

/-- panic in the service's own goroutine, Close during the cool-down, fair completion -/
def schedCloseDuringCoolDown : List CLabel :=
  startUp ++ [.gPanic, .gSendStopped, .closeCall, .cLoad, .cSvcClose, .cWaitDone, .cSignal,
              .coolElapsed, .sRespawn, .sSel, .sClear, .gCall, .gSendErr]

/-! ### the leak states the explicit-schedule theorems of Props/C18 arrive at -/

/-- the state after schedule (a): Close has returned ErrServiceNotRunning, serviceStart is parked with the
    flag set, the service loop runs -/
def leakA : Core := { settled with cpc := .ret, cres := .notRunning }

/-- the state after schedule (b): the recoverer has shut down (flag cleared, serviceStart returned), the
    service — whose `Close` was refused because it had not started — runs -/
def leakB : Core :=
  { init with spc := .done, svc := .started, nRun := 1, cpc := .ret, svcErr := true, cres := .svcRefused }

/-- the state after schedule (c): the service is stopped, Close returned nil, serviceStart waits for ever -/
def leakC : Core :=
  { init with spc := .parked, running := true, svc := .stopped, stopReq := true, done := true,
              cpc := .ret, cres := .ok, dropped := true }

/-- the same loss on a settled recoverer needs a panic first: after the cool-down the restart attempt fails
    ("already started once") and its error is buffered while serviceStart is between `go recoverableStart`
    and its select; a Close that is between `service.Close()` and its non-blocking send then loses its signal. -/
def schedSignalDroppedAfterRestart : List CLabel :=
  [.gPanic, .gSendStopped, .coolElapsed, .closeCall, .cLoad, .cSvcClose, .cWaitDone, .sRespawn, .gCall, .gSendErr, .cSignal, .sSel, .sSel]

/-- what the driver predicts for one recoverer from the kind of error its Close returned -/
structure Leak where
  serviceStart : Nat   -- leaked `recoverer.serviceStart` goroutines
  service      : Nat   -- leaked service loops
deriving DecidableEq, Repr

def leakOf (c : Core) : Leak :=
  { serviceStart := if c.spc = .done then 0 else 1, service := c.nStarting + c.nRun }

def predictClose (r : CRes) : Option Leak :=
  let sched := match r with
    | .ok => schedCloseSettled
    | .notRunning => schedCloseBeforeRunning
    | .svcRefused => schedCloseBeforeServiceStart
    | .none => startUp
  (runC init sched).map leakOf


/-! ### the OCR2 counterpart: internal/util/recoverable.go `RecoverableService` (wraps the polling observer's head loop)

    Start(): `mu.Lock`; `if running return`; `go serviceStart()`; `run()`; `running = true`; unlock
    Stop():  `mu.Lock`; `if !running return`; `service.Stop()`; `close(stopCh)`; `running = false`; unlock
    serviceStart (the watcher W): `for { select { case err := <-stopped: if errors.Is(err, errServiceStopped) { <-time.After(coolDown); run() }
                                                    case <-stopCh: return } }`
    run(): `go func() { defer recover → stopped <- errServiceStopped;  err := service.Do();  stopped <- err }()`

Start and Stop run under one mutex and nothing else reads `running`, so each is ONE step.  `stopped` has capacity 1 and
the watcher is its only receiver (same hand-off rule as above).  The wrapped `Do` returns once the service was stopped
(`gReturn…` needs `svcStopped`), or panics at any time.  A second Start after a Stop is outside the model (the polling
observer guards Start/Close with `sync.Once`). -/
namespace V2

inductive WPc | absent | sel | parked | cool | rerun | done
deriving DecidableEq, Repr

structure VCore where
  running    : Bool
  stopClosed : Bool          -- `stopCh` closed
  svcStopped : Bool          -- `service.Stop()` was called: `Do` returns
  buf        : Option Msg    -- `stopped` (capacity 1); messages: nil / svcErr / stopped
  wpc        : WPc
  nCall : Nat                -- goroutines of `run()` about to call `Do`
  nDo : Nat                  -- inside `Do`
  nSendNil : Nat
  nSendErr : Nat
  nSendStopped : Nat
  panicked : Bool            -- ghost
deriving DecidableEq, Repr

inductive VLabel
  | start | stop | wSel | wStopSeen | coolElapsed | wRerun
  | gEnter | gReturnNil | gReturnErr | gPanic | gSendNil | gSendErr | gSendStopped
deriving DecidableEq, Repr

def allVLabels : List VLabel :=
  [.start, .stop, .wSel, .wStopSeen, .coolElapsed, .wRerun, .gEnter, .gReturnNil, .gReturnErr, .gPanic, .gSendNil, .gSendErr, .gSendStopped]

/-- the watcher after receiving `m`: only errServiceStopped leads to a restart -/
def afterRecvW : Msg → WPc
  | .stopped => .cool
  | _ => .sel

def vsend (c : VCore) (m : Msg) : Option VCore :=
  if c.wpc = .parked then some { c with wpc := afterRecvW m }
  else if c.buf = none then some { c with buf := some m }
  else none

def vstep (c : VCore) : VLabel → Option VCore
  | .start =>
    if c.running then some c                                   -- `if m.running { return }`
    else if c.wpc = .absent then some { c with running := true, wpc := .sel, nCall := c.nCall + 1 }
    else none                                                  -- restart after Stop: outside the model
  | .stop =>
    if c.running then some { c with running := false, stopClosed := true, svcStopped := true }
    else some c                                                -- `if !m.running { return }`
  | .wSel =>
    if c.wpc = .sel then
      match c.buf with
      | some m => some { c with buf := none, wpc := afterRecvW m }
      | none => some { c with wpc := .parked }
    else none
  | .wStopSeen => if c.stopClosed ∧ (c.wpc = .sel ∨ c.wpc = .parked) then some { c with wpc := .done } else none
  | .coolElapsed => if c.wpc = .cool then some { c with wpc := .rerun } else none
  | .wRerun => if c.wpc = .rerun then some { c with wpc := .sel, nCall := c.nCall + 1 } else none
  | .gEnter => if c.nCall = 0 then none else some { c with nCall := c.nCall - 1, nDo := c.nDo + 1 }
  | .gReturnNil => if c.nDo = 0 ∨ c.svcStopped = false then none else some { c with nDo := c.nDo - 1, nSendNil := c.nSendNil + 1 }
  | .gReturnErr => if c.nDo = 0 ∨ c.svcStopped = false then none else some { c with nDo := c.nDo - 1, nSendErr := c.nSendErr + 1 }
  | .gPanic => if c.nDo = 0 then none else some { c with nDo := c.nDo - 1, nSendStopped := c.nSendStopped + 1, panicked := true }
  | .gSendNil => if c.nSendNil = 0 then none else (vsend c .nil).map fun c' => { c' with nSendNil := c.nSendNil - 1 }
  | .gSendErr => if c.nSendErr = 0 then none else (vsend c .svcErr).map fun c' => { c' with nSendErr := c.nSendErr - 1 }
  | .gSendStopped => if c.nSendStopped = 0 then none else (vsend c .stopped).map fun c' => { c' with nSendStopped := c.nSendStopped - 1 }

def vrun : VCore → List VLabel → Option VCore
  | c, [] => some c
  | c, l :: ls => match vstep c l with
    | some c' => vrun c' ls
    | none => none

def vinit : VCore :=
  { running := false, stopClosed := false, svcStopped := false, buf := none, wpc := .absent,
    nCall := 0, nDo := 0, nSendNil := 0, nSendErr := 0, nSendStopped := 0, panicked := false }

def VCore.gs (c : VCore) : Nat := c.nCall + c.nDo + c.nSendNil + c.nSendErr + c.nSendStopped

/-- nothing of the service is left: the watcher returned, no `run()` goroutine, flag cleared -/
def VCore.clean (c : VCore) : Bool := decide (c.wpc = .done) && !c.running && decide (c.gs = 0)

end V2

end AutoVerif.C18
