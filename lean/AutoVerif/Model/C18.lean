/-
Model for C18 — `recoverer` (pkg/v3/service/recoverable.go) wrapped around one
start-once / stop-once service (pkg/v3/tickers/time.go `timeTicker`, and, with
the tick work done inline, pkg/v3/coordinator/coordinator.go), as a transition
system over the atomic steps of the goroutines involved.  Core Lean only.

Goroutines (one recoverer; the plugin runs ten of them side by side, they share
nothing):

  S   the goroutine that called `recoverer.Start` (plugin.startServices):
        init    `if m.running.Load() { return ErrServiceAlreadyStarted }`
        spawn   `go m.recoverableStart(ctx)`
        store   serviceStart: `m.running.Store(true)`
        sel     about to execute `select { case err := <-m.stopped … }` (NOT parked yet)
        parked  parked in that select (`ctx` is `context.Background()`: its case never fires)
        cool    `<-time.After(m.coolDown)`          (after `errServiceStopped`)
        respawn `go m.recoverableStart(ctx)`        (after the cool-down; then back to `sel`)
        clear   `m.running.Store(false)`            (after `errServiceContextCancelled`)
        done    returned
  G…  the goroutines running `recoverableStart` → `service.Start(ctx)`.  They have no
      local state besides their program counter, so they are kept as counters:
        nCall      about to call `s.Start(ctx)`            (`StartOnce`: CAS Unstarted→Starting)
        nStarting  inside `StartOnce` between the two CAS  (state `Starting`)
        nRun       inside the service loop `select { <-ctx.Done() … <-ticker.C … }`
        nSendNil / nSendErr / nSendStopped   at `chStop <- err` with nil / a start error / errServiceStopped
  C   a caller of `recoverer.Close`:
        load     `if !m.running.Load() { return ErrServiceNotRunning }`
        svcClose `err := m.service.Close()` = `StopOnce`: under the state lock, CAS Started→Stopping,
                 `close(t.stopCh)`; any other state: error, nothing closed
        waitDone `<-t.done`, then CAS Stopping→Stopped
        signal   the send attempt of the loop `for { select { case m.stopped <- errServiceContextCancelled: return err; default: }; …`
                 (sent: `ret`; channel full: on to `drain`)
        drain    `select { case <-m.stopped: default: }` — a pending message of the service being closed gives way; back to `signal`
                 (before "fix: recoverer: Close could lose its stop signal …" there was ONE non-blocking send, dropped when the
                 channel was full: `stepCoreOld`)
        ret      returned (label `closeCall` starts the first Close, `closeAgain` a further one after a return)
  P…  `go Process` goroutines spawned per tick (counter `procs`), and the worker-group
      goroutines that execute the pipeline call for them (counter `workers`,
      pkg/util/worker.go `doJob`: `go func() { … wkr.Do(…) }()`).

The channel `m.stopped` has capacity 1 and a single receiver (S).  Go semantics,
kept exactly: a send finds either the receiver parked (direct hand-off, the
buffer stays empty), or a free buffer slot, or it blocks / (for the `select`
with `default` in Close) is dropped.

The wrapped service is the start-once / stop-once kind (`services.StateMachine`: the seven ticker flows and
the coordinator).  The metadata store and the runner guard Start/Close with their own `running` flag and
behave the same way for this model's purposes (Close before their Start has run is refused with an error and
closes nothing; their Start then runs); the result store latches its close signal in a buffered channel, so
a Close that comes before its Start is not lost.

Nothing is hidden: the scheduler is the list of labels; time is the label
`coolElapsed`; faults are the labels `gPanic` (a panic that reaches the service's own
goroutine — what an uncontained panic of the coordinator's inline poll used to be),
`pPanic` (panic inside a `Process` goroutine — log / recovery / upkeep provider,
pre- and post-processors), `wPanic` (panic inside a worker goroutine — the
check pipeline) and `pollPanic` (panic inside the poll the coordinator's own
goroutine performs — the transmit-event provider).  Which of them are contained
is a parameter (`Fixes`): the current tree contains all of them — also `v2PollPanic`, the same for the OCR2
report coordinator's log poll, which runs on a bare goroutine.
-/
namespace AutoVerif.C18

/-- values sent on `recoverer.stopped` -/
inductive Msg
  | nil        -- `Start` returned nil
  | svcErr     -- `Start` returned an error (e.g. "has already been started once")
  | stopped    -- errServiceStopped (sent from the `recover()` branch)
  | cancelled  -- errServiceContextCancelled (sent by Close)
deriving DecidableEq, Repr

/-- `services.StateMachine` of the wrapped service -/
inductive Svc | unstarted | starting | started | stopping | stopped
deriving DecidableEq, Repr

inductive SPc | init | spawn | store | sel | parked | cool | respawn | clear | done
deriving DecidableEq, Repr

inductive CPc | idle | load | svcClose | waitDone | signal | drain | ret
deriving DecidableEq, Repr

/-- what the last `Close` returned -/
inductive CRes
  | none        -- no Close has returned yet
  | notRunning  -- ErrServiceNotRunning (running flag was false)
  | ok          -- nil
  | svcRefused  -- error of the wrapped service: it was not in state Started (nothing was stopped)
deriving DecidableEq, Repr

/-- the part of the state the recoverer / service protocol depends on -/
structure Core where
  spc      : SPc
  running  : Bool            -- recoverer.running
  buf      : Option Msg      -- recoverer.stopped (capacity 1)
  svc      : Svc             -- StateMachine of the service
  stopReq  : Bool            -- service's stopCh closed
  done     : Bool            -- service's done channel closed (its Start has left the loop)
  nCall : Nat
  nStarting : Nat
  nRun : Nat
  nSendNil : Nat
  nSendErr : Nat
  nSendStopped : Nat
  cpc      : CPc
  svcErr   : Bool            -- C: `err` of service.Close() is non-nil
  cres     : CRes
  dropped  : Bool            -- ghost: some Close found the channel full and DROPPED its cancel signal (pre-fix step only)
  panicked : Bool            -- ghost: the service's own goroutine has panicked at least once
  latched  : Bool            -- service kind: false = start-once/stop-once (StateMachine: tickers, coordinator);
                             --   true = restartable with a latched close signal (result store: `close chan bool` of capacity 1,
                             --   no StateMachine — `Start` can run again after a panic, `Close` never waits)
  latch    : Bool            -- latched kind: a close signal is sitting in the service's `close` channel
deriving DecidableEq, Repr

inductive CLabel
  | sInit | sSpawn | sStore | sSel | coolElapsed | sRespawn | sClear
  | gCall | gStarted | gStopSeen | gPanic | gSendNil | gSendErr | gSendStopped
  | closeCall | closeAgain | cLoad | cSvcClose | cWaitDone | cSignal | cDrain
deriving DecidableEq, Repr

def allCLabels : List CLabel :=
  [.sInit, .sSpawn, .sStore, .sSel, .coolElapsed, .sRespawn, .sClear,
   .gCall, .gStarted, .gStopSeen, .gPanic, .gSendNil, .gSendErr, .gSendStopped,
   .closeCall, .closeAgain, .cLoad, .cSvcClose, .cWaitDone, .cSignal, .cDrain]

/-- the `error` value a message carries, as far as `err != nil` is concerned: 0 = nil -/
def Msg.errCode : Msg → Nat
  | .nil => 0 | .svcErr => 1 | .stopped => 2 | .cancelled => 3

/-- the start/close guard shared by the recoverer and by the services that keep their own `running` flag (metadata
    store, runner, v2 report coordinator): Start is refused when the flag is set, Close when it is not -/
def flagStartRefuses (running : Bool) : Bool := running
def flagCloseRefuses (running : Bool) : Bool := !running

/-- the ticker loop skips a tick (spawns no `Process` goroutine) when it has no getter; the label `tick` stands for a
    tick on which this is false (every flow of the plugin passes a getter) -/
def tickSkipped (getter nilFn : Nat) : Bool := decide (getter = nilFn)

/-- where S continues after receiving `m` (serviceStart's `case err := <-m.stopped`) -/
def afterRecv : Msg → SPc
  | .nil => .sel          -- `if err != nil` false: next loop iteration
  | .svcErr => .sel       -- neither errServiceStopped nor …Cancelled: next loop iteration
  | .stopped => .cool     -- `<-time.After(m.coolDown)`
  | .cancelled => .clear  -- `m.running.Store(false); return`

/-- `ch <- m` on `recoverer.stopped`: hand-off to the parked receiver, else the free slot, else `none` (cannot proceed) -/
def send (c : Core) (m : Msg) : Option Core :=
  if c.spc = .parked then some { c with spc := afterRecv m }
  else if c.buf = none then some { c with buf := some m }
  else none

def stepCore (c : Core) : CLabel → Option Core
  -- S ------------------------------------------------------------------
  | .sInit => if c.spc = .init then (if c.running then some { c with spc := .done } else some { c with spc := .spawn }) else none
  | .sSpawn => if c.spc = .spawn then some { c with spc := .store, nCall := c.nCall + 1 } else none
  | .sStore => if c.spc = .store then some { c with spc := .sel, running := true } else none
  | .sSel =>
    if c.spc = .sel then
      match c.buf with
      | some m => some { c with buf := none, spc := afterRecv m }
      | none => some { c with spc := .parked }
    else none
  | .coolElapsed => if c.spc = .cool then some { c with spc := .respawn } else none
  | .sRespawn => if c.spc = .respawn then some { c with spc := .sel, nCall := c.nCall + 1 } else none
  | .sClear => if c.spc = .clear then some { c with spc := .done, running := false } else none
  -- G ------------------------------------------------------------------
  | .gCall =>
    if c.nCall = 0 then none
    else if c.latched then some { c with nCall := c.nCall - 1, nRun := c.nRun + 1 }   -- no StateMachine: straight into the loop
    else if c.svc = .unstarted then some { c with nCall := c.nCall - 1, nStarting := c.nStarting + 1, svc := .starting }
    else some { c with nCall := c.nCall - 1, nSendErr := c.nSendErr + 1 }   -- StartOnce: "has already been started once"
  | .gStarted =>
    if c.nStarting = 0 then none
    else some { c with nStarting := c.nStarting - 1, nRun := c.nRun + 1, svc := .started }
  | .gStopSeen =>   -- `<-ctx.Done()`: return nil; deferred `close(t.done)`   (latched kind: `case <-s.close:` return nil)
    if c.latched then
      (if c.nRun = 0 ∨ c.latch = false then none
       else some { c with nRun := c.nRun - 1, latch := false, nSendNil := c.nSendNil + 1 })
    else if c.nRun = 0 ∨ c.stopReq = false then none
    else some { c with nRun := c.nRun - 1, done := true, nSendNil := c.nSendNil + 1 }
  | .gPanic =>      -- panic in the service goroutine: deferred `close(t.done)`, recovered in recoverableStart; StateMachine untouched
    if c.nRun = 0 then none
    else some { c with nRun := c.nRun - 1, done := true, nSendStopped := c.nSendStopped + 1, panicked := true }
  | .gSendNil => if c.nSendNil = 0 then none else (send c .nil).map fun c' => { c' with nSendNil := c.nSendNil - 1 }
  | .gSendErr => if c.nSendErr = 0 then none else (send c .svcErr).map fun c' => { c' with nSendErr := c.nSendErr - 1 }
  | .gSendStopped => if c.nSendStopped = 0 then none else (send c .stopped).map fun c' => { c' with nSendStopped := c.nSendStopped - 1 }
  -- C ------------------------------------------------------------------
  | .closeCall => if c.cpc = .idle then some { c with cpc := .load, svcErr := false } else none
  | .closeAgain => if c.cpc = .ret then some { c with cpc := .load, svcErr := false } else none   -- a further Close after one has returned
  | .cLoad =>
    if c.cpc = .load then
      (if c.running then some { c with cpc := .svcClose } else some { c with cpc := .ret, cres := .notRunning })
    else none
  | .cSvcClose =>
    if c.cpc = .svcClose then
      (if c.latched then
         (if c.latch then none                                   -- `s.close <- true` on a full channel: blocks
          else some { c with cpc := .signal, latch := true })    -- signal latched whether or not Start is running; no wait
       else if c.svc = .started then some { c with cpc := .waitDone, svc := .stopping, stopReq := true }
       else some { c with cpc := .signal, svcErr := true })
    else none
  | .cWaitDone => if c.cpc = .waitDone ∧ c.done then some { c with cpc := .signal, svc := .stopped } else none
  | .cSignal =>   -- the send attempt of Close's loop (same cases as `send`; a full channel leads to the drain attempt, never to giving up)
    if c.cpc = .signal then
      let res := if c.svcErr then CRes.svcRefused else CRes.ok
      if c.spc = .parked then some { c with spc := afterRecv .cancelled, cpc := .ret, cres := res }
      else if c.buf = none then some { c with buf := some .cancelled, cpc := .ret, cres := res }
      else some { c with cpc := .drain }
    else none
  | .cDrain =>    -- `select { case <-m.stopped: default: }`: takes the pending message if there (still) is one; then the next attempt
    if c.cpc = .drain then some { c with buf := none, cpc := .signal } else none

/-- the tree before "fix: recoverer: Close could lose its stop signal and leave the watcher running": Close made ONE
    non-blocking send and gave up when the channel was full (`default:`) -/
def stepCoreOld (c : Core) : CLabel → Option Core
  | .cSignal =>
    if c.cpc = .signal then
      let res := if c.svcErr then CRes.svcRefused else CRes.ok
      if c.spc = .parked then some { c with spc := afterRecv .cancelled, cpc := .ret, cres := res }
      else if c.buf = none then some { c with buf := some .cancelled, cpc := .ret, cres := res }
      else some { c with cpc := .ret, cres := res, dropped := true }
    else none
  | .cDrain => none
  | l => stepCore c l

def runCOld : Core → List CLabel → Option Core
  | c, [] => some c
  | c, l :: ls => match stepCoreOld c l with
    | some c' => runCOld c' ls
    | none => none

/-- full state: the core plus the goroutines that do not interact with it -/
structure State where
  core    : Core
  procs   : Nat    -- live `go Process` goroutines
  workers : Nat    -- live worker goroutines executing a pipeline call
  crashed : Bool   -- an unrecovered panic has terminated the process
deriving DecidableEq, Repr

inductive Label
  | core (l : CLabel)
  | tick      -- `case tm := <-ticker.C`: `go func(){ defer recover…; o.Process(…) }()`
  | pJob      -- a Process goroutine hands a job to the worker group (`doJob` spawns a worker goroutine)
  | pFinish   -- a Process goroutine returns
  | pPanic    -- a Process goroutine panics (provider `Value`, pre-processor, post-processor)
  | wFinish   -- a worker goroutine returns
  | wPanic    -- a worker goroutine panics (the check pipeline called from `wrapWorkerFunc`)
  | pollPanic -- the poll run by the service's own goroutine panics (coordinator.run → checkEvents → GetLatestEvents)
  | v2PollPanic -- the OCR2 report coordinator's log poll panics (reportCoordinator.run → checkLogs → PerformLogs /
                -- StaleReportLogs / the encoder): `run` is a bare goroutine (`go rc.run()`), no recoverer above it
deriving DecidableEq, Repr

/-- which panics the tree contains where they are raised:
    `ticker` pkg/v3/tickers/time.go — recover inside the spawned `go Process` goroutine
             ("fix: time ticker: contain a panic raised while processing a tick");
    `worker` pkg/util/worker.go — `worker.Do` runs the item through `runWorkItem`, which turns a panic into an error result
             ("fix: worker group: a panicking work item becomes an error result instead of killing the process");
    `poll`   pkg/v3/coordinator/coordinator.go — `run` calls `safeCheckEvents`, which turns a panic into an error, logged, next poll continues
             ("fix: coordinator: a panic while polling transmit events no longer stops event processing for good"). -/
structure Fixes where
  ticker : Bool
  worker : Bool
  poll   : Bool
  v2poll : Bool   -- pkg/v2/coordinator/coordinator.go — `run` calls `safeCheckLogs` ("fix: v2 coordinator: a panic while polling
                  -- perform and stale report logs no longer kills the process")
deriving DecidableEq, Repr

/-- the tree as it is now -/
def current : Fixes := { ticker := true, worker := true, poll := true, v2poll := true }

def step (fx : Fixes) (s : State) : Label → Option State
  | .core l => if s.crashed then none else (stepCore s.core l).map fun c => { s with core := c }
  | .tick => if s.crashed ∨ s.core.nRun = 0 then none else some { s with procs := s.procs + 1 }
  | .pJob => if s.crashed ∨ s.procs = 0 then none else some { s with workers := s.workers + 1 }
  | .pFinish => if s.crashed ∨ s.procs = 0 then none else some { s with procs := s.procs - 1 }
  | .pPanic =>
    if s.crashed ∨ s.procs = 0 then none
    else if fx.ticker then some { s with procs := s.procs - 1 }   -- recovered and logged; the ticker loop is untouched
    else some { s with crashed := true }
  | .wFinish => if s.crashed ∨ s.workers = 0 then none else some { s with workers := s.workers - 1 }
  | .wPanic =>
    if s.crashed ∨ s.workers = 0 then none
    else if fx.worker then some { s with workers := s.workers - 1 }   -- the item's result is an error; the submitter gets it
    else some { s with crashed := true }                              -- no recover on the worker goroutine
  | .pollPanic =>
    if s.crashed ∨ s.core.nRun = 0 then none
    else if fx.poll then some s                                      -- an error for this poll; the loop goes on to the next one
    else (stepCore s.core .gPanic).map fun c => { s with core := c }  -- escapes into the service goroutine: `gPanic`
  | .v2PollPanic =>
    if s.crashed ∨ s.core.nRun = 0 then none
    else if fx.v2poll then some s               -- an error for this poll, logged; the loop goes on to the next one
    else some { s with crashed := true }        -- nothing between the panic and the top of a bare goroutine

def runC : Core → List CLabel → Option Core
  | c, [] => some c
  | c, l :: ls => match stepCore c l with
    | some c' => runC c' ls
    | none => none

def run (fx : Fixes) : State → List Label → Option State
  | s, [] => some s
  | s, l :: ls => match step fx s l with
    | some s' => run fx s' ls
    | none => none

/-- a freshly constructed recoverer whose `Start` has just been requested (`go svc.Start(ctx)` in startServices) -/
def init : Core :=
  { spc := .init, running := false, buf := none, svc := .unstarted, stopReq := false, done := false,
    nCall := 0, nStarting := 0, nRun := 0, nSendNil := 0, nSendErr := 0, nSendStopped := 0,
    cpc := .idle, svcErr := false, cres := .none, dropped := false, panicked := false, latched := false, latch := false }

/-- start-up has quiesced: serviceStart is parked in its select, the flag is set, the service loop runs -/
def settled : Core :=
  { init with spc := .parked, running := true, svc := .started, nRun := 1 }

/-- the same for the restartable (latched-close) service kind -/
def initL : Core := { init with latched := true }
def settledL : Core := { initL with spc := .parked, running := true, nRun := 1 }

def initS : State := { core := init, procs := 0, workers := 0, crashed := false }
def settledS : State := { core := settled, procs := 0, workers := 0, crashed := false }

/-- number of live `recoverableStart` goroutines -/
def Core.gs (c : Core) : Nat := c.nCall + c.nStarting + c.nRun + c.nSendNil + c.nSendErr + c.nSendStopped

/-- nothing of this recoverer is left: serviceStart returned, flag cleared, no service goroutine, Close returned -/
def Core.clean (c : Core) : Bool :=
  decide (c.spc = .done) && !c.running && decide (c.gs = 0) && decide (c.cpc = .ret)

/-- a goroutine of this recoverer is still alive (the opposite of what Close promises) -/
def Core.alive (c : Core) : Bool := !decide (c.spc = .done) || decide (c.gs ≠ 0)

/-! ### canonical schedules used by the driver (and by the explicit-schedule theorems)

The start-up order observed under a cooperative single-P schedule is
`sInit sSpawn sStore sSel gCall gStarted`; Close inserted before `sStore`
gives (a), between `sSel` and `gCall` gives (b). -/

def startUp : List CLabel := [.sInit, .sSpawn, .sStore, .sSel, .gCall, .gStarted]

def closeSteps : List CLabel := [.closeCall, .cLoad, .cSvcClose]

/-- Close on a settled recoverer, fair completion -/
def schedCloseSettled : List CLabel :=
  startUp ++ [.closeCall, .cLoad, .cSvcClose, .gStopSeen, .gSendNil, .cWaitDone, .cSignal, .sSel, .sClear]

/-- (a) Close before `running.Store(true)` -/
def schedCloseBeforeRunning : List CLabel :=
  [.sInit, .sSpawn, .closeCall, .cLoad, .sStore, .sSel, .gCall, .gStarted]

/-- (b) Close after `running.Store(true)` but before the service's `StartOnce` -/
def schedCloseBeforeServiceStart : List CLabel :=
  [.sInit, .sSpawn, .sStore, .sSel, .closeCall, .cLoad, .cSvcClose, .cSignal, .sClear, .gCall, .gStarted]

/-- (c) Close's cancel signal dropped: the service's nil is buffered while serviceStart is between
    `running.Store(true)` and its select -/
def schedSignalDropped : List CLabel :=
  [.sInit, .sSpawn, .gCall, .gStarted, .sStore, .closeCall, .cLoad, .cSvcClose, .gStopSeen, .gSendNil, .cWaitDone, .cSignal, .sSel, .sSel]

/-- panic in the service's own goroutine, full cool-down, restart attempt -/
def schedServicePanic : List CLabel :=
  startUp ++ [.gPanic, .gSendStopped, .coolElapsed, .sRespawn, .sSel, .gCall, .gSendErr, .sSel]

/-- restartable kind: panic of the service goroutine, full cool-down, restart: the loop runs again -/
def schedRestart : List CLabel := [.gPanic, .gSendStopped, .coolElapsed, .sRespawn, .sSel, .gCall]

/-- restartable kind: panic, Close during the cool-down (the close signal is latched, the cancel signal buffered),
    cool-down elapses, the restarted Start finds the latched signal and returns, serviceStart finds the cancel -/
def schedCloseDuringCoolDownL : List CLabel :=
  [.gPanic, .gSendStopped, .closeCall, .cLoad, .cSvcClose, .cSignal, .coolElapsed, .sRespawn, .sSel, .sClear, .gCall, .gStopSeen, .gSendNil]

/-- panic in the service's own goroutine, Close during the cool-down, fair completion -/
def schedCloseDuringCoolDown : List CLabel :=
  startUp ++ [.gPanic, .gSendStopped, .closeCall, .cLoad, .cSvcClose, .cWaitDone, .cSignal,
              .coolElapsed, .sRespawn, .sSel, .sClear, .gCall, .gSendErr]

/-! ### the leak states the explicit-schedule theorems of Props/C18 arrive at -/

/-- the state after schedule (a): Close has returned ErrServiceNotRunning, serviceStart is parked with the
    flag set, the service loop runs -/
def leakA : Core := { settled with cpc := .ret, cres := .notRunning }

/-- the state after schedule (b): the recoverer has shut down (flag cleared, serviceStart returned), the
    service — whose `Close` was refused because it had not started — runs -/
def leakB : Core :=
  { init with spc := .done, svc := .started, nRun := 1, cpc := .ret, svcErr := true, cres := .svcRefused }

/-- the state after schedule (c): the service is stopped, Close returned nil, serviceStart waits for ever -/
def leakC : Core :=
  { init with spc := .parked, running := true, svc := .stopped, stopReq := true, done := true,
              cpc := .ret, cres := .ok, dropped := true }

/-- the same loss on a settled recoverer needs a panic first: after the cool-down the restart attempt fails
    ("already started once") and its error is buffered while serviceStart is between `go recoverableStart`
    and its select; a Close that is between `service.Close()` and its non-blocking send then loses its signal. -/
def schedSignalDroppedAfterRestart : List CLabel :=
  [.gPanic, .gSendStopped, .coolElapsed, .closeCall, .cLoad, .cSvcClose, .cWaitDone, .sRespawn, .gCall, .gSendErr, .cSignal, .sSel, .sSel]

/-- what the driver predicts for one recoverer from the kind of error its Close returned -/
structure Leak where
  serviceStart : Nat   -- leaked `recoverer.serviceStart` goroutines
  service      : Nat   -- leaked service loops
deriving DecidableEq, Repr

def leakOf (c : Core) : Leak :=
  { serviceStart := if c.spc = .done then 0 else 1, service := c.nStarting + c.nRun }

def predictClose (r : CRes) : Option Leak :=
  let sched := match r with
    | .ok => schedCloseSettled
    | .notRunning => schedCloseBeforeRunning
    | .svcRefused => schedCloseBeforeServiceStart
    | .none => startUp
  (runC init sched).map leakOf


/-! ### the recoverer driven directly (`service.NewRecoverer` is a public constructor)

The plugin starts every recoverer exactly once, with `context.Background()`.  A caller of the public constructor can do
three things the plugin never does: hand `Start` a context and cancel it, call `Start` while a `Start` is in progress,
and call `Start` again after it returned.  `XCore` adds what these need to `Core`; `xstep` adds the steps:

    ctxCancel     the caller cancels the context of the Start call in progress
    sCtxDone      serviceStart: `case <-ctx.Done(): m.running.Store(false); return`   (recoverable.go, the arm the plugin never reaches)
    gCtxSeen      the wrapped service's loop: `case <-ctx.Done(): return nil`  (time ticker, result store; the coordinator and the
                  runner ignore the context of Start — `honours = false`)
    startRefused  a further Start call while one is in progress: `if m.running.Load() { return ErrServiceAlreadyStarted }`
    startAgain    a further Start call after the previous one returned (it brings a fresh context)
    cSvcCloseErr  the wrapped service's Close stops it AND returns an error (a collaborator failed on the way)

On the labels of `Core` `xstep` IS `stepCore`; with `ctxDone = false` and none of the three caller actions taken it is
nothing else (Props: `xrun_projects_to_core`), so every theorem about `runC` is a theorem about the plugin's recoverers. -/

structure XCore where
  c       : Core
  ctxDone : Bool     -- the context of the Start call in progress (or of the last one) is cancelled
  honours : Bool     -- the wrapped service's loop selects on the context handed to its Start
deriving DecidableEq, Repr

inductive XLabel
  | core (l : CLabel)
  | ctxCancel | sCtxDone | gCtxSeen | startRefused | startAgain
  | cSvcCloseErr    -- Close: `err := m.service.Close()` STOPS the service and returns an error all the same (a collaborator of
                    -- the service failed on the way: the metadata store's block source refusing to unsubscribe)
deriving DecidableEq, Repr

/-- serviceStart's `select` has a second arm: which states it can be taken in -/
def ctxArmEnabled (ctxDone : Bool) (spc : SPc) : Bool := ctxDone && (decide (spc = .sel) || decide (spc = .parked))

def xstep (x : XCore) : XLabel → Option XCore
  | .core l => (stepCore x.c l).map fun c' => { x with c := c' }
  | .ctxCancel => if x.ctxDone then none else some { x with ctxDone := true }
  | .sCtxDone =>
    if ctxArmEnabled x.ctxDone x.c.spc then some { x with c := { x.c with spc := .done, running := false } } else none
  | .gCtxSeen =>     -- the loop returns nil: deferred `close(t.done)` for the ticker; the result store has nothing to close
    if x.ctxDone ∧ x.honours ∧ x.c.nRun ≠ 0 then
      some { x with c := { x.c with nRun := x.c.nRun - 1, done := x.c.done || !x.c.latched, nSendNil := x.c.nSendNil + 1 } }
    else none
  | .startRefused =>
    if flagStartRefuses x.c.running ∧ x.c.spc ≠ .init ∧ x.c.spc ≠ .done then some x else none
  | .cSvcCloseErr =>
    if x.c.cpc = .svcClose ∧ x.c.latched = false ∧ x.c.svc = .started then
      some { x with c := { x.c with cpc := .waitDone, svc := .stopping, stopReq := true, svcErr := true } }
    else none
  | .startAgain =>   -- (a loop that honours the old, cancelled context has left by now: the caller waits for quiescence)
    if x.c.spc = .done ∧ ¬ (x.ctxDone ∧ x.honours ∧ x.c.nRun ≠ 0) then some { x with c := { x.c with spc := .init }, ctxDone := false }
    else none

def xrun : XCore → List XLabel → Option XCore
  | x, [] => some x
  | x, l :: ls => match xstep x l with
    | some x' => xrun x' ls
    | none => none

/-- a recoverer that was constructed and whose `Start` has not been called: `init` with "no Start call in progress" -/
def xfresh (latched honours : Bool) : XCore :=
  { c := { (if latched then initL else init) with spc := .done }, ctxDone := false, honours := honours }

/-- start-up has quiesced under a context that is still live -/
def xsettled (latched honours : Bool) : XCore :=
  { c := if latched then settledL else settled, ctxDone := false, honours := honours }

/-! #### script semantics: operations issued when the system is at rest

The harness drives a recoverer (family "svc") with a script of caller operations, each issued when every goroutine is
durably blocked.  `xsettle` lets the system run to rest by always taking the first enabled step of `xsysLabels` (every
step of the recoverer's and the service's goroutines except the passing of time); `xapply` is one operation followed by
`xsettle`, with what the operation returned. -/

def scriptLabels : List CLabel :=
  [.sInit, .sSpawn, .sStore, .sSel, .sRespawn, .sClear, .gCall, .gStarted, .gStopSeen, .gSendNil, .gSendErr, .gSendStopped,
   .cLoad, .cSvcClose, .cWaitDone, .cSignal, .cDrain]

def xsysLabels : List XLabel := [.sCtxDone, .gCtxSeen] ++ scriptLabels.map .core

def xsettle : Nat → XCore → XCore
  | 0, x => x
  | fuel + 1, x =>
    match xsysLabels.findSome? (xstep x) with
    | some x' => xsettle fuel x'
    | none => x

/-- no step of the system (time apart) is enabled -/
def xrest (x : XCore) : Bool := (xsysLabels.findSome? (xstep x)).isNone

inductive XOp
  | start | cancel | close | panic
  | coolDown    -- the restart cool-down elapses (time passes between two operations)
deriving DecidableEq, Repr

inductive XRes
  | none            -- the operation returns nothing (cancel, panic, time)
  | accepted        -- Start: blocks in serviceStart
  | refused         -- Start: ErrServiceAlreadyStarted, at once
  | closeOk | closeNotRunning | closeRefused
  | blocked         -- Close has not returned when the system is at rest
  | outside         -- the operation in this state is outside the model (a second Close while one is blocked, …)
deriving DecidableEq, Repr

def XRes.ofCRes : CRes → XRes
  | .ok => .closeOk | .notRunning => .closeNotRunning | .svcRefused => .closeRefused | .none => .outside

def xapply (fuel : Nat) (x : XCore) : XOp → XCore × XRes
  | .start =>
    if x.c.spc = .done then
      match xstep x .startAgain with
      | some x1 => (xsettle fuel x1, if flagStartRefuses x1.c.running then .refused else .accepted)
      | none => (x, .outside)
    else
      match xstep x .startRefused with
      | some x1 => (x1, .refused)
      | none => (x, .outside)
  | .cancel =>
    if x.c.spc = .done then (x, .none)         -- no Start call in progress: nothing to cancel
    else match xstep x .ctxCancel with
      | some x1 => (xsettle fuel x1, .none)
      | none => (x, .none)                      -- cancelled before
  | .close =>
    match xstep x (.core (if x.c.cpc = .idle then .closeCall else .closeAgain)) with
    | some x1 => let x2 := xsettle fuel x1; (x2, if x2.c.cpc = .ret then XRes.ofCRes x2.c.cres else .blocked)
    | none => (x, .outside)
  | .panic =>
    match xstep x (.core .gPanic) with
    | some x1 => (xsettle fuel x1, .none)
    | none => (x, .outside)
  | .coolDown =>
    match xstep x (.core .coolElapsed) with
    | some x1 => (xsettle fuel x1, .none)
    | none => (x, .none)

/-- goroutines of the recoverer alive in a state at rest, by the harness's classes: serviceStart / service loops /
    anything else of the repository (a `recoverableStart` goroutine blocked in its send, a Close that has not returned) -/
structure Alive where
  serviceStart : Nat
  service      : Nat
  inflight     : Nat
deriving DecidableEq, Repr

def XCore.aliveNow (x : XCore) : Alive :=
  { serviceStart := if x.c.spc = .done ∨ x.c.spc = .init then 0 else 1,
    service := x.c.nStarting + x.c.nRun,
    inflight := x.c.nCall + x.c.nSendNil + x.c.nSendErr + x.c.nSendStopped + (if x.c.cpc = .idle ∨ x.c.cpc = .ret then 0 else 1) }

def xscript (fuel : Nat) : XCore → List XOp → List (XRes × Alive) × XCore
  | x, [] => ([], x)
  | x, op :: ops =>
    let (x1, r) := xapply fuel x op
    let (rest, xf) := xscript fuel x1 ops
    ((r, x1.aliveNow) :: rest, xf)

def scriptFuel : Nat := 64

/-! ### the wrapped services on their own (public constructors; no recoverer)

What `Start` / `Close` of each service kind do when called directly, at rest — the guards the recoverer relies on:

    once     `services.StateMachine` (time ticker, coordinator): Start once, Close once, each refused otherwise
    flag     own `running` flag (metadata store, runner): Start refused while running, Close refused while not
    latched  no guard (result store): Start always enters the loop, Close always latches its signal (capacity 1)

`honours`: the loop ends when the context of its Start ends (ticker, result store, metadata store; the coordinator and the
runner ignore it).  `selfClose`: it ends by calling its own Close (metadata store: `return m.Close()`), which clears the
flag and drops the block subscription; when `Unsubscribe` fails it reports the error and stops all the same (before the
fix it returned the error first and left loop and flag as they were: `unsubStops = false`). -/

inductive BKind | once | flag | latched
deriving DecidableEq, Repr

structure Bare where
  kind       : BKind
  honours    : Bool
  selfClose  : Bool
  unsubFails : Bool
  unsubStops : Bool     -- the store sends its stop signal whatever Unsubscribe returned (true = the tree as it is; false = the tree
                        -- before "fix: metadata store: a failing Unsubscribe no longer leaves the Start loop running after Close")
  st         : Svc      -- once
  running    : Bool     -- flag
  loops      : Nat      -- Start calls that sit in the loop
  latch      : Bool     -- latched: a close signal nobody has consumed
  subscribed : Bool     -- metadata store: the block subscription taken by the constructor is still registered
deriving DecidableEq, Repr

inductive BOp | start | cancel | close
deriving DecidableEq, Repr

inductive BRes
  | none | pending | returnedNil | returnedErr | refused
  | closeOk | closeRefused | closeError | blocked
deriving DecidableEq, Repr

def bapply (b : Bare) : BOp → Bare × BRes
  | .start =>
    match b.kind with
    | .once => if b.st = .unstarted then ({ b with st := .started, loops := b.loops + 1 }, .pending) else (b, .refused)
    | .flag => if flagStartRefuses b.running then (b, .refused) else ({ b with running := true, loops := b.loops + 1 }, .pending)
    | .latched => if b.latch then ({ b with latch := false }, .returnedNil) else ({ b with loops := b.loops + 1 }, .pending)
  | .cancel =>      -- the context of the Start call(s) in the loop ends; the result is what that Start returned
    if b.loops = 0 then (b, .none)
    else if !b.honours then (b, .pending)
    else if b.selfClose then
      (if b.unsubFails then                                                          -- `return m.Close()`: the Unsubscribe error
         (if b.unsubStops then ({ b with loops := 0, running := false }, .returnedErr) else ({ b with loops := 0 }, .returnedErr))
       else ({ b with loops := 0, running := false, subscribed := false }, .returnedNil))
    else ({ b with loops := 0 }, .returnedNil)
  | .close =>
    match b.kind with
    | .once => if b.st = .started then ({ b with st := .stopped, loops := 0 }, .closeOk) else (b, .closeRefused)
    | .flag =>
      if flagCloseRefuses b.running then (b, .closeRefused)
      else if b.selfClose ∧ b.unsubFails then
        (if b.unsubStops then ({ b with running := false, loops := 0 }, .closeError)   -- stops all the same, reports the error
         else (b, .closeError))                                                        -- (before the fix) returned before the stop signal was sent
      else ({ b with running := false, loops := 0, subscribed := false }, .closeOk)
    | .latched =>
      if b.loops ≠ 0 then ({ b with loops := b.loops - 1 }, .closeOk)                -- one loop consumes the signal
      else if b.latch then (b, .blocked)                                             -- `s.close <- true` on a full channel
      else ({ b with latch := true }, .closeOk)

def bscript : Bare → List BOp → List (BRes × Nat) × Bare
  | b, [] => ([], b)
  | b, op :: ops =>
    let (b1, r) := bapply b op
    let (rest, bf) := bscript b1 ops
    ((r, b1.loops) :: rest, bf)

def bfresh (kind : BKind) (honours selfClose unsubFails : Bool) (unsubStops : Bool := true) : Bare :=
  { kind := kind, honours := honours, selfClose := selfClose, unsubFails := unsubFails, unsubStops := unsubStops, st := .unstarted, running := false,
    loops := 0, latch := false, subscribed := selfClose }

/-- the ticker spawns a `Process` goroutine for a tick iff it has a getter and the getter returned no error -/
def tickSpawns (getter nilFn err nilErr : Nat) : Bool := !tickSkipped getter nilFn && !decide (err ≠ nilErr)

/-! ### constructors that fail

`plugin.newPlugin` builds the stores, the runner, the coordinator and the flows and only then starts the services
(`plugin.startServices()` is its last statement): whichever step fails, nothing has been started.  The OCR2 factory
creates the coordinator and the observer and then starts both: an error of either factory comes before any `Start`. -/

inductive Ctor | built | failed
deriving DecidableEq, Repr

/-- OCR3: (subscription refused, runner refused) ↦ outcome and number of services started -/
def newPluginOutcome (subErr runnerErr lateErr : Bool) (services : Nat) : Ctor × Nat :=
  if subErr then (.failed, 0) else if runnerErr then (.failed, 0) else if lateErr then (.failed, 0) else (.built, services)

/-- OCR3 factory: config decode, probability parse, sample ratio, then `newPlugin` -/
def newReportingPluginOutcome (cfgErr parseErr sampleErr pluginErr : Bool) (services : Nat) : Ctor × Nat :=
  if cfgErr then (.failed, 0) else if parseErr then (.failed, 0) else if sampleErr then (.failed, 0)
  else if pluginErr then (.failed, 0) else (.built, services)

/-- OCR2 factory: config decode, coordinator factory, observer factory, then `Start` of both -/
def newReportingPluginOutcomeV2 (cfgErr coordErr obsErr : Bool) : Ctor × Nat :=
  if cfgErr then (.failed, 0) else if coordErr then (.failed, 0) else if obsErr then (.failed, 0) else (.built, 2)

/-- the plugins' Close loops: every sub-service is closed whatever the earlier ones returned; errors are joined.
    `errs` = which sub-service's Close fails; result = (number closed, number of errors reported) -/
def closeAll (errs : List Bool) : Nat × Nat := (errs.length, (errs.filter id).length)

/-- what a Close loop that gave up at the first error would do (the behaviour `closeAll` rules out) -/
def closeUntilError : List Bool → Nat × Nat
  | [] => (0, 0)
  | e :: es => if e then (1, 1) else let (n, k) := closeUntilError es; (n + 1, k)

/-! ### the OCR2 counterpart: internal/util/recoverable.go `RecoverableService` (wraps the polling observer's head loop)

    Start(): `mu.Lock`; `if running return`; `go serviceStart()`; `run()`; `running = true`; unlock
    Stop():  `mu.Lock`; `if !running return`; `service.Stop()`; `close(stopCh)`; `running = false`; unlock
    serviceStart (the watcher W): `for { select { case err := <-stopped: if errors.Is(err, errServiceStopped) { <-time.After(coolDown); run() }
                                                    case <-stopCh: return } }`
    run(): `go func() { defer recover → stopped <- errServiceStopped;  err := service.Do();  stopped <- err }()`

Start and Stop run under one mutex and nothing else reads `running`, so each is ONE step.  `stopped` has capacity 1 and
the watcher is its only receiver (same hand-off rule as above).  The wrapped `Do` returns once the service was stopped
(`gReturn…` needs `svcStopped`), or panics at any time.  A second Start after a Stop is outside the model (the polling
observer guards Start/Close with `sync.Once`). -/
namespace V2

inductive WPc | absent | sel | parked | cool | rerun | done
deriving DecidableEq, Repr

structure VCore where
  running    : Bool
  stopClosed : Bool          -- `stopCh` closed
  svcStopped : Bool          -- `service.Stop()` was called: `Do` returns
  buf        : Option Msg    -- `stopped` (capacity 1); messages: nil / svcErr / stopped
  wpc        : WPc
  nCall : Nat                -- goroutines of `run()` about to call `Do`
  nDo : Nat                  -- inside `Do`
  nSendNil : Nat
  nSendErr : Nat
  nSendStopped : Nat
  panicked : Bool            -- ghost
deriving DecidableEq, Repr

inductive VLabel
  | start | stop | wSel | wStopSeen | coolElapsed | wRerun
  | gEnter | gReturnNil | gReturnErr | gPanic | gSendNil | gSendErr | gSendStopped
deriving DecidableEq, Repr

def allVLabels : List VLabel :=
  [.start, .stop, .wSel, .wStopSeen, .coolElapsed, .wRerun, .gEnter, .gReturnNil, .gReturnErr, .gPanic, .gSendNil, .gSendErr, .gSendStopped]

/-- the watcher after receiving `m`: only errServiceStopped leads to a restart -/
def afterRecvW : Msg → WPc
  | .stopped => .cool
  | _ => .sel

def vsend (c : VCore) (m : Msg) : Option VCore :=
  if c.wpc = .parked then some { c with wpc := afterRecvW m }
  else if c.buf = none then some { c with buf := some m }
  else none

def vstep (c : VCore) : VLabel → Option VCore
  | .start =>
    if c.running then some c                                   -- `if m.running { return }`
    else if c.wpc = .absent then some { c with running := true, wpc := .sel, nCall := c.nCall + 1 }
    else none                                                  -- restart after Stop: outside the model
  | .stop =>
    if c.running then some { c with running := false, stopClosed := true, svcStopped := true }
    else some c                                                -- `if !m.running { return }`
  | .wSel =>
    if c.wpc = .sel then
      match c.buf with
      | some m => some { c with buf := none, wpc := afterRecvW m }
      | none => some { c with wpc := .parked }
    else none
  | .wStopSeen => if c.stopClosed ∧ (c.wpc = .sel ∨ c.wpc = .parked) then some { c with wpc := .done } else none
  | .coolElapsed => if c.wpc = .cool then some { c with wpc := .rerun } else none
  | .wRerun => if c.wpc = .rerun then some { c with wpc := .sel, nCall := c.nCall + 1 } else none
  | .gEnter => if c.nCall = 0 then none else some { c with nCall := c.nCall - 1, nDo := c.nDo + 1 }
  | .gReturnNil => if c.nDo = 0 ∨ c.svcStopped = false then none else some { c with nDo := c.nDo - 1, nSendNil := c.nSendNil + 1 }
  | .gReturnErr => if c.nDo = 0 ∨ c.svcStopped = false then none else some { c with nDo := c.nDo - 1, nSendErr := c.nSendErr + 1 }
  | .gPanic => if c.nDo = 0 then none else some { c with nDo := c.nDo - 1, nSendStopped := c.nSendStopped + 1, panicked := true }
  | .gSendNil => if c.nSendNil = 0 then none else (vsend c .nil).map fun c' => { c' with nSendNil := c.nSendNil - 1 }
  | .gSendErr => if c.nSendErr = 0 then none else (vsend c .svcErr).map fun c' => { c' with nSendErr := c.nSendErr - 1 }
  | .gSendStopped => if c.nSendStopped = 0 then none else (vsend c .stopped).map fun c' => { c' with nSendStopped := c.nSendStopped - 1 }

def vrun : VCore → List VLabel → Option VCore
  | c, [] => some c
  | c, l :: ls => match vstep c l with
    | some c' => vrun c' ls
    | none => none

def vinit : VCore :=
  { running := false, stopClosed := false, svcStopped := false, buf := none, wpc := .absent,
    nCall := 0, nDo := 0, nSendNil := 0, nSendErr := 0, nSendStopped := 0, panicked := false }

def VCore.gs (c : VCore) : Nat := c.nCall + c.nDo + c.nSendNil + c.nSendErr + c.nSendStopped

/-- nothing of the service is left: the watcher returned, no `run()` goroutine, flag cleared -/
def VCore.clean (c : VCore) : Bool := decide (c.wpc = .done) && !c.running && decide (c.gs = 0)

end V2

end AutoVerif.C18
