import AutoVerif.Model.Types
/-
Model of `Runner.CheckUpkeeps` / `parallelCheck` / `wrapAggregate`
(pkg/v3/runner/runner.go), `result` (pkg/v3/runner/result.go), the string-keyed
`Cache` (pkg/util/cache.go: `Get`, `Set`) and `Unflatten` (internal/util/array.go).

What is explicit (never hidden):
* `now`      — `time.Now().UnixNano()` of the cache look-ups of one call (virtual ns);
* `BatchOut` — what the wrapped pipeline answered for one batch (`none` = error,
               `some rs` = results) and the instant `doneAt` at which
               `wrapAggregate` ran for it (it reads the clock through `Cache.Get/Set`);
* `order`    — the order in which the worker group delivers the batches to
               `wrapAggregate` (C14: every accepted job is delivered exactly once, in
               any order): a permutation of `0 … k-1`, where `k` is the number of batches
               `RunJobs` submitted.  `k = #batches` while the caller's context is alive;
               once `ctx.Err() != nil`, `WorkerGroup.Do` refuses and `RunJobs` stops
               submitting, so a call whose context is done may have run only a prefix
               (`k < #batches`, including `k = 0`);
* `expire`   — `RunnerConfig.CacheExpire` in ns (`0` = entries never expire; the code
               treats every value `≤ 0` that way).

What the pipeline does with a context that is done (typically: answer `ctx.Err()`)
is part of `BatchOut` like any other failure.  A runner closed BEFORE a call submits
nothing (`order = []`: the stopped worker group refuses every job); a worker group
stopped DURING a call still delivers every submitted job (C14; the driver adds the
failed deliveries the pipeline never saw).  Not modelled: the cache's garbage collector
(`ClearExpired` only deletes entries that `Get` already treats as absent).
Further down: the runner's life cycle (`lifeStep`) and a check call made through
`Observer.Process` (`process`).
-/
namespace AutoVerif.C13

/-! ### `util.Cache[CheckResult]` -/

/-- one `data[key] = CacheItem{Item, Expires}`; `expires = 0` means never -/
structure Entry where
  key     : String
  item    : CheckResult
  expires : Nat
deriving DecidableEq, Repr

/-- the Go map as an association list with at most one entry per key (kept by `set`) -/
abbrev Cache := List Entry

def find (c : Cache) (k : String) : Option Entry := c.find? (fun e => e.key == k)

/-- `value.Expires > 0 && time.Now().UnixNano() > value.Expires` -/
def expired (e : Entry) (now : Nat) : Bool := decide (e.expires > 0) && decide (now > e.expires)

/-- `Cache.Get` -/
def get (c : Cache) (now : Nat) (k : String) : Option CheckResult :=
  match find c k with
  | none => none
  | some e => if expired e now then none else some e.item

/-- `Cache.Set(key, value, DefaultCacheExpiration)` -/
def set (c : Cache) (now expire : Nat) (k : String) (v : CheckResult) : Cache :=
  { key := k, item := v, expires := if expire > 0 then now + expire else 0 } ::
    c.filter (fun e => !(e.key == k))

/-! ### look-up loop of `parallelCheck` -/

/-- the hit condition: `ok && res.Trigger.BlockNumber == payload.Trigger.BlockNumber &&
res.Trigger.BlockHash == payload.Trigger.BlockHash` on `cache.Get(payload.WorkID)` -/
def hit (c : Cache) (now : Nat) (p : Payload) : Option CheckResult :=
  match get c now p.workID with
  | none => none
  | some r =>
    if r.trigger.blockNumber == p.trigger.blockNumber && r.trigger.blockHash == p.trigger.blockHash
    then some r else none

/-- results served from the cache, in payload order (`result.Add(res)`) -/
def hits (c : Cache) (now : Nat) : List Payload → List CheckResult
  | [] => []
  | p :: ps => match hit c now p with
    | some r => r :: hits c now ps
    | none => hits c now ps

/-- `toRun`: the payloads without a hit, in payload order -/
def toRun (c : Cache) (now : Nat) (ps : List Payload) : List Payload :=
  ps.filter (fun p => (hit c now p).isNone)

/-- the payloads that were served from the cache -/
def cached (c : Cache) (now : Nat) (ps : List Payload) : List Payload :=
  ps.filter (fun p => (hit c now p).isSome)

/-! ### `util.Unflatten(toRun, workerBatchLimit)` -/

def unflattenAux {α} (size : Nat) : Nat → List α → List (List α)
  | 0, _ => []
  | fuel + 1, l =>
    match l with
    | [] => []
    | _ :: _ => l.take size :: unflattenAux size fuel (l.drop size)

/-- `for i := 0; i < len(b); i += size { groups = append(groups, b[i:min(i+size,len(b))]) }`
(for `size ≥ 1`; Go loops forever on `size = 0`, the model then returns `len(b)` empty groups) -/
def unflatten {α} (size : Nat) (l : List α) : List (List α) := unflattenAux size l.length l

/-- the Go loop of `Unflatten` literally, with its three decision expressions as parameters
(`more i n` = `i < len(b)`, `end_ i size` = `i + size`, `clamp j n` = `j > len(b)`); Props/C13 shows
that with the expressions regenerated from the source it is `unflatten` -/
def unflattenLoop {α} (more : Nat → Nat → Bool) (end_ : Nat → Nat → Nat) (clamp : Nat → Nat → Bool)
    (size : Nat) (b : List α) : Nat → Nat → List (List α)
  | _, 0 => []
  | i, fuel + 1 =>
    if more i b.length then
      let j := end_ i size
      let j := if clamp j b.length then b.length else j
      (b.drop i).take (j - i) :: unflattenLoop more end_ clamp size b (i + size) fuel   -- `b[i:j]`; `i += size`
    else []

/-- `WorkerBatchLimit` (checked against the regenerated constant in Props) -/
def workerBatchLimit : Nat := 10

/-! ### `wrapAggregate` -/

/-- answer of the wrapped pipeline for one batch, and when it was aggregated -/
structure BatchOut where
  doneAt : Nat
  res    : Option (List CheckResult)   -- `none`: `err != nil`
deriving DecidableEq, Repr

/-- cache part of the loop body of `wrapAggregate` for one result -/
def aggOne (expire now : Nat) (c : Cache) (r : CheckResult) : Cache :=
  if r.pes == 0 then
    match get c now r.workID with
    | none => set c now expire r.workID r
    | some old =>
      if r.trigger.blockNumber > old.trigger.blockNumber then set c now expire r.workID r else c
  else c

/-- cache effect of `wrapAggregate(results, err)` -/
def aggCache (expire : Nat) (c : Cache) (o : BatchOut) : Cache :=
  match o.res with
  | some rs => rs.foldl (aggOne expire o.doneAt) c
  | none => c

/-- the `result[T]` accumulator -/
structure Acc where
  values    : List CheckResult
  successes : Nat
  failures  : Nat
  err       : Bool          -- `r.err != nil`
deriving DecidableEq, Repr

/-- `result` effect of `wrapAggregate(results, err)` -/
def aggAcc (a : Acc) (o : BatchOut) : Acc :=
  match o.res with
  | some rs => { a with successes := a.successes + 1, values := a.values ++ rs }
  | none => { a with err := true, failures := a.failures + 1 }

/-- what `CheckUpkeeps` returns: `(r.Values(), nil)` or `(nil, ErrTooManyErrors)` -/
structure Ret where
  values : List CheckResult
  err    : Bool
deriving DecidableEq, Repr

/-- `if result.Total() > 0 && result.Total() == result.Failures() && result.Err() != nil` -/
def finish (a : Acc) : Ret :=
  if decide (a.successes + a.failures > 0) && decide (a.successes + a.failures = a.failures) && a.err
  then { values := [], err := true } else { values := a.values, err := false }

/-- `parallelCheck` followed by the unwrapping in `CheckUpkeeps`.
`out i` is the pipeline's answer for the `i`-th batch (payload order), `order` the delivery order. -/
def parallelCheck (expire : Nat) (c : Cache) (now : Nat) (payloads : List Payload)
    (out : Nat → BatchOut) (order : List Nat) : Cache × Ret :=
  if payloads.length = 0 then (c, { values := [], err := false }) else
  let a0 : Acc := { values := hits c now payloads, successes := 0, failures := 0, err := false }
  let run := toRun c now payloads
  if run.length = 0 then (c, { values := a0.values, err := false }) else
  -- `RunJobs(ctx, workers, Unflatten(toRun, limit), wrapWorkerFunc, wrapAggregate(result))`
  let outs := order.map out
  (outs.foldl (aggCache expire) c, finish (outs.foldl aggAcc a0))

/-- the batches the pipeline is called with -/
def batches (c : Cache) (now : Nat) (payloads : List Payload) : List (List Payload) :=
  unflatten workerBatchLimit (toRun c now payloads)

/-! ### several calls on one runner (sequential or concurrent callers)

The cache is the only state shared between calls.  A history is the sequence of
its atomic accesses: the look-up loop of a call (`start`) and one `wrapAggregate`
per delivered batch (`done`).  A call's return value depends on the history only
through the cache at its `start`. -/

inductive Ev where
  | start (cid : Nat) (now : Nat) (payloads : List Payload)
  | done  (cid : Nat) (batch : List Payload) (out : BatchOut)
deriving DecidableEq, Repr

def cacheStep (expire : Nat) (c : Cache) : Ev → Cache
  | .start _ _ _ => c
  | .done _ _ o => aggCache expire c o

/-- cache after a history, starting from `c0` (a new runner: `[]`) -/
def cacheAt (expire : Nat) (c0 : Cache) (evs : List Ev) : Cache := evs.foldl (cacheStep expire) c0

/-- the `done` events of call `cid`, in history order -/
def donesOf (cid : Nat) : List Ev → List (List Payload × BatchOut)
  | [] => []
  | .done c b o :: es => if c = cid then (b, o) :: donesOf cid es else donesOf cid es
  | .start _ _ _ :: es => donesOf cid es

/-- index of the first not yet used predicted batch equal to `b` -/
def matchIdx (bs : List (List Payload)) (used : List Nat) (b : List Payload) : Option Nat :=
  (List.range bs.length).find? (fun i => !used.contains i && bs[i]? == some b)

/-- delivery order of the predicted batches `bs` read off the observed batches;
`none` if some observed batch is not a predicted one (or more often than predicted) -/
def orderOf (bs : List (List Payload)) : List Nat → List (List Payload × BatchOut) → Option (List Nat)
  | used, [] => some used.reverse
  | used, (b, _) :: ds =>
    match matchIdx bs used b with
    | none => none
    | some i => orderOf bs (i :: used) ds

/-- the `j`-th delivered answer belongs to batch `order[j]` -/
def outOf : List Nat → List (List Payload × BatchOut) → Nat → BatchOut
  | i :: is, d :: ds, k => if i = k then d.2 else outOf is ds k
  | _, _, _ => { doneAt := 0, res := none }

/-- what the model returns for a call that starts with cache `c`, given the batches the pipeline was
seen to be called with (`ds`, completion order) and whether the caller's context was done when the
call returned; `none` when `ds` are not exactly the first `k` predicted batches, each once — with
`k = #batches` unless the context was done -/
def modelCall (expire : Nat) (c : Cache) (now : Nat) (ps : List Payload) (ds : List (List Payload × BatchOut))
    (cancelled : Bool) : Option Ret :=
  match orderOf (batches c now ps) [] ds with
  | none => none
  | some order =>
    if (decide (order.length = (batches c now ps).length) || cancelled) && order.all (fun i => decide (i < order.length))
    then some (parallelCheck expire c now ps (outOf order ds) order).2 else none

/-! ### the runner's life cycle (`Runner.Start`, `Runner.Close`)

`Start` on a runner that is running answers an error at once and changes nothing; otherwise it
takes the runner over (sets the flag, starts the cache cleaner) and returns `nil` only when the
runner is closed.  `Close` on a runner that is not running answers an error and changes nothing;
otherwise it stops cleaner and worker group, clears the flag and releases the blocked `Start`.
`CheckUpkeeps` never reads the flag: what a check call returns depends on the life cycle only through
the worker group being stopped (then nothing is submitted: `order = []`).
Not modelled: `Start` after a `Close` (the code then closes the cleaner's stop channel a second time at
the next `Close`), and two life-cycle calls racing on the flag. -/

inductive LifeOp where
  | start
  | close
deriving DecidableEq, Repr

/-- one life-cycle call on a runner whose flag is `running`: the flag afterwards, and whether the call
answered an error (for `start`: at once; a `start` without error blocks until the runner is closed) -/
def lifeStep (running : Bool) : LifeOp → Bool × Bool
  | .start => if running then (running, true) else (true, false)
  | .close => if !running then (running, true) else (false, false)

/-- the error flags of a sequence of life-cycle calls, from a runner whose flag is `running` -/
def lifeRun (running : Bool) : List LifeOp → List Bool
  | [] => []
  | op :: ops => (lifeStep running op).2 :: lifeRun (lifeStep running op).1 ops

/-- the flag after a sequence of life-cycle calls -/
def lifeFlag (running : Bool) : List LifeOp → Bool
  | [] => running
  | op :: ops => lifeFlag (lifeStep running op).1 ops

/-! ### a check call made through `Observer.Process` (pkg/v3/observer.go)

`Process` takes the payloads from the tick, hands them through the pre-processors in order, calls
the processor (`Runner.CheckUpkeeps` for `NewRunnableObserver`; whatever function was given to
`NewGenericObserver`) with what the last pre-processor returned, and hands the processor's results
together with those payloads to the post-processor.  The first stage that fails ends the call with
that stage's error; no later stage is invoked.

What a pre-processor does to the list is a parameter: `PreSpec.kind` selects one of a few list
functions (the harness's pre-processors), `fails` makes it answer an error. -/

structure PreSpec where
  kind  : Nat
  fails : Bool
deriving DecidableEq, Repr

/-- elements at even (`keepEven = true`) / odd positions -/
def everyOther {α} : Bool → List α → List α
  | _, [] => []
  | true, x :: xs => x :: everyOther false xs
  | false, _ :: xs => everyOther true xs

/-- the list functions of the harness's pre-processors -/
def preApply {α} (kind : Nat) (l : List α) : List α :=
  match kind with
  | 1 => everyOther true l      -- drops every second payload, keeps the first
  | 2 => everyOther false l     -- drops the first, keeps every second
  | 3 => l.reverse
  | 4 => l.drop 1
  | 5 => []
  | _ => l

/-- the pre-processor loop: `none` = a pre-processor failed (`return err`), else what the last one
returned; second component = number of pre-processors that were invoked -/
def runPres {α} : List PreSpec → List α → Option (List α) × Nat
  | [], l => (some l, 0)
  | p :: ps, l =>
    if p.fails then (none, 1)
    else let r := runPres ps (preApply p.kind l); (r.1, r.2 + 1)

/-- everything `Process` does that can be seen from outside -/
structure ProcOut where
  code     : Nat                                          -- error returned: 0 `nil`, 1 the tick's, 2 a pre-processor's, 3 the processor's, 4 the post-processor's
  preCalls : Nat                                          -- pre-processors invoked
  asked    : Option (List Payload)                        -- argument of the processor, if it was called
  post     : Option (List CheckResult × List Payload)     -- arguments of the post-processor, if it was called
deriving DecidableEq, Repr

/-- `Observer.Process`; `run` is the processor (its error flag and values) -/
def process (tickFails : Bool) (tick : List Payload) (pres : List PreSpec) (run : List Payload → Ret)
    (postFails : Bool) : ProcOut :=
  if tickFails then { code := 1, preCalls := 0, asked := none, post := none } else
  match runPres pres tick with
  | (none, n) => { code := 2, preCalls := n, asked := none, post := none }
  | (some ps, n) =>
    let r := run ps
    if r.err then { code := 3, preCalls := n, asked := some ps, post := none }
    else if postFails then { code := 4, preCalls := n, asked := some ps, post := some (r.values, ps) }
    else { code := 0, preCalls := n, asked := some ps, post := some (r.values, ps) }

end AutoVerif.C13
