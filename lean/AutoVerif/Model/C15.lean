import AutoVerif.Model.Types
import AutoVerif.Gen.Consts
/-
C15 — model of the observation / outcome wire format.

Go code mirrored here (same order of checks, same comparison operators):

  pkg/v3/observation.go   AutomationObservation.Encode, DecodeAutomationObservation,
                          validateAutomationObservation, validateCheckResult,
                          validateUpkeepProposal, validateTriggerExtensionType
  pkg/v3/outcome.go       AutomationOutcome.Encode, DecodeAutomationOutcome,
                          validateAutomationOutcome
  chainlink-common …/automation/basetypes.go   CheckResult.MarshalJSON / UnmarshalJSON
                          (checkResultMsg, decoded by encoding/json)

The model works on JSON *trees* (`J` below); the text layer (goccy/go-json,
encoding/json, `Lean.Json.parse`) is trusted and compared by the harness.

Two number decoders exist in the real code and both are modelled (the envelope
decoders take the codec as a parameter `c`; the harness probes which package
the repository uses and tells the driver, the theorems hold for both):
`Codec.std`   — encoding/json, used inside `CheckResult.UnmarshalJSON`: an
                unsigned field accepts exactly `0 ≤ n < 2^bits`;
`Codec.goccy` — goccy/go-json v0.10.2, used for the envelope, the proposals and
                the block history: at most 20 digits, the value is reduced
                modulo 2^64 (silent wrap-around, observed on the real code), and
                only then range-checked for narrower types.

Leniencies of both decoders that ARE mirrored (and compared by the harness'
"lenient" stream): `null` or a missing field leaves the zero value; unknown keys
are ignored; key order is irrelevant; a JSON array for a `[32]byte` may be
shorter (zero filled) or longer (surplus ignored, not even type-checked); a
`[]byte` accepts a base64 string (padding required, trailing bits ignored) or
an array of numbers.  NOT mirrored (text level or exotic): case-insensitive key
matching, duplicate keys (`Lean.Json` keeps the last binding; Go keeps the last
non-null one), `\r`/`\n` inside base64, trailing NUL bytes after the value.

The zero fill of a short `[32]byte` array is modelled as what it means (the
missing elements are 0, nothing else changes).  goccy/go-json v0.10.2 performs
it with 8-byte stores that reach 7 bytes past the array — the harness detects
that deviation without the model (explicit-zeros probe, crash witness) and the
Spec reports it under the no-crash clause.

Byte strings are lower-case hex `String`s in the shared types; `bytesOfHex` /
`hexOfBytes` convert to `List Nat` (each < 256) for base64 and the 32-element
arrays.
-/
namespace AutoVerif.C15
open AutoVerif

/-- JSON trees (core Lean only; the driver converts `Lean.Json` to this). -/
inductive J where
  | null
  | bool (b : Bool)
  | num (n : Int)
  | str (s : String)
  | arr (xs : List J)
  | obj (kvs : List (String × J))
deriving Repr, Inhabited

/-! ### hex ↔ bytes -/

def isLowerHex (c : Char) : Bool :=
  (48 ≤ c.toNat && c.toNat ≤ 57) || (97 ≤ c.toNat && c.toNat ≤ 102)

/-- value of a hex digit; anything else counts as 0 (total, always < 16) -/
def hexVal (c : Char) : Nat :=
  if 48 ≤ c.toNat ∧ c.toNat ≤ 57 then c.toNat - 48
  else if 97 ≤ c.toNat ∧ c.toNat ≤ 102 then c.toNat - 87
  else 0

def hexDigit (n : Nat) : Char :=
  if n < 10 then Char.ofNat (48 + n) else Char.ofNat (87 + n)

def bytesOfHexL : List Char → List Nat
  | c1 :: c2 :: rest => (hexVal c1 * 16 + hexVal c2) :: bytesOfHexL rest
  | _ => []

def hexOfBytesL : List Nat → List Char
  | [] => []
  | b :: rest => hexDigit (b / 16) :: hexDigit (b % 16) :: hexOfBytesL rest

def bytesOfHex (s : String) : List Nat := bytesOfHexL s.toList
def hexOfBytes (bs : List Nat) : String := String.ofList (hexOfBytesL bs)

/-- well-formed byte string: lower-case hex, whole bytes -/
def wfHex (s : String) : Bool := s.toList.all isLowerHex && s.length % 2 == 0
/-- well-formed 32-byte id / hash -/
def wfHex32 (s : String) : Bool := s.toList.all isLowerHex && s.length == 64

/-! ### base64 (RFC 4648 §4, standard alphabet, with padding — Go's `base64.StdEncoding`) -/

def b64Char (i : Nat) : Char :=
  if i < 26 then Char.ofNat (65 + i)
  else if i < 52 then Char.ofNat (71 + i)
  else if i < 62 then Char.ofNat (i - 4)
  else if i = 62 then '+' else '/'

def b64Val (c : Char) : Option Nat :=
  let n := c.toNat
  if 65 ≤ n ∧ n ≤ 90 then some (n - 65)
  else if 97 ≤ n ∧ n ≤ 122 then some (n - 71)
  else if 48 ≤ n ∧ n ≤ 57 then some (n + 4)
  else if n = 43 then some 62
  else if n = 47 then some 63
  else none

def b64encL : List Nat → List Char
  | [] => []
  | [b0] => [b64Char (b0 / 4), b64Char ((b0 % 4) * 16), '=', '=']
  | [b0, b1] => [b64Char (b0 / 4), b64Char ((b0 % 4) * 16 + b1 / 16), b64Char ((b1 % 16) * 4), '=']
  | b0 :: b1 :: b2 :: rest =>
    b64Char (b0 / 4) :: b64Char ((b0 % 4) * 16 + b1 / 16) :: b64Char ((b1 % 16) * 4 + b2 / 64) ::
      b64Char (b2 % 64) :: b64encL rest

/-- groups of four characters; `=` padding only in the last group; trailing
bits of a padded group are ignored (Go's non-strict mode) -/
def b64decL : List Char → Option (List Nat)
  | [] => some []
  | c0 :: c1 :: c2 :: c3 :: rest =>
    if rest = [] ∧ c3 = '=' then
      if c2 = '=' then
        match b64Val c0, b64Val c1 with
        | some s0, some s1 => some [s0 * 4 + s1 / 16]
        | _, _ => none
      else
        match b64Val c0, b64Val c1, b64Val c2 with
        | some s0, some s1, some s2 => some [s0 * 4 + s1 / 16, (s1 % 16) * 16 + s2 / 4]
        | _, _, _ => none
    else
      match b64Val c0, b64Val c1, b64Val c2, b64Val c3, b64decL rest with
      | some s0, some s1, some s2, some s3, some tl =>
        some ((s0 * 4 + s1 / 16) :: ((s1 % 16) * 16 + s2 / 4) :: ((s2 % 4) * 64 + s3) :: tl)
      | _, _, _, _, _ => none
  | _ => none

def b64encode (bs : List Nat) : String := String.ofList (b64encL bs)
def b64decode (s : String) : Option (List Nat) := b64decL s.toList

/-! ### encoders (`json.Marshal` of the Go structs, as a tree) -/

def bytesToJson (hex : String) : J := .arr ((bytesOfHex hex).map fun (b : Nat) => .num (b : Int))

def optIntToJson : Option Int → J
  | none => .null
  | some n => .num n

def extToJson (e : LogExt) : J :=
  .obj [("TxHash", bytesToJson e.txHash), ("Index", .num e.index),
        ("BlockHash", bytesToJson e.blockHash), ("BlockNumber", .num e.blockNumber)]

/-- `*LogTriggerExtension`: `null` or the object -/
def optExtToJson : Option LogExt → J
  | none => .null
  | some e => extToJson e

def triggerToJson (t : Trigger) : J :=
  .obj [("BlockNumber", .num t.blockNumber), ("BlockHash", bytesToJson t.blockHash),
        ("LogTriggerExtension", optExtToJson t.ext)]

/-- `CheckResult.MarshalJSON` (checkResultMsg) -/
def resultToJson (r : CheckResult) : J :=
  .obj [("PipelineExecutionState", .num r.pes), ("Retryable", .bool r.retryable),
        ("Eligible", .bool r.eligible), ("IneligibilityReason", .num r.reason),
        ("UpkeepID", bytesToJson r.upkeepID), ("Trigger", triggerToJson r.trigger),
        ("WorkID", .str r.workID), ("GasAllocated", .num r.gas),
        ("PerformData", .str (b64encode (bytesOfHex r.performData))),
        ("FastGasWei", optIntToJson r.fastGasWei), ("LinkNative", optIntToJson r.linkNative)]

def proposalToJson (p : Proposal) : J :=
  .obj [("UpkeepID", bytesToJson p.upkeepID), ("Trigger", triggerToJson p.trigger), ("WorkID", .str p.workID)]

def blockKeyToJson (b : BlockKey) : J :=
  .obj [("Number", .num b.number), ("Hash", bytesToJson b.hash)]

/-- `AutomationObservation.Encode` -/
def obsToJson (o : Observation) : J :=
  .obj [("Performable", .arr (o.performable.map resultToJson)),
        ("UpkeepProposals", .arr (o.proposals.map proposalToJson)),
        ("BlockHistory", .arr (o.blockHistory.map blockKeyToJson))]

/-- `AutomationOutcome.Encode` -/
def outcomeToJson (o : Outcome) : J :=
  .obj [("AgreedPerformables", .arr (o.agreed.map resultToJson)),
        ("SurfacedProposals", .arr (o.surfaced.map fun round => .arr (round.map proposalToJson)))]

/-! ### decoders (`json.Unmarshal` into the Go structs, on a tree) -/

inductive Codec where
  | std | goccy
deriving DecidableEq, Repr

def two64 : Nat := 18446744073709551616
def ten20 : Nat := 100000000000000000000

/-- unsigned integer field of `bits ≤ 64` bits -/
def uintFromJson (c : Codec) (bits : Nat) : J → Option Nat
  | .null => some 0
  | .num n =>
    match c with
    | .std => if 0 ≤ n ∧ n < (2 ^ bits : Nat) then some n.toNat else none
    | .goccy =>
      if n < 0 ∨ (ten20 : Int) ≤ n then none
      else if n.toNat % two64 < 2 ^ bits then some (n.toNat % two64) else none
  | _ => none

def boolFromJson : J → Option Bool
  | .null => some false
  | .bool b => some b
  | _ => none

def strFromJson : J → Option String
  | .null => some ""
  | .str s => some s
  | _ => none

/-- `*big.Int` -/
def optIntFromJson : J → Option (Option Int)
  | .null => some none
  | .num n => some (some n)
  | _ => none

def traverse {α β} (f : α → Option β) : List α → Option (List β)
  | [] => some []
  | x :: xs =>
    match f x, traverse f xs with
    | some y, some ys => some (y :: ys)
    | _, _ => none

/-- struct value: an object, or `null` (= no field set) -/
def fieldsOf : J → Option (List (String × J))
  | .null => some []
  | .obj kvs => some kvs
  | _ => none

/-- value bound to `k`; a missing key behaves like `null` -/
def look (k : String) (kvs : List (String × J)) : J :=
  match kvs.lookup k with
  | some v => v
  | none => .null

/-- `[n]byte`: array of numbers, short arrays zero-filled, surplus elements skipped -/
def fixedBytesFromJson (c : Codec) (n : Nat) : J → Option String
  | .null => some (hexOfBytes (List.replicate n 0))
  | .arr xs =>
    match traverse (uintFromJson c 8) (xs.take n) with
    | some bs => some (hexOfBytes (bs ++ List.replicate (n - bs.length) 0))
    | none => none
  | _ => none

/-- `[]byte` (only inside checkResultMsg, i.e. encoding/json) -/
def bytesFromJson : J → Option String
  | .null => some ""
  | .str s =>
    match b64decode s with
    | some bs => some (hexOfBytes bs)
    | none => none
  | .arr xs =>
    match traverse (uintFromJson .std 8) xs with
    | some bs => some (hexOfBytes bs)
    | none => none
  | _ => none

def sliceFromJson {α} (f : J → Option α) : J → Option (List α)
  | .null => some []
  | .arr xs => traverse f xs
  | _ => none

def extFromJson (c : Codec) (j : J) : Option LogExt :=
  match fieldsOf j with
  | none => none
  | some kvs =>
    match fixedBytesFromJson c 32 (look "TxHash" kvs), uintFromJson c 32 (look "Index" kvs),
          fixedBytesFromJson c 32 (look "BlockHash" kvs), uintFromJson c 64 (look "BlockNumber" kvs) with
    | some tx, some idx, some bh, some bn => some { txHash := tx, index := idx, blockHash := bh, blockNumber := bn }
    | _, _, _, _ => none

/-- `*LogTriggerExtension` -/
def optExtFromJson (c : Codec) : J → Option (Option LogExt)
  | .null => some none
  | j =>
    match extFromJson c j with
    | some e => some (some e)
    | none => none

def triggerFromJson (c : Codec) (j : J) : Option Trigger :=
  match fieldsOf j with
  | none => none
  | some kvs =>
    match uintFromJson c 64 (look "BlockNumber" kvs), fixedBytesFromJson c 32 (look "BlockHash" kvs),
          optExtFromJson c (look "LogTriggerExtension" kvs) with
    | some bn, some bh, some ext => some { blockNumber := bn, blockHash := bh, ext := ext }
    | _, _, _ => none

/-- `CheckResult.UnmarshalJSON` (encoding/json into checkResultMsg) -/
def resultFromJson (j : J) : Option CheckResult := do
  let kvs ← fieldsOf j
  let pes ← uintFromJson .std 8 (look "PipelineExecutionState" kvs)
  let rt ← boolFromJson (look "Retryable" kvs)
  let el ← boolFromJson (look "Eligible" kvs)
  let rs ← uintFromJson .std 8 (look "IneligibilityReason" kvs)
  let uid ← fixedBytesFromJson .std 32 (look "UpkeepID" kvs)
  let tr ← triggerFromJson .std (look "Trigger" kvs)
  let wid ← strFromJson (look "WorkID" kvs)
  let gas ← uintFromJson .std 64 (look "GasAllocated" kvs)
  let pd ← bytesFromJson (look "PerformData" kvs)
  let fgw ← optIntFromJson (look "FastGasWei" kvs)
  let ln ← optIntFromJson (look "LinkNative" kvs)
  pure { pes := pes, retryable := rt, eligible := el, reason := rs, upkeepID := uid, trigger := tr,
         workID := wid, gas := gas, performData := pd, fastGasWei := fgw, linkNative := ln }

def proposalFromJson (c : Codec) (j : J) : Option Proposal :=
  match fieldsOf j with
  | none => none
  | some kvs =>
    match fixedBytesFromJson c 32 (look "UpkeepID" kvs), triggerFromJson c (look "Trigger" kvs),
          strFromJson (look "WorkID" kvs) with
    | some uid, some tr, some wid => some { upkeepID := uid, trigger := tr, workID := wid }
    | _, _, _ => none

def blockKeyFromJson (c : Codec) (j : J) : Option BlockKey :=
  match fieldsOf j with
  | none => none
  | some kvs =>
    match uintFromJson c 64 (look "Number" kvs), fixedBytesFromJson c 32 (look "Hash" kvs) with
    | some n, some h => some { number := n, hash := h }
    | _, _ => none

/-- `json.Unmarshal(data, &AutomationObservation{})`; `c` is the JSON package imported by
observation.go / outcome.go (`Codec.goccy` in the tree as it is) -/
def obsFromJson (c : Codec) (j : J) : Option Observation :=
  match fieldsOf j with
  | none => none
  | some kvs =>
    match sliceFromJson resultFromJson (look "Performable" kvs),
          sliceFromJson (proposalFromJson c) (look "UpkeepProposals" kvs),
          sliceFromJson (blockKeyFromJson c) (look "BlockHistory" kvs) with
    | some ps, some us, some bs => some { performable := ps, proposals := us, blockHistory := bs }
    | _, _, _ => none

/-- `json.Unmarshal(data, &AutomationOutcome{})` -/
def outcomeFromJson (c : Codec) (j : J) : Option Outcome :=
  match fieldsOf j with
  | none => none
  | some kvs =>
    match sliceFromJson resultFromJson (look "AgreedPerformables" kvs),
          sliceFromJson (sliceFromJson (proposalFromJson c)) (look "SurfacedProposals" kvs) with
    | some ps, some ss => some { agreed := ps, surfaced := ss }
    | _, _ => none

/-! ### well-formedness of a Go value seen through the shared types

What `Types.lean` cannot express by typing: ids are 32 bytes, byte strings are
whole bytes in lower-case hex, machine integers are in range.  Big integers,
work ids and the optional extension are unconstrained. -/

def wfExt (e : LogExt) : Bool :=
  wfHex32 e.txHash && decide (e.index < 2 ^ 32) && wfHex32 e.blockHash && decide (e.blockNumber < two64)

def wfOptExt : Option LogExt → Bool
  | none => true
  | some e => wfExt e

def wfTrigger (t : Trigger) : Bool :=
  decide (t.blockNumber < two64) && wfHex32 t.blockHash && wfOptExt t.ext

def wfResult (r : CheckResult) : Bool :=
  decide (r.pes < 256) && decide (r.reason < 256) && wfHex32 r.upkeepID && wfTrigger r.trigger &&
  decide (r.gas < two64) && wfHex r.performData

def wfProposal (p : Proposal) : Bool := wfHex32 p.upkeepID && wfTrigger p.trigger

def wfBlockKey (b : BlockKey) : Bool := decide (b.number < two64) && wfHex32 b.hash

def wfObs (o : Observation) : Bool :=
  o.performable.all wfResult && o.proposals.all wfProposal && o.blockHistory.all wfBlockKey

def wfOutcome (o : Outcome) : Bool :=
  o.agreed.all wfResult && o.surfaced.all (·.all wfProposal)

/-! ### validation -/

/-- the documented rules, one constructor per Go error site -/
inductive Rule where
  | blockHistoryOverLimit      -- "block history length cannot be greater than"
  | dupBlockNumber             -- "block history cannot have duplicate block numbers"
  | performablesOverLimit      -- "performable length cannot be greater than"
  | failedState                -- "check result cannot have failed execution state"
  | ineligible                 -- "check result cannot be ineligible"
  | typeMismatchResult         -- "invalid trigger: log trigger extension cannot be …"
  | wrongWorkIDResult          -- "incorrect workID within result"
  | zeroGas                    -- "gas allocated cannot be zero"
  | fastGasMissing             -- "fast gas wei must be present"
  | fastGasRange               -- "fast gas wei must be in uint256 range"
  | linkNativeMissing          -- "link native must be present"
  | linkNativeRange            -- "link native must be in uint256 range"
  | dupPerformableWorkID       -- "performable cannot have duplicate workIDs"
  | proposalsOverLimit         -- "upkeep proposals length cannot be greater than"
  | typeMismatchProposal       -- "log trigger extension cannot be …" (from validateUpkeepProposal)
  | wrongWorkIDProposal        -- "incorrect workID within proposal"
  | dupProposalWorkID          -- "proposals cannot have duplicate workIDs"
  | conditionalProposalsOverLimit  -- "conditional upkeep proposals length cannot be greater than"
  | logProposalsOverLimit      -- "log upkeep proposals length cannot be greater than"
  | agreedOverLimit            -- "outcome performable length cannot be greater than"
  | dupAgreedWorkID            -- "agreed performable cannot have duplicate workIDs"
  | roundsOverLimit            -- "number of rounds for surfaced proposals cannot be greater than"
  | roundProposalsOverLimit    -- "number of surfaced proposals in a round cannot be greater than"
deriving DecidableEq, Repr, Inhabited

abbrev V := Except Rule Unit

/-- `uint256Max` of observation.go -/
def uint256Max : Int :=
  115792089237316195423570985008687907853269984665640564039457584007913129639935

/-- `validateTriggerExtensionType`: `true` = nil error -/
def triggerExtTypeOk (t : Trigger) (ut : UpkeepType) : Bool :=
  match ut with
  | .condition => t.ext.isNone
  | .log => t.ext.isSome
  | .other => true

/-- `validateCheckResult` -/
def validateCheckResult (utg : String → UpkeepType) (wg : String → Trigger → String) (r : CheckResult) : V :=
  if r.pes ≠ 0 ∨ r.retryable = true then .error .failedState
  else if r.eligible = false ∨ r.reason ≠ 0 then .error .ineligible
  else if triggerExtTypeOk r.trigger (utg r.upkeepID) = false then .error .typeMismatchResult
  else if wg r.upkeepID r.trigger ≠ r.workID then .error .wrongWorkIDResult
  else if r.gas = 0 then .error .zeroGas
  else
    match r.fastGasWei with
    | none => .error .fastGasMissing
    | some fgw =>
      if fgw < 0 ∨ fgw > uint256Max then .error .fastGasRange
      else
        match r.linkNative with
        | none => .error .linkNativeMissing
        | some ln =>
          if ln < 0 ∨ ln > uint256Max then .error .linkNativeRange
          else .ok ()

/-- `validateUpkeepProposal` -/
def validateProposal (utg : String → UpkeepType) (wg : String → Trigger → String) (p : Proposal) : V :=
  if triggerExtTypeOk p.trigger (utg p.upkeepID) = false then .error .typeMismatchProposal
  else if wg p.upkeepID p.trigger ≠ p.workID then .error .wrongWorkIDProposal
  else .ok ()

/-- the `seen` loop over block numbers -/
def checkBlocks : List BlockKey → List Nat → V
  | [], _ => .ok ()
  | b :: bs, seen =>
    if b.number ∈ seen then .error .dupBlockNumber
    else checkBlocks bs (b.number :: seen)

/-- the loop over results: validate, then the `seen` test, per element in order -/
def checkResults (utg : String → UpkeepType) (wg : String → Trigger → String) (dup : Rule) :
    List CheckResult → List String → V
  | [], _ => .ok ()
  | r :: rs, seen =>
    match validateCheckResult utg wg r with
    | .error e => .error e
    | .ok () =>
      if r.workID ∈ seen then .error dup
      else checkResults utg wg dup rs (r.workID :: seen)

/-- the loop over proposals; returns the `seen` set (shared between the rounds of an outcome) -/
def checkProposals (utg : String → UpkeepType) (wg : String → Trigger → String) :
    List Proposal → List String → Except Rule (List String)
  | [], seen => .ok seen
  | p :: ps, seen =>
    match validateProposal utg wg p with
    | .error e => .error e
    | .ok () =>
      if p.workID ∈ seen then .error .dupProposalWorkID
      else checkProposals utg wg ps (p.workID :: seen)

/-- number of proposals of upkeep type `t` (Go counts them inside the loop and
tests the two counters after it) -/
def countType (utg : String → UpkeepType) (t : UpkeepType) (ps : List Proposal) : Nat :=
  (ps.filter fun p => utg p.upkeepID = t).length

/-- `validateAutomationObservation` -/
def validateObservation (utg : String → UpkeepType) (wg : String → Trigger → String) (o : Observation) : V :=
  if o.blockHistory.length > Gen.observationBlockHistoryLimit then .error .blockHistoryOverLimit
  else
    match checkBlocks o.blockHistory [] with
    | .error e => .error e
    | .ok () =>
      if o.performable.length > Gen.observationPerformablesLimit then .error .performablesOverLimit
      else
        match checkResults utg wg .dupPerformableWorkID o.performable [] with
        | .error e => .error e
        | .ok () =>
          if o.proposals.length >
              Gen.observationConditionalsProposalsLimit + Gen.observationLogRecoveryProposalsLimit then
            .error .proposalsOverLimit
          else
            match checkProposals utg wg o.proposals [] with
            | .error e => .error e
            | .ok _ =>
              if countType utg .condition o.proposals > Gen.observationConditionalsProposalsLimit then
                .error .conditionalProposalsOverLimit
              else if countType utg .log o.proposals > Gen.observationLogRecoveryProposalsLimit then
                .error .logProposalsOverLimit
              else .ok ()

/-- the loop over the rounds of surfaced proposals -/
def checkRounds (utg : String → UpkeepType) (wg : String → Trigger → String) :
    List (List Proposal) → List String → V
  | [], _ => .ok ()
  | round :: rest, seen =>
    if round.length > Gen.outcomeSurfacedProposalsLimit then .error .roundProposalsOverLimit
    else
      match checkProposals utg wg round seen with
      | .error e => .error e
      | .ok seen' => checkRounds utg wg rest seen'

/-- `validateAutomationOutcome` -/
def validateOutcome (utg : String → UpkeepType) (wg : String → Trigger → String) (o : Outcome) : V :=
  if o.agreed.length > Gen.outcomeAgreedPerformablesLimit then .error .agreedOverLimit
  else
    match checkResults utg wg .dupAgreedWorkID o.agreed [] with
    | .error e => .error e
    | .ok () =>
      if o.surfaced.length > Gen.outcomeSurfacedProposalsRoundHistoryLimit then .error .roundsOverLimit
      else checkRounds utg wg o.surfaced []

/-! ### the two entry points -/

inductive DecodeErr where
  | malformed          -- `json.Unmarshal` failed
  | rule (r : Rule)    -- validation failed
deriving DecidableEq, Repr

/-- `DecodeAutomationObservation` on a parsed tree -/
def decodeObservation (c : Codec) (utg : String → UpkeepType) (wg : String → Trigger → String) (j : J) :
    Except DecodeErr Observation :=
  match obsFromJson c j with
  | none => .error .malformed
  | some o =>
    match validateObservation utg wg o with
    | .error r => .error (.rule r)
    | .ok () => .ok o

/-- `DecodeAutomationOutcome` on a parsed tree -/
def decodeOutcome (c : Codec) (utg : String → UpkeepType) (wg : String → Trigger → String) (j : J) :
    Except DecodeErr Outcome :=
  match outcomeFromJson c j with
  | none => .error .malformed
  | some o =>
    match validateOutcome utg wg o with
    | .error r => .error (.rule r)
    | .ok () => .ok o

end AutoVerif.C15
