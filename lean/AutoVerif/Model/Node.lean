import AutoVerif.Model.C08
import AutoVerif.Model.C10
import AutoVerif.Model.C12
import AutoVerif.Model.C13
/-
Composition model of ONE node: how a check result travels from the check pipeline to an observation.

    pipeline ──► runner (+cache) ──► flow post-processing ──► result store ──► Observation
                 Model/C13            Model/C12                 Model/C10        Model/C08

Nothing of the four component models is re-modelled here.  A node's history is a list of events; every
event carries only what the ENVIRONMENT chooses (payloads, pipeline answers, clock readings, which goroutine
runs next, the order in which Go ranges over a map); every value the CODE computes is computed from the
history with the component models' own functions:

  event                              Go                                                component function
  ---------------------------------  ------------------------------------------------  ---------------------------------
  `runner (start cid now ps)`        look-up loop of `Runner.CheckUpkeeps`             `C13.Ev.start`, `C13.cacheAt`
  `runner (done cid batch out)`      `wrapAggregate` for one batch (pipeline answer)   `C13.Ev.done`,  `C13.cacheAt`
  `flow f sid ue ivs`                call `sid` returns; `Observer.Process` of flow    `C13.modelCall` (return value),
                                     `f` hands the results to its post-processors      `C12.process`   (the four sinks)
  `stage t fid r`                    eligible post-processor of flow run `fid`:        `C10.Ev.add`
                                     `ResultStore.Add(r)` — one critical section
  `unstage t agreed`                 `RemoveFromStagingHook`: `Remove(work ids…)`      `C10.Ev.remove` (one per id)
  `gc t`                             a tick of the store's collector                   `C10.Ev.gc`
  `observe t out a`                  `ocr3Plugin.Observation`: `View()` returned       `C10.Ev.view`, `C10.ViewOf`,
                                     `out`; the hooks build the observation            `C08.observe`

The runner's cache after a history is `C13.cacheAt` of the history's runner events, the result store is
`C10.run` of its store events — the two projections `runnerEvs`, `storeEvs` are the only glue.

Interleaving is arbitrary: flows run concurrently on one runner and one store, so look-ups, batch
completions, returns, single `Add`s, removals, collections and observations of different goroutines may
alternate in any order.  The model is deliberately MORE permissive than the code where that costs nothing
for a safety statement: a flow run may hand a staged result to the store more than once, in any order or
never (`stage` refers to the staged sink of flow run `fid` by membership), and a call may be post-processed
by more than one flow event.

`ocr3Plugin.Observation` with a previous outcome runs `RemoveFromStagingHook` (mutating the store) and later
`View()`s it.  Both readings are histories of this model: the code's — an `unstage` event followed, after any
other events, by an `observe` whose view is taken on the mutated store — and C08's atomic one, where `observe`
carries `prev` and `C08.observe` filters the viewed list itself (`prev` is an unconstrained argument of the
event; filtering a second time removes nothing that the code would report).

Representation mismatches between the component models, bridged by explicit conversions:
  * C13 returns wire-level `CheckResult`s, C12 routes `Res` = `CheckResult` + the non-wire `RetryInterval`:
    `toRes ivs` attaches the intervals positionally (`ivs` is the environment's choice); it neither drops,
    adds nor changes a result (`Props/C09Link.toRes_cr`).
  * C10's store holds `Entry`s; `C10.view` yields the `CheckResult`s, `View()` returns them in map order:
    the `observe` event carries the returned list `out`, constrained by `C10.ViewOf` (a permutation of
    `C10.view`); `out` is the `staged` field of `C08.NodeView`.
  * C12's `Observer.Process` takes the runner as a function: `runnerOf` is the constant function returning
    what C13's model returned for that call (`none` for `ErrTooManyErrors`).

Core Lean only.
-/
namespace AutoVerif.Node
open AutoVerif.Outcome

/-- the two time constants a node's state depends on -/
structure Cfg where
  expire : Nat   -- `RunnerConfig.CacheExpire` (ns; 0 = never)
  ttl    : Nat   -- `storeTTL` of the result store (ns)
deriving DecidableEq, Repr

/-- everything `ocr3Plugin.Observation` reads besides the staged results: the arguments of `C08.observe`.
`ctx.key` is the round's keyed shuffle, so the whole context is per call, not per node. -/
structure ObsArgs where
  ctx        : Ctx
  lim        : Limits
  maxLen     : Nat
  prev       : Option Outcome
  logProps   : List Proposal
  condProps  : List Proposal
  hist       : List BlockKey
  inflight   : CheckResult → Bool       -- coordinator.FilterResults
  logChoice  : List Proposal
  condChoice : List Proposal
  si         : C08.SizeInfo

/-- what the node holds when `Observation` is called and `View()` returned `out` -/
def ObsArgs.view (a : ObsArgs) (out : List CheckResult) : C08.NodeView :=
  { staged := out, logProps := a.logProps, condProps := a.condProps, hist := a.hist }

/-- atomic events of a node's history (see the table above) -/
inductive Ev where
  | runner  (e : C13.Ev)
  | flow    (flow : C12.Flow) (sid : Nat) (updErr : CheckResult → Bool) (ivs : List Int)
  | stage   (t : Nat) (fid : Nat) (r : CheckResult)
  | unstage (t : Nat) (agreed : List CheckResult)
  | gc      (t : Nat)
  | observe (t : Nat) (out : List CheckResult) (a : ObsArgs)

/-! ### projections onto the component histories -/

def runnerEv : Ev → Option C13.Ev
  | .runner e => some e
  | _ => none

/-- the accesses of the runner's cache, in history order -/
def runnerEvs (h : List Ev) : List C13.Ev := h.filterMap runnerEv

def storeEv : Ev → List C10.Ev
  | .stage t _ r      => [.add t r]
  | .unstage t agreed => agreed.map (fun r => C10.Ev.remove t r.workID)
  | .gc t             => [.gc t]
  | .observe t out _  => [.view t out]
  | _ => []

/-- the calls on the result store, in history order -/
def storeEvs (h : List Ev) : List C10.Ev := h.flatMap storeEv

/-- the runner's cache after `h` (new runner: empty cache) -/
def cacheAt (cfg : Cfg) (h : List Ev) : C13.Cache := C13.cacheAt cfg.expire [] (runnerEvs h)

/-- the result store after `h` (new store: empty map) -/
def storeAt (cfg : Cfg) (h : List Ev) : C10.Store := C10.run cfg.ttl [] (storeEvs h)

/-! ### conversions between the component models' representations -/

def toResFrom (ivs : List Int) : Nat → List CheckResult → List C12.Res
  | _, [] => []
  | i, r :: rs => { cr := r, retryInterval := ivs.getD i 0 } :: toResFrom ivs (i + 1) rs

/-- C13's results as C12's: the `i`-th result gets the `i`-th retry interval (0 if none is given) -/
def toRes (ivs : List Int) (rs : List CheckResult) : List C12.Res := toResFrom ivs 0 rs

/-- C13's return value as the `runner` argument of `C12.process`: `(nil, ErrTooManyErrors)` is `none` -/
def runnerOf (ivs : List Int) (R : C13.Ret) : List Payload → Option (List C12.Res) :=
  fun _ => if R.err then none else some (toRes ivs R.values)

/-! ### what the code computes from the history -/

/-- return value of the runner call whose look-up loop is the event at position `sid` of `pre`, once all its
batches have been aggregated: `C13.modelCall` on the cache left by the events before `sid` and the
`done` events of that call after `sid`.  `none`: position `sid` is not a `start`, or the call has not
finished (its `done`s are not the model's batches, each once).  Call ids identify calls, as in C13. -/
def callRet (cfg : Cfg) (pre : List Ev) (sid : Nat) : Option (List Payload × C13.Ret) :=
  match pre[sid]? with
  | some (.runner (.start cid now ps)) =>
    (C13.modelCall cfg.expire (cacheAt cfg (pre.take sid)) now ps
        (C13.donesOf cid (runnerEvs (pre.drop (sid + 1)))) false).map (fun R => (ps, R))
  | _ => none

/-- the sinks written by a flow run that post-processes call `sid` after the history `pre`:
`Observer.Process` (C12) with the payloads of the call as (already pre-processed) tick value and C13's
return value as the runner -/
def flowSinks (cfg : Cfg) (pre : List Ev) (flow : C12.Flow) (sid : Nat) (updErr : CheckResult → Bool)
    (ivs : List Int) : C12.Sinks :=
  match callRet cfg pre sid with
  | some (ps, R) => (C12.process flow updErr (some ps) [] (runnerOf ivs R)).sinks
  | none => {}

/-- the observation an `observe` event produces: `C08.observe` on the returned view -/
def observationOf : Ev → Option Observation
  | .observe _ out a =>
    some (C08.observe a.ctx a.lim a.maxLen a.prev (a.view out) a.inflight a.logChoice a.condChoice a.si)
  | _ => none

/-! ### histories the code can produce -/

/-- the two places where an event carries a value the code produced rather than an environment choice:
a `stage` hands over a result of the staged sink of the flow run at position `fid`; an `observe` carries
what `View()` returned on the store as it is then -/
def okAt (cfg : Cfg) (pre : List Ev) : Ev → Prop
  | .stage _ fid r => ∃ flow sid ue ivs, pre[fid]? = some (.flow flow sid ue ivs) ∧
      r ∈ (flowSinks cfg (pre.take fid) flow sid ue ivs).staged
  | .observe t out _ => C10.ViewOf cfg.ttl t (storeAt cfg pre) out
  | _ => True

def ConformsFrom (cfg : Cfg) : List Ev → List Ev → Prop
  | _, [] => True
  | pre, e :: rest => okAt cfg pre e ∧ ConformsFrom cfg (pre ++ [e]) rest

/-- every event of `h` is one the node can produce after the events before it -/
def Conforms (cfg : Cfg) (h : List Ev) : Prop := ConformsFrom cfg [] h

/-! ### the pipeline log of a history -/

/-- the underlying check pipeline answered a batch of this history successfully and `r` is among the answers -/
def PipelineReturned (h : List Ev) (r : CheckResult) : Prop :=
  ∃ cid batch o rs, Ev.runner (.done cid batch o) ∈ h ∧ o.res = some rs ∧ r ∈ rs

/-- … and `r` is an eligible result of a successful pipeline execution -/
def ReturnedEligible (h : List Ev) (r : CheckResult) : Prop :=
  PipelineReturned h r ∧ r.pes = 0 ∧ r.eligible = true

/-- `o` is the observation of some `observe` event of `h` -/
def Produced (h : List Ev) (o : Observation) : Prop :=
  ∃ pre e post, h = pre ++ e :: post ∧ observationOf e = some o

end AutoVerif.Node
