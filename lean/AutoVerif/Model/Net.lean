import AutoVerif.Model.Outcome
import AutoVerif.Model.C04
import AutoVerif.Model.C06
/-
Multi-round, multi-node state machine for C09 (network-wide under faults).  Core Lean only.

Nothing that exists is re-modelled: a round is `Outcome.outcome` followed by `C04.reports`; a member is the
coordinator `C06.St` driven through `C06.acceptReport` (ShouldAcceptAttestedReport), `C06.transmitReport`
(ShouldTransmitAcceptedReport), `C06.pollEvent` (the per-event body of `checkEvents`), the clock and the
cache collector.  What is new is the composition: any number of members (`Nat → NodeSt`), any number of
rounds, and an ADVERSARY that chooses every step of the schedule (`Step`):

  step                                    what the adversary chooses                      what the code computes
  --------------------------------------  ----------------------------------------------  ------------------------------------
  `round seq key aobs πres πblk`          the attributed observations of the round —      `outcome` from the previous outcome,
                                          which members are heard (any subset, any        `reports` of its agreed performables;
                                          order), arbitrary Byzantine contents, `none`    appended to the global log
                                          for undecodable bytes — the round's shuffle
                                          key and the two Go map orders
  `accept node ref`                       WHICH logged report is delivered to WHICH       `acceptReport` on the member's
                                          member and WHEN: a report of the current or     coordinator; answer logged
                                          of any earlier round, any number of times
                                          (late / duplicated / out of order).  A report
                                          that is not in the log cannot be delivered:
                                          reports are attested by a quorum
  `transmitQuery node ref`                when a member is asked about which report       `transmitReport`; answer logged
  `events node evs`                       the list the member's event provider returns:   `pollEvent` for each, in order
                                          perform / stale / reorg / insufficient-funds
                                          events, for any work id and check block, any
                                          confirmations, duplicated, reordered, replaced
  `restart node`                          a crash: the coordinator starts empty           `St.init` at the member's clock
  `tick node dt`                          time passes on one member                       clock + dt  (cache expiry)
  `gc node`                               a run of the member's cache collector           `Cache.clearExpired` on both caches

Honest members' OBSERVATIONS are not computed here (the node-local pipeline → store → observation path is
`Model/Node`); they enter the round step as data, constrained in the theorems only through hypotheses
(`C09.HonestObs`, discharged in `Props/C09Link`; "built through the member's coordinator filter" in
`inflight_not_reagreed_run`).  A member's state describes what an HONEST member does; nothing is said
about (and nothing depends on) the state the model carries for a Byzantine id.

Ghost data, never read by a decision: `NodeSt.hist` (the `C06.Op`s the member's coordinator has executed, so
that `st = (C06.run cfg hist).st` — `Props/C09Net.node_refines_C06` — and every C06/C07 theorem applies to
every member in every reachable network state) and `NodeSt.accepted`.
-/
namespace AutoVerif.Net
open AutoVerif.Outcome

/-- attributed observations (same type as `C09.AttrObs`): oracle id, decoded observation or `none` -/
abbrev AttrObs := List (Nat × Option Observation)

/-- network-wide constants: `F`, the injected functions, the limits and the off-chain configuration
(the same on every member: it is part of the OCR configuration) -/
structure Cfg where
  F     : Nat
  utg   : String → UpkeepType
  wg    : String → Trigger → String
  uid   : CheckResult → String
  lim   : Limits
  rep   : C04.Cfg
  coord : C06.Cfg

/-- the outcome context of a round: only the shuffle key (derived from the sequence number) changes -/
def Cfg.ctx (cfg : Cfg) (key : String → String) : Ctx :=
  { F := cfg.F, utg := cfg.utg, wg := cfg.wg, key := key, uid := cfg.uid }

/-- one entry of the global log: everything a round consumed and produced -/
structure RoundRec where
  seq     : Nat
  key     : String → String
  aobs    : AttrObs
  πres    : List String
  πblk    : List BlockKey
  prev    : Outcome                     -- the outcome the round started from
  out     : Outcome                     -- `Outcome`
  reports : List (List CheckResult)     -- `Reports`

/-- a report is referred to by its position in the log: round index, index in that round's reports -/
structure Ref where
  round : Nat
  idx   : Nat
deriving DecidableEq, Repr

/-- logged answers of members -/
inductive Answer where
  | accept   (node : Nat) (ref : Ref) (ans : Bool)
  | transmit (node : Nat) (ref : Ref) (ans : Bool)
deriving DecidableEq, Repr

structure NodeSt where
  st       : C06.St
  hist     : List C06.Op := []     -- ghost: what the coordinator executed, oldest first
  accepted : List Ref := []        -- ghost: reports answered `ShouldAccept = true` since the last restart

structure Net where
  nodes   : Nat → NodeSt
  rounds  : List RoundRec       -- append-only, oldest first
  answers : List Answer         -- append-only, oldest first

def Net.init : Net := { nodes := fun _ => { st := C06.St.init }, rounds := [], answers := [] }

inductive Step where
  | round (seq : Nat) (key : String → String) (aobs : AttrObs) (πres : List String) (πblk : List BlockKey)
  | accept (node : Nat) (ref : Ref)
  | transmitQuery (node : Nat) (ref : Ref)
  | events (node : Nat) (evs : List C06.Event)
  | restart (node : Nat)
  | tick (node : Nat) (dt : Nat)
  | gc (node : Nat)

/-- what the report encoder's `Extract` yields for a report built from `rep`: work id and check block per upkeep -/
def ups (rep : List CheckResult) : List (String × Nat) := rep.map fun r => (r.workID, r.trigger.blockNumber)

/-- the logged report a reference denotes (`none`: no such report — it cannot be delivered) -/
def reportAt (rounds : List RoundRec) (ref : Ref) : Option (List CheckResult) :=
  match rounds[ref.round]? with
  | some rd => rd.reports[ref.idx]?
  | none => none

/-- the outcome the next round starts from -/
def prevOutcome (rounds : List RoundRec) : Outcome :=
  match rounds.getLast? with
  | some rd => rd.out
  | none => { agreed := [], surfaced := [] }

/-- the log entry of a round played on the current log -/
def playRound (cfg : Cfg) (rounds : List RoundRec) (seq : Nat) (key : String → String) (aobs : AttrObs)
    (πres : List String) (πblk : List BlockKey) : RoundRec :=
  let prev := prevOutcome rounds
  let out := outcome (cfg.ctx key) cfg.lim prev (aobs.map (·.2)) πres πblk
  { seq := seq, key := key, aobs := aobs, πres := πres, πblk := πblk, prev := prev, out := out,
    reports := C04.reports cfg.rep out.agreed }

def setNode (nodes : Nat → NodeSt) (i : Nat) (n : NodeSt) : Nat → NodeSt :=
  fun j => if j = i then n else nodes j

/-- `checkEvents` over one provider answer: the loop body for every event in order -/
def pollAll (cfg : C06.Cfg) (s : C06.St) (evs : List C06.Event) : C06.St :=
  evs.foldl (fun s e => (C06.pollEvent cfg s e).1) s

/-- ShouldAcceptAttestedReport on a member -/
def NodeSt.accept (cfg : C06.Cfg) (n : NodeSt) (ref : Ref) (rep : List CheckResult) : NodeSt × Bool :=
  let r := C06.acceptReport cfg n.st (ups rep) false
  ({ st := r.1, hist := n.hist ++ (ups rep).map (fun u => C06.Op.accept u.1 u.2),
     accepted := if r.2 then n.accepted ++ [ref] else n.accepted }, r.2)

/-- ShouldTransmitAcceptedReport on a member -/
def willing (s : C06.St) (rep : List CheckResult) : Bool := C06.transmitReport s (ups rep) false

/-- the member is willing to transmit `rep` on account of its upkeep for unit of work `w` -/
def willingFor (s : C06.St) (rep : List CheckResult) (w : String) : Bool :=
  (ups rep).any fun u => decide (u.1 = w) && C06.shouldTransmit s u.1 u.2

/-- `w` is in flight on a member: a live record says "accepted, transmission pending" -/
def inFlight (s : C06.St) (w : String) : Bool :=
  match s.cache.get w s.now with
  | some v => v.pending
  | none => false

def NodeSt.events (cfg : C06.Cfg) (n : NodeSt) (evs : List C06.Event) : NodeSt :=
  { n with st := pollAll cfg n.st evs, hist := n.hist ++ [.poll evs] }

def NodeSt.restart (n : NodeSt) : NodeSt :=
  { st := C06.St.init n.st.now, hist := n.hist ++ [.restart], accepted := [] }

def NodeSt.tick (n : NodeSt) (dt : Nat) : NodeSt :=
  { n with st := { n.st with now := n.st.now + dt }, hist := n.hist ++ [.advance dt] }

def NodeSt.gc (n : NodeSt) : NodeSt :=
  { n with st := { n.st with cache := n.st.cache.clearExpired n.st.now, visited := n.st.visited.clearExpired n.st.now },
           hist := n.hist ++ [.gc] }

def step (cfg : Cfg) (net : Net) : Step → Net
  | .round seq key aobs πres πblk =>
    { net with rounds := net.rounds ++ [playRound cfg net.rounds seq key aobs πres πblk] }
  | .accept i ref =>
    match reportAt net.rounds ref with
    | none => net
    | some rep =>
      let r := (net.nodes i).accept cfg.coord ref rep
      { net with nodes := setNode net.nodes i r.1, answers := net.answers ++ [.accept i ref r.2] }
  | .transmitQuery i ref =>
    match reportAt net.rounds ref with
    | none => net
    | some rep => { net with answers := net.answers ++ [.transmit i ref (willing (net.nodes i).st rep)] }
  | .events i evs => { net with nodes := setNode net.nodes i ((net.nodes i).events cfg.coord evs) }
  | .restart i => { net with nodes := setNode net.nodes i (net.nodes i).restart }
  | .tick i dt => { net with nodes := setNode net.nodes i ((net.nodes i).tick dt) }
  | .gc i => { net with nodes := setNode net.nodes i (net.nodes i).gc }

def runFrom (cfg : Cfg) (net : Net) (steps : List Step) : Net := steps.foldl (step cfg) net

/-- the network after a schedule, started with empty members at time 0 and an empty log -/
def run (cfg : Cfg) (steps : List Step) : Net := runFrom cfg Net.init steps

/-- the member a step acts on (`none` for a round) -/
def Step.node : Step → Option Nat
  | .round .. => none
  | .accept i _ | .transmitQuery i _ | .events i _ | .restart i | .tick i _ | .gc i => some i

end AutoVerif.Net
