/-
Shared value types of the model.  Core Lean only (the driver is linked as a
`lean_exe`, so nothing here may import Mathlib).

Byte strings are kept as lower-case hex `String`s, exactly as the harness
canonicalises them; 32-byte ids/hashes therefore have 64 characters.
Numbers are unbounded `Nat`/`Int` unless a property is about wrap-around.
-/
namespace AutoVerif

/-- `ocr2keepers.LogTriggerExtension` -/
structure LogExt where
  txHash      : String
  index       : Nat
  blockHash   : String
  blockNumber : Nat
deriving DecidableEq, Repr, Inhabited

/-- `ocr2keepers.Trigger` -/
structure Trigger where
  blockNumber : Nat
  blockHash   : String
  ext         : Option LogExt
deriving DecidableEq, Repr, Inhabited

/-- `ocr2keepers.CheckResult` — the eleven wire fields. -/
structure CheckResult where
  pes         : Nat          -- PipelineExecutionState
  retryable   : Bool
  eligible    : Bool
  reason      : Nat          -- IneligibilityReason
  upkeepID    : String       -- 32 bytes, hex
  trigger     : Trigger
  workID      : String
  gas         : Nat          -- GasAllocated (uint64)
  performData : String       -- hex
  fastGasWei  : Option Int   -- *big.Int, nil = none
  linkNative  : Option Int
deriving DecidableEq, Repr, Inhabited

/-- `ocr2keepers.CoordinatedBlockProposal` -/
structure Proposal where
  upkeepID : String
  trigger  : Trigger
  workID   : String
deriving DecidableEq, Repr, Inhabited

/-- `ocr2keepers.BlockKey` -/
structure BlockKey where
  number : Nat
  hash   : String
deriving DecidableEq, Repr, Inhabited

/-- `ocr2keepersv3.AutomationObservation` -/
structure Observation where
  performable  : List CheckResult
  proposals    : List Proposal
  blockHistory : List BlockKey
deriving DecidableEq, Repr, Inhabited

/-- `ocr2keepersv3.AutomationOutcome` -/
structure Outcome where
  agreed   : List CheckResult
  surfaced : List (List Proposal)
deriving DecidableEq, Repr, Inhabited

/-- upkeep trigger type as returned by the `UpkeepTypeGetter` -/
inductive UpkeepType where
  | condition | log | other
deriving DecidableEq, Repr, Inhabited

/-- `ocr2keepers.UpkeepPayload` (check data is irrelevant to every property) -/
structure Payload where
  upkeepID : String
  trigger  : Trigger
  workID   : String
deriving DecidableEq, Repr, Inhabited

end AutoVerif
