/-
C09 (liveness side) — the conditional SAMPLING flow: what `sampler.Value` (pkg/v3/flows/conditional.go) hands to the
check pipeline on every tick.  Core Lean only.

A conditional upkeep reaches a report only through  sample → proposal → observation → coordinated proposal → final
check → staging → agreed performable.  The first link is the only one that is not driven by the network: every
`SamplingConditionInterval` a member takes the active upkeeps from its provider (the registry, in registry order, the
same on every member), SHUFFLES THE WHOLE LIST and keeps the first `ratio.OfInt(len)` entries.  The liveness clause of
C09 ("an upkeep that stays eligible on 2f+1 live honest members is reported within a bounded number of rounds")
rests on that order of the two steps: because the cut is taken from a permutation of the whole registry, every
upkeep — wherever it stands in the registry — is in the sample of a tick with probability `size / len`, so over `T`
ticks it is missed with probability `((len - size) / len) ^ T`.  A sampler that cuts first and shuffles the head
afterwards returns a list of the same length in random order, but an upkeep behind position `size` is NEVER in it.

Nondeterminism is explicit: the result of the shuffle is an argument (`π`, any permutation of the registry).
-/
namespace AutoVerif.C09.Sample

/-- `sampleRatio.OfInt` (pkg/v3/plugin/factory.go): `math.Round(float64(r) * float64(count))`, at least 1, 0 for an
empty registry.  The ratio is the float32 the factory computed, given exactly as the fraction `num / den` (a float32
times an integer below 2^28 is exact in float64, so the product the code rounds IS `num * count / den`); `math.Round`
rounds halves away from zero. -/
def ofInt (num den count : Nat) : Nat :=
  if count = 0 then 0
  else
    let v := (2 * num * count + den) / (2 * den)
    if v < 1 then 1 else v

/-- `MaxSampledConditionals` (pkg/v3/flows/conditional.go) -/
def maxSampled : Nat := 300

/-- the length of the list `sampler.Value` returns for a registry of `n` upkeeps: `OfInt`, capped by
`MaxSampledConditionals` and by the registry itself -/
def sampleSize (num den n : Nat) : Nat := min (min (ofInt num den n) maxSampled) n

/-- the sample of one tick: the first `size` entries of the shuffled registry `π` -/
def sample {α} (π : List α) (size : Nat) : List α := π.take size

/-- WHAT THE SAMPLER MUST DO: `out` is the sample of a tick over registry `reg` iff it is the first `size` entries of
SOME permutation of the WHOLE registry -/
def IsSample {α} (reg : List α) (size : Nat) (out : List α) : Prop :=
  ∃ π : List α, π.Perm reg ∧ out = sample π size

/-- the variant that cuts first and shuffles only the head it has cut (`σ` is the shuffle, any permutation of its
argument).  Same length, random order — and NOT a sampler in the sense of `IsSample` (Props/C09Sample). -/
def sampleHeadOnly {α} (reg : List α) (size : Nat) (σ : List α → List α) : List α := σ (reg.take size)

/-! ### coverage of a run: which registry positions were handed to the pipeline at least once

The registry of a run is `List.range k` (positions); a run is the list of its ticks' samples. -/

/-- everything that was in some tick's sample -/
def covered (samples : List (List Nat)) : List Nat := samples.flatten

/-- the registry positions no tick's sample contained -/
def missed (k : Nat) (cov : List Nat) : List Nat := (List.range k).filter (fun i => !cov.contains i)

/-- the run was long enough for the coverage clause to be due: with an honest uniform shuffle one given upkeep is
missed by one member in `ticks` ticks with probability `((k - size) / k) ^ ticks`; over `k` upkeeps and `members`
members (union bound) a false alarm has probability below `10⁻¹²` iff
`(k - size) ^ ticks * k * members * 10¹² < k ^ ticks` — exact integer arithmetic, evaluated by the driver. -/
def coverageDue (k size members ticks : Nat) : Bool :=
  decide ((k - size) ^ ticks * (k * members * 10 ^ 12) < k ^ ticks)

/-! ### the order of the two steps and the clamps, as decision functions (tied to the source in Props/C09Tie) -/

/-- which of the two steps `sampler.Value` reaches FIRST on a registry of `n` upkeeps: 1 = the shuffle of the whole
list the provider returned, 2 = the computation of the cut (`ratio.OfInt`), 0 = neither (the provider failed or the
registry is empty: nothing is returned).  The model's `sample` takes its cut from a permutation of the whole registry:
the shuffle comes first. -/
def firstStep (getterFailed : Bool) (n : Nat) : Nat :=
  if getterFailed then 0 else if n = 0 then 0 else 1

/-- whether a tick returns a (non-nil) sample at all, given what `OfInt` answered -/
def returnsSample (getterFailed : Bool) (n : Nat) (size : Int) : Bool :=
  !getterFailed && n != 0 && decide (0 < size)

end AutoVerif.C09.Sample
