import AutoVerif.Model.Types
/-
Model of the staging store `resultStore` (pkg/v3/stores/result_store.go) and of
its two callers that matter for C10:
`eligiblePostProcessor.PostProcess` (pkg/v3/postprocessors/eligible.go) and
`RemoveFromStagingHook.RunHook` (pkg/v3/plugin/hooks/remove_from_staging.go).

Go state `data map[string]result` with `result{data, addedAt}` becomes an
association list `workID ↦ (result, addedAt)`.  The Go map has one slot per
key; `set` (the assignment `s.data[k] = v`) overwrites in place and `erase`
(`delete(s.data, k)`) drops every pair with that key, so the list never
carries a key twice (`WF`, proved in Props/C10).

Nondeterminism, made explicit:
* `time.Now()` / `time.Since` are the argument `now : Nat` (nanoseconds on the
  monotonic clock).  `Add` reads the clock for the expiry test and once per stored result; a call
  `Add(r₁ … rₙ)` is by definition (`add`) the sequence of single-result adds,
  so a call whose clock readings differ is the same as `n` consecutive
  single-result events with their own `now` — the theorems range over
  arbitrary event sequences, which covers it.
* `View` ranges over the map: the returned slice is *some* permutation of
  `view` (`ViewOf`); every statement about a view is made for all of them.
* `gc` ranges over the map while deleting: `gcOrd` takes the visiting order;
  `gc` (a filter) is what every order computes (`gcOrd_eq_gc`, Props/C10).
* the RW mutex makes each method one atomic step (`gc` takes the write lock once around scan
  and deletion — extractor fact `resultStore:lock` — so it is modelled atomic; a collector
  split into scan and eviction without a re-check is `gcScan`/`gcEvictOld`, refuted in Props); the background goroutine of
  `Start` is the event `gc now` at every tick of `time.NewTicker(gcInterval)`.
-/
namespace AutoVerif.C10

/-- `result{data, addedAt}` -/
structure Entry where
  data    : CheckResult
  addedAt : Nat
deriving DecidableEq, Repr, Inhabited

/-- `data map[string]result` -/
abbrev Store := List (String × Entry)

/-- `v, ok := s.data[w]` -/
def get : Store → String → Option Entry
  | [], _ => none
  | (k, e) :: s, w => if k = w then some e else get s w

/-- `s.data[w] = e` -/
def set : Store → String → Entry → Store
  | [], w, e => [(w, e)]
  | (k, v) :: s, w, e => if k = w then (k, e) :: s else (k, v) :: set s w e

/-- `delete(s.data, w)` -/
def erase (s : Store) (w : String) : Store := s.filter (fun p => decide (p.1 ≠ w))

/-- trigger block of a result: `r.Trigger.BlockNumber` -/
abbrev blk (r : CheckResult) : Nat := r.trigger.blockNumber

/-- `time.Since(r.addedAt) > storeTTL` — strict.  `now - addedAt` is truncated
subtraction; on the monotonic clock `now ≥ addedAt`, and for a (never observed)
negative duration both Go and the model answer "not expired". -/
def expired (ttl now : Nat) (e : Entry) : Bool := decide (now - e.addedAt > ttl)

/-- one iteration of the loop in `Add` (after `fix: result store: an expired, not yet collected
entry no longer blocks a new result`, efb208c):
```
v, ok := s.data[r.WorkID]
if !ok || time.Since(v.addedAt) > storeTTL { s.data[r.WorkID] = result{r, now} }
else if v.data.Trigger.BlockNumber < r.Trigger.BlockNumber { s.data[r.WorkID] = result{r, now} }
```
An entry past its TTL is treated like a missing one. -/
def add1 (ttl now : Nat) (s : Store) (r : CheckResult) : Store :=
  match get s r.workID with
  | none => set s r.workID ⟨r, now⟩
  | some v =>
    if expired ttl now v then set s r.workID ⟨r, now⟩
    else if blk v.data < blk r then set s r.workID ⟨r, now⟩
    else s

/-- `Add(results...)` -/
def add (ttl now : Nat) (s : Store) (rs : List CheckResult) : Store := rs.foldl (add1 ttl now) s

/-- the loop body of `Add` in the pinned tree (before efb208c): the stored entry is consulted
whether or not it is past its TTL.  Kept for the witness theorems in Props/C10. -/
def add1Old (now : Nat) (s : Store) (r : CheckResult) : Store :=
  match get s r.workID with
  | none => set s r.workID ⟨r, now⟩
  | some v => if blk v.data < blk r then set s r.workID ⟨r, now⟩ else s

def addOld (now : Nat) (s : Store) (rs : List CheckResult) : Store := rs.foldl (add1Old now) s

/-- `remove(id)`: `if _, ok := s.data[id]; !ok { return }; delete(s.data, id)` -/
def remove1 (s : Store) (id : String) : Store :=
  match get s id with
  | none => s
  | some _ => erase s id

/-- `Remove(ids...)` -/
def remove (s : Store) (ids : List String) : Store := ids.foldl remove1 s

/-- `viewResults` in list order: skip entries with `time.Since(addedAt) > storeTTL` (no deletion) -/
def view (ttl now : Nat) (s : Store) : List CheckResult :=
  (s.filter (fun p => !expired ttl now p.2)).map (·.2.data)

/-- what `View()` may return: the map is ranged over in an arbitrary order -/
def ViewOf (ttl now : Nat) (s : Store) (out : List CheckResult) : Prop := out.Perm (view ttl now s)

/-- `gc`: every entry with `time.Since(addedAt) > storeTTL` is deleted -/
def gc (ttl now : Nat) (s : Store) : Store := s.filter (fun p => !expired ttl now p.2)

/-- `gc` with the visiting order of `for k, v := range s.data` explicit.  Go visits each key
present at loop start at most once and never a deleted one; `v` is the value at visit time. -/
def gcOrd (ttl now : Nat) (s : Store) (ord : List String) : Store :=
  ord.foldl (fun s k => match get s k with
    | some v => if expired ttl now v then erase s k else s
    | none => s) s

/-- first half of a *two-phase* collector (not the code as it is; Props/C10
`gcTwoPhaseOld_loses_fresh`): the keys past their TTL, gathered under the read lock -/
def gcScan (ttl now : Nat) (s : Store) : List String :=
  (s.filter (fun p => expired ttl now p.2)).map (·.1)

/-- second half without a re-check: `if _, ok := s.data[k]; ok { delete(s.data, k) }` for every
listed key, whatever is stored under it by now.  (With the re-check it is `gcOrd`.) -/
def gcEvictOld (s : Store) (ks : List String) : Store := ks.foldl erase s

/-- `eligiblePostProcessor.PostProcess`: `if res.PipelineExecutionState == 0 && res.Eligible { Add(res) }`,
one `Add` call per result, in order -/
def postProcess (ttl now : Nat) (s : Store) (rs : List CheckResult) : Store :=
  add ttl now s (rs.filter (fun r => decide (r.pes = 0) && r.eligible))

/-- `Observer.Process` of the flows (no pre-processor that filters, a check pipeline that answers with `rs`
after `delay`, `CombinedPostprocessor{eligible}`): the results are post-processed at `now + delay`.
The context (`pCtx`: the `ObservationProcessLimit` deadline, cancelled when the ticker closes) is handed to
`PostProcess` — which, in the code as it is, does not look at it.  The context is therefore not an input of
`postProcess` / `observerProcess`: done before the call, deadline passed, or ended between two results of
a batch, every eligible result the pipeline returned is handed to `Add`; nothing may be skipped. -/
def observerProcess (ttl now delay : Nat) (s : Store) (rs : List CheckResult) : Store :=
  postProcess ttl (now + delay) s rs

/-- `RemoveFromStagingHook.RunHook`: `Remove(workIDs of outcome.AgreedPerformables...)` — the work id of EVERY
agreed performable.  A unit of work is not an upkeep: a log-trigger upkeep has one work id per log, and one outcome
may agree on several of them (its validation only forbids equal work ids). -/
def runHook (s : Store) (agreed : List CheckResult) : Store := remove s (agreed.map (·.workID))

/-- NOT the code as it is (Props/C10 `runHookPerUpkeep_keeps_agreed`): the agreed work ids filed under their
UPKEEP id first — `agreed[result.UpkeepID] = result.WorkID`, a later result of the same upkeep overwriting an
earlier one — … -/
def agreedPerUpkeep (agreed : List CheckResult) : List (String × String) :=
  agreed.foldl (fun m r => m.filter (fun p => decide (p.1 ≠ r.upkeepID)) ++ [(r.upkeepID, r.workID)]) []

/-- … and only what that table still holds removed -/
def runHookPerUpkeep (s : Store) (agreed : List CheckResult) : Store :=
  remove s ((agreedPerUpkeep agreed).map (·.2))

/-! ### histories -/

/-- atomic events of a history.  A `view` event carries what the call returned. -/
inductive Ev where
  | add (now : Nat) (r : CheckResult)
  | remove (now : Nat) (id : String)
  | gc (now : Nat)
  | view (now : Nat) (out : List CheckResult)
deriving DecidableEq, Repr, Inhabited

def Ev.now : Ev → Nat
  | .add t _ => t
  | .remove t _ => t
  | .gc t => t
  | .view t _ => t

/-- state change of one event (a view changes nothing) -/
def step (ttl : Nat) (s : Store) : Ev → Store
  | .add t r => add1 ttl t s r
  | .remove _ id => remove1 s id
  | .gc t => gc ttl t s
  | .view _ _ => s

def run (ttl : Nat) (s : Store) (evs : List Ev) : Store := evs.foldl (step ttl) s

/-- the pinned tree's step / run (witness theorems only) -/
def stepOld (ttl : Nat) (s : Store) : Ev → Store
  | .add t r => add1Old t s r
  | e => step ttl s e

def runOld (ttl : Nat) (s : Store) (evs : List Ev) : Store := evs.foldl (stepOld ttl) s

/-- every recorded view is one the model allows at that point of the history -/
def Conforms (ttl : Nat) : Store → List Ev → Prop
  | _, [] => True
  | s, e :: rest =>
    (match e with
     | .view t out => ViewOf ttl t s out
     | _ => True) ∧ Conforms ttl (step ttl s e) rest

/-- executable `Conforms` (used by the driver): views compared as multisets -/
def conformsB (ttl : Nat) : Store → List Ev → Bool
  | _, [] => true
  | s, e :: rest =>
    (match e with
     | .view t out => out.isPerm (view ttl t s)
     | _ => true) && conformsB ttl (step ttl s e) rest

def conformsBOld (ttl : Nat) : Store → List Ev → Bool
  | _, [] => true
  | s, e :: rest =>
    (match e with
     | .view t out => out.isPerm (view ttl t s)
     | _ => true) && conformsBOld ttl (stepOld ttl s e) rest

/-- the history without its collector events -/
def stripGc (evs : List Ev) : List Ev := evs.filter (fun e => match e with | .gc _ => false | _ => true)

/-- the history with every view replaced by the model's own (list order) -/
def modelTrace (ttl : Nat) : Store → List Ev → List Ev
  | _, [] => []
  | s, e :: rest =>
    (match e with
     | .view t _ => .view t (view ttl t s)
     | e => e) :: modelTrace ttl (step ttl s e) rest

/-- time never runs backwards along a history -/
def Mono (evs : List Ev) : Prop := (evs.map Ev.now).Pairwise (· ≤ ·)

def monoB : List Ev → Bool
  | [] => true
  | e :: rest => rest.all (fun x => decide (e.now ≤ x.now)) && monoB rest

end AutoVerif.C10
