/-
Model of `random.ShuffleString` (pkg/v3/random/shuffler.go):

    shuffled := []rune(s)
    rand.New(NewKeyedCryptoRandSource(rSrc)).Shuffle(len(shuffled), func(i, j int) { swap i j })
    return string(shuffled)

`math/rand.(*Rand).Shuffle(n, swap)` draws from the source and calls `swap` a number of times; WHICH positions it
swaps depends on `n` and on the source only — never on the contents being shuffled.  The model therefore takes the
sequence of swap calls as a parameter (`sw`, what the real `Shuffle` does for this length and this 16-byte key — the
harness records it with the same constructor calls) and applies it to the runes.  Everything the outcome and
observation models need of the shuffle (it permutes, it is injective on strings of one length, it depends on
nothing but length and key) is then a theorem about `applySwaps` (Props/C02Shuffle.lean), not an assumption.
Core Lean only.
-/
namespace AutoVerif.Shuffle

/-- the position a swap of `i` and `j` reads position `k` from -/
def transp (i j k : Nat) : Nat := if k = i then j else if k = j then i else k

/-- `shuffled[i], shuffled[j] = shuffled[j], shuffled[i]` (indices out of range: Go would panic; `rand.Shuffle` never
produces them, the model leaves the list alone) -/
def swap {α} (l : List α) (i j : Nat) : List α :=
  if h : i < l.length ∧ j < l.length then (l.set i l[j]).set j l[i] else l

/-- the swap calls in the order `rand.Shuffle` makes them -/
def applySwaps {α} (l : List α) : List (Nat × Nat) → List α
  | [] => l
  | (i, j) :: rest => applySwaps (swap l i j) rest

/-- `ShuffleString` on the runes of `s` -/
def shuffleString (s : String) (sw : List (Nat × Nat)) : String := String.ofList (applySwaps s.toList sw)

/-- the shape of the calls `rand.Shuffle(n, …)` makes (Fisher–Yates from the top): `i` runs from `n-1` down to `1`,
`j ≤ i` -/
def fisherYates (n : Nat) (sw : List (Nat × Nat)) : Bool :=
  decide (sw.map (·.1) = (List.range n).reverse.take (n - 1)) && sw.all (fun p => decide (p.2 ≤ p.1))

end AutoVerif.Shuffle
