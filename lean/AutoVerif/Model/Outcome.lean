import AutoVerif.Model.Types
/-
Model of `ocr3Plugin.Outcome` and what it calls
(pkg/v3/plugin/ocr3.go, performable.go, coordinated_block_proposals.go,
 pkg/v3/observation.go, pkg/v3/outcome.go).  Core Lean only.

External functions are parameters (`Ctx`): the upkeep-type getter, the work-id
generator, `CheckResult.UniqueID` (chainlink-common) and the round's
`random.ShuffleString(·, keySource)`.  Theorems hold for every choice of them
(some need `key` injective — true of the real shuffle on generated work ids).

Every Go map iteration is an explicit order argument (`π…`): a list that is a
permutation of the map's key set.
-/
namespace AutoVerif.Outcome

structure Ctx where
  F   : Nat
  utg : String → UpkeepType                 -- types.UpkeepTypeGetter
  wg  : String → Trigger → String           -- types.WorkIDGenerator
  key : String → String                     -- random.ShuffleString(workID, keyRandSource) for this round
  uid : CheckResult → String                -- CheckResult.UniqueID()

/-- limits, regenerated from observation.go / outcome.go into `Gen.Consts` and passed in by the callers -/
structure Limits where
  obsPerformables : Nat   -- ObservationPerformablesLimit
  obsLogProposals : Nat   -- ObservationLogRecoveryProposalsLimit
  obsCondProposals : Nat  -- ObservationConditionalsProposalsLimit
  obsBlockHistory : Nat   -- ObservationBlockHistoryLimit
  agreedLimit : Nat       -- OutcomeAgreedPerformablesLimit
  perRound : Nat          -- OutcomeSurfacedProposalsLimit
  roundHistory : Nat      -- OutcomeSurfacedProposalsRoundHistoryLimit

def uint256Max : Int := 115792089237316195423570985008687907853269984665640564039457584007913129639935

def zeroHash : String := "0000000000000000000000000000000000000000000000000000000000000000"

/-! ### validation (observation.go / outcome.go) -/

/-- `validateTriggerExtensionType` -/
def validTriggerExt (t : Trigger) : UpkeepType → Bool
  | .condition => t.ext.isNone
  | .log => t.ext.isSome
  | .other => true

def priceOk : Option Int → Bool
  | none => false
  | some v => decide (0 ≤ v) && decide (v ≤ uint256Max)

/-- `validateCheckResult` (all checks; order is irrelevant for the Boolean) -/
def validCheckResult (ctx : Ctx) (r : CheckResult) : Bool :=
  decide (r.pes = 0) && !r.retryable &&
  r.eligible && decide (r.reason = 0) &&
  validTriggerExt r.trigger (ctx.utg r.upkeepID) &&
  decide (ctx.wg r.upkeepID r.trigger = r.workID) &&
  decide (r.gas ≠ 0) &&
  priceOk r.fastGasWei && priceOk r.linkNative

/-- `validateUpkeepProposal` -/
def validProposal (ctx : Ctx) (p : Proposal) : Bool :=
  validTriggerExt p.trigger (ctx.utg p.upkeepID) &&
  decide (ctx.wg p.upkeepID p.trigger = p.workID)

/-- `validateAutomationObservation` -/
def validObservation (ctx : Ctx) (lim : Limits) (o : Observation) : Bool :=
  decide (o.blockHistory.length ≤ lim.obsBlockHistory) &&
  decide ((o.blockHistory.map (·.number)).Nodup) &&
  decide (o.performable.length ≤ lim.obsPerformables) &&
  o.performable.all (validCheckResult ctx) &&
  decide ((o.performable.map (·.workID)).Nodup) &&
  decide (o.proposals.length ≤ lim.obsCondProposals + lim.obsLogProposals) &&
  o.proposals.all (validProposal ctx) &&
  decide ((o.proposals.map (·.workID)).Nodup) &&
  decide ((o.proposals.filter (fun p => ctx.utg p.upkeepID = .condition)).length ≤ lim.obsCondProposals) &&
  decide ((o.proposals.filter (fun p => ctx.utg p.upkeepID = .log)).length ≤ lim.obsLogProposals)

/-- `validateAutomationOutcome` -/
def validOutcome (ctx : Ctx) (lim : Limits) (o : Outcome) : Bool :=
  decide (o.agreed.length ≤ lim.agreedLimit) &&
  o.agreed.all (validCheckResult ctx) &&
  decide ((o.agreed.map (·.workID)).Nodup) &&
  decide (o.surfaced.length ≤ lim.roundHistory) &&
  o.surfaced.all (fun round => decide (round.length ≤ lim.perRound)) &&
  o.surfaced.flatten.all (validProposal ctx) &&
  decide ((o.surfaced.flatten.map (·.workID)).Nodup)

/-- the observations that `Outcome` uses: decodable (`some`) and valid; the others are skipped -/
def validObs (ctx : Ctx) (lim : Limits) (obs : List (Option Observation)) : List Observation :=
  obs.filterMap fun
    | some o => if validObservation ctx lim o then some o else none
    | none => none

/-- libocr's part of the contract: an attributed observation (its length in bytes, what its bytes decode to) is handed
to the plugin iff its length does not exceed the `MaxObservationLength` the plugin advertised — a message of exactly
that length is handed over, one byte more and it never arrives (`none`: nothing `Outcome` could count) -/
def delivered (maxLen : Nat) (msgs : List (Nat × Option Observation)) : List (Option Observation) :=
  msgs.map fun m => if m.1 ≤ maxLen then m.2 else none

/-! ### performables (performable.go) -/

/-- one entry of the `resultCount` map -/
structure Slot where
  key    : String
  result : CheckResult
  count  : Nat
deriving DecidableEq, Repr

/-- `resultCount[k]` -/
def lookup (t : List Slot) (k : String) : Option Slot := t.find? (fun s => s.key == k)

/-- `resultCount[k].count++` -/
def bump (t : List Slot) (k : String) : List Slot :=
  t.map fun s => if s.key == k then { s with count := s.count + 1 } else s

/-- the probing loop of `performables.add` for one result, starting at key `k`.
`fuel` bounds the number of probes; `t.length + 1` always suffices (`probe_fuel_enough`). -/
def probe : Nat → List Slot → String → CheckResult → List Slot
  | 0, t, _, _ => t
  | fuel + 1, t, k, r =>
    match lookup t k with
    | none => t ++ [{ key := k, result := r, count := 1 }]
    | some s => if s.result = r then bump t k else probe fuel t (k ++ "+") r

/-- `performables.add` for one result -/
def addResult (ctx : Ctx) (t : List Slot) (r : CheckResult) : List Slot :=
  probe (t.length + 1) t (ctx.uid r) r

/-- `performables.add(observation)` for every valid observation, in order -/
def tally (ctx : Ctx) (os : List Observation) : List Slot :=
  (os.flatMap (·.performable)).foldl (addResult ctx) []

/-- sort.Strings -/
def sortStrings (l : List String) : List String := l.mergeSort (fun a b => decide (a ≤ b))

/-- sort by shuffled work id -/
def sortByKey {α} (key : String → String) (wid : α → String) (l : List α) : List α :=
  l.mergeSort (fun a b => decide (key (wid a) ≤ key (wid b)))

/-- the traversal of `performables.set`: keys in the given (sorted) order, first quorum result per work id -/
def select (thr : Nat) (t : List Slot) : List String → List CheckResult → List CheckResult
  | [], acc => acc
  | k :: ks, acc =>
    match lookup t k with
    | none => select thr t ks acc
    | some s =>
      if decide (s.count ≥ thr) && !(acc.map (·.workID)).contains s.result.workID then
        select thr t ks (acc ++ [s.result])
      else select thr t ks acc

/-- `performables.set`; `π` is the iteration order of `range p.resultCount` (a permutation of the keys) -/
def agreedOf (ctx : Ctx) (lim : Limits) (t : List Slot) (π : List String) : List CheckResult :=
  (sortByKey ctx.key (·.workID) (select (ctx.F + 1) t (sortStrings π) [])).take lim.agreedLimit

/-! ### coordinated block proposals (coordinated_block_proposals.go) -/

/-- `recentBlocks[b]` after all `add`s: occurrences of `b` in the valid observations' block histories -/
def blockVotes (os : List Observation) (b : BlockKey) : Nat :=
  (os.flatMap (·.blockHistory)).count b

/-- the update test of `getLatestQuorumBlock` (after "fix: coordinated block…": zero-hash blocks are skipped) -/
def better (b m : BlockKey) : Bool :=
  m.hash == zeroHash || decide (b.number > m.number) ||
  (decide (b.number = m.number) && decide (b.hash > m.hash))

def quorumStep (thr : Nat) (votes : BlockKey → Nat) (m b : BlockKey) : BlockKey :=
  if b.hash == zeroHash then m
  else if decide (votes b ≥ thr) && better b m then b else m

/-- the pinned tree before the fix: no zero-hash skip -/
def quorumStepOld (thr : Nat) (votes : BlockKey → Nat) (m b : BlockKey) : BlockKey :=
  if decide (votes b ≥ thr) && better b m then b else m

/-- `getLatestQuorumBlock`; `π` is the iteration order of `range c.recentBlocks` -/
def latestQuorumBlockWith (step : (BlockKey → Nat) → BlockKey → BlockKey → BlockKey)
    (votes : BlockKey → Nat) (π : List BlockKey) : Option BlockKey :=
  let m := π.foldl (step votes) { number := 0, hash := zeroHash }
  if m.hash == zeroHash then none else some m

def latestQuorumBlock (thr : Nat) := latestQuorumBlockWith (quorumStep thr)
def latestQuorumBlockOld (thr : Nat) := latestQuorumBlockWith (quorumStepOld thr)

def performableExists (agreed : List CheckResult) (p : Proposal) : Bool :=
  agreed.any (fun r => r.workID == p.workID)

def proposalExists (hist : List (List Proposal)) (p : Proposal) : Bool :=
  hist.any (fun round => round.any (fun q => q.workID == p.workID))

/-- step 1–2: carry the previous rounds over, dropping what is now agreed -/
def carryOver (agreed : List CheckResult) (prev : List (List Proposal)) : List (List Proposal) :=
  prev.map (fun round => round.filter (fun p => !performableExists agreed p))

/-- bind a proposal to the coordinated block -/
def stamp (b : BlockKey) (p : Proposal) : Proposal :=
  { p with trigger := { blockNumber := b.number, blockHash := b.hash,
                        ext := p.trigger.ext.map (fun e => { e with blockNumber := 0 }) } }

/-- step 6: dedupe and filter this round's proposals -/
def newRound (agreed : List CheckResult) (hist : List (List Proposal)) (b : BlockKey) :
    List Proposal → List Proposal → List Proposal
  | [], acc => acc
  | p :: ps, acc =>
    if proposalExists hist p || performableExists agreed p || (acc.map (·.workID)).contains p.workID then
      newRound agreed hist b ps acc
    else newRound agreed hist b ps (acc ++ [stamp b p])

/-- `coordinatedBlockProposals.set` -/
def surfacedOf (ctx : Ctx) (lim : Limits) (agreed : List CheckResult) (prev : List (List Proposal))
    (os : List Observation) (πblk : List BlockKey) : List (List Proposal) :=
  let carried := carryOver agreed prev
  match latestQuorumBlock (ctx.F + 1) (blockVotes os) πblk with
  | none => carried
  | some b =>
    let hist := if carried.length ≥ lim.roundHistory then carried.take (lim.roundHistory - 1) else carried
    let latest := (sortByKey ctx.key (·.workID) (newRound agreed hist b (os.flatMap (·.proposals)) [])).take lim.perRound
    latest :: hist

/-- `Outcome`: `obs` are the attributed observations in the order libocr supplies them (`none` = bytes that
do not decode); `prev` the decoded previous outcome (empty for the first round);
`πres`, `πblk` the two map iteration orders. -/
def outcome (ctx : Ctx) (lim : Limits) (prev : Outcome) (obs : List (Option Observation))
    (πres : List String) (πblk : List BlockKey) : Outcome :=
  let os := validObs ctx lim obs
  let agreed := agreedOf ctx lim (tally ctx os) πres
  { agreed := agreed, surfaced := surfacedOf ctx lim agreed prev.surfaced os πblk }

/-- the previous outcome as `Outcome` receives it: `outctx.PreviousOutcome` is a byte slice (`nonNil`, `len`);
`decoded` is what the JSON layer makes of those bytes (`none` = they do not decode) -/
structure PrevIn where
  nonNil  : Bool
  len     : Nat
  decoded : Option Outcome

def emptyOutcome : Outcome := { agreed := [], surfaced := [] }

/-- `Outcome` as libocr calls it (ocr3.go): a nil and empty previous outcome stands for the first round; otherwise the
bytes must decode AND validate (`DecodeAutomationOutcome`), else the call fails (`none`) without an outcome -/
def outcomeCall (ctx : Ctx) (lim : Limits) (pi : PrevIn) (obs : List (Option Observation))
    (πres : List String) (πblk : List BlockKey) : Option Outcome :=
  if pi.nonNil || decide (pi.len ≠ 0) then
    match pi.decoded with
    | some p => if validOutcome ctx lim p then some (outcome ctx lim p obs πres πblk) else none
    | none => none
  else some (outcome ctx lim emptyOutcome obs πres πblk)

/-- canonical iteration orders (what the driver uses; any permutation gives the same outcome) -/
def resKeys (ctx : Ctx) (os : List Observation) : List String := (tally ctx os).map (·.key)
def blkKeys (os : List Observation) : List BlockKey := (os.flatMap (·.blockHistory)).eraseDups

end AutoVerif.Outcome
