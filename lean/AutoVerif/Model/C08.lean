import AutoVerif.Model.Outcome
/-
Model of `ocr3Plugin.Observation` and the hooks it runs
(pkg/v3/plugin/ocr3.go, pkg/v3/plugin/hooks/*.go).  Core Lean only.

Go                                                       model
-------------------------------------------------------  ---------------------------------------------
RemoveFromStagingHook / RemoveFromMetadataHook           `removeAgreed`, `removeSurfaced`
resultStore.View()  (range over a Go map, TTL filter)    `staged : List CheckResult` in ANY order
coordinator.FilterResults / FilterProposals              `List.filter` with an explicit predicate
stagedResultSorter.orderResults (sort by shuffled id)    `Outcome.sortByKey ctx.key`
AddFromStagingHook.addByPercentageExceeded               `trim`
AddLogProposalsHook / AddConditionalProposalsHook        the implementation's choice + relation `ChoiceOf`
AddBlockHistoryHook                                      `List.take`

External functions are parameters: the JSON encoder enters through `SizeInfo`
(`base` = length of the observation encoded with `Performable = nil`, which goccy/go-json
renders as `null`; `encLen r` = `len(json.Marshal(r))`), the keyed shuffle of proposals is
an arbitrary permutation (`ChoiceOf`), `ctx.key` is `random.ShuffleString(·, keySource(digest, seqNr/10))`.
-/
namespace AutoVerif.C08
open AutoVerif.Outcome

/-! ### the byte-limit trimming: `addByPercentageExceeded` -/

/-- `int(math.Ceil(float64(a) / float64(b)))` for `b > 0`.  The float computation is exact for `a < 2^53`:
`a` and `b` convert exactly, the correctly rounded quotient of a non-integral `a/b` lies at distance
`≥ 1/b > ⌊a/b⌋·2^-53` from `⌊a/b⌋`, so it is never rounded down to the integer below and `Ceil` gives `⌊a/b⌋+1`.
Observation sizes are below `2^31`. -/
def ceilDiv (a b : Nat) : Nat := (a + b - 1) / b

/-- `avgPerformableSize := (observationSize - baseSize) / limit` -/
def avgSize (base : Nat) (size : Nat → Nat) (limit : Nat) : Nat := (size limit - base) / limit

/-- `avgPerformablesExceeded := int(math.Ceil(float64(observationSize - Max) / float64(avgPerformableSize)))` -/
def excess (maxLen base : Nat) (size : Nat → Nat) (limit : Nat) : Nat :=
  ceilDiv (size limit - maxLen) (avgSize base size limit)

/-- `limit -= avgPerformablesExceeded + 1; if limit <= 0 { return len(obs.Performable) }` (or `avg = 0`, see `trim`) -/
def gaveUp (maxLen base : Nat) (size : Nat → Nat) (limit : Nat) : Bool :=
  decide (avgSize base size limit = 0) || decide (limit ≤ excess maxLen base size limit + 1)

/-- the recursion of `addByPercentageExceeded(obs, limit, results, baseSize)` after the clamp
`limit = min(limit, len(results))`; `size k` = `len(obs.Encode())` with `obs.Performable = results[:k]`.
Result: `len(obs.Performable)` on return.  `fuel` is a structural-recursion device: every recursive call lowers `limit`
by at least one, so `fuel = limit` always suffices (`trim_fuel_irrelevant` in Props/C08).

Order of the checks as in the Go code:
  `limit <= 0`                       → return (nothing assigned: 0 performables on the first call)
  `obs.Performable = results[:limit]`; encode
  `observationSize > MaxObservationLength`:
      `avg  = (observationSize - baseSize) / limit`          (integer division)
      `n    = ceil((observationSize - Max) / avg)`           (float; see `ceilDiv`)
      `limit -= n + 1`;  `limit <= 0` → return `len(obs.Performable)` = the OLD limit (an oversize observation stays)
      recurse
  else return `limit`.
`avg = 0` makes the Go float division yield `+Inf`; `int(+Inf)` is implementation specific, on amd64 and arm64 the
subsequent `limit -= …` wraps to a negative number, i.e. the same exit as `limit <= 0`.  It needs
`observationSize - baseSize < limit`, impossible for real encodings (every result takes more than one byte). -/
def trim (maxLen base : Nat) (size : Nat → Nat) : Nat → Nat → Nat
  | 0, limit => limit
  | fuel + 1, limit =>
    if limit = 0 then 0
    else if size limit > maxLen then
      if gaveUp maxLen base size limit then limit
      else trim maxLen base size fuel (limit - (excess maxLen base size limit + 1))
    else limit

/-- the exit "`limit <= 0` after the subtraction" taken at `limit`: the observation with `limit` performables is too
long and the recursion gives up on it (an oversize observation is returned) -/
def stuckAt (maxLen base : Nat) (size : Nat → Nat) (limit : Nat) : Bool :=
  decide (size limit > maxLen) && gaveUp maxLen base size limit

/-- what the JSON encoder contributes -/
structure SizeInfo where
  base : Nat                     -- len(obs.Encode()) with Performable = nil  (`"Performable":null`)
  encLen : CheckResult → Nat     -- len(json.Marshal(result))

/-- `len(obs.Encode())` with the first `k` of `c` as performables: `null` (4 bytes) is replaced by
`[` e₁ `,` … `,` e_k `]`, i.e. `base - 4 + 2 + Σ len + (k-1)` -/
def sizeOf (si : SizeInfo) (c : List CheckResult) (k : Nat) : Nat :=
  if k = 0 then si.base else si.base + ((c.take k).map si.encLen).sum + k - 3

/-! ### the hooks -/

/-- `RemoveFromStagingHook`: the previous outcome's agreed performables leave the result store (by work id) -/
def removeAgreed (prev : Outcome) (staged : List CheckResult) : List CheckResult :=
  staged.filter (fun r => !(prev.agreed.map (·.workID)).contains r.workID)

/-- `RemoveFromMetadataHook` for the store of type `t`: `RemoveProposals` dispatches on the type of the SURFACED
proposal's upkeep id and deletes by work id -/
def removeSurfaced (ctx : Ctx) (t : UpkeepType) (prev : Outcome) (props : List Proposal) : List Proposal :=
  props.filter (fun p => !prev.surfaced.flatten.any (fun q => decide (ctx.utg q.upkeepID = t) && q.workID == p.workID))

/-- `View` → `FilterResults` -/
def candidates (staged : List CheckResult) (inflight : CheckResult → Bool) : List CheckResult :=
  staged.filter (fun r => !inflight r)

/-- … → `orderResults`: the round's network-wide order -/
def canonical (ctx : Ctx) (staged : List CheckResult) (inflight : CheckResult → Bool) : List CheckResult :=
  sortByKey ctx.key (·.workID) (candidates staged inflight)

/-- number of performables `AddFromStagingHook` leaves in the observation -/
def performablesK (lim : Limits) (maxLen : Nat) (si : SizeInfo) (c : List CheckResult) : Nat :=
  let l := min lim.obsPerformables c.length
  trim maxLen si.base (sizeOf si c) l l

/-- `AddFromStagingHook.RunHook` -/
def performablesOf (ctx : Ctx) (lim : Limits) (maxLen : Nat) (staged : List CheckResult)
    (inflight : CheckResult → Bool) (si : SizeInfo) : List CheckResult :=
  let c := canonical ctx staged inflight
  c.take (performablesK lim maxLen si c)

/-- `ViewProposals` → `FilterProposals` -/
def available (props : List Proposal) (inflightP : Proposal → Bool) : List Proposal :=
  props.filter (fun p => !inflightP p)

/-- what `Add…ProposalsHook` may append: the first `limit` of SOME permutation of the available proposals
(`rand.Shuffle` with a keyed source; the source is an external function, so the permutation is existential) -/
def ChoiceOf (limit : Nat) (avail choice : List Proposal) : Prop :=
  ∃ shuffled : List Proposal, shuffled.Perm avail ∧ choice = shuffled.take limit

/-- the same relation as a decidable check on the implementation's choice: every chosen proposal is available, no
unit of work twice, and as many as possible -/
def choiceOk (limit : Nat) (avail choice : List Proposal) : Bool :=
  choice.all (fun p => avail.contains p) &&
  decide ((choice.map (·.workID)).Nodup) &&
  decide (choice.length = min limit avail.length)

/-- `Observation` after the pre-build hooks: block history, log proposals, conditional proposals, performables —
in the order the hooks run (`logChoice`/`condChoice` are the implementation's selections) -/
def observationOf (ctx : Ctx) (lim : Limits) (maxLen : Nat) (staged : List CheckResult)
    (inflight : CheckResult → Bool) (logChoice condChoice : List Proposal) (hist : List BlockKey)
    (si : SizeInfo) : Observation :=
  { blockHistory := hist.take lim.obsBlockHistory
    proposals := logChoice ++ condChoice
    performable := performablesOf ctx lim maxLen staged inflight si }

/-- what a node holds when `Observation` is called -/
structure NodeView where
  staged    : List CheckResult    -- resultStore.View(): unexpired results, one per work id, in Go map order
  logProps  : List Proposal       -- metadata.ViewProposals(LogTrigger): unexpired, sorted by work id
  condProps : List Proposal       -- metadata.ViewProposals(ConditionTrigger)
  hist      : List BlockKey       -- metadata.GetBlockHistory()

/-- the three pre-build hooks on the decoded previous outcome (`AddToProposalQHook` does not touch what the observation reads) -/
def preBuild (ctx : Ctx) (prev : Outcome) (v : NodeView) : NodeView :=
  { v with staged := removeAgreed prev v.staged
           logProps := removeSurfaced ctx .log prev v.logProps
           condProps := removeSurfaced ctx .condition prev v.condProps }

/-- `ocr3Plugin.Observation` -/
def observe (ctx : Ctx) (lim : Limits) (maxLen : Nat) (prev : Option Outcome) (v : NodeView)
    (inflight : CheckResult → Bool) (logChoice condChoice : List Proposal) (si : SizeInfo) : Observation :=
  let v' := match prev with | some p => preBuild ctx p v | none => v
  observationOf ctx lim maxLen v'.staged inflight logChoice condChoice v'.hist si


/-! ### the shuffled-id cache of `stagedResultSorter` (state the hook keeps ACROSS rounds)

`canonical` above is stateless: it shuffles every work id with the round's source.  The code memoises the shuffled ids in
`stagedResultSorter` and starts over when the source changes.  `Sorter` mirrors that state machine; Props/C08 proves that
it refines the stateless order from every coherent state (`sorter_refines_canonical`), i.e. that the memo is invisible. -/

/-- `stagedResultSorter`: `lastRandSrc` and `shuffledIDs` (work id ↦ shuffled id; a Go map, here an association list) -/
structure Sorter where
  lastSrc : String
  cache : List (String × String)

/-- `shuffledIDs[w]` with the comma-ok form -/
def Sorter.get (s : Sorter) (w : String) : Option String := (s.cache.find? (fun e => e.1 == w)).map (·.2)

/-- `if !bytes.Equal(sorter.lastRandSrc[:], rSrc[:]) { lastRandSrc = rSrc; shuffledIDs = make(map) }` -/
def Sorter.reset (s : Sorter) (src : String) : Sorter :=
  if !(s.lastSrc == src) then { lastSrc := src, cache := [] } else s

/-- loop body: `if _, ok := shuffledIDs[w]; !ok { shuffledIDs[w] = random.ShuffleString(w, rSrc) }` -/
def Sorter.step (shuffle : String → String → String) (src : String) (st : Sorter) (w : String) : Sorter :=
  if !(st.get w).isSome then { st with cache := (w, shuffle w src) :: st.cache } else st

/-- `updateShuffledIDs(results, rSrc)` -/
def Sorter.update (shuffle : String → String → String) (s : Sorter) (src : String) (wids : List String) : Sorter :=
  wids.foldl (Sorter.step shuffle src) (s.reset src)

/-- the `less` function handed to `sort.Slice`: `shuffledIDs[a.WorkID] < shuffledIDs[b.WorkID]` (a missing key reads "") -/
def Sorter.less (s : Sorter) (a b : CheckResult) : Bool :=
  decide ((s.get a.workID).getD "" < (s.get b.workID).getD "")

/-- `orderResults(results, rSrc)`: new sorter state and the ordered candidates -/
def Sorter.order (shuffle : String → String → String) (s : Sorter) (src : String) (rs : List CheckResult) :
    Sorter × List CheckResult :=
  let s' := s.update shuffle src (rs.map (·.workID))
  (s', rs.mergeSort (fun a b => !s'.less b a))

/-- every memoised id was computed with the source the cache is labelled with -/
def Sorter.Coherent (shuffle : String → String → String) (s : Sorter) : Prop :=
  ∀ e ∈ s.cache, e.2 = shuffle e.1 s.lastSrc

end AutoVerif.C08
