import AutoVerif.Model.Types
import AutoVerif.Gen.Consts
/-
Model for C12 — "each check result is routed to the right sink with its own payload".

Go code mirrored here (function by function, same order of checks, same operators):

  pkg/v3/postprocessors/eligible.go    `eligiblePostProcessor.PostProcess`     → `PP.run .eligible`
  pkg/v3/postprocessors/retry.go       `retryablePostProcessor.PostProcess`    → `retryNew` (code as it is now:
                                         work-id match, same check block/hash preferred, positional fallback)
                                         and `retryOld` (the pinned tree: `payloads[i]`)
  pkg/v3/postprocessors/ineligible.go  `ineligiblePostProcessor.PostProcess`   → `PP.run .ineligible`
  pkg/v3/postprocessors/metadata.go    `addProposalToMetadataStore.PostProcess`→ `PP.run .addProposal`
  pkg/v3/postprocessors/combine.go     `CombinedPostprocessor.PostProcess`     → `combine`
  pkg/v3/flows/{retry,logtrigger,recovery,conditional}.go (which chain each flow builds) → `Flow.chain`
  pkg/v3/observer.go                   `Observer.Process`                      → `process`
  pkg/v3/stores/retry_queue.go         `Enqueue` / `Dequeue`                   → `enqueue` / `dequeue`
  pkg/v3/stores/result_store.go `Add`, metadata_store.go `AddProposals` (only what the sinks keep) → `storeAdd`, `metaAdd`

Nondeterminism is explicit:
  * the runner's output (which results, in which order) is an ARGUMENT of `postProcess`/`process`
    (the real runner returns cached results first, then worker batches in completion order, and
    drops failed batches);
  * `time.Now()` is an explicit `now : Nat` (nanoseconds);
  * the Go `range` over the retry queue's map is an explicit `order : List String` of work ids.
-/
namespace AutoVerif.C12

/-! ## values -/

/-- `ocr2keepers.CheckResult` incl. the non-wire field `RetryInterval` (a `time.Duration`, ns) -/
structure Res where
  cr            : CheckResult
  retryInterval : Int
deriving DecidableEq, Repr, Inhabited

/-- `types.RetryRecord` -/
structure RetryRecord where
  payload  : Payload
  interval : Int
deriving DecidableEq, Repr, Inhabited

/-- `res.PipelineExecutionState == 0 && res.Eligible` (eligible.go, metadata.go) -/
def Res.succEligible (r : Res) : Bool := decide (r.cr.pes = 0) && r.cr.eligible
/-- `res.PipelineExecutionState == 0 && !res.Eligible` (ineligible.go) -/
def Res.succIneligible (r : Res) : Bool := decide (r.cr.pes = 0) && !r.cr.eligible
/-- `res.PipelineExecutionState != 0 && res.Retryable` (retry.go) -/
def Res.retryableFail (r : Res) : Bool := decide (r.cr.pes ≠ 0) && r.cr.retryable

/-- `payloads[j].Trigger.BlockNumber == res.Trigger.BlockNumber && payloads[j].Trigger.BlockHash == res.Trigger.BlockHash` -/
def blockMatch (p : Payload) (r : CheckResult) : Bool :=
  decide (p.trigger.blockNumber = r.trigger.blockNumber) && decide (p.trigger.blockHash = r.trigger.blockHash)

def toProposal (r : CheckResult) : Proposal := { upkeepID := r.upkeepID, trigger := r.trigger, workID := r.workID }

/-! ## retry post-processor -/

/-- `byWorkID[wid]`, as payloads (ascending index order) -/
def candidates (payloads : List Payload) (wid : String) : List Payload :=
  payloads.filter (fun p => decide (p.workID = wid))

/-- the inner loop of retry.go: first candidate with the result's check block and hash, else the
first candidate, else nothing (`idx < 0`) -/
def matchPayload (payloads : List Payload) (r : CheckResult) : Option Payload :=
  match (candidates payloads r.workID).find? (fun p => blockMatch p r) with
  | some p => some p
  | none => (candidates payloads r.workID).head?

/-- the outer loop of retry.go as it is now; `i` is the index of the head of the result list -/
def retryLoop (payloads : List Payload) : Nat → List Res → List RetryRecord
  | _, [] => []
  | i, res :: rest =>
    if res.retryableFail then
      match matchPayload payloads res.cr with
      | some p => { payload := p, interval := res.retryInterval } :: retryLoop payloads (i + 1) rest
      | none =>
        -- no payload carries the work ID of the result, fall back to position
        match payloads[i]? with
        | some p => { payload := p, interval := res.retryInterval } :: retryLoop payloads (i + 1) rest
        | none => retryLoop payloads (i + 1) rest        -- `if i >= len(payloads) { continue }`
    else retryLoop payloads (i + 1) rest

/-- `retryablePostProcessor.PostProcess`: the `Enqueue` calls, in order -/
def retryNew (results : List Res) (payloads : List Payload) : List RetryRecord :=
  retryLoop payloads 0 results

/-- the loop of the pinned tree (before "fix: retry post-processor"): `Payload: payloads[i]`.
(Go would panic for `i ≥ len(payloads)`; the runner never returns more results than payloads.) -/
def retryOldLoop (payloads : List Payload) : Nat → List Res → List RetryRecord
  | _, [] => []
  | i, res :: rest =>
    if res.retryableFail then
      match payloads[i]? with
      | some p => { payload := p, interval := res.retryInterval } :: retryOldLoop payloads (i + 1) rest
      | none => retryOldLoop payloads (i + 1) rest
    else retryOldLoop payloads (i + 1) rest

def retryOld (results : List Res) (payloads : List Payload) : List RetryRecord :=
  retryOldLoop payloads 0 results

/-! ## sinks, post-processors, flows -/

/-- what a pipeline run writes: the calls made on the four sinks, in call order -/
structure Sinks where
  staged     : List CheckResult := []   -- `ResultStore.Add`
  proposed   : List Proposal := []      -- `MetadataStore.AddProposals`
  ineligible : List CheckResult := []   -- `UpkeepStateUpdater.SetUpkeepState(_, r, Ineligible)`
  retries    : List RetryRecord := []   -- `RetryQueue.Enqueue`
  err        : Bool := false            -- joined error is non-nil
deriving DecidableEq, Repr, Inhabited

inductive PP where
  | eligible | retryable | ineligible | addProposal
deriving DecidableEq, Repr

inductive Flow where
  | logTrigger | retry | recoveryFinal | recoveryProposal | conditionalSample | conditionalFinal
deriving DecidableEq, Repr

/-- the post-processor chains built by the flow constructors, in the order given to
`NewCombinedPostprocessor` -/
def Flow.chain : Flow → List PP
  | .logTrigger        => [.eligible, .retryable, .ineligible]   -- newLogTriggerFlow
  | .retry             => [.eligible, .retryable, .ineligible]   -- NewRetryFlow
  | .recoveryFinal     => [.eligible, .retryable, .ineligible]   -- newFinalRecoveryFlow
  | .recoveryProposal  => [.ineligible, .addProposal]            -- newRecoveryProposalFlow
  | .conditionalSample => [.addProposal]                         -- newSampleProposalFlow
  | .conditionalFinal  => [.eligible, .retryable]                -- newFinalConditionalFlow

def Flow.stages (f : Flow) : Bool := f.chain.contains .eligible
def Flow.proposes (f : Flow) : Bool := f.chain.contains .addProposal
def Flow.recordsIneligible (f : Flow) : Bool := f.chain.contains .ineligible
def Flow.retries (f : Flow) : Bool := f.chain.contains .retryable

/-- one post-processor; `rt` is the retry pairing (`retryNew` / `retryOld`), `updErr` says for which
results the state updater returns an error (the call is made either way) -/
def PP.run (rt : List Res → List Payload → List RetryRecord) (updErr : CheckResult → Bool)
    (results : List Res) (payloads : List Payload) (s : Sinks) : PP → Sinks
  | .eligible    => { s with staged := s.staged ++ (results.filter (·.succEligible)).map (·.cr) }
  | .retryable   => { s with retries := s.retries ++ rt results payloads }
  | .ineligible  =>
    { s with ineligible := s.ineligible ++ (results.filter (·.succIneligible)).map (·.cr),
             err := s.err || ((results.filter (·.succIneligible)).map (·.cr)).any updErr }
  | .addProposal => { s with proposed := s.proposed ++ (results.filter (·.succEligible)).map (fun r => toProposal r.cr) }

/-- `CombinedPostprocessor.PostProcess`: every processor runs, errors are joined -/
def combine (rt : List Res → List Payload → List RetryRecord) (updErr : CheckResult → Bool)
    (chain : List PP) (results : List Res) (payloads : List Payload) : Sinks :=
  chain.foldl (fun s pp => pp.run rt updErr results payloads s) {}

/-- the post-processing step of a flow on the runner's output `results` and the pre-processed `payloads` -/
def postProcess (flow : Flow) (updErr : CheckResult → Bool) (results : List Res) (payloads : List Payload) : Sinks :=
  combine retryNew updErr flow.chain results payloads

/-- the same with the positional pairing of the pinned tree -/
def postProcessOld (flow : Flow) (updErr : CheckResult → Bool) (results : List Res) (payloads : List Payload) : Sinks :=
  combine retryOld updErr flow.chain results payloads

/-! ## Observer.Process -/

structure Outcome where
  sinks  : Sinks
  failed : Bool
deriving DecidableEq, Repr

def preProcess : List (List Payload → Option (List Payload)) → List Payload → Option (List Payload)
  | [], v => some v
  | f :: fs, v => match f v with
    | some v' => preProcess fs v'
    | none => none

/-- `Observer.Process`: tick value → pre-processors → runner → post-processor.  `none` stands for a
returned error at that stage.  The runner is an arbitrary function of the payloads it is given:
which results it returns and in which order is not constrained here. -/
def process (flow : Flow) (updErr : CheckResult → Bool) (tick : Option (List Payload))
    (pre : List (List Payload → Option (List Payload))) (runner : List Payload → Option (List Res)) : Outcome :=
  match tick with
  | none => { sinks := {}, failed := true }
  | some value =>
    match preProcess pre value with
    | none => { sinks := {}, failed := true }
    | some value' =>
      match runner value' with
      | none => { sinks := {}, failed := true }
      | some results =>
        let s := postProcess flow updErr results value'
        { sinks := s, failed := s.err }

/-! ## tick getters: where a flow's payloads come from

  pkg/v3/flows/retry.go       `retryTick.Value`                  → `sourceTick`
  pkg/v3/flows/logtrigger.go  `logTick.Value`                    → `sourceTick`
  pkg/v3/flows/recovery.go    `logRecoveryTick.Value`            → `sourceTick`
  pkg/v3/flows/recovery.go    `coordinatedProposalsTick.Value`   → `proposalsTick`  (both final flows)

The source (`t.q`, `et.logProvider`, `et.logRecoverer`) is `none` when the flow was built without one (`nil`);
`some none` is a call on it that returned an error. -/

/-- `UpkeepPayload.IsEmpty`: `p.WorkID == ""` -/
def payloadEmpty (p : Payload) : Bool := decide (p.workID = "")

/-- `if t.q == nil { return nil, nil }`, `if err != nil { return nil, err }`, `return payloads, err` -/
def sourceTick (src : Option (Option (List Payload))) : Option (List Payload) :=
  match src with
  | none => some []
  | some none => none
  | some (some ps) => some ps

/-- the `for _, p := range builtPayloads` loop: `if p.IsEmpty() { filtered++; continue }`, else append -/
def skipEmpty : List Payload → List Payload
  | [] => []
  | p :: ps => if payloadEmpty p then skipEmpty ps else p :: skipEmpty ps

/-- `coordinatedProposalsTick.Value`: no queue → nothing; `Dequeue` error → error; `BuildPayloads` error → error;
else the built payloads without the empty ones, in the builder's order -/
def proposalsTick (q : Option (Option (List Proposal))) (build : List Proposal → Option (List Payload)) :
    Option (List Payload) :=
  match q with
  | none => some []
  | some none => none
  | some (some props) =>
    match build props with
    | none => none
    | some built => some (skipEmpty built)

/-- the payloads that reach the runner over a sequence of final-flow ticks: per tick the builder's answer `built`,
without the empty payloads, through the coordinator's filter (`keep`) -/
def checkedOf (keep : Payload → Bool) (built : List (List Payload)) : List Payload :=
  built.flatMap (fun b => (skipEmpty b).filter keep)

/-! ## what the real sinks keep (only as far as the harness reads them back) -/

/-- `resultStore.Add` for one result: kept if the work id is new or the check block is higher -/
def storeAdd (st : List CheckResult) (r : CheckResult) : List CheckResult :=
  match st with
  | [] => [r]
  | x :: t =>
    if x.workID = r.workID then
      (if x.trigger.blockNumber < r.trigger.blockNumber then r :: t else x :: t)
    else x :: storeAdd t r

def storeView (adds : List CheckResult) : List CheckResult := adds.foldl storeAdd []

/-- `orderedMap.Add` keyed by work id: the last proposal wins -/
def metaAdd (st : List Proposal) (p : Proposal) : List Proposal :=
  match st with
  | [] => [p]
  | x :: t => if x.workID = p.workID then p :: t else x :: metaAdd t p

def metaView (adds : List Proposal) : List Proposal := adds.foldl metaAdd []

/-! ## retry queue -/

/-- `retryQueueRecord`; times in ns -/
structure Rec where
  payload   : Payload
  interval  : Nat
  pending   : Bool
  createdAt : Nat
  updatedAt : Nat
deriving DecidableEq, Repr, Inhabited

/-- `records map[string]retryQueueRecord` as an association list; only `get`/`put`/`del` are used -/
abbrev Queue := List (String × Rec)

structure Cfg where
  expiration : Nat   -- `q.expiration` = DefaultExpiration
  interval   : Nat   -- `q.interval`   = RetryInterval
deriving DecidableEq, Repr

/-- the values `NewRetryQueue` installs, regenerated from /repo on every run -/
def Cfg.repo : Cfg := { expiration := Gen.retryDefaultExpirationNs, interval := Gen.retryIntervalNs }

def get : Queue → String → Option Rec
  | [], _ => none
  | (k', r) :: t, k => if k' = k then some r else get t k

def put : Queue → String → Rec → Queue
  | [], k, r => [(k, r)]
  | (k', r') :: t, k, r => if k' = k then (k, r) :: t else (k', r') :: put t k r

def del : Queue → String → Queue
  | [], _ => []
  | (k', r') :: t, k => if k' = k then del t k else (k', r') :: del t k

/-- `if rec.Interval > 0 { rec.Interval } else { q.interval }` -/
def effInterval (cfg : Cfg) (iv : Int) : Nat := if iv > 0 then iv.toNat else cfg.interval

/-- `now.Sub(r.createdAt) > expr` -/
def expired (cfg : Cfg) (now : Nat) (r : Rec) : Bool := decide (now > r.createdAt + cfg.expiration)
/-- `now.Sub(r.updatedAt) > r.interval` -/
def elapsed (now : Nat) (r : Rec) : Bool := decide (now > r.updatedAt + r.interval)

/-- the body of the `Enqueue` loop for one record (`Enqueue(r₁,…,rₙ)` is `n` of these at one `now`) -/
def enqueue (cfg : Cfg) (now : Nat) (q : Queue) (r : RetryRecord) : Queue :=
  let k := r.payload.workID
  let rec0 : Rec := match get q k with
    | some x => x
    | none => { payload := r.payload, interval := 0, pending := false, createdAt := now, updatedAt := 0 }
  let rec1 : Rec :=
    if r.payload.trigger.blockNumber > rec0.payload.trigger.blockNumber then { rec0 with payload := r.payload } else rec0
  put q k { rec1 with updatedAt := now, pending := false, interval := effInterval cfg r.interval }

def enqueueAll (cfg : Cfg) (now : Nat) (q : Queue) (rs : List RetryRecord) : Queue :=
  rs.foldl (enqueue cfg now) q

/-- the `for k, record := range q.records` loop of `Dequeue`, visiting the keys in `order`.
A key in `order` that the map does not hold is skipped. -/
def dequeueLoop (cfg : Cfg) (now n : Nat) : List String → Queue → List Payload → Queue × List Payload
  | [], q, out => (q, out)
  | k :: ks, q, out =>
    match get q k with
    | none => dequeueLoop cfg now n ks q out
    | some r =>
      if expired cfg now r then dequeueLoop cfg now n ks (del q k) out
      else if r.pending then dequeueLoop cfg now n ks q out
      else if elapsed now r then
        if (out ++ [r.payload]).length ≥ n then (put q k { r with pending := true }, out ++ [r.payload])   -- `break`
        else dequeueLoop cfg now n ks (put q k { r with pending := true }) (out ++ [r.payload])
      else dequeueLoop cfg now n ks q out

/-- `Dequeue(n)` at time `now` with map iteration order `order` -/
def dequeue (cfg : Cfg) (now n : Nat) (order : List String) (q : Queue) : Queue × List Payload :=
  dequeueLoop cfg now n order q []

def keys (q : Queue) : List String := q.map (·.1)

/-! ## queue histories -/

/-- an observable event of the queue: what was enqueued, what a dequeue handed out -/
inductive Ev where
  | enq (t : Nat) (r : RetryRecord)
  | deq (t : Nat) (n : Nat) (out : List Payload)
deriving DecidableEq, Repr


/-- one call on the queue, with everything the environment chooses: the clock reading, the record or `n`,
and the map iteration order -/
inductive Op where
  | enq (t : Nat) (r : RetryRecord)
  | deq (t : Nat) (n : Nat) (order : List String)
deriving DecidableEq, Repr

/-- state and log (most recent event first) after one more call -/
def step (cfg : Cfg) (st : Queue × List Ev) : Op → Queue × List Ev
  | .enq t r => (enqueue cfg t st.1 r, .enq t r :: st.2)
  | .deq t n order => ((dequeue cfg t n order st.1).1, .deq t n (dequeue cfg t n order st.1).2 :: st.2)

/-- an arbitrary sequence of calls on a new queue -/
def runOps (cfg : Cfg) (ops : List Op) : Queue × List Ev := ops.foldl (step cfg) ([], [])

/-- the time of the most recent event -/
def lastEvTime : List Ev → Nat
  | [] => 0
  | .enq t _ :: _ => t
  | .deq t _ _ :: _ => t

/-- `ReachGo`: as `Reach`, restricted to what the Go runtime can do — the clock does not run backwards and
the `range` of a `Dequeue` is over the WHOLE map (in any order; it may still stop early at `n`). -/
inductive ReachGo (cfg : Cfg) : List Ev → Queue → Prop where
  | init : ReachGo cfg [] []
  | enq {log q} (t : Nat) (r : RetryRecord) : ReachGo cfg log q → lastEvTime log ≤ t →
      ReachGo cfg (.enq t r :: log) (enqueue cfg t q r)
  | deq {log q} (t n : Nat) (order : List String) : ReachGo cfg log q → lastEvTime log ≤ t →
      (∀ k rec, get q k = some rec → k ∈ order) →
      ReachGo cfg (.deq t n (dequeue cfg t n order q).2 :: log) (dequeue cfg t n order q).1

/-- a sequence of calls the Go runtime can produce from state `st`: clock readings do not decrease and every
`Dequeue` ranges over all records the map holds at that moment -/
def GoLike (cfg : Cfg) (st : Queue × List Ev) : List Op → Prop
  | [] => True
  | .enq t r :: ops => lastEvTime st.2 ≤ t ∧ GoLike cfg (step cfg st (.enq t r)) ops
  | .deq t n order :: ops =>
    (lastEvTime st.2 ≤ t ∧ ∀ k rec, get st.1 k = some rec → k ∈ order) ∧ GoLike cfg (step cfg st (.deq t n order)) ops

/-- `Reach cfg log q`: the queue state `q` and the event log `log` (most recent event first) are produced
by some sequence of `Enqueue`/`Dequeue` calls on a new queue — ANY sequence, ANY record contents and
intervals, ANY `n`, ANY map iteration order, ANY clock readings. -/
inductive Reach (cfg : Cfg) : List Ev → Queue → Prop where
  | init : Reach cfg [] []
  | enq {log q} (t : Nat) (r : RetryRecord) : Reach cfg log q → Reach cfg (.enq t r :: log) (enqueue cfg t q r)
  | deq {log q} (t n : Nat) (order : List String) : Reach cfg log q →
      Reach cfg (.deq t n (dequeue cfg t n order q).2 :: log) (dequeue cfg t n order q).1

/-! ## a unit of work through the whole node

At node level (all flows wired by the plugin constructor around ONE retry queue) a unit of work is checked,
and checked again after every retryable failure, until the pipeline gives an answer that is not a retryable
failure.  `script` is the pipeline's successive answers for that unit of work. -/

/-- how many times the pipeline is asked -/
def planChecks : List Res → Nat
  | [] => 0
  | r :: rs => if r.retryableFail then planChecks rs + 1 else 1

/-- the terminal answer, if the script has one -/
def planTerminal : List Res → Option Res
  | [] => none
  | r :: rs => if r.retryableFail then planTerminal rs else some r

/-- what ends up staged -/
def planStaged (script : List Res) : List CheckResult :=
  match planTerminal script with
  | some r => if r.succEligible then [r.cr] else []
  | none => []

end AutoVerif.C12
