/-
C14 — model of `pkg/util/worker.go` (WorkerGroup + RunJobs) as a transition
system over ATOMIC STEPS of its goroutines.  Core Lean only.

Goroutines (one `Label` family each):

* per `RunJobs` caller `g` (its group id; group ids are assumed pairwise
  distinct — the code draws them with `rand.Intn(1e9)`):
  - the *submitter* (`RunJobs`' `for` loop with `wait.Add(1)`, the body of
    `WorkerGroup.Do`, `wait.Done()` on refusal, `wait.Wait()`, `RemoveGroup`,
    `close(end)`),
  - the *result reader* (the goroutine started by `RunJobs`: select on
    `NotifyResult(group)` / `end`, `Results(group)`, `resFunc`+`w.Done()` per result);
* the *queuing loop* `runQueuing`, the *processing loop* `run`/`runProcessing`/
  `processQueue`/`doJob`, the *worker goroutines* started by `doJob`
  (`worker.Do`: ctx check, `wrk(ctx)`, `storeResult`, put-back on `workers`);
* the *stopper* (`Stop`) and the *canceller* (the owner of each caller's ctx).

Shared objects and their capacities: `input` (cap 1) = `Option Job`;
`chInputNotify` (cap 1) = `Bool`; per-group `resultNotify[g]` (cap 1) = `Bool`;
`workers` (cap `maxWorkers`) = a counter `idle`; `chStopInputs`,
`chStopProcessing` (unbuffered) = rendezvous steps `tSend`, `qSendStop` that
move both parties at once; `queue` = FIFO list; `resultData` = one list of jobs
(`Results(g)` takes the sub-list of group `g`, newest first, and reverses it);
`sync.WaitGroup` = `wait : Nat` plus a `panicked` flag for a negative counter;
`stopMu` = `readers`, `wPending` (writer announced: new readers block), `wHeld`;
`queueClosed`, `svcChStop` (`stopped`), `activeWorkers` (`active`).

`cfg.fixed = true` is the code as it is now in /repo (after "fix: worker group:
a job handed over while Stop runs is no longer stranded"); `cfg.fixed = false`
is the pre-fix variant: no `stopMu` (no RLock/RUnlock steps, `Stop` = close;
`queueClosed := true`; send) and no drain of `input` when `runQueuing` stops.

Granularity / abstractions (part of the trusted correspondence):
* one step = one access to a shared object (channel op, mutex-protected
  section, atomic load/store) together with the goroutine-local code up to the
  next one; `select` with several ready cases = several enabled labels.
* `Do`'s `wg.mu` section only creates missing map entries and
  `NotifyResult`'s only reads the channel: map-entry existence is not modelled
  (`RemoveGroup` empties the group's result list and notify channel).
* `resFunc(r)` and `w.Done()` are one step (`rdDeliver`).
* the worker's service context (`svcChStop.NewCtx()`, cancelled by a helper
  goroutine) may or may not be seen cancelled once `stopped`: `wCheckOk` is
  always enabled, `wCheckErr` only when `stopped`.
* a job function either returns by itself (`cfg.blocking j = false`) or blocks
  until its context is cancelled (`cfg.blocking j = true`: `wRun j` enabled iff
  the caller's ctx is cancelled or the group stopped).  Job functions and
  `resFunc` that never return are outside the model.  A job function that PANICS is inside: the
  panic is recovered by `runWorkItem` into an error result, the worker then stores the result and
  puts itself back exactly as after a normal return, so `wRun j` stands for both (`cfg.panics j`
  says which; no guard reads it).  An unrecovered panic (e.g. in `resFunc`) is outside the model.
* the reader's local `range` slice is the sub-list of `rbatch` with its group.
* `accepted`, `delivered`, `started`, `skipped`, `dropped`, `panicked` are history (ghost) variables:
  no guard reads them; `panicked` records a `WaitGroup.Done` on a zero counter, `dropped` a worker
  lost at the put-back `select`'s `default` (both proved impossible in Props/C14).
* `maxWorkers = 0` is outside the property (the code then blocks on `<-wg.workers` forever by design).

A label that moves an item names the item (`qRecv j`, `pPop f j`, `wStore j`, `rdDeliver j` …) so that
every clause of `step` has the form `if guard then some post else none`.
-/
namespace AutoVerif.C14

/-- job `idx` of caller/group `grp` (jobs are submitted in index order) -/
structure Job where
  grp : Nat
  idx : Nat
deriving DecidableEq, Repr, Inhabited

/-- program counter of a submitter (`RunJobs` caller inside its loop / `Do`) -/
inductive SubPc
  | loop          -- `for _, job := range jobs` head
  | doCtx         -- `wait.Add(1)` done; `Do`: `if ctx.Err() != nil`
  | rlock         -- `wg.stopMu.RLock()`                      (fixed only)
  | closedCheck   -- `if wg.queueClosed.Load()`
  | select        -- `select { input<-gi | <-ctx.Done() | <-svcChStop }`
  | runlockOk     -- deferred `RUnlock`, `Do` returns nil      (fixed only)
  | runlockFail   -- deferred `RUnlock`, `Do` returns an error (fixed only)
  | failDone      -- `wait.Done(); break`
  | wait          -- `wait.Wait()`
  | remove        -- `wg.RemoveGroup(group)`
  | closeEnd      -- `close(end)`
  | returned
deriving DecidableEq, Repr, Inhabited

/-- program counter of a result reader -/
inductive RdPc
  | select | results | deliver | exited
deriving DecidableEq, Repr, Inhabited

/-- program counter of `runQueuing` -/
inductive QPc
  | select | add (j : Job) | notify
  | drain | drainAdd (j : Job)      -- (fixed only)
  | sendStop | exited
deriving DecidableEq, Repr, Inhabited

/-- program counter of `run` (`final = true`: the last `processQueue` after `runProcessing` returned) -/
inductive PPc
  | select | len (final : Bool) | pop (final : Bool) | doJob (final : Bool) (j : Job) | exited
deriving DecidableEq, Repr, Inhabited

/-- program counter of `Stop` -/
inductive TPc
  | idle | lock | lockWait | set | unlock | send | done
deriving DecidableEq, Repr, Inhabited

structure Caller where
  sub       : SubPc := .loop
  rd        : RdPc := .select
  next      : Nat := 0        -- index of the job being / to be submitted
  wait      : Nat := 0        -- the `sync.WaitGroup` counter
  notify    : Bool := false   -- `resultNotify[group]` holds a token
  endClosed : Bool := false   -- `end` closed
  cancelled : Bool := false   -- the caller's ctx
deriving DecidableEq, Repr, Inhabited

structure Cfg where
  fixed      : Bool            -- the repaired code (current /repo) or the pre-fix variant
  maxWorkers : Nat
  ncallers   : Nat
  jobs       : Nat → Nat       -- number of jobs of caller g
  blocking   : Job → Bool      -- the job function waits for its ctx
  panics     : Job → Bool := fun _ => false   -- the job function panics (recovered by `runWorkItem`)

structure State where
  callers     : Nat → Caller
  input       : Option Job := none
  inputNotify : Bool := false
  queue       : List Job := []
  q           : QPc := .select
  p           : PPc := .select
  active      : Nat := 0       -- `activeWorkers`
  idle        : Nat := 0       -- len(`workers`)
  wStart      : List Job := []   -- worker goroutines before `ctx.Err()` check
  wRun        : List Job := []   -- … inside the job function
  wStore      : List Job := []   -- … before `storeResult`
  wPut        : Nat := 0         -- … before the put-back `select`
  results     : List Job := []   -- `resultData`, newest first
  rbatch      : List Job := []   -- slices returned by `Results` not yet handed to `resFunc`
  stopped     : Bool := false    -- `svcChStop` closed
  queueClosed : Bool := false
  readers     : Nat := 0
  wPending    : Bool := false
  wHeld       : Bool := false
  t           : TPc := .idle
  -- history (ghost) variables: never read by a guard
  accepted    : List Job := []   -- `Do` returned nil for these, in order
  delivered   : List Job := []   -- `resFunc` was called for these, in order
  started     : List Job := []   -- the job function was invoked for these
  skipped     : List Job := []   -- the worker saw its ctx cancelled and did not invoke the job function
  dropped     : Nat := 0         -- workers lost at a full `workers` channel
  panicked    : Bool := false    -- `WaitGroup` counter went negative

def upd (f : Nat → Caller) (g : Nat) (c : Caller) : Nat → Caller :=
  fun k => if k = g then c else f k

def State.setC (s : State) (g : Nat) (c : Caller) : State :=
  { s with callers := upd s.callers g c }

def init (_cfg : Cfg) : State := { callers := fun _ => {} }

inductive Label
  -- environment
  | cancel (g : Nat) | stopBegin
  -- submitter g
  | subAdd (g : Nat) | subLoopEnd (g : Nat) | subCtx (g : Nat) | subRLock (g : Nat) | subClosed (g : Nat)
  | subSend (g : Nat) | subSelCtx (g : Nat) | subSelStop (g : Nat)
  | subRUnlockOk (g : Nat) | subRUnlockFail (g : Nat) | subFailDone (g : Nat)
  | subWait (g : Nat) | subRemove (g : Nat) | subCloseEnd (g : Nat)
  -- reader g
  | rdNotify (g : Nat) | rdEnd (g : Nat) | rdResults (g : Nat) | rdDeliver (j : Job) | rdBatchEnd (g : Nat)
  -- queuing loop (the item in transit is part of the label)
  | qRecv (j : Job) | qAdd (j : Job) | qNotify | qDrainRecv (j : Job) | qDrainEmpty | qDrainAdd (j : Job) | qSendStop
  -- processing loop (`f`: the final `processQueue`)
  | pNotify | pLen (f : Bool) | pPopEmpty (f : Bool) | pPop (f : Bool) (j : Job)
  | pSpawnNew (f : Bool) (j : Job) | pSpawnReuse (f : Bool) (j : Job)
  -- workers
  | wCheckOk (j : Job) | wCheckErr (j : Job) | wRun (j : Job) | wStore (j : Job) | wPut
  -- stopper (after `stopBegin`)
  | tLockReq | tLockAcq | tSet | tUnlock | tSend
deriving DecidableEq, Repr, Inhabited

/-- decisions of the environment: when to call `Stop`, when to cancel a caller's ctx -/
def Label.isEnv : Label → Bool
  | .cancel _ | .stopBegin => true
  | _ => false

/-- where `Do` goes when it refuses the item -/
def failPc (cfg : Cfg) : SubPc := if cfg.fixed then .runlockFail else .failDone

/-- the atomic steps; `none` = the label is not enabled in `s`.  Every clause is
`if guard then some post else none`. -/
def step (cfg : Cfg) (s : State) : Label → Option State
  -- ctx cancel of caller g
  | .cancel g =>
    if g < cfg.ncallers ∧ (s.callers g).cancelled = false then
      some (s.setC g { s.callers g with cancelled := true }) else none
  -- Stop: `close(wg.svcChStop)`
  | .stopBegin =>
    if s.t = .idle then some { s with stopped := true, t := if cfg.fixed then .lock else .set } else none
  -- RunJobs: loop head + `wait.Add(1)`
  | .subAdd g =>
    if g < cfg.ncallers ∧ (s.callers g).sub = .loop ∧ (s.callers g).next < cfg.jobs g then
      some (s.setC g { s.callers g with sub := .doCtx, wait := (s.callers g).wait + 1 }) else none
  | .subLoopEnd g =>
    if g < cfg.ncallers ∧ (s.callers g).sub = .loop ∧ ¬ (s.callers g).next < cfg.jobs g then
      some (s.setC g { s.callers g with sub := .wait }) else none
  -- Do: `if ctx.Err() != nil`
  | .subCtx g =>
    if g < cfg.ncallers ∧ (s.callers g).sub = .doCtx then
      some (s.setC g { s.callers g with
        sub := if (s.callers g).cancelled then .failDone else if cfg.fixed then .rlock else .closedCheck })
    else none
  -- Do: `wg.stopMu.RLock()` (blocks while a writer is announced or holds the lock)
  | .subRLock g =>
    if g < cfg.ncallers ∧ (s.callers g).sub = .rlock ∧ s.wPending = false ∧ s.wHeld = false then
      some ({ s with readers := s.readers + 1 }.setC g { s.callers g with sub := .closedCheck })
    else none
  -- Do: `if wg.queueClosed.Load()`
  | .subClosed g =>
    if g < cfg.ncallers ∧ (s.callers g).sub = .closedCheck then
      some (s.setC g { s.callers g with sub := if s.queueClosed then failPc cfg else .select })
    else none
  -- Do: `case wg.input <- gi`
  | .subSend g =>
    if g < cfg.ncallers ∧ (s.callers g).sub = .select ∧ s.input = none then
      some ({ s with input := some (Job.mk g (s.callers g).next),
                     accepted := s.accepted ++ [Job.mk g (s.callers g).next] }.setC g
        { s.callers g with next := (s.callers g).next + 1, sub := if cfg.fixed then .runlockOk else .loop })
    else none
  -- Do: `case <-ctx.Done()`
  | .subSelCtx g =>
    if g < cfg.ncallers ∧ (s.callers g).sub = .select ∧ (s.callers g).cancelled = true then
      some (s.setC g { s.callers g with sub := failPc cfg }) else none
  -- Do: `case <-wg.svcChStop`
  | .subSelStop g =>
    if g < cfg.ncallers ∧ (s.callers g).sub = .select ∧ s.stopped = true then
      some (s.setC g { s.callers g with sub := failPc cfg }) else none
  | .subRUnlockOk g =>
    if g < cfg.ncallers ∧ (s.callers g).sub = .runlockOk then
      some ({ s with readers := s.readers - 1 }.setC g { s.callers g with sub := .loop }) else none
  | .subRUnlockFail g =>
    if g < cfg.ncallers ∧ (s.callers g).sub = .runlockFail then
      some ({ s with readers := s.readers - 1 }.setC g { s.callers g with sub := .failDone }) else none
  -- RunJobs: `wait.Done(); break`  (a negative counter panics)
  | .subFailDone g =>
    if g < cfg.ncallers ∧ (s.callers g).sub = .failDone then
      some ({ s with panicked := s.panicked || decide ((s.callers g).wait = 0) }.setC g
        { s.callers g with wait := (s.callers g).wait - 1, sub := .wait })
    else none
  -- RunJobs: `wait.Wait()` returns
  | .subWait g =>
    if g < cfg.ncallers ∧ (s.callers g).sub = .wait ∧ (s.callers g).wait = 0 then
      some (s.setC g { s.callers g with sub := .remove }) else none
  -- RunJobs: `wg.RemoveGroup(group)`
  | .subRemove g =>
    if g < cfg.ncallers ∧ (s.callers g).sub = .remove then
      some ({ s with results := s.results.filter (fun (j : Job) => j.grp != g) }.setC g
        { s.callers g with notify := false, sub := .closeEnd })
    else none
  -- RunJobs: `close(end)`, return
  | .subCloseEnd g =>
    if g < cfg.ncallers ∧ (s.callers g).sub = .closeEnd then
      some (s.setC g { s.callers g with endClosed := true, sub := .returned }) else none
  -- reader: `case <-g.NotifyResult(group)`
  | .rdNotify g =>
    if g < cfg.ncallers ∧ (s.callers g).rd = .select ∧ (s.callers g).notify = true then
      some (s.setC g { s.callers g with notify := false, rd := .results }) else none
  -- reader: `case <-ch: return`
  | .rdEnd g =>
    if g < cfg.ncallers ∧ (s.callers g).rd = .select ∧ (s.callers g).endClosed = true then
      some (s.setC g { s.callers g with rd := .exited }) else none
  -- reader: `g.Results(group)` (takes the group's results, oldest first)
  | .rdResults g =>
    if g < cfg.ncallers ∧ (s.callers g).rd = .results then
      some ({ s with rbatch := s.rbatch ++ (s.results.filter (fun (j : Job) => j.grp == g)).reverse,
                     results := s.results.filter (fun (j : Job) => j.grp != g) }.setC g
        { s.callers g with rd := .deliver })
    else none
  -- reader of j.grp: `resFunc(r.Data, r.Err); w.Done()` for the next result of its slice
  | .rdDeliver j =>
    if j.grp < cfg.ncallers ∧ (s.callers j.grp).rd = .deliver ∧
        s.rbatch.find? (fun (k : Job) => k.grp == j.grp) = some j then
      some ({ s with rbatch := s.rbatch.erase j, delivered := s.delivered ++ [j],
                     panicked := s.panicked || decide ((s.callers j.grp).wait = 0) }.setC j.grp
        { s.callers j.grp with wait := (s.callers j.grp).wait - 1 })
    else none
  -- reader: slice exhausted, back to the select
  | .rdBatchEnd g =>
    if g < cfg.ncallers ∧ (s.callers g).rd = .deliver ∧ s.rbatch.find? (fun (k : Job) => k.grp == g) = none then
      some (s.setC g { s.callers g with rd := .select }) else none
  -- runQueuing: `case item := <-wg.input`
  | .qRecv j =>
    if s.q = .select ∧ s.input = some j then some { s with input := none, q := .add j } else none
  -- runQueuing: `wg.queue.Add(item)`
  | .qAdd j =>
    if s.q = .add j then some { s with queue := s.queue ++ [j], q := .notify } else none
  -- runQueuing: `select { case wg.chInputNotify <- struct{}{}: default: }`
  | .qNotify =>
    if s.q = .notify then some { s with inputNotify := true, q := .select } else none
  -- runQueuing after the stop signal: drain `input`
  | .qDrainRecv j =>
    if s.q = .drain ∧ s.input = some j then some { s with input := none, q := .drainAdd j } else none
  | .qDrainEmpty =>
    if s.q = .drain ∧ s.input = none then some { s with q := .sendStop } else none
  | .qDrainAdd j =>
    if s.q = .drainAdd j then some { s with queue := s.queue ++ [j], q := .drain } else none
  -- `wg.chStopProcessing <- struct{}{}` meets `case <-wg.chStopProcessing` of runProcessing
  | .qSendStop =>
    if s.q = .sendStop ∧ s.p = .select then some { s with q := .exited, p := .len true } else none
  -- runProcessing: `case <-wg.chInputNotify`
  | .pNotify =>
    if s.p = .select ∧ s.inputNotify = true then some { s with inputNotify := false, p := .len false } else none
  -- processQueue: `if wg.queue.Len() == 0 { break }`
  | .pLen f =>
    if s.p = .len f then
      some { s with p := if s.queue = [] then (if f then .exited else .select) else .pop f }
    else none
  -- processQueue: `wg.queue.Pop()` returns an error: break
  | .pPopEmpty f =>
    if s.p = .pop f ∧ s.queue = [] then some { s with p := if f then .exited else .select } else none
  -- processQueue: `wg.queue.Pop()`
  | .pPop f j =>
    if s.p = .pop f ∧ s.queue.head? = some j then some { s with queue := s.queue.tail, p := .doJob f j } else none
  -- doJob: `activeWorkers < maxWorkers`: new worker, `go func`
  | .pSpawnNew f j =>
    if s.p = .doJob f j ∧ s.active < cfg.maxWorkers then
      some { s with active := s.active + 1, wStart := s.wStart ++ [j], p := .len f }
    else none
  -- doJob: `wkr = <-wg.workers`, `go func`
  | .pSpawnReuse f j =>
    if s.p = .doJob f j ∧ ¬ s.active < cfg.maxWorkers ∧ 0 < s.idle then
      some { s with idle := s.idle - 1, wStart := s.wStart ++ [j], p := .len f }
    else none
  -- worker.Do: `ctx.Err() == nil`
  | .wCheckOk j =>
    if j ∈ s.wStart then
      some { s with wStart := s.wStart.erase j, wRun := s.wRun ++ [j], started := s.started ++ [j] } else none
  -- worker.Do: `ctx.Err() != nil` (only possible once svcChStop is closed)
  | .wCheckErr j =>
    if j ∈ s.wStart ∧ s.stopped = true then
      some { s with wStart := s.wStart.erase j, wStore := s.wStore ++ [j], skipped := s.skipped ++ [j] } else none
  -- the job function returns — or panics: `runWorkItem` (since "fix: worker group: a panicking work
  -- item becomes an error result") recovers the panic into an error result and `worker.Do` carries on
  -- exactly as after a normal return (result stored, worker put back once): one and the same step;
  -- which jobs panic is `cfg.panics`, visible only in the observation (Spec/C14 `observeCaller`)
  | .wRun j =>
    if j ∈ s.wRun ∧ (cfg.blocking j = false ∨ (s.callers j.grp).cancelled = true ∨ s.stopped = true) then
      some { s with wRun := s.wRun.erase j, wStore := s.wStore ++ [j] } else none
  -- storeResult: prepend, non-blocking notify
  | .wStore j =>
    if j ∈ s.wStore then
      some ({ s with wStore := s.wStore.erase j, results := j :: s.results, wPut := s.wPut + 1 }.setC j.grp
        { s.callers j.grp with notify := true })
    else none
  -- worker.Do: `select { case w.Queue <- w: default: }`
  | .wPut =>
    if 0 < s.wPut then
      some { s with wPut := s.wPut - 1,
                    idle := if s.idle < cfg.maxWorkers then s.idle + 1 else s.idle,
                    dropped := if s.idle < cfg.maxWorkers then s.dropped else s.dropped + 1 }
    else none
  -- Stop: `wg.stopMu.Lock()` announces the writer …
  | .tLockReq =>
    if s.t = .lock then some { s with wPending := true, t := .lockWait } else none
  -- … and proceeds when the last reader has left
  | .tLockAcq =>
    if s.t = .lockWait ∧ s.readers = 0 then some { s with wPending := false, wHeld := true, t := .set } else none
  -- Stop: `wg.queueClosed.Store(true)`
  | .tSet =>
    if s.t = .set then some { s with queueClosed := true, t := if cfg.fixed then .unlock else .send } else none
  | .tUnlock =>
    if s.t = .unlock then some { s with wHeld := false, t := .send } else none
  -- `wg.chStopInputs <- struct{}{}` meets `case <-wg.chStopInputs` of runQueuing
  | .tSend =>
    if s.t = .send ∧ s.q = .select then
      some { s with t := .done, q := if cfg.fixed then .drain else .sendStop } else none

def enabled (cfg : Cfg) (s : State) (l : Label) : Bool := (step cfg s l).isSome

/-- run a schedule (list of labels); `none` if some label is not enabled when its turn comes -/
def runSched (cfg : Cfg) : State → List Label → Option State
  | s, [] => some s
  | s, l :: ls => match step cfg s l with
    | some s' => runSched cfg s' ls
    | none => none

/-- reachable states: every schedule, every interleaving -/
inductive Reach (cfg : Cfg) : State → Prop
  | init : Reach cfg (init cfg)
  | step {s s' : State} (l : Label) : Reach cfg s → step cfg s l = some s' → Reach cfg s'

/-- states reachable from `s` -/
inductive Steps (cfg : Cfg) (s : State) : State → Prop
  | refl : Steps cfg s s
  | step {s' s'' : State} (l : Label) : Steps cfg s s' → step cfg s' l = some s'' → Steps cfg s s''

/-! ### derived quantities -/

def optList (o : Option Job) : List Job := match o with | some j => [j] | none => []

def QPc.hand : QPc → List Job
  | .add j | .drainAdd j => [j]
  | _ => []

def PPc.hand : PPc → List Job
  | .doJob _ j => [j]
  | _ => []

/-- number of jobs satisfying `f` anywhere between acceptance and `resFunc` -/
def pipe (s : State) (f : Job → Bool) : Nat :=
  (optList s.input).countP f + s.q.hand.countP f + s.queue.countP f + s.p.hand.countP f +
  s.wStart.countP f + s.wRun.countP f + s.wStore.countP f + s.results.countP f + s.rbatch.countP f

/-- jobs satisfying `f` that are accepted but whose worker has not yet looked at its ctx -/
def prePipe (s : State) (f : Job → Bool) : Nat :=
  (optList s.input).countP f + s.q.hand.countP f + s.queue.countP f + s.p.hand.countP f + s.wStart.countP f

/-- `Do` refused the current job -/
def SubPc.failing : SubPc → Bool
  | .runlockFail | .failDone => true
  | _ => false

/-- the submission loop is over -/
def SubPc.finished : SubPc → Bool
  | .wait | .remove | .closeEnd | .returned => true
  | _ => false

/-- worker goroutines that exist (a worker is "busy" until its put-back) -/
def busy (s : State) : Nat := s.wStart.length + s.wRun.length + s.wStore.length + s.wPut

/-- `Do` has been entered after `wait.Add(1)` and neither returned nil nor was `wait.Done()` called -/
def SubPc.inDo : SubPc → Bool
  | .doCtx | .rlock | .closedCheck | .select | .runlockFail | .failDone => true
  | _ => false

/-- holds `stopMu.RLock` -/
def SubPc.holdsR : SubPc → Bool
  | .closedCheck | .select | .runlockOk | .runlockFail => true
  | _ => false

/-- `wait.Wait()` has returned -/
def SubPc.past : SubPc → Bool
  | .remove | .closeEnd | .returned => true
  | _ => false

/-- the job belongs to group `g` -/
def isGrp (g : Nat) : Job → Bool := fun j => j.grp == g

/-- `runQueuing` has taken the stop signal -/
def QPc.stopping : QPc → Bool
  | .drain | .drainAdd _ | .sendStop | .exited => true
  | _ => false

/-- `runQueuing` no longer reads `input` -/
def QPc.afterDrain : QPc → Bool
  | .sendStop | .exited => true
  | _ => false

/-- `runQueuing` will still wake the processing loop (notify or stop signal) without reading `input` first -/
def QPc.pushes : QPc → Bool
  | .notify | .drain | .drainAdd _ | .sendStop => true
  | _ => false

/-- the processing loop is in the last `processQueue` (or done) -/
def PPc.final : PPc → Bool
  | .len f | .pop f | .doJob f _ => f
  | .exited => true
  | .select => false

/-- the processing loop is inside `processQueue` and will test `Len()` again -/
def PPc.working : PPc → Bool
  | .len _ | .pop _ | .doJob _ _ => true
  | _ => false

def TPc.started : TPc → Bool
  | .idle => false
  | _ => true
def TPc.pending : TPc → Bool
  | .lockWait => true
  | _ => false
def TPc.held : TPc → Bool
  | .set | .unlock => true
  | _ => false
def TPc.closed : TPc → Bool
  | .unlock | .send | .done => true
  | _ => false
def TPc.isDone : TPc → Bool
  | .done => true
  | _ => false

/-- `Do` has not yet decided about the current job -/
def SubPc.offering : SubPc → Bool
  | .doCtx | .rlock | .closedCheck | .select => true
  | _ => false

def sumTo (n : Nat) (f : Nat → Nat) : Nat :=
  match n with
  | 0 => 0
  | n + 1 => sumTo n f + f n

/-- some goroutine of the code (not the environment) can take a step -/
def CanStep (cfg : Cfg) (s : State) : Prop := ∃ l, l.isEnv = false ∧ enabled cfg s l = true

/-- a worker is inside a job function that waits for a cancellation that has not happened yet -/
def BlockedJob (cfg : Cfg) (s : State) : Prop :=
  ∃ j ∈ s.wRun, cfg.blocking j = true ∧ (s.callers j.grp).cancelled = false ∧ s.stopped = false

/-! ### direct use of the public API: the result store WITH its map entries, and `Queue`

`RunJobs` is one client of the worker group; `Do`, `NotifyResult`, `Results`, `RemoveGroup` and the type
`Queue` are exported and can be driven directly.  A direct client can do what `RunJobs` never does:
call `RemoveGroup(g)` while a job of group `g` is still running.  `storeResult` then finds no entry for
the group in `resultData` / `resultNotify` and takes its two `if !ok` arms (re-create the entry), which
no run of `RunJobs` reaches (`returned_all_delivered_once`: when `wait.Wait()` has returned nothing of the
group is left in the pipeline).  The transition system above abstracts from map-entry existence; the
model below keeps it (`none` = no entry), says what must happen on those arms, and `Props/C14.lean`
proves that it refines the entry-less view the transition system uses (`direct_spec_of_model`). -/

/-- `resultData` / `resultNotify` with explicit map entries: `none` = no entry for the group -/
structure Store where
  data   : Nat → Option (List Nat) := fun _ => none   -- results of the group, newest first
  notify : Nat → Option Bool := fun _ => none         -- the group's channel (cap 1) exists; it holds a token

def setAt {α : Type} (f : Nat → α) (g : Nat) (v : α) : Nat → α := fun k => if k = g then v else f k

/-- `Do`'s `wg.mu` section: `if _, ok := m[group]; !ok { create }` for both maps -/
def Store.ensure (st : Store) (g : Nat) : Store :=
  { data := if (st.data g).isSome then st.data else setAt st.data g (some []),
    notify := if (st.notify g).isSome then st.notify else setAt st.notify g (some false) }

/-- the data map after `storeResult`'s first `if !ok` arm (`found` = the `ok` of the map read) -/
def Store.dataEnsured (st : Store) (g : Nat) (found : Bool) : Nat → Option (List Nat) :=
  if !found then setAt st.data g (some []) else st.data

/-- the notify map after `storeResult`'s second `if !ok` arm -/
def Store.notifyEnsured (st : Store) (g : Nat) (found : Bool) : Nat → Option Bool :=
  if !found then setAt st.notify g (some false) else st.notify

/-- `storeResult(group)(r)`: re-create missing entries, prepend the result, non-blocking send of a token
(a missing entry would read as a nil slice — the prepend works — and as a nil channel — the send takes
the `default` arm and the token is lost: that is what the second arm prevents) -/
def Store.store (st : Store) (g r : Nat) : Store :=
  let d := st.dataEnsured g (st.data g).isSome
  let n := st.notifyEnsured g (st.notify g).isSome
  { data := setAt d g (some (r :: (d g).getD [])),
    notify := setAt n g ((n g).map fun _ => true) }

/-- `Results(group)`: hands out the group's results oldest first and leaves an empty entry -/
def Store.results (st : Store) (g : Nat) : List Nat × Store :=
  (((st.data g).getD []).reverse, { st with data := setAt st.data g (some []) })

/-- `select { case <-wg.NotifyResult(group): true; default: false }`: `NotifyResult` creates a missing channel -/
def Store.poll (st : Store) (g : Nat) : Bool × Store :=
  ((st.notify g).getD false, { st with notify := setAt st.notify g (some false) })

/-- `RemoveGroup(group)` -/
def Store.remove (st : Store) (g : Nat) : Store :=
  { data := setAt st.data g none, notify := setAt st.notify g none }

/-- `ch := wg.NotifyResult(group)` without receiving: a missing channel is created (empty) -/
def Store.watch (st : Store) (g : Nat) : Store :=
  { st with notify := if (st.notify g).isSome then st.notify else setAt st.notify g (some false) }

/-- A channel a client KEEPS for a group (the reader of `RunJobs` is parked on the channel object it fetched
before it went to sleep; it fetches the group's channel again only after a wake-up).  It is either still
the channel in the map (`attached`: what is sent to the group's channel arrives here) or one that
`RemoveGroup` of THAT group has dropped from the map since (`detached`: it keeps the token it had, nobody
can send on it any more — a later store creates a new channel for the group). -/
inductive Held
  | none
  | attached
  | detached (token : Bool)
deriving DecidableEq, Repr, Inhabited

/-- `Queue.Pop`: error on the empty queue (which stays as it is), otherwise the head -/
def queuePop (q : List Nat) : Option Nat × List Nat :=
  match q with
  | [] => (none, [])
  | v :: r => (some v, r)

/-- one call of a direct client (the harness waits until every goroutine is durably blocked after each) -/
inductive DOp
  | submit (g v : Nat)          -- `Do(ctx, job v, g)` with a live ctx; the job function waits for the harness
  | submitCancelled (g : Nat)   -- `Do` with a cancelled ctx: refused before anything is touched
  | finish (g v : Nat)          -- the harness lets the RUNNING job function `v` (of group `g`) return
  | remove (g : Nat) | results (g : Nat) | poll (g : Nat)
  | qAdd (vs : List Nat) | qPop | qLen      -- a `Queue` value of its own
  | watch (g : Nat)             -- `ch[g] = NotifyResult(g)`: the client fetches the group's channel and KEEPS it
  | pollHeld (g : Nat)          -- `select { case <-ch[g]: true; default: false }` on the channel kept for `g`
deriving DecidableEq, Repr, Inhabited

inductive DOut
  | accepted (running : Nat)    -- `Do` returned nil; number of job functions running afterwards
  | refused                     -- `Do` returned an error
  | finished (running : Nat)
  | unit
  | vals (l : List Nat)
  | token (b : Bool)
  | popped (v : Option Nat)
  | len (n : Nat)
deriving DecidableEq, Repr, Inhabited

structure DState where
  store : Store := {}
  outstanding : Nat := 0        -- accepted and not finished (running or queued behind busy workers)
  queue : List Nat := []
  held : Nat → Held := fun _ => .none   -- the channels the client keeps, per group

/-- `RemoveGroup(g)` seen from the channel kept for `g`: it leaves the map with the token it holds.  ONLY
the channel kept for `g` is touched (`dstep`: `setAt d.held g …`); the channel of every other group —
however many groups there are, whatever state they are in — stays the group's channel -/
def Held.cutOff (h : Held) (token : Bool) : Held :=
  match h with
  | .attached => .detached token
  | h => h

/-- a non-blocking receive on the channel kept for `g`: outcome, store, kept channels -/
def pollHeldStep (st : Store) (held : Nat → Held) (g : Nat) : Bool × Store × (Nat → Held) :=
  match held g with
  | .none => (false, st, held)
  | .attached => ((st.notify g).getD false, { st with notify := setAt st.notify g ((st.notify g).map fun _ => false) }, held)
  | .detached b => (b, st, setAt held g (.detached false))

/-- one direct call on a group with `workers` workers (jobs start in FIFO order as workers are free, so
`min workers outstanding` job functions are running) -/
def dstep (workers : Nat) (d : DState) : DOp → DOut × DState
  | .submit g _ =>
    (.accepted (min workers (d.outstanding + 1)),
     { d with store := d.store.ensure g, outstanding := d.outstanding + 1 })
  | .submitCancelled _ => (.refused, d)
  | .finish g v =>
    (.finished (min workers (d.outstanding - 1)),
     { d with store := d.store.store g v, outstanding := d.outstanding - 1 })
  | .remove g =>
    (.unit, { d with store := d.store.remove g, held := setAt d.held g ((d.held g).cutOff ((d.store.notify g).getD false)) })
  | .results g => (.vals (d.store.results g).1, { d with store := (d.store.results g).2 })
  | .poll g => (.token (d.store.poll g).1, { d with store := (d.store.poll g).2 })
  | .qAdd vs => (.unit, { d with queue := d.queue ++ vs })
  | .qPop => (.popped (queuePop d.queue).1, { d with queue := (queuePop d.queue).2 })
  | .qLen => (.len d.queue.length, d)
  | .watch g => (.unit, { d with store := d.store.watch g, held := setAt d.held g .attached })
  | .pollHeld g =>
    (.token (pollHeldStep d.store d.held g).1,
     { d with store := (pollHeldStep d.store d.held g).2.1, held := (pollHeldStep d.store d.held g).2.2 })

def drun (workers : Nat) : DState → List DOp → List DOut
  | _, [] => []
  | d, op :: ops => (dstep workers d op).1 :: drun workers (dstep workers d op).2 ops

/-- the state after the calls -/
def dend (workers : Nat) : DState → List DOp → DState
  | d, [] => d
  | d, op :: ops => dend workers (dstep workers d op).2 ops

/-- the client keeps the live channel of group `g` and a token is on it: a reader parked there wakes up -/
def Woken (d : DState) (g : Nat) : Prop := d.held g = .attached ∧ d.store.notify g = some true

/-! ### the pre-fix witness -/

/-- the pre-fix code, one worker, one caller with one job -/
def cfgOld : Cfg := { fixed := false, maxWorkers := 1, ncallers := 1, jobs := fun _ => 1, blocking := fun _ => false }

/-- `Do` passes the `queueClosed` test; `Stop` runs to completion and both loops leave; then `Do`'s
select takes the send into `input` (buffer free) rather than the closed `svcChStop`; `RunJobs` waits -/
def schedOld : List Label :=
  [.subAdd 0, .subCtx 0, .subClosed 0, .stopBegin, .tSet, .tSend, .qSendStop, .pLen true, .subSend 0, .subLoopEnd 0]

def stuckOld : State := (runSched cfgOld (init cfgOld) schedOld).getD (init cfgOld)

/-! ### termination measure: an upper bound on the number of steps still possible -/

def SubPc.weight : SubPc → Nat
  | .loop => 10 | .doCtx => 9 | .rlock => 8 | .closedCheck => 7 | .select => 6 | .runlockOk => 11
  | .runlockFail => 5 | .failDone => 4 | .wait => 3 | .remove => 2 | .closeEnd => 1 | .returned => 0
def RdPc.weight : RdPc → Nat
  | .select => 1 | .results => 3 | .deliver => 2 | .exited => 0
def QPc.weight : QPc → Nat
  | .select => 0 | .add _ => 0 | .notify => 4 | .drain => 4 | .drainAdd _ => 4 | .sendStop => 3 | .exited => 0
def PPc.weight : PPc → Nat
  | .select => 0 | .len _ => 2 | .pop _ => 1 | .doJob _ _ => 0 | .exited => 0
def TPc.weight : TPc → Nat
  | .idle => 10 | .lock => 9 | .lockWait => 8 | .set => 7 | .unlock => 6 | .send => 5 | .done => 0

/-- per caller: 23 for every job not yet offered, the pcs, a pending result notification, a pending cancel -/
def Caller.weight (njobs : Nat) (c : Caller) : Nat :=
  (njobs - c.next) * 23 + c.sub.weight + c.rd.weight + 3 * c.notify.toNat + (!c.cancelled).toNat

def callerWeight (cfg : Cfg) (g : Nat) (c : Caller) : Nat := c.weight (cfg.jobs g)

def measure (cfg : Cfg) (s : State) : Nat :=
  sumTo cfg.ncallers (fun g => callerWeight cfg g (s.callers g)) +
  17 * (optList s.input).length + 16 * s.q.hand.length + s.q.weight + 11 * s.queue.length +
  11 * s.p.hand.length + s.p.weight + 3 * s.inputNotify.toNat +
  8 * s.wStart.length + 7 * s.wRun.length + 6 * s.wStore.length + s.wPut +
  s.results.length + s.rbatch.length + s.t.weight

end AutoVerif.C14
