/-
C20 — model of the simulator's verdict, plan (de)serialisation and summary
statistics.  Core Lean only.

Sources mirrored (current /repo tree):
  §1  tools/simulator/telemetry/progress.go   `track`, `checkProgress`, `Close`, `AllProgressComplete`
      cmd/simulator/main.go                    exit status = `!progress.AllProgressComplete()`
      go-pretty v6.4.7 progress.Tracker        `Increment`, `MarkAsDone`, `MarkAsErrored`, `stop`  (trusted, modelled)
  §2  tools/simulator/simulate/loader/ocr3transmit.go  `calculateExpectedPerformEvents`, `logTriggersUpkeep`
  §3  tools/simulator/config/simulation.go     `SimulationPlan.Encode`, `DecodeSimulationPlan`
      (encoding/json struct handling is modelled by field schemas: key, kind, omitempty)
  §4  tools/simulator/node/statistics.go       `findMedianAndSplitData`, `findLowestAndOutliers`, `findHighestAndOutliers`
      tools/simulator/node/report.go           the quartile part of `ReportResults`

Nondeterminism is explicit: which branch a `select` takes, and the order in
which the tracker goroutines, the `checkProgress` goroutine and `Close` run,
are an event list (`Sel`, `Ev`) the theorems quantify over.
-/
namespace AutoVerif.C20

/-! ## §1 progress tracking and the verdict -/

/-- outcome of one `select` in the loop of `track` -/
inductive Sel where
  | inc (n : Nat)   -- `case increment := <-chIncrements`
  | done            -- `case <-t.chDone` (possible only after `Close`)
deriving DecidableEq, Repr

/-- the part of go-pretty's `progress.Tracker` the verdict depends on -/
structure Tracker where
  total : Nat            -- `Total` (mutable: `stop`, `MarkAsDone`, `MarkAsErrored` assign it)
  value : Nat := 0
  done  : Bool := false
  err   : Bool := false
deriving DecidableEq, Repr

/-- `Tracker.stop`: `done = true; if value > Total { Total = value }` -/
def Tracker.stop (t : Tracker) : Tracker :=
  { t with done := true, total := if t.value > t.total then t.value else t.total }

/-- `Tracker.Increment` / `incrementWithoutLock` -/
def Tracker.increment (t : Tracker) (n : Nat) : Tracker :=
  if t.done then t
  else
    let t' := { t with value := t.value + n }
    if t'.total > 0 ∧ t'.value ≥ t'.total then t'.stop else t'

/-- `Tracker.MarkAsDone` -/
def Tracker.markAsDone (t : Tracker) : Tracker := ({ t with total := t.value }).stop

/-- `Tracker.MarkAsErrored` (no effect on a tracker that is already done) -/
def Tracker.markAsErrored (t : Tracker) : Tracker :=
  if t.done then t else ({ t with total := t.value, err := true }).stop

/-- state of one `track` goroutine -/
structure TState where
  total  : Nat        -- the `total` argument of `track` (`negativeAssert := total == 0`)
  tr     : Tracker
  failed : Nat        -- what this goroutine has added to `t.failed`
  hist   : List Sel   -- ghost: the selections its loop has consumed so far
deriving DecidableEq, Repr

def TState.init (total : Nat) : TState := { total := total, tr := { total := total }, failed := 0, hist := [] }

/-- the body of `for !tracker.IsDone() { select … }` for one selection -/
def trackBody (s : TState) : Sel → TState
  | .inc n =>
    if s.total = 0 then { s with tr := s.tr.markAsErrored, failed := s.failed + 1 }
    else { s with tr := s.tr.increment n }
  | .done =>
    let tr1 := if s.total = 0 then s.tr.markAsDone else s.tr
    if tr1.value ≠ s.total then { s with tr := tr1.markAsErrored, failed := s.failed + 1 }
    else { s with tr := tr1 }

/-- one loop iteration, guarded by the loop condition -/
def trackStep (s : TState) (e : Sel) : TState :=
  if s.tr.done then s else { trackBody s e with hist := s.hist ++ [e] }

/-- `track namespace total chIncrements` after the given sequence of selections -/
def track (total : Nat) (sels : List Sel) : TState := sels.foldl trackStep (TState.init total)

/-- a tracker counts towards success iff it is done and has not failed -/
def TState.ok (s : TState) : Bool := s.tr.done && s.failed == 0

/-- events of the whole `ProgressTelemetry` object -/
inductive Ev where
  | register (total : Nat)   -- `Register`: tracker appended, goroutine started
  | sel (i : Nat) (e : Sel)  -- the goroutine of tracker `i` runs one loop iteration
  | tick                     -- `checkProgress`: `case <-ticker.C`
  | close                    -- `Close()`: `close(t.chDone)`
  | finish                   -- `checkProgress`: `case <-t.chDone` … `writer.Stop()`, loop left
  | earlyExit                -- only in the tree before b727630 (`stepOld`): `checkProgress` evaluates
                             -- `for t.writer.IsRenderInProgress()` before the goroutine started by
                             -- `go t.writer.Render()` has set that flag, so the loop body never runs
deriving DecidableEq, Repr

def Ev.isRegister : Ev → Bool
  | .register _ => true
  | _ => false

structure PState where
  ts      : List TState := []
  closed  : Bool := false
  decided : Option Bool := none   -- `t.success` once `chComplete` is closed
deriving DecidableEq, Repr

def PState.failed (s : PState) : Nat := (s.ts.map (·.failed)).sum
def PState.allDone (s : PState) : Bool := s.ts.all (·.tr.done)

def modifyAt {α} (f : α → α) : Nat → List α → List α
  | _, [] => []
  | 0, x :: xs => f x :: xs
  | i + 1, x :: xs => x :: modifyAt f i xs

/--
`tick` (tree after `fix: simulator: do not take the verdict before any progress tracker is registered`):
`if writer.Length() > 0 && writer.LengthActive() == 0 { writer.Stop() }`, after which the loop ends and
`success = (Length() == LengthDone() && failed == 0)`; with no active tracker the first conjunct is true.
The renderer's lists lag the trackers' `done` flags by at most one 100 ms frame; the model identifies the two.
`finish`: 500 ms after `Close` the writer is stopped and the same expression is evaluated;
`Length() == LengthDone()` iff every tracker is done.
`earlyExit` cannot happen any more (`fix: simulator: the progress check waits for the renderer before
watching it`: `for !t.writer.IsRenderInProgress() { time.Sleep(time.Millisecond) }` precedes the loop): no-op.
-/
def step (s : PState) : Ev → PState
  | .register T => { s with ts := s.ts ++ [TState.init T] }
  | .sel i e =>
    if e = .done ∧ s.closed = false then s
    else { s with ts := modifyAt (trackStep · e) i s.ts }
  | .tick =>
    if s.decided.isSome then s
    else if !s.ts.isEmpty && s.allDone then { s with decided := some (s.failed == 0) } else s
  | .close => { s with closed := true }
  | .finish =>
    if s.decided.isSome || !s.closed then s
    else { s with decided := some (s.allDone && s.failed == 0) }
  | .earlyExit => s

/-- `step` before the two fixes of `checkProgress`: the ticker branch was
`if writer.LengthActive() == 0 { writer.Stop() }`, and the loop condition could be evaluated before `Render`
had begun — then nothing has been rendered, `LengthDone() = 0`, and `success = (Length() == 0 && failed == 0)`
is stored at once. -/
def stepOld (s : PState) : Ev → PState
  | .tick =>
    if s.decided.isSome then s
    else if s.allDone then { s with decided := some (s.failed == 0) } else s
  | .earlyExit =>
    if s.decided.isSome then s
    else { s with decided := some (s.ts.isEmpty && s.failed == 0) }
  | ev => step s ev

def runOld (evs : List Ev) : PState := evs.foldl stepOld {}
def verdictOld (evs : List Ev) : Option Bool := (runOld evs).decided

def run (evs : List Ev) : PState := evs.foldl step {}

/-- what `AllProgressComplete()` returns (`none`: it is still blocked) -/
def verdict (evs : List Ev) : Option Bool := (run evs).decided

/-- exit status of `cmd/simulator`: `if !progress.AllProgressComplete() { os.Exit(1) }` -/
def exitCode (v : Bool) : Nat := if v then 0 else 1

/-! ## §2 the expected number of perform events

What is counted against it: `OCR3TransmitLoader.Load` runs when a block is produced, moves the queued transmits
into the block and calls `progress.Increment(namespace, Σ countPerformEvents(report))` — the number of results
in the reports put into THAT block.  A report transmitted after the last block stays in `transmitted` (it shows
up in the transmit table with block `<nil>`) but is never counted: the verdict is about performs included in
blocks.  The same report sent twice in a round is rejected by `Transmit` (`report already transmitted`). -/

inductive UType where
  | conditional | logTrigger
deriving DecidableEq, Repr

/-- `chain.SimulatedUpkeep` (fields read by `calculateExpectedPerformEvents`) -/
structure Upkeep where
  expected       : Bool
  type           : UType
  eligibleAt     : List Int
  createInBlock  : Int
  triggeredBy    : String
  alwaysEligible : Bool
deriving DecidableEq, Repr

/-- `chain.SimulatedLog` -/
structure LogEv where
  triggerAt    : Int
  triggerValue : String
deriving DecidableEq, Repr

/-- `(*big.Int).Cmp`: −1, 0, +1 -/
def bigCmp (a b : Int) : Int := if a < b then -1 else if a = b then 0 else 1

/-- `logTriggersUpkeep` -/
def logTriggersUpkeep (l : LogEv) (u : Upkeep) : Bool :=
  if decide (l.triggerAt ≥ u.createInBlock) && (l.triggerValue == u.triggeredBy) then
    if u.alwaysEligible then true
    else u.eligibleAt.any fun b => decide (b ≥ l.triggerAt)
  else false

def expectedOf (logs : List LogEv) (u : Upkeep) : Nat :=
  if !u.expected then 0
  else match u.type with
    | .conditional => u.eligibleAt.length
    | .logTrigger => (logs.filter fun l => logTriggersUpkeep l u).length

/-- `calculateExpectedPerformEvents` over the generated upkeeps and logs -/
def expectedPerforms (ups : List Upkeep) (logs : List LogEv) : Nat :=
  (ups.map (expectedOf logs)).sum

/-! ### the transmit loader (`OCR3TransmitLoader.Transmit` / `Load`)

Each call of `Transmit` is ONE critical section (`tl.mu.Lock()` is its first statement): the key
`hash(gob(report, round))` is looked up in `transmitted`; a known key is refused (`report already
transmitted`), a new one is queued and recorded.  `Load` (also under the lock) empties the queue into the
block and increments the perform counter by the number of results in the queued reports.  Concurrent callers
are therefore a sequence of submissions in some order — the order is the schedule, an explicit argument. -/

structure TLState where
  transmitted : List String := []   -- keys of `tl.transmitted`
  queue       : List String := []   -- keys of `tl.queue`, in order
deriving DecidableEq, Repr

/-- `Transmit`: `(state', accepted)` -/
def TLState.transmit (s : TLState) (key : String) : TLState × Bool :=
  if s.transmitted.contains key then (s, false)
  else ({ transmitted := key :: s.transmitted, queue := s.queue ++ [key] }, true)

/-- `Load`: `(state', keys put into the block)` -/
def TLState.load (s : TLState) : TLState × List String := ({ s with queue := [] }, s.queue)

/-- the keys accepted while the submissions `keys` are served in that order -/
def acceptedFrom (s : TLState) : List String → List String
  | [] => []
  | k :: ks => if (s.transmit k).2 then k :: acceptedFrom (s.transmit k).1 ks else acceptedFrom (s.transmit k).1 ks

def accepted (keys : List String) : List String := acceptedFrom {} keys

/-! ### the simulated check pipeline (`CheckPipeline.CheckUpkeeps`, `isEligible`) and the perform history

Every payload of a batch is evaluated on its own, at ITS check block (`key.Trigger.BlockNumber`), and recorded
(`CheckID`, one contract-log line) at that block; the result carries the payload's upkeep id, trigger and work id.
`isEligible` scans the eligible blocks from the last one down to the first that is `≤ block` and answers
"not performed at any block of [eligible, block]".  `PerformTracker` appends the including block of every
perform of a conditional upkeep to that upkeep's history and never rewrites an entry (the pipeline reads the
slice it was handed after the tracker's lock is released). -/

/-- `isEligible(eligibles, performs, block)` -/
def isEligible (eligibles performs : List Int) (block : Int) : Bool :=
  match eligibles.reverse.find? (fun e => decide (block ≥ e)) with
  | none => false
  | some e => !(performs.any fun p => decide (e ≤ p) && decide (p ≤ block))

/-- the upkeep as a node's active tracker knows it (`none`: not active) -/
structure PUpkeep where
  conditional : Bool
  always      : Bool
  eligibleAt  : List Int
deriving DecidableEq, Repr

/-- `Eligible` of the result for one payload; `performs` is what `PerformsForUpkeepID` returns (recorded for
conditional upkeeps only) -/
def checkEligible (u : Option PUpkeep) (performs : List Int) (block : Int) : Bool :=
  match u with
  | none => false
  | some u => if u.always then true else isEligible u.eligibleAt (if u.conditional then performs else []) block

/-- `registerTransmitted` for one conditional upkeep: the history after the including blocks `blocks`, in order -/
def performHistory (blocks : List Int) : List Int := blocks.foldl (fun h b => h ++ [b]) []

/-! ## §3 plan encode / decode at the JSON-tree level -/

/-- scalar JSON values as the Go types of the plan produce them -/
inductive Leaf where
  | null
  | int (n : Int)       -- `int`, `uint64`, `*big.Int` (arbitrary precision)
  | str (s : String)
  | dur (ns : Int)      -- `config.Duration`: the string `time.Duration(ns).String()`; `ParseDuration` inverts it (trusted)
  | flt (tok : String)  -- `float64` as its shortest round-trip literal (opaque)
deriving DecidableEq, Repr

/-- a small JSON tree -/
inductive J where
  | leaf (l : Leaf)
  | arr (xs : List J)
  | obj (kv : List (String × J))

inductive Kind where
  | int | big | str | dur | flt
deriving DecidableEq, Repr

/-- one struct field as `encoding/json` sees it -/
structure Field where
  key  : String
  kind : Kind
  omitEmpty : Bool := false   -- `omitempty`
deriving DecidableEq, Repr

/-- Go zero value of a field -/
def Kind.zero : Kind → Leaf
  | .int => .int 0 | .big => .null | .str => .str "" | .dur => .dur 0 | .flt => .flt "0"

/-- values a Go field of that kind can hold -/
def Kind.conforms : Kind → Leaf → Bool
  | .int, .int _ => true
  | .big, .null => true
  | .big, .int _ => true
  | .str, .str _ => true
  | .dur, .dur _ => true
  | .flt, .flt _ => true
  | _, _ => false

/-- `omitempty`: the field holds its zero value -/
def isEmptyFor (k : Kind) (v : Leaf) : Bool := v == k.zero

/-- marshal a struct: fields in declaration order, `omitempty` fields dropped when empty -/
def encodeFields : List Field → List Leaf → List (String × J)
  | f :: fs, v :: vs =>
    if f.omitEmpty && isEmptyFor f.kind v then encodeFields fs vs
    else (f.key, .leaf v) :: encodeFields fs vs
  | _, _ => []

/-- first value stored under a key (the encoder never repeats a key) -/
def lookupKey (k : String) : List (String × J) → Option J
  | [] => none
  | (k', v) :: rest => if k' = k then some v else lookupKey k rest

/-- unmarshal one JSON value into a field: `null` leaves the zero value, a value of
another JSON type is an error -/
def decodeLeaf (k : Kind) : J → Option Leaf
  | .leaf .null => some k.zero
  | .leaf (.int n) => if k = .int ∨ k = .big then some (.int n) else none
  | .leaf (.str s) => if k = .str then some (.str s) else none
  | .leaf (.dur d) => if k = .dur then some (.dur d) else none
  | .leaf (.flt t) => if k = .flt then some (.flt t) else none
  | _ => none

def decodeField (o : List (String × J)) (f : Field) : Option Leaf :=
  match lookupKey f.key o with
  | none => some f.kind.zero
  | some j => decodeLeaf f.kind j

/-- unmarshal an object into a struct (absent keys keep the zero value, unknown keys are ignored) -/
def decodeFields : List Field → List (String × J) → Option (List Leaf)
  | [], _ => some []
  | f :: fs, o =>
    match decodeField o f, decodeFields fs o with
    | some v, some vs => some (v :: vs)
    | _, _ => none

/-- `config.Node` -/
def nodeSchema : List Field :=
  [⟨"totalNodeCount", .int, false⟩, ⟨"maxNodeServiceWorkers", .int, false⟩, ⟨"maxNodeServiceQueueSize", .int, false⟩]
/-- `config.Network` -/
def networkSchema : List Field := [⟨"maxLatency", .dur, false⟩]
/-- `config.RPC` -/
def rpcSchema : List Field :=
  [⟨"maxBlockDelay", .int, false⟩, ⟨"averageLatency", .int, false⟩, ⟨"errorRate", .flt, false⟩,
   ⟨"rateLimitThreshold", .int, false⟩]
/-- `config.Blocks` -/
def blocksSchema : List Field :=
  [⟨"genesisBlock", .big, false⟩, ⟨"blockCadence", .dur, false⟩, ⟨"blockCadenceJitter", .dur, false⟩,
   ⟨"durationInBlocks", .int, false⟩, ⟨"endPadding", .int, false⟩]
/-- `config.Event` (embedded first in every event type) -/
def eventSchema : List Field :=
  [⟨"type", .str, false⟩, ⟨"eventBlockNumber", .big, false⟩, ⟨"comment", .str, true⟩]
/-- `config.OCR3ConfigEvent` -/
def configSchema : List Field :=
  eventSchema ++
  [⟨"maxFaultyNodes", .int, false⟩, ⟨"encodedOffchainConfig", .str, false⟩, ⟨"maxRoundsPerEpoch", .int, false⟩,
   ⟨"deltaProgress", .dur, false⟩, ⟨"deltaResend", .dur, false⟩, ⟨"deltaInitial", .dur, false⟩,
   ⟨"deltaRound", .dur, false⟩, ⟨"deltaGrace", .dur, false⟩, ⟨"deltaCertifiedCommitRequest", .dur, false⟩,
   ⟨"deltaStage", .dur, false⟩, ⟨"maxQueryTime", .dur, false⟩, ⟨"maxObservationTime", .dur, false⟩,
   ⟨"maxShouldAcceptTime", .dur, false⟩, ⟨"maxShouldTransmitTime", .dur, false⟩]
/-- `config.GenerateUpkeepEvent` -/
def genSchema : List Field :=
  eventSchema ++
  [⟨"count", .int, false⟩, ⟨"startID", .big, false⟩, ⟨"eligibilityFunc", .str, true⟩, ⟨"offsetFunc", .str, true⟩,
   ⟨"upkeepType", .str, false⟩, ⟨"logTriggeredBy", .str, true⟩, ⟨"expected", .str, true⟩]
/-- `config.LogTriggerEvent` -/
def logSchema : List Field := eventSchema ++ [⟨"triggerValue", .str, false⟩]

def ocr3ConfigEventType : String := "ocr3config"
def generateUpkeepEventType : String := "generateUpkeeps"
def logTriggerEventType : String := "logTrigger"
def allExpected : String := "all"

/-- a `SimulationPlan`: every struct is the list of its field values in schema order -/
structure Plan where
  node            : List Leaf
  network         : List Leaf
  rpc             : List Leaf
  blocks          : List Leaf
  configEvents    : List (List Leaf)
  generateUpkeeps : List (List Leaf)
  logEvents       : List (List Leaf)
deriving DecidableEq, Repr

/-- `event.Type = …` (the first field of every event) -/
def setType (ty : String) : List Leaf → List Leaf
  | _ :: vs => .str ty :: vs
  | [] => []

def eventObjs (p : Plan) : List J :=
  p.configEvents.map (fun e => J.obj (encodeFields configSchema (setType ocr3ConfigEventType e))) ++
  p.generateUpkeeps.map (fun e => J.obj (encodeFields genSchema (setType generateUpkeepEventType e))) ++
  p.logEvents.map (fun e => J.obj (encodeFields logSchema (setType logTriggerEventType e)))

def header (p : Plan) : List (String × J) :=
  [("node", .obj (encodeFields nodeSchema p.node)), ("p2pNetwork", .obj (encodeFields networkSchema p.network)),
   ("rpc", .obj (encodeFields rpcSchema p.rpc)), ("blocks", .obj (encodeFields blocksSchema p.blocks))]

/-- `SimulationPlan.Encode` (current tree): `make([]interface{}, 0, n)` then three append loops -/
def encode (p : Plan) : J :=
  .obj (header p ++ [("events", .arr (eventObjs p))])

/-- `SimulationPlan.Encode` before `fix: simulator: encode a simulation plan without leading null events`:
`make([]interface{}, len(ConfigEvents)+len(GenerateUpkeeps))` — that many `nil`s, then the appends -/
def encodeOld (p : Plan) : J :=
  .obj (header p ++
    [("events", .arr (List.replicate (p.configEvents.length + p.generateUpkeeps.length) (.leaf .null) ++ eventObjs p))])

inductive DecErr where
  | notObject                 -- `json.Unmarshal(encoded, &plan)` fails
  | header                    -- … on one of node / p2pNetwork / rpc / blocks
  | events                    -- `events` is not an array
  | event (idx : Nat)         -- an element cannot be read as `Event`
  | typed (idx : Nat)         -- an element cannot be read as the struct its type selects
  | unrecognized (idx : Nat)  -- `unrecognized event at index %d`
deriving DecidableEq, Repr

deriving instance DecidableEq for Except

def decodeStruct (sch : List Field) (top : List (String × J)) (key : String) : Option (List Leaf) :=
  match lookupKey key top with
  | none => some (sch.map (·.kind.zero))
  | some (.leaf .null) => some (sch.map (·.kind.zero))
  | some (.obj o) => decodeFields sch o
  | some _ => none

/-- `if generateEvent.Expected == "" { generateEvent.Expected = AllExpected }` (the last field) -/
def defaultExpected (e : List Leaf) : List Leaf :=
  match e.getLast? with
  | some (.str "") => e.dropLast ++ [.str allExpected]
  | _ => e

structure Acc where
  cfg : List (List Leaf) := []
  gen : List (List Leaf) := []
  log : List (List Leaf) := []

/-- the `for idx, rawEvent := range events.Events` loop -/
def decodeEvents : Nat → List J → Acc → Except DecErr Acc
  | _, [], acc => .ok acc
  | idx, raw :: rest, acc =>
    -- `json.Unmarshal(rawEvent, &event)`: `null` is a no-op (Type stays ""), a non-object is an error
    match raw with
    | .leaf .null => .error (.unrecognized idx)
    | .obj o =>
      match decodeFields eventSchema o with
      | none => .error (.event idx)
      | some hdr =>
        match hdr.head? with
        | some (.str ty) =>
          if ty = ocr3ConfigEventType then
            match decodeFields configSchema o with
            | none => .error (.typed idx)
            | some e => decodeEvents (idx + 1) rest { acc with cfg := acc.cfg ++ [e] }
          else if ty = generateUpkeepEventType then
            match decodeFields genSchema o with
            | none => .error (.typed idx)
            | some e => decodeEvents (idx + 1) rest { acc with gen := acc.gen ++ [defaultExpected e] }
          else if ty = logTriggerEventType then
            match decodeFields logSchema o with
            | none => .error (.typed idx)
            | some e => decodeEvents (idx + 1) rest { acc with log := acc.log ++ [e] }
          else .error (.unrecognized idx)
        | _ => .error (.event idx)
    | _ => .error (.event idx)

/-- `DecodeSimulationPlan` -/
def decode : J → Except DecErr Plan
  | .obj top =>
    match decodeStruct nodeSchema top "node", decodeStruct networkSchema top "p2pNetwork",
          decodeStruct rpcSchema top "rpc", decodeStruct blocksSchema top "blocks" with
    | some n, some nw, some r, some b =>
      let evs : Option (List J) :=
        match lookupKey "events" top with
        | none => some []
        | some (.leaf .null) => some []
        | some (.arr xs) => some xs
        | some _ => none
      match evs with
      | none => .error .events
      | some xs =>
        match decodeEvents 0 xs {} with
        | .error e => .error e
        | .ok acc =>
          .ok { node := n, network := nw, rpc := r, blocks := b,
                configEvents := acc.cfg, generateUpkeeps := acc.gen, logEvents := acc.log }
    | _, _, _, _ => .error .header
  | _ => .error .notObject

/-- `saveSimulationPlanToOutput`: `os.OpenFile(name, O_RDWR|O_CREATE|O_TRUNC)` then `Write(new)` — what the file
holds afterwards, given what it held before.  Without `O_TRUNC` the tail of a longer old content survives. -/
def writeFile {α} (trunc : Bool) (old new : List α) : List α :=
  if trunc then new else new ++ old.drop new.length

/-- what a load of a saved plan is expected to give: event types set, `expected` defaulted -/
def normalize (p : Plan) : Plan :=
  { p with
    configEvents := p.configEvents.map (setType ocr3ConfigEventType),
    generateUpkeeps := p.generateUpkeeps.map (fun e => defaultExpected (setType generateUpkeepEventType e)),
    logEvents := p.logEvents.map (setType logTriggerEventType) }

/-- the field list has the length and the Go types of its schema -/
def conformsB : List Field → List Leaf → Bool
  | [], [] => true
  | f :: fs, v :: vs => f.kind.conforms v && conformsB fs vs
  | _, _ => false

/-- a plan value that the Go type `SimulationPlan` can hold -/
def Plan.wf (p : Plan) : Bool :=
  conformsB nodeSchema p.node && conformsB networkSchema p.network && conformsB rpcSchema p.rpc &&
  conformsB blocksSchema p.blocks && p.configEvents.all (conformsB configSchema) &&
  p.generateUpkeeps.all (conformsB genSchema) && p.logEvents.all (conformsB logSchema)

/-- top-level keys and, per event, `none` for `null` or the object's keys (what the harness reads off real bytes) -/
def skeleton : J → Option (List String × List (Option (List String)))
  | .obj top =>
    let evs := match lookupKey "events" top with
      | some (.arr xs) => xs.map fun
        | .obj o => some (o.map (·.1))
        | _ => none
      | _ => []
    some (top.map (·.1), evs)
  | _ => none

/-! ## §4 summary statistics -/

/-- `values[i]` with Go's bounds check -/
def idx (v : List Int) (i : Nat) : Option Int := v[i]?
/-- `values[:k]` with Go's bounds check (`k ≤ len`; capacity = length for the slices used here or larger — a
larger capacity only makes more expressions legal, and the proofs do not rely on it) -/
def sliceTo (v : List Int) (k : Nat) : Option (List Int) := if k ≤ v.length then some (v.take k) else none
/-- `values[k:]` with Go's bounds check -/
def sliceFrom (v : List Int) (k : Nat) : Option (List Int) := if k ≤ v.length then some (v.drop k) else none

/-- `findMedianAndSplitData` (current tree).  The median is returned doubled (`2·median`) to stay in `Int`. -/
def findMedianAndSplitData (v : List Int) : Option (Int × List Int × List Int) :=
  if v.length = 0 then some (0, v, v)
  else
    let i := v.length / 2
    if v.length % 2 = 0 then do
      let x ← idx v (i - 1)
      let y ← idx v i
      let a ← sliceTo v i
      let b ← sliceFrom v i
      pure (x + y, a, b)
    else do
      let x ← idx v i
      let a ← sliceTo v i
      let b ← sliceFrom v (i + 1)
      pure (2 * x, a, b)

/-- `findMedianAndSplitData` before `fix: simulator: summary statistics no longer index out of range …` -/
def findMedianAndSplitDataOld (v : List Int) : Option (Int × List Int × List Int) :=
  if v.length % 2 = 0 then do
    let i := v.length / 2
    let x ← idx v i
    let y ← idx v (i + 1)
    let a ← sliceTo v i
    let b ← sliceFrom v i
    pure (x + y, a, b)
  else do
    let i := v.length / 2 + 1      -- int(math.Floor(float64(len)/2)) + 1
    let x ← idx v i
    let a ← sliceTo v i
    let b ← sliceFrom v (i + 1)
    pure (2 * x, a, b)

/-- `int(x)` for a float given as `x4/4`: truncation towards zero -/
def truncQuarter (x4 : Int) : Int := Int.tdiv x4 4

/-- `findLowestAndOutliers(fence, set)`: `(lowest or -1, count)` for `set[i] < int(fence)` -/
def findLowestAndOutliers (fence4 : Int) (set : List Int) : Int × Nat :=
  let out := set.filter fun x => decide (x < truncQuarter fence4)
  (out.foldl (fun m x => if m = -1 ∨ x < m then x else m) (-1), out.length)

/-- `findHighestAndOutliers(fence, set)`: `(highest or -1, count)` for `set[i] > int(fence)` -/
def findHighestAndOutliers (fence4 : Int) (set : List Int) : Int × Nat :=
  let out := set.filter fun x => decide (x > truncQuarter fence4)
  (out.foldl (fun m x => if x > m then x else m) (-1), out.length)

structure Summary where
  q1x2 : Int
  medx2 : Int
  q3x2 : Int
  iqrx2 : Int
  lowFence4 : Int
  highFence4 : Int
  inIQR : Nat
  lowest : Int
  lowOutliers : Nat
  highest : Int
  highOutliers : Nat
deriving DecidableEq, Repr

/-- the "Statistics / Checks per ID" block of `ReportResults` on the sorted check counts;
`none` = an index or slice expression out of range (Go panics) -/
def summaryWith (f : List Int → Option (Int × List Int × List Int)) (data : List Int) : Option Summary := do
  let (med, q1Data, q3Data) ← f data
  let (q1, lowerOutliers, _) ← f q1Data
  let (q3, _, upperOutliers) ← f q3Data
  let iqr := q3 - q1
  let lf := 2 * q1 - 3 * iqr      -- 4·(q1 − 1.5·iqr)
  let hf := 2 * q3 + 3 * iqr      -- 4·(q3 + 1.5·iqr)
  let (lo, nlo) := findLowestAndOutliers lf lowerOutliers
  let (hi, nhi) := findHighestAndOutliers hf upperOutliers
  pure { q1x2 := q1, medx2 := med, q3x2 := q3, iqrx2 := iqr, lowFence4 := lf, highFence4 := hf,
         inIQR := (data.filter fun x => decide (2 * x ≥ q1) && decide (2 * x ≤ q3)).length,
         lowest := lo, lowOutliers := nlo, highest := hi, highOutliers := nhi }

def summary (data : List Int) : Option Summary := summaryWith findMedianAndSplitData data
def summaryOld (data : List Int) : Option Summary := summaryWith findMedianAndSplitDataOld data

/-- `sort.Slice(idCheckData, <)` -/
def sortCounts (data : List Int) : List Int := data.mergeSort (fun a b => decide (a ≤ b))

/-! ### subscribers of a node's block source (`BlockHistoryTracker`)

Every plugin instance of a simulated node subscribes its metadata store to the node's block source and
unsubscribes when it is closed; libocr closes an instance and builds the next one whenever another `ocr3config`
event appears on the chain, i.e. while blocks — and with them broadcasts of the block history — keep coming.
`Unsubscribe` CLOSES the subscriber's channel, and a send on a closed channel ends the process. -/

/-- the registry of a block source: the open subscriber channels and, while a broadcast is under way, the
channels it still has to send to -/
structure Hub where
  next        : Nat := 0
  chans       : List Nat := []
  pending     : List Nat := []
  delivered   : Nat := 0
  closedSends : Nat := 0        -- sends on a channel that had been closed: each one is a crash of the process
deriving DecidableEq, Repr

inductive HubOp where
  | sub                 -- `Subscribe`: a new channel enters the registry
  | unsub (id : Nat)    -- `Unsubscribe`: close the channel, delete it from the registry (unknown id: nothing)
  | snap                -- `broadcast`, first step: the channels to send to
  | send                -- `broadcast`: one send, to the next of them
deriving DecidableEq, Repr

/-- One step.  `locked = true`: `broadcast` holds the registry's read lock from its first step to its last send
(`ht.mu.RLock(); defer ht.mu.RUnlock()`), so a `Subscribe` / `Unsubscribe` (write lock) that arrives in between
waits — it has no effect at this point of the schedule and is tried again later.  `locked = false`: the lock is
released once the channels have been taken.  The block source has ONE run goroutine: a broadcast starts only when
the previous one is through. -/
def Hub.step (locked : Bool) (h : Hub) : HubOp → Hub
  | .sub =>
    if locked && !h.pending.isEmpty then h
    else { h with next := h.next + 1, chans := h.chans ++ [h.next + 1] }
  | .unsub id =>
    if locked && !h.pending.isEmpty then h
    else { h with chans := h.chans.erase id }
  | .snap => if h.pending.isEmpty then { h with pending := h.chans } else h
  | .send =>
    match h.pending with
    | [] => h
    | c :: rest =>
      if decide (c ∈ h.chans) then { h with pending := rest, delivered := h.delivered + 1 }
      else { h with pending := rest, closedSends := h.closedSends + 1 }

def Hub.run (locked : Bool) (ops : List HubOp) (h : Hub := {}) : Hub := ops.foldl (Hub.step locked) h

/-- the schedule of a churn case: `slow` subscribers that stay, then `k` instances one after the other, each
subscribing, being caught by a broadcast, asking to leave while that broadcast is under way, and asking again
when it is through -/
def churnSchedule (slow k : Nat) : List HubOp :=
  List.replicate slow .sub ++
  (List.range k).flatMap fun i =>
    [.sub, .snap, .unsub (slow + i + 1)] ++ List.replicate (slow + 1) .send ++ [.unsub (slow + i + 1)]

end AutoVerif.C20
