import AutoVerif.Model.Types
/-
Model of the v3 coordinator (pkg/v3/coordinator/coordinator.go) on top of
`util.Cache` (pkg/util/cache.go).  Shared by C06 (transmit decisions) and C07
(withholding in-flight work).  Core Lean only.

Correspondence, function by function:

  util.Cache.Set / Get / ClearExpired      ↦ `Cache.set` / `Cache.get` / `Cache.clearExpired`
  coordinator.Accept                       ↦ `accept`
  coordinator.ShouldTransmit               ↦ `shouldTransmit`
  per-event body of coordinator.checkEvents↦ `pollEvent`      (whole loop: `Op.poll`)
  coordinator.visitedID                    ↦ `visitedID`
  coordinator.ShouldProcess                ↦ `shouldProcess`
  coordinator.PreProcess / FilterResults   ↦ `preProcess` / `filterResults` (loop `filterLoop`)
  coordinator.FilterProposals              ↦ `filterProposals`
  ocr3Plugin.ShouldAcceptAttestedReport    ↦ `acceptReport`
  ocr3Plugin.ShouldTransmitAcceptedReport  ↦ `transmitReport`

Time is explicit: `St.now : Nat` (nanoseconds).  An operation reads the clock
once (in the code `time.Now()` is read inside every `Get`/`Set`; within one
operation the model uses one value — the interleaving model at the end of the
file splits the two bodies that matter into their Get and Set steps).
Durations are `Nat`: a negative `PerformLockoutWindow` handed directly to
`NewCoordinator` behaves like `0` (never expires) in `Cache.Set`; the plugin's
`ensureMinimumDefaults` replaces values `≤ 0` by 20 min.

The cache GC (`ClearExpired`, every 30 s) is the operation `Op.gc`, modelled as
one atomic step; Props/C06 shows it is then unobservable (`gc_invisible`).  In
the code it runs in two phases (`Cache.scanExpired` under the read lock,
`Cache.deleteKeys` under the write lock, re-checking each key); Props/C06
`gc_two_phase_refines` shows that writes between the two phases commute with the
collection, so the atomic step is faithful.  Props/C07
`gc_race_releases_pending_work_old` is the witness against the collector before
that fix (`Cache.deleteKeysOld`).
-/
namespace AutoVerif.C06

/-! ### util.Cache -/

/-- `Cache[T].data`: key ↦ (Item, Expires); `Expires = 0` means "never" -/
abbrev Cache (α : Type) := String → Option (α × Nat)

def Cache.empty {α : Type} : Cache α := fun _ => none

/-- the test used by both `Get` and `ClearExpired`: `Expires > 0 && now > Expires` -/
def expired (exp now : Nat) : Bool := decide (exp > 0) && decide (now > exp)

/-- `Cache.Set(key, value, expire)`; `defaultExp` is the cache's `defaultExpiration`,
    `expire = 0` is `DefaultCacheExpiration` -/
def Cache.set {α : Type} (defaultExp : Nat) (c : Cache α) (k : String) (v : α) (expire now : Nat) : Cache α :=
  let expire := if expire = 0 then defaultExp else expire
  let exp := if expire > 0 then now + expire else 0
  fun k' => if k' = k then some (v, exp) else c k'

/-- `Cache.Get(key)` -/
def Cache.get {α : Type} (c : Cache α) (k : String) (now : Nat) : Option α :=
  match c k with
  | none => none
  | some (v, exp) => if expired exp now then none else some v

/-- `Cache.ClearExpired()` -/
def Cache.clearExpired {α : Type} (c : Cache α) (now : Nat) : Cache α :=
  fun k => match c k with
    | none => none
    | some (v, exp) => if expired exp now then none else some (v, exp)

/-- `ClearExpired`, phase 1 (under the read lock): the keys whose entry is expired.
    The key set of the Go map is the explicit argument `keys`. -/
def Cache.scanExpired {α : Type} (c : Cache α) (keys : List String) (now : Nat) : List String :=
  keys.filter fun k => match c k with
    | some (_, exp) => expired exp now
    | none => false

/-- `ClearExpired`, phase 2 (write lock taken after the read lock was released), as in the
    code since "fix: cache: ClearExpired no longer deletes an entry that was renewed after
    the scan": a collected key is deleted only if its entry is *still* expired w.r.t. the
    `now` read before the scan -/
def Cache.deleteKeys {α : Type} (c : Cache α) (ks : List String) (now : Nat) : Cache α :=
  fun k => if ks.contains k then
      (match c k with
       | some (v, exp) => if expired exp now then none else some (v, exp)
       | none => none)
    else c k

/-- phase 2 before that fix: the collected keys were deleted without looking at the entries again -/
def Cache.deleteKeysOld {α : Type} (c : Cache α) (ks : List String) : Cache α :=
  fun k => if ks.contains k then none else c k

/-- raw map writes `c.data[key] = CacheItem{Item, Expires}` (what `Set` does under the write
    lock), oldest first — anything `Accept` or the event loop may do between the two phases -/
def Cache.writes {α : Type} (c : Cache α) : List (String × α × Nat) → Cache α
  | [] => c
  | (k, v, exp) :: ws => Cache.writes (fun k' => if k' = k then some (v, exp) else c k') ws

/-- NOT the code: a `Get` that evicts the expired entry it finds ("evict on read").  The real
    `Cache.Get` only reads — in the model `Cache.get` returns an answer and no cache, so every read
    operation of the coordinator (`shouldTransmit`, `shouldProcess`, the filters) is read-only by
    construction.  This variant exists to state what would go wrong otherwise
    (Props/C06 `evicting_get_atomic_invisible`, `evict_on_read_race_drops_fresh_record`). -/
def Cache.getEvict {α : Type} (c : Cache α) (k : String) (now : Nat) : Option α × Cache α :=
  match c k with
  | none => (none, c)
  | some (v, exp) => if expired exp now then (none, fun k' => if k' = k then none else c k') else (some v, c)

/-! ### coordinator state -/

/-- `common.PerformEvent` (UnknownEvent = 0, PerformEvent = 1, StaleReportEvent = 2,
    ReorgReportEvent = 3, InsufficientFundsReportEvent = 4) -/
def performEvent : Nat := 1

/-- `coordinator.record` -/
structure Rec where
  checkBlock : Nat
  pending    : Bool      -- isTransmissionPending
  ttype      : Nat       -- transmitType
  tblock     : Nat       -- transmitBlockNumber
deriving DecidableEq, Repr, Inhabited

/-- `common.TransmitEvent` (the upkeep id is only logged) -/
structure Event where
  workID        : String
  txHash        : String    -- 32 bytes, hex
  ttype         : Nat
  transmitBlock : Nat
  checkBlock    : Nat
  conf          : Int       -- Confirmations (int64)
deriving DecidableEq, Repr, Inhabited

structure Cfg where
  minConf : Int     -- conf.MinConfirmations
  window  : Nat     -- PerformLockoutWindow in ns (0 = entries never expire)
deriving DecidableEq, Repr

/-- the two caches plus the clock they read -/
structure St where
  cache   : Cache Rec
  visited : Cache Bool
  now     : Nat

def St.init (now : Nat := 0) : St := { cache := Cache.empty, visited := Cache.empty, now := now }

/-- the record `Accept` writes -/
def acceptRec (b : Nat) : Rec := { checkBlock := b, pending := true, ttype := 0, tblock := 0 }

/-- `coordinator.Accept` -/
def accept (cfg : Cfg) (s : St) (w : String) (b : Nat) : St × Bool :=
  match s.cache.get w s.now with
  | none => ({ s with cache := s.cache.set cfg.window w (acceptRec b) 0 s.now }, true)
  | some v =>
    if v.checkBlock < b then
      ({ s with cache := s.cache.set cfg.window w (acceptRec b) 0 s.now }, true)
    else (s, false)

/-- `coordinator.ShouldTransmit` -/
def shouldTransmit (s : St) (w : String) (b : Nat) : Bool :=
  match s.cache.get w s.now with
  | none => false
  | some v =>
    if b < v.checkBlock then false
    else if b = v.checkBlock then v.pending
    else false

/-- `coordinator.visitedID`: `fmt.Sprintf("%s_%x_%d", WorkID, TransactionHash, TransmitBlock)` -/
def visitedID (e : Event) : String := e.workID ++ "_" ++ e.txHash ++ "_" ++ toString e.transmitBlock

/-- what the loop body of `checkEvents` did with an event -/
inductive Disp where
  | lowConf    -- fewer confirmations than the minimum: `continue`
  | visited    -- already processed: `continue`
  | unknown    -- no (live) record for the work id: `continue`, NOT marked visited
  | same       -- marked visited; record rewritten (event check block = awaited block)
  | newer      -- marked visited; record rewritten with the event's higher check block
  | old        -- marked visited; record untouched (event check block < awaited block)
deriving DecidableEq, Repr, Inhabited

/-- the event reached `c.visited.Set` (it passed the confirmation and visited tests and a record existed) -/
def Disp.processed : Disp → Bool
  | .same | .newer | .old => true
  | _ => false

/-- the event rewrote the record -/
def Disp.updating : Disp → Bool
  | .same | .newer => true
  | _ => false

/-- the record an event writes (`r` in `checkEvents`; for `same` the awaited block equals the event's) -/
def eventRec (e : Event) : Rec :=
  { checkBlock := e.checkBlock, pending := false, ttype := e.ttype, tblock := e.transmitBlock }

/-- loop body of `coordinator.checkEvents` for one event -/
def pollEvent (cfg : Cfg) (s : St) (e : Event) : St × Disp :=
  if e.conf < cfg.minConf then (s, .lowConf)
  else
    match s.visited.get (visitedID e) s.now with
    | some _ => (s, .visited)
    | none =>
      match s.cache.get e.workID s.now with
      | none => (s, .unknown)
      | some v =>
        let visited' := s.visited.set cfg.window (visitedID e) true cfg.window s.now
        if e.checkBlock = v.checkBlock then
          ({ s with visited := visited',
                    cache := s.cache.set cfg.window e.workID { eventRec e with checkBlock := v.checkBlock } 0 s.now }, .same)
        else if e.checkBlock > v.checkBlock then
          ({ s with visited := visited',
                    cache := s.cache.set cfg.window e.workID (eventRec e) 0 s.now }, .newer)
        else
          ({ s with visited := visited' }, .old)

/-! ### histories -/

/-- state-changing operations on one coordinator process and its environment -/
inductive Op where
  | accept (w : String) (b : Nat)   -- `Accept`
  | poll (evs : List Event)         -- one `checkEvents` run over what the provider returned
  | advance (d : Nat)               -- the clock moves
  | gc                              -- `ClearExpired` on both caches
  | restart                         -- new process: empty caches
deriving Repr

/-- ghost log of what happened (newest first); never read by the model functions -/
inductive LogE where
  | accept (t : Nat) (w : String) (b : Nat) (ok : Bool)
  | event (t : Nat) (e : Event) (d : Disp)
  | restart
deriving DecidableEq, Repr

structure Sys where
  st  : St
  log : List LogE

def Sys.init : Sys := { st := St.init, log := [] }

def stepAccept (cfg : Cfg) (sys : Sys) (w : String) (b : Nat) : Sys :=
  { st := (accept cfg sys.st w b).1, log := .accept sys.st.now w b (accept cfg sys.st w b).2 :: sys.log }

def stepEvent (cfg : Cfg) (sys : Sys) (e : Event) : Sys :=
  { st := (pollEvent cfg sys.st e).1, log := .event sys.st.now e (pollEvent cfg sys.st e).2 :: sys.log }

def step (cfg : Cfg) (sys : Sys) : Op → Sys
  | .accept w b => stepAccept cfg sys w b
  | .poll evs => evs.foldl (stepEvent cfg) sys
  | .advance d => { sys with st := { sys.st with now := sys.st.now + d } }
  | .gc => { sys with st := { sys.st with cache := sys.st.cache.clearExpired sys.st.now,
                                           visited := sys.st.visited.clearExpired sys.st.now } }
  | .restart => { st := St.init sys.st.now, log := .restart :: sys.log }

def runFrom (cfg : Cfg) (sys : Sys) (ops : List Op) : Sys := ops.foldl (step cfg) sys

/-- the system after a history, started empty at time 0 -/
def run (cfg : Cfg) (ops : List Op) : Sys := runFrom cfg Sys.init ops

/-! ### plugin level: any-of over a report's upkeeps -/

/-- `ShouldAcceptAttestedReport`: `Accept` is called for every upkeep (no short-circuit) -/
def acceptReport (cfg : Cfg) : St → List (String × Nat) → Bool → St × Bool
  | s, [], acc => (s, acc)
  | s, (w, b) :: rest, acc =>
    let r := accept cfg s w b
    acceptReport cfg r.1 rest (if r.2 then true else acc)

/-- `ShouldTransmitAcceptedReport` -/
def transmitReport (s : St) : List (String × Nat) → Bool → Bool
  | [], acc => acc
  | (w, b) :: rest, acc => transmitReport s rest (if shouldTransmit s w b then true else acc)

/-! ### C07: what is withheld from processing / observation -/

/-- `coordinator.ShouldProcess`; `utype` is the `UpkeepTypeGetter` -/
def shouldProcess (utype : String → UpkeepType) (s : St) (w uid : String) (checkBlock : Nat) : Bool :=
  match s.cache.get w s.now with
  | some v =>
    if v.pending then false
    else
      match utype uid with
      | .log => if v.ttype = performEvent then false else true
      | .condition => if v.ttype = performEvent then decide (checkBlock ≥ v.tblock) else true
      | .other => true
  | none => true

/-- the keep-test inlined in `coordinator.FilterProposals` -/
def proposalAllowed (utype : String → UpkeepType) (s : St) (w uid : String) : Bool :=
  match s.cache.get w s.now with
  | some v =>
    if v.pending then false
    else if utype uid = .log ∧ v.ttype = performEvent then false
    else true
  | none => true

/-- the common loop: `res := make([]T, 0); for _, x := range xs { if keep(x) { res = append(res, x) } }` -/
def filterLoop {ι : Type} (keep : ι → Bool) : List ι → List ι → List ι
  | res, [] => res
  | res, x :: xs => if keep x then filterLoop keep (res ++ [x]) xs else filterLoop keep res xs

def preProcess (utype : String → UpkeepType) (s : St) (ps : List Payload) : List Payload :=
  filterLoop (fun p => shouldProcess utype s p.workID p.upkeepID p.trigger.blockNumber) [] ps

def filterResults (utype : String → UpkeepType) (s : St) (rs : List CheckResult) : List CheckResult :=
  filterLoop (fun r => shouldProcess utype s r.workID r.upkeepID r.trigger.blockNumber) [] rs

def filterProposals (utype : String → UpkeepType) (s : St) (ps : List Proposal) : List Proposal :=
  filterLoop (fun p => proposalAllowed utype s p.workID p.upkeepID) [] ps

/-! ### interleaving model: `Accept` and the per-event body split into Get-step and Set-step

The shared state is the same `St` (clock fixed during the episode).  A thread
runs a list of jobs; each job is executed in two steps.  The Get-step performs
the reads (`cache.Get`; for an event also the confirmation test and
`visited.Get`) and keeps the result in a thread-local; the Set-step performs
the writes decided from that local.  With `mutexed = true` a Get-step needs the
coordinator mutex, which is released by the Set-step (the repaired code holds
it for the whole event loop — a coarser discipline, whose schedules are a
subset of the ones modelled here).  `mutexed = false` is the code before
"fix: coordinator: serialise Accept with transmit event processing". -/

inductive Job where
  | accept (w : String) (b : Nat)
  | event (e : Event)
deriving DecidableEq, Repr

/-- thread-local between the two steps -/
inductive Local where
  | acceptGot (w : String) (b : Nat) (v : Option Rec)
  | eventGot (e : Event) (v : Rec)
deriving DecidableEq, Repr

structure Thread where
  jobs : List Job            -- head = current job
  loc  : Option Local        -- `some` = between Get-step and Set-step of the head job
deriving DecidableEq, Repr

structure Conc where
  st      : St
  threads : List Thread
  holder  : Option Nat       -- coordinator mutex
  done    : List (Job × LogE)  -- completed jobs with their ghost entry, newest first

/-- one job executed atomically (what the sequential model does) -/
def doJob (cfg : Cfg) (s : St) : Job → St × LogE
  | .accept w b => ((accept cfg s w b).1, .accept s.now w b (accept cfg s w b).2)
  | .event e => ((pollEvent cfg s e).1, .event s.now e (pollEvent cfg s e).2)

/-- Set-step of `Accept` from the local read -/
def acceptSet (cfg : Cfg) (s : St) (w : String) (b : Nat) (v : Option Rec) : St × Bool :=
  match v with
  | none => ({ s with cache := s.cache.set cfg.window w (acceptRec b) 0 s.now }, true)
  | some v =>
    if v.checkBlock < b then
      ({ s with cache := s.cache.set cfg.window w (acceptRec b) 0 s.now }, true)
    else (s, false)

/-- Set-step of the event body from the local read -/
def eventSet (cfg : Cfg) (s : St) (e : Event) (v : Rec) : St × Disp :=
  let visited' := s.visited.set cfg.window (visitedID e) true cfg.window s.now
  if e.checkBlock = v.checkBlock then
    ({ s with visited := visited',
              cache := s.cache.set cfg.window e.workID { eventRec e with checkBlock := v.checkBlock } 0 s.now }, .same)
  else if e.checkBlock > v.checkBlock then
    ({ s with visited := visited',
              cache := s.cache.set cfg.window e.workID (eventRec e) 0 s.now }, .newer)
  else
    ({ s with visited := visited' }, .old)

/-- Get-step of the event body: either the body ends here (`continue`) or it keeps the record read -/
def eventGet (cfg : Cfg) (s : St) (e : Event) : Sum Disp Rec :=
  if e.conf < cfg.minConf then .inl .lowConf
  else
    match s.visited.get (visitedID e) s.now with
    | some _ => .inl .visited
    | none =>
      match s.cache.get e.workID s.now with
      | none => .inl .unknown
      | some v => .inr v

def setThread (ts : List Thread) (i : Nat) (t : Thread) : List Thread := ts.set i t

/-- thread `i` takes its next step (no-op if it has nothing to do or is blocked on the mutex) -/
def cstep (cfg : Cfg) (mutexed : Bool) (c : Conc) (i : Nat) : Conc :=
  match c.threads[i]? with
  | none => c
  | some th =>
    match th.loc with
    | none =>
      match th.jobs with
      | [] => c
      | j :: rest =>
        if mutexed && c.holder.isSome then c      -- blocked on `c.mu.Lock()`
        else
          match j with
          | .accept w b =>
            { c with threads := setThread c.threads i { th with loc := some (.acceptGot w b (c.st.cache.get w c.st.now)) },
                     holder := if mutexed then some i else c.holder }
          | .event e =>
            match eventGet cfg c.st e with
            | .inl d =>   -- the body `continue`s without writing
              { c with threads := setThread c.threads i { jobs := rest, loc := none },
                       done := (j, .event c.st.now e d) :: c.done }
            | .inr v =>
              { c with threads := setThread c.threads i { th with loc := some (.eventGot e v) },
                       holder := if mutexed then some i else c.holder }
    | some (.acceptGot w b v) =>
      let r := acceptSet cfg c.st w b v
      { st := r.1, threads := setThread c.threads i { jobs := th.jobs.tail, loc := none },
        holder := if mutexed then none else c.holder,
        done := (.accept w b, .accept c.st.now w b r.2) :: c.done }
    | some (.eventGot e v) =>
      let r := eventSet cfg c.st e v
      { st := r.1, threads := setThread c.threads i { jobs := th.jobs.tail, loc := none },
        holder := if mutexed then none else c.holder,
        done := (.event e, .event c.st.now e r.2) :: c.done }

def crun (cfg : Cfg) (mutexed : Bool) (c : Conc) (sched : List Nat) : Conc :=
  sched.foldl (cstep cfg mutexed) c

def Conc.start (s : St) (progs : List (List Job)) : Conc :=
  { st := s, threads := progs.map (fun js => { jobs := js, loc := none }), holder := none, done := [] }

/-- sequential execution of jobs in the given order, with the ghost entries (newest first) -/
def seqJobs (cfg : Cfg) (s : St) : List Job → St × List (Job × LogE)
  | [] => (s, [])
  | j :: js =>
    let r := doJob cfg s j
    let rest := seqJobs cfg r.1 js
    (rest.1, rest.2 ++ [(j, r.2)])

/-! ### linearisations of an episode

`merges fuel progs`: all interleavings of the threads' programs that keep every thread's
program order; every element carries the index of its thread.  `fuel` must be at least the
total number of jobs (`totalJobs`).  With both bodies atomic every finished schedule of the
interleaved system is the sequential execution of one of these orders
(Props/C06 `finished_is_linearization`). -/

def totalJobs {α : Type} (ls : List (List α)) : Nat := (ls.map List.length).sum

def merges {α : Type} : Nat → List (List α) → List (List (Nat × α))
  | 0, ls => if ls.all List.isEmpty then [[]] else []
  | fuel + 1, ls =>
    if ls.all List.isEmpty then [[]]
    else (List.range ls.length).flatMap fun i =>
      match ls[i]? with
      | some (x :: rest) => (merges fuel (ls.set i rest)).map ((i, x) :: ·)
      | _ => []

/-- sequential run of thread-tagged jobs: final state and the `Accept` answers with the index
    of the thread that got them, oldest first -/
def runTagged (cfg : Cfg) : St → List (Nat × Job) → St × List (Nat × Bool)
  | s, [] => (s, [])
  | s, (i, .accept w b) :: rest =>
    ((runTagged cfg (accept cfg s w b).1 rest).1, (i, (accept cfg s w b).2) :: (runTagged cfg (accept cfg s w b).1 rest).2)
  | s, (_, .event e) :: rest => runTagged cfg (pollEvent cfg s e).1 rest

end AutoVerif.C06
