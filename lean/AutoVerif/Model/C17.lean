/-
Model of the OCR2 (v2) report coordinator
(pkg/v2/coordinator/coordinator.go, pkg/v2/encoding/basic.go, pkg/util/cache.go).

Go strings (`BlockKey`, `UpkeepKey`, `UpkeepIdentifier`) are modelled as the
list of their code points (`Str`), so that the *textual* comparisons of the code
(`string(a) == string(b)`, the `IndefiniteBlockingKey` test, cache keys) and the
*numeric* ones (`BasicEncoder.After`, `Increment`, via `big.Int.SetString(_,10)`)
are both what the code does — non-canonical numerals (`"07"`, `"+7"`, `"-0"`)
and unparsable block keys included.

`time.Now()` is an explicit `now : Nat` (ns).  A `util.Cache` is a finite map
`key ↦ (item, expires)` (association list); `Get` hides entries with `now > expires`.  The
interval cleaners (`ClearExpired`) only delete entries that `Get` already
hides, so they are not part of a history (`get_clearExpired`, Props/C17).
(Sequentially.  `ClearExpired` collects the expired keys under the read lock and
deletes them under the write lock without re-checking, so a `Set` that slips in
between is lost — a schedule, not a history; outside this model, see the C17 report.)
Times are ns since the start of the run; `Expires > 0` holds for absolute and
relative clocks alike because both cache lifetimes are positive.
`checkLogs` handles every perform log of a poll, then every stale-report log,
one by one; a poll is therefore the op sequence `perform* stale*`.
-/
namespace AutoVerif.C17

/-- a Go string as the list of its code points -/
abbrev Str := List Nat

/-- a string literal as `Str` (kernel-reducible: usable under `decide`) -/
def lit (s : String) : Str := s.toList.map Char.toNat

/-! ### `big.Int.SetString(s, 10)`, `big.Int.String()` -/

/-- decimal digits, most significant first, accumulated into `acc`; any other character fails -/
def digitsVal : List Nat → Nat → Option Nat
  | [], acc => some acc
  | c :: cs, acc => if 48 ≤ c ∧ c ≤ 57 then digitsVal cs (acc * 10 + (c - 48)) else none

/-- `new(big.Int).SetString(s, 10)`: optional sign, at least one digit, nothing else -/
def parseBig (s : Str) : Option Int :=
  match s with
  | [] => none
  | c :: ds =>
    if c = 45 then (if ds = [] then none else (digitsVal ds 0).map (fun n => -(Int.ofNat n)))
    else if c = 43 then (if ds = [] then none else (digitsVal ds 0).map Int.ofNat)
    else (digitsVal (c :: ds) 0).map Int.ofNat

/-- little-endian decimal digits of `n` (`fuel > n` is always enough) -/
def digitsRev : Nat → Nat → List Nat
  | 0, _ => []
  | fuel + 1, n => if n < 10 then [48 + n] else (48 + n % 10) :: digitsRev fuel (n / 10)

/-- canonical decimal numeral of a natural number -/
def renderNat (n : Nat) : Str := (digitsRev (n + 1) n).reverse

/-- `big.Int.String()` -/
def renderInt : Int → Str
  | .ofNat n => renderNat n
  | .negSucc n => 45 :: renderNat (n + 1)

/-! ### `BasicEncoder` -/

/-- `strings.Split(s, sep)` for a one-character separator -/
def splitOn (sep : Nat) : Str → List Str
  | [] => [[]]
  | c :: cs =>
    if c = sep then [] :: splitOn sep cs
    else match splitOn sep cs with
      | [] => [[c]]
      | w :: ws => (c :: w) :: ws

/-- `SplitUpkeepKey`: exactly two `|`-separated components; `none` = error -/
def splitUpkeepKey (k : Str) : Option (Str × Str) :=
  match splitOn 124 k with
  | [b, i] => some (b, i)
  | _ => none

/-- `MakeUpkeepKey` -/
def makeUpkeepKey (blk id : Str) : Str := blk ++ 124 :: id

/-- `After(a, b)`: `a` parses, then `b` parses, then `a > b`; `none` = error -/
def after (a b : Str) : Option Bool :=
  match parseBig a with
  | none => none
  | some x =>
    match parseBig b with
    | none => none
    | some y => some (decide (x > y))

/-- `Increment` -/
def increment (a : Str) : Option Str :=
  match parseBig a with
  | none => none
  | some x => some (renderInt (x + 1))

/-- `IndefiniteBlockingKey = "18446744073709551616"` (2^64) -/
def indefinite : Str := lit "18446744073709551616"

/-! ### `util.Cache` -/

/-- `Cache[T].data` as an association list `key ↦ (item, expires)`; `set` keeps keys unique -/
abbrev Cache (α : Type) := List (Str × α × Nat)

def Cache.empty {α} : Cache α := []

/-- `data[key]` -/
def Cache.find {α} : Cache α → Str → Option (α × Nat)
  | [], _ => none
  | (k', ve) :: c, k => if k' = k then some ve else Cache.find c k

/-- `Get`: missing, or `Expires > 0 && now > Expires` → not found -/
def Cache.get {α} (c : Cache α) (now : Nat) (k : Str) : Option α :=
  match c.find k with
  | none => none
  | some (v, e) => if e > 0 ∧ now > e then none else some v

/-- `Set(key, value, DefaultCacheExpiration)` on a cache whose default expiration is `ttl` -/
def Cache.set {α} (c : Cache α) (now ttl : Nat) (k : Str) (v : α) : Cache α :=
  (k, v, if ttl > 0 then now + ttl else 0) :: c.filter (fun p => p.1 ≠ k)

/-- `ClearExpired` -/
def Cache.clearExpired {α} (c : Cache α) (now : Nat) : Cache α :=
  c.filter (fun p => !(decide (p.2.2 > 0 ∧ now > p.2.2)))

/-! ### `reportCoordinator` -/

structure IdBlocker where
  check    : Str   -- CheckBlockNumber
  transmit : Str   -- TransmitBlockNumber
deriving DecidableEq, Repr

/-- a `PerformLog` / `StaleReportLog` as far as the coordinator reads it -/
structure Log where
  key      : Str
  transmit : Str   -- TransmitBlock
  confs    : Int   -- Confirmations
deriving DecidableEq, Repr

structure Cfg where
  lockout  : Int   -- lockoutWindow argument of the constructor (ns)
  minConfs : Int
deriving DecidableEq, Repr

def defaultLockoutNs : Nat := 20 * 60 * 1000000000
def activeTtlNs : Nat := 3600 * 1000000000

/-- `NewReportCoordinator`: `if lockoutWindow < 1 { lockoutWindow = DefaultLockoutWindow }` -/
def Cfg.window (cfg : Cfg) : Nat := if cfg.lockout < 1 then defaultLockoutNs else cfg.lockout.toNat

structure State where
  idBlocks   : Cache IdBlocker
  activeKeys : Cache Bool

def State.init : State := { idBlocks := Cache.empty, activeKeys := Cache.empty }

/-- `idBlocker.shouldUpdate`: `none` = error, same order of checks as the code -/
def shouldUpdate (b val : IdBlocker) : Option Bool :=
  match after val.check b.check with
  | none => none
  | some true => some true
  | some false =>
    match after b.check val.check with
    | none => none
    | some true => some false
    | some false =>
      if b.transmit = indefinite then some true
      else if val.transmit = indefinite then some false
      else after val.transmit b.transmit

/-- the value `updateIdBlock` leaves behind when `b` is stored and `val` arrives -/
def joinBlk (b val : IdBlocker) : IdBlocker :=
  if shouldUpdate b val = some true then val else b

/-- `updateIdBlock` -/
def updateIdBlock (cfg : Cfg) (c : Cache IdBlocker) (now : Nat) (id : Str) (val : IdBlocker) : Cache IdBlocker :=
  match c.get now id with
  | some b =>
    match shouldUpdate b val with
    | some true => c.set now cfg.window id val
    | _ => c                          -- error or `!shouldUpdate`: no write
  | none => c.set now cfg.window id val

/-- `Accept` (the returned error is not part of the state) -/
def accept (cfg : Cfg) (s : State) (now : Nat) (key : Str) : State :=
  match splitUpkeepKey key with
  | none => s
  | some (blockKey, id) =>
    match s.activeKeys.get now key with
    | some _ => s
    | none =>
      { activeKeys := s.activeKeys.set now activeTtlNs key false
        idBlocks := updateIdBlock cfg s.idBlocks now id { check := blockKey, transmit := indefinite } }

/-- the shared body of the two loops of `checkLogs` once the new transmit block `tb` is known -/
def processLog (cfg : Cfg) (s : State) (now : Nat) (key logCheck id tb : Str) : State :=
  match s.activeKeys.get now key with
  | none => s
  | some false =>
    { activeKeys := s.activeKeys.set now activeTtlNs key true
      idBlocks := updateIdBlock cfg s.idBlocks now id { check := logCheck, transmit := tb } }
  | some true =>
    match s.idBlocks.get now id with
    | some idBlock =>
      if idBlock.check = logCheck ∧ idBlock.transmit ≠ tb then
        { s with idBlocks := updateIdBlock cfg s.idBlocks now id { check := logCheck, transmit := tb } }
      else s
    | none => s

/-- one iteration of the perform-log loop -/
def performLog (cfg : Cfg) (s : State) (now : Nat) (l : Log) : State :=
  if l.confs < cfg.minConfs then s
  else match splitUpkeepKey l.key with
    | none => s
    | some (logCheck, id) => processLog cfg s now l.key logCheck id l.transmit

/-- one iteration of the stale-report-log loop -/
def staleLog (cfg : Cfg) (s : State) (now : Nat) (l : Log) : State :=
  if l.confs < cfg.minConfs then s
  else match splitUpkeepKey l.key with
    | none => s
    | some (logCheck, id) =>
      match increment logCheck with
      | none => s
      | some nextKey => processLog cfg s now l.key logCheck id nextKey

/-- `IsPending`: `(pending, err ≠ nil)` -/
def isPending (s : State) (now : Nat) (key : Str) : Bool × Bool :=
  match splitUpkeepKey key with
  | none => (true, true)
  | some (blockKey, id) =>
    match s.idBlocks.get now id with
    | some bl =>
      match after blockKey bl.transmit with
      | none => (true, true)
      | some isAfter => (!isAfter, false)
    | none => (false, false)

/-- `IsTransmissionConfirmed` -/
def isConfirmed (s : State) (now : Nat) (key : Str) : Bool :=
  match s.activeKeys.get now key with
  | none => true
  | some confirmed => confirmed

/-! ### histories -/

inductive Op where
  | accept (key : Str)
  | perform (l : Log)
  | stale (l : Log)
deriving DecidableEq, Repr

def step (cfg : Cfg) (s : State) (now : Nat) : Op → State
  | .accept k => accept cfg s now k
  | .perform l => performLog cfg s now l
  | .stale l => staleLog cfg s now l

/-- a history: operations with the (virtual) time at which each was processed -/
def run (cfg : Cfg) (s : State) : List (Nat × Op) → State
  | [] => s
  | (t, op) :: h => run cfg (step cfg s t op) h

/-- `checkLogs` for one poll at time `now` -/
def checkLogs (cfg : Cfg) (s : State) (now : Nat) (performs stales : List Log) : State :=
  run cfg s ((performs.map fun l => (now, Op.perform l)) ++ (stales.map fun l => (now, Op.stale l)))

/-! ### the background poller (`run`) and failing log providers -/

/-- where a poll fails: `PerformLogs` returns an error (or panics) — `checkLogs` returns before anything is
    processed; `StaleReportLogs` returns `(nil, err)` (or panics) — the perform logs of this poll have been processed;
    `StaleReportLogs` returns `(logs, err)` — the loop over the returned logs still runs, then the error is returned -/
inductive PollFail where
  | perform
  | stale
  | stalePartial
deriving DecidableEq, Repr

/-- `checkLogs` on a poll whose provider fails (it returns the error; a panic is turned into one by `safeCheckLogs`) -/
def checkLogsFailing (cfg : Cfg) (s : State) (now : Nat) (performs stales : List Log) : PollFail → State
  | .perform => s
  | .stale => checkLogs cfg s now performs []
  | .stalePartial => checkLogs cfg s now performs stales

/-- `cadence := time.Second` -/
def cadenceNs : Nat := 1000000000

/-- `run`: after a poll at `t` that took `took` ns — failed or not — the timer is re-armed:
    `took > cadence → 1 µs`, else `cadence - took` -/
def nextPoll (t took : Nat) : Nat :=
  if took > cadenceNs then t + took + 1000 else t + took + (cadenceNs - took)

/-- what a log provider sees of a started coordinator during `[0, endT]` -/
structure PollStats where
  n      : Nat   -- number of `PerformLogs` calls
  first  : Nat   -- time of the first (0 if none)
  last   : Nat   -- time of the last (0 if none)
  maxGap : Nat   -- largest distance between consecutive calls (0 if fewer than two)
deriving DecidableEq, Repr

/-- with a provider that answers in zero (virtual) time the polls are at every multiple of the cadence after `Start` -/
def pollStats (endT : Nat) : PollStats :=
  let n := endT / cadenceNs
  { n := n, first := if n = 0 then 0 else cadenceNs, last := n * cadenceNs, maxGap := if n < 2 then 0 else cadenceNs }

end AutoVerif.C17
