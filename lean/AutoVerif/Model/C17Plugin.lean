import AutoVerif.Model.C17
/-
Model of the glue around the v2 report coordinator, as far as C17 speaks about it:

* pkg/v2/ocr.go `ShouldAcceptFinalizedReport` (the accept loop over the keys of a report),
  `ShouldTransmitAcceptedReport` (any key not confirmed), `Report` (the `IsPending` filter + dedupe of the keys built
  from the observations), `Observation` (at most `ObservationUpkeepsLimit = 1` of the observer's ids);
* pkg/v2/observer/polling/observer.go `Observe` (every staged id is asked again, on every call) and the `stager`
  (`processLatestHead` → `advance`);
* pkg/v2/config `validatePerformLockoutWindow` / `validateMinConfirmations` and
  `CoordinatorFactory.NewCoordinator` (milliseconds → duration).

Nondeterminism is explicit: the stager's id order (crypto shuffle of the sampled keys) is the order given in the
`head` operation and the harness reports ids in that order; which single id `Observation` picks (keyed shuffle) is a
relation (`observationOk`).  The runner, registry and head ticker are fakes: every active id is sampled (ratio ≥ 0.98,
≤ 10 ids) and checked without error.
-/
namespace AutoVerif.C17

/-- `OffchainConfig` → constructor arguments: `PerformLockoutWindow <= 0 → 20 min`, `MinConfirmations <= 0 → 0`,
    `time.Duration(PerformLockoutWindow) * time.Millisecond` -/
def offchainCfg (lockoutMs minConfs : Int) : Cfg :=
  { lockout := (if lockoutMs ≤ 0 then 20 * 60 * 1000 else lockoutMs) * 1000000
    minConfs := if minConfs ≤ 0 then 0 else minConfs }

/-- `stager.currentBlock`, `stager.currentIDs` -/
structure Stage where
  block : Str
  ids   : List Str
deriving DecidableEq, Repr

def Stage.init : Stage := { block := [], ids := [] }

/-- `processLatestHead`: no active upkeep → return before anything is staged; otherwise the head's block and the
    ids found eligible become current (`advance`) -/
def stageHead (st : Stage) (block : Str) (active elig : List Str) : Stage :=
  if active = [] then st else { block := block, ids := elig }

/-- one `IsPending` filter call as `Observe` / `filterAndDedupe` read it: `pending || err != nil` → dropped -/
def passes (s : State) (now : Nat) (key : Str) : Bool :=
  let r := isPending s now key
  !(r.1 || r.2)

/-- `PollingObserver.Observe`: the staged ids that are not pending, asked now -/
def observeIds (s : State) (now : Nat) (st : Stage) : List Str :=
  st.ids.filter fun id => passes s now (makeUpkeepKey st.block id)

/-- `Observation`: shuffle, keep at most one — any single one of the observer's ids, none only if there is none -/
def observationOk (filtered pick : List Str) : Bool :=
  match pick with
  | [] => filtered.isEmpty
  | [x] => decide (x ∈ filtered)
  | _ => false

/-- the accept loop of `ShouldAcceptFinalizedReport`: `Accept` key by key, return at the first error -/
def acceptLoop (cfg : Cfg) (s : State) (now : Nat) : List Str → State × Bool
  | [] => (s, false)
  | k :: ks =>
    match splitUpkeepKey k with
    | none => (s, true)                 -- `Accept` returns the split error; keys before it stay accepted
    | some _ => acceptLoop cfg (accept cfg s now k) now ks

/-- `ShouldAcceptFinalizedReport` for a decodable, non-empty report: `(state, accepted, err ≠ nil)` -/
def shouldAccept (cfg : Cfg) (s : State) (now : Nat) (keys : List Str) : State × Bool × Bool :=
  if keys = [] then (s, false, true)   -- "no ids in report"
  else
    let r := acceptLoop cfg s now keys
    (r.1, !r.2, r.2)

/-- `ShouldTransmitAcceptedReport`: `(transmit, err ≠ nil)` -/
def shouldTransmit (s : State) (now : Nat) (keys : List Str) : Bool × Bool :=
  if keys = [] then (false, true)
  else (keys.any fun k => !isConfirmed s now k, false)

/-- `Report`: keys `median block | id` of valid observations, through `filterAndDedupe` with `IsPending` -/
def reportKeys (s : State) (now : Nat) (block : Str) (ids : List Str) : List Str :=
  ((ids.map (makeUpkeepKey block)).filter (passes s now)).eraseDups

/-! ### histories through the plugin -/

inductive POp where
  | co (op : Op)                                  -- directly on the coordinator: `Accept`, or a log of the next poll
  | acceptReport (keys : List Str)                -- `ShouldAcceptFinalizedReport`
  | head (block : Str) (active elig : List Str)   -- a head reaches the polling observer
  | observe                                       -- `Observe()` and `Observation()`
  | transmit (keys : List Str)                    -- `ShouldTransmitAcceptedReport`
  | report (block : Str) (ids : List Str)         -- `Report` on observations `(block, [id])`
  | failedPoll (w : PollFail) (performs stales : List Log)   -- a poll on which the log provider fails
deriving DecidableEq, Repr

/-- the coordinator-level operations a plugin-level operation amounts to -/
def acceptOps : List Str → List Op
  | [] => []
  | k :: ks => .accept k :: (if (splitUpkeepKey k).isSome then acceptOps ks else [])

/-- the logs a failing poll still processes -/
def failedOps (w : PollFail) (performs stales : List Log) : List Op :=
  match w with
  | .perform => []
  | .stale => performs.map Op.perform
  | .stalePartial => performs.map Op.perform ++ stales.map Op.stale

def flat : POp → List Op
  | .co op => [op]
  | .acceptReport keys => acceptOps keys
  | .failedPoll w performs stales => failedOps w performs stales
  | _ => []

structure PState where
  coord : State
  stage : Stage

def PState.init : PState := { coord := State.init, stage := Stage.init }

def stageStep (st : Stage) : POp → Stage
  | .head b a e => stageHead st b a e
  | _ => st

def pstep (cfg : Cfg) (ps : PState) (now : Nat) (pop : POp) : PState :=
  match pop with
  | .co op => { ps with coord := step cfg ps.coord now op }
  | .acceptReport keys => { ps with coord := (shouldAccept cfg ps.coord now keys).1 }
  | .head b a e => { ps with stage := stageHead ps.stage b a e }
  | .failedPoll w performs stales => { ps with coord := checkLogsFailing cfg ps.coord now performs stales w }
  | _ => ps

/-- what an operation answers -/
structure POut where
  flag   : Bool        -- accepted / transmit
  err    : Bool
  block  : Str         -- block returned by `Observe`
  ids    : List Str    -- ids returned by `Observe` / keys handed to the runner by `Report`
  pblock : Str         -- block in the plugin's `Observation`
  pick   : List Str    -- ids in the plugin's `Observation`
deriving DecidableEq, Repr

def POut.none : POut := { flag := false, err := false, block := [], ids := [], pblock := [], pick := [] }

def pout (cfg : Cfg) (ps : PState) (now : Nat) : POp → POut
  | .acceptReport keys =>
    let r := shouldAccept cfg ps.coord now keys
    { POut.none with flag := r.2.1, err := r.2.2 }
  | .observe =>
    let ids := observeIds ps.coord now ps.stage
    { POut.none with block := ps.stage.block, ids := ids, pblock := ps.stage.block, pick := ids.take 1 }
  | .transmit keys =>
    let r := shouldTransmit ps.coord now keys
    { POut.none with flag := r.1, err := r.2 }
  | .report b ids => { POut.none with block := b, ids := reportKeys ps.coord now b ids }
  | _ => POut.none

/-- answers of every operation of a history, in order, and the final state -/
def pouts (cfg : Cfg) (ps : PState) : List (Nat × POp) → List POut × PState
  | [] => ([], ps)
  | (t, pop) :: h =>
    let o := pout cfg ps t pop
    let r := pouts cfg (pstep cfg ps t pop) h
    (o :: r.1, r.2)

/-- the coordinator-level history a plugin-level history amounts to -/
def flatten : List (Nat × POp) → List (Nat × Op)
  | [] => []
  | (t, pop) :: h => (flat pop).map (fun op => (t, op)) ++ flatten h

end AutoVerif.C17
