import AutoVerif.Gen.Consts
/-
Model of the OCR2 (v2) plugin's `Report` and `Observation` paths
(pkg/v2/ocr.go, observation.go, shuffle.go, encode.go, encoding/basic.go,
observer/polling/observer.go, config/config.go) as the code is NOW, i.e. after

  * `fix: v2 report: skip upkeeps that the report-time check found ineligible`
    (`err != nil || !ok`), and
  * `fix: v2 report: compute report gas in 64 bits …`.

The two pre-fix variants are kept (`reportOld`, `reportGasOld32`, and the
pinned snapshot `reportPinned`) for the counter-example theorems of Props/C16.

Byte strings (`BlockKey`, `UpkeepIdentifier`, `UpkeepKey`, encoded
observations) are `List Nat`, one element per byte (the driver only ever
builds elements `< 256`).  Core Lean only.

Explicit parameters (nothing hidden):
  * `pend : Bytes → Bool`   – `coordinator.IsPending(key)` answered `true` **or an error**
                              (shuffle.go: `ok || err != nil` skips the key);
  * `sh : List α → List α`  – the keyed shuffle (keccak/AES-CTR + math/rand; any permutation);
  * `run : List Bytes → RunnerAns` – what `runner.CheckUpkeep` answers for the keys it is handed
                              (harness runner), or - registry-level cases - the model of the repository's v2
                              runner (`runnerCheck`: cache, batches of 10, aggregation, all-failed test) applied
                              to the registry calls as they happened;
  * `encErr : Bool`         – `encoder.EncodeReport` fails;
  * JSON decoding of an attributed observation (`encoding/json`) – the
    harness hands over `none` (decode error) or `some obs`.
-/
namespace AutoVerif.C16

abbrev Bytes := List Nat

/-! ## encoding/basic.go : decimal strings, validation, median, keys -/

def isDigit (c : Nat) : Bool := decide (48 ≤ c) && decide (c ≤ 57)

/-- value of a digit string, most significant digit first -/
def decVal (s : Bytes) : Nat := s.foldl (fun acc c => acc * 10 + (c - 48)) 0

/-- `big.Int.SetString(s, 10)` succeeds, `.String() == s` and the value is not
negative  ⇔  `s` is a canonical decimal numeral: non-empty, digits only, no
leading zero unless it is "0" (so "007", "+1", "-0", "-1", "", " 1", "1_0" fail). -/
def canonDec (s : Bytes) : Bool :=
  !s.isEmpty && s.all isDigit && (s.length == 1 || s.head? != some 48)

def maxBlockNumber : Nat := 18446744073709551615   -- 2^64 - 1
def maxUpkeepIdentifier : Nat :=
  115792089237316195423570985008687907853269984665640564039457584007913129639935  -- 2^256 - 1

/-- `BasicEncoder.ValidateBlockKey` returns `(true, nil)` -/
def validBlock (s : Bytes) : Bool := canonDec s && decide (decVal s ≤ maxBlockNumber)
/-- `BasicEncoder.ValidateUpkeepIdentifier` returns `(true, nil)` -/
def validId (s : Bytes) : Bool := canonDec s && decide (decVal s ≤ maxUpkeepIdentifier)

def decAux : Nat → Nat → Bytes → Bytes
  | 0, _, acc => acc
  | fuel + 1, n, acc =>
    if n < 10 then (48 + n) :: acc else decAux fuel (n / 10) ((48 + n % 10) :: acc)

/-- `big.Int.String()` of a non-negative number -/
def decOf (n : Nat) : Bytes := decAux (n + 1) n []

def insertSorted (x : Nat) : List Nat → List Nat
  | [] => [x]
  | y :: ys => if x ≤ y then x :: y :: ys else y :: insertSorted x ys

/-- `sort.Slice(blockNumbers, <)` (as a sequence of values the result is unique) -/
def isort : List Nat → List Nat
  | [] => []
  | x :: xs => insertSorted x (isort xs)

/-- `BasicEncoder.GetMedian` on parsed values: `0` for no value, else `sorted[l/2]`
(the upper median for even `l`) -/
def median (vs : List Nat) : Nat := (isort vs).getD (vs.length / 2) 0

/-- `BasicEncoder.MakeUpkeepKey`: `block | id` -/
def mkKey (block id : Bytes) : Bytes := block ++ 124 :: id

/-- `strings.Split(s, "|")` -/
def splitBar : Bytes → List Bytes
  | [] => [[]]
  | c :: rest =>
    if c = 124 then [] :: splitBar rest
    else match splitBar rest with
      | [] => [[c]]
      | p :: ps => (c :: p) :: ps

/-- `BasicEncoder.SplitUpkeepKey` (for a non-nil key): exactly two components -/
def splitKey (k : Bytes) : Option (Bytes × Bytes) :=
  match splitBar k with
  | [b, i] => some (b, i)
  | _ => none

/-! ## observation.go : `Observation.Validate`, `ObservationsToUpkeepKeys` -/

/-- a JSON-decoded `Observation` -/
structure Obs where
  block : Bytes
  ids   : List Bytes
deriving DecidableEq, Repr

/-- `Observation.Validate(v) == nil`: block key first, then every identifier -/
def validObs (o : Obs) : Bool := validBlock o.block && o.ids.all validId

/-- loop state of `ObservationsToUpkeepKeys` -/
structure Acc where
  parseErrors : Nat := 0
  blocks      : List Bytes := []        -- allBlockKeys
  ids         : List (List Bytes) := [] -- upkeepIDs
deriving DecidableEq, Repr

/-- the `for _, obs := range attr` loop; `none` = `decode` failed -/
def collect : List (Option Obs) → Acc → Acc
  | [], a => a
  | none :: rest, a => collect rest { a with parseErrors := a.parseErrors + 1 }
  | some ob :: rest, a =>
    if !validObs ob then collect rest { a with parseErrors := a.parseErrors + 1 }
    else
      let a := { a with blocks := a.blocks ++ [ob.block] }
      let a := if ob.ids.length > 0 then
                 { a with ids := a.ids ++ [if ob.ids.length > Gen.v2ObservationUpkeepsLimit
                                           then ob.ids.take Gen.v2ObservationUpkeepsLimit else ob.ids] }
               else a
      collect rest a

/-- `ObservationsToUpkeepKeys`: `none` = `ErrTooManyErrors` (every observation failed) -/
def observationsToKeys (attr : List (Option Obs)) : Option (List (List Bytes)) :=
  let a := collect attr {}
  if a.parseErrors = attr.length then none
  else
    let medianBlock := decOf (median (a.blocks.map decVal))
    some (a.ids.map fun ids => ids.map (mkKey medianBlock))

/-! ## shuffle.go : `filterAndDedupe` -/

/-- inner loops of `filterAndDedupe` over the concatenated inputs; `out` doubles as the
`matched` set (a key is in `matched` iff it is in `out`) -/
def dedupeLoop (pend : Bytes → Bool) : List Bytes → List Bytes → List Bytes
  | [], out => out
  | k :: ks, out =>
    if pend k then dedupeLoop pend ks out
    else if out.contains k then dedupeLoop pend ks out
    else dedupeLoop pend ks (out ++ [k])

def filterAndDedupe (pend : Bytes → Bool) (inputs : List (List Bytes)) : List Bytes :=
  dedupeLoop pend inputs.flatten []

/-! ## config/config.go : defaults -/

structure RawCfg where
  batch    : Int      -- maxUpkeepBatchSize as written in the off-chain config
  gasLimit : UInt32   -- gasLimitPerReport
  overhead : UInt32   -- gasOverheadPerUpkeep
  -- the remaining fields of `config.OffchainConfig`.  `Report` and `Observation` read NONE of them
  -- (`defaults` drops them): in particular `reportBlockLag` is decoded and validated but is not
  -- subtracted from the median at HEAD.  They configure the coordinator (lock-out window, minimum
  -- confirmations of a perform log) and the polling observer (sample ratio, per-head sampling window).
  reportBlockLag       : Int := 0
  performLockoutWindow : Int := 0
  targetInRounds       : Int := 0
  samplingJobDuration  : Int := 0
  minConfirmations     : Int := 0
  mercuryLookup        : Bool := false
deriving DecidableEq, Repr

structure Cfg where
  batch    : Nat
  gasLimit : UInt32
  overhead : UInt32
deriving DecidableEq, Repr

/-- `DecodeOffchainConfig` validators: `validateGasLimitPerReport`,
`validateGasOverheadPerUpkeep`, `validateMaxUpkeepBatchSize` -/
def defaults (c : RawCfg) : Cfg :=
  { batch := if c.batch ≤ 0 then 1 else c.batch.toNat,
    gasLimit := if c.gasLimit = 0 then 5300000 else c.gasLimit,
    overhead := if c.overhead = 0 then 300000 else c.overhead }

/-! ## ocr.go : `Report` -/

/-- an `UpkeepResult` as the encoder sees it: `Eligible(r) = (eligible, eligErr)`,
`Detail(r) = (key, gas, detailErr)`; `seq` = position in the runner's answer -/
structure Res where
  seq       : Nat
  key       : Bytes
  eligible  : Bool
  eligErr   : Bool
  gas       : UInt32
  detailErr : Bool
deriving DecidableEq, Repr

structure RunnerAns where
  err     : Bool
  results : List Res
deriving DecidableEq, Repr

def u64 (n : Nat) : Nat := n % 2 ^ 64
def u32 (n : Nat) : Nat := n % 2 ^ 32

/-- `if ok, err := Eligible(result); err != nil || !ok { continue }` -/
def skipNow (r : Res) : Bool := r.eligErr || !r.eligible
/-- pinned tree: `err != nil && ok` -/
def skipOld (r : Res) : Bool := r.eligErr && r.eligible

/-- gas test and update as the code does them now: `none` = over the limit (skip),
`some t` = the new `totalReportGas` (a `uint32`).
```
upkeepMaxGas := uint64(gas) + uint64(overhead)
if uint64(totalReportGas)+upkeepMaxGas > uint64(limit) { continue }
totalReportGas += uint32(upkeepMaxGas)
``` -/
def stepNow (cfg : Cfg) (total : Nat) (r : Res) : Option Nat :=
  let upkeepMaxGas := u64 (r.gas.toNat + cfg.overhead.toNat)
  if u64 (total + upkeepMaxGas) > cfg.gasLimit.toNat then none
  else some (u32 (total + u32 upkeepMaxGas))

/-- pinned tree: all three sums in `uint32`
```
upkeepMaxGas := gas + overhead
if totalReportGas+upkeepMaxGas > limit { continue }
totalReportGas += upkeepMaxGas
``` -/
def stepOld32 (cfg : Cfg) (total : Nat) (r : Res) : Option Nat :=
  let upkeepMaxGas := u32 (r.gas.toNat + cfg.overhead.toNat)
  if u32 (total + upkeepMaxGas) > cfg.gasLimit.toNat then none
  else some (u32 (total + upkeepMaxGas))

/-- reference: the same test and update in unbounded arithmetic (Props/C16 `report_no_wrap`:
`stepNow` coincides with it, i.e. the 64-bit sums and the narrowing conversion never wrap) -/
def stepIdeal (cfg : Cfg) (total : Nat) (r : Res) : Option Nat :=
  if total + (r.gas.toNat + cfg.overhead.toNat) > cfg.gasLimit.toNat then none
  else some (total + (r.gas.toNat + cfg.overhead.toNat))

/-- the report-building loop: state `(toPerform, totalReportGas)` -/
def loopG (skip : Res → Bool) (step : Cfg → Nat → Res → Option Nat) (cfg : Cfg) :
    List Res → List Res → Nat → List Res
  | [], acc, _ => acc
  | r :: rs, acc, total =>
    if skip r then loopG skip step cfg rs acc total
    else if r.detailErr then loopG skip step cfg rs acc total
    else match step cfg total r with
      | none => loopG skip step cfg rs acc total
      | some total' =>
        if (acc ++ [r]).length ≥ cfg.batch then acc ++ [r]
        else loopG skip step cfg rs (acc ++ [r]) total'

def reportLoop (cfg : Cfg) (rs : List Res) : List Res := loopG skipNow stepNow cfg rs [] 0
/-- eligibility test of the pinned tree, gas as now -/
def reportOld (cfg : Cfg) (rs : List Res) : List Res := loopG skipOld stepNow cfg rs [] 0
/-- eligibility test as now, gas sums of the pinned tree -/
def reportGasOld32 (cfg : Cfg) (rs : List Res) : List Res := loopG skipNow stepOld32 cfg rs [] 0
/-- the pinned snapshot (both defects) -/
def reportPinned (cfg : Cfg) (rs : List Res) : List Res := loopG skipOld stepOld32 cfg rs [] 0

inductive Status
  | errNotEnoughInputs   -- no attributed observation
  | errTooManyErrors     -- every observation failed to decode / validate
  | errRunner            -- CheckUpkeep returned an error
  | errTooManyResults    -- more results than keys
  | errEncode            -- EncodeReport failed
  | noReport             -- (false, nil, nil)
  | report               -- (true, bytes, nil)
  | panicked             -- the call panicked (never produced by the model: `report_never_panics`)
deriving DecidableEq, Repr

/-- what is observable of one `Report` call: the keys handed to `CheckUpkeep` (`[]` if it was not
called) and the results handed to `EncodeReport` (`[]` if it was not called) -/
structure Out where
  status    : Status
  checked   : List Bytes
  performed : List Res
deriving DecidableEq, Repr

def reportWith (loop : Cfg → List Res → List Res) (cfg : Cfg) (attr : List (Option Obs))
    (pend : Bytes → Bool) (sh : List Bytes → List Bytes) (run : List Bytes → RunnerAns)
    (encErr : Bool) : Out :=
  if attr.length = 0 then ⟨.errNotEnoughInputs, [], []⟩ else
  match observationsToKeys attr with
  | none => ⟨.errTooManyErrors, [], []⟩
  | some keys =>
    let keysToCheck := sh (filterAndDedupe pend keys)
    let keysToCheck := if keysToCheck.length > Gen.v2ReportKeysLimit
                       then keysToCheck.take Gen.v2ReportKeysLimit else keysToCheck
    if keysToCheck.length = 0 then ⟨.noReport, [], []⟩ else
    let ans := run keysToCheck
    if ans.err then ⟨.errRunner, keysToCheck, []⟩
    else if ans.results.length = 0 then ⟨.noReport, keysToCheck, []⟩
    else if ans.results.length > keysToCheck.length then ⟨.errTooManyResults, keysToCheck, []⟩
    else
      let toPerform := loop cfg ans.results
      if toPerform.length = 0 then ⟨.noReport, keysToCheck, []⟩
      else if encErr then ⟨.errEncode, keysToCheck, toPerform⟩
      else ⟨.report, keysToCheck, toPerform⟩

/-- `ocrPlugin.Report` -/
def report := reportWith reportLoop

/-! ## encode.go / encoding/json : the encoded observation -/

def b64char (n : Nat) : Nat :=
  if n < 26 then 65 + n else if n < 52 then 97 + (n - 26) else if n < 62 then 48 + (n - 52)
  else if n = 62 then 43 else 47

/-- `base64.StdEncoding` (how `encoding/json` renders a `[]byte`) -/
def b64enc : Bytes → Bytes
  | [] => []
  | [a] => [b64char (a / 4), b64char (a % 4 * 16), 61, 61]
  | [a, b] => [b64char (a / 4), b64char (a % 4 * 16 + b / 16), b64char (b % 16 * 4), 61]
  | a :: b :: c :: rest =>
    b64char (a / 4) :: b64char (a % 4 * 16 + b / 16) :: b64char (b % 16 * 4 + c / 64) ::
      b64char (c % 64) :: b64enc rest

def hexDigit (n : Nat) : Nat := if n < 10 then 48 + n else 87 + n

/-- `encoding/json` `appendString` with `escapeHTML = true` on a valid UTF-8 string, without the quotes -/
def escape : Bytes → Bytes
  | [] => []
  | 226 :: 128 :: 168 :: rest => 92 :: 117 :: 50 :: 48 :: 50 :: 56 :: escape rest   -- U+2028
  | 226 :: 128 :: 169 :: rest => 92 :: 117 :: 50 :: 48 :: 50 :: 57 :: escape rest   -- U+2029
  | c :: rest =>
    if c = 34 then 92 :: 34 :: escape rest
    else if c = 92 then 92 :: 92 :: escape rest
    else if c = 8 then 92 :: 98 :: escape rest
    else if c = 12 then 92 :: 102 :: escape rest
    else if c = 10 then 92 :: 110 :: escape rest
    else if c = 13 then 92 :: 114 :: escape rest
    else if c = 9 then 92 :: 116 :: escape rest
    else if c < 32 ∨ c = 60 ∨ c = 62 ∨ c = 38 then
      92 :: 117 :: 48 :: 48 :: hexDigit (c / 16) :: hexDigit (c % 16) :: escape rest
    else c :: escape rest

/-- one element of `"2"`: a nil identifier is `null`, otherwise a base64 string -/
def encId : Option Bytes → Bytes
  | none => [110, 117, 108, 108]
  | some b => 34 :: b64enc b ++ [34]

def joinComma : List Bytes → Bytes
  | [] => []
  | [x] => x
  | x :: y :: rest => x ++ 44 :: joinComma (y :: rest)

/-- `encode(Observation{BlockKey, UpkeepIdentifiers})` for a non-nil identifier slice:
`{"1":"<block>","2":[<ids>]}` + newline (`json.Encoder.Encode`) -/
def encodeObs (block : Bytes) (ids : List (Option Bytes)) : Bytes :=
  [123, 34, 49, 34, 58, 34] ++ escape block ++ [34, 44, 34, 50, 34, 58, 91] ++
    joinComma (ids.map encId) ++ [93, 125, 10]

/-- the `for i := range obs.UpkeepIdentifiers` loop of `limitedLengthEncode` -/
def lleGo (block : Bytes) (ids : List (Option Bytes)) (limit : Nat) : Nat → Nat → Bytes → Bytes
  | 0, _, res => res
  | n + 1, i, res =>
    let b := encodeObs block (ids.take (i + 1))
    if b.length > limit then res else lleGo block ids limit n (i + 1) b

/-- `limitedLengthEncode` (`[]` = the nil slice) -/
def limitedLengthEncode (block : Bytes) (ids : List (Option Bytes)) (limit : Nat) : Bytes :=
  if ids.length = 0 then encodeObs block ids else lleGo block ids limit ids.length 0 []

/-! ## observer/polling/observer.go : stager, `processLatestHead`, `Observe` -/

/-- one result answered to the observer's `CheckUpkeep` -/
structure HeadRes where
  key       : Bytes
  eligible  : Bool
  eligErr   : Bool
  detailErr : Bool
deriving DecidableEq, Repr

structure Head where
  block   : Bytes
  active  : Nat     -- number of active upkeep ids the registry returns
  srcErr  : Bool    -- GetActiveUpkeepIDs fails
  runErr  : Bool    -- CheckUpkeep fails
  results : List HeadRes
deriving DecidableEq, Repr

/-- `stager.currentBlock`, `stager.currentIDs` (`none` = the nil identifier staged when the
result's key cannot be split) -/
structure Stager where
  block : Bytes := []
  ids   : List (Option Bytes) := []
deriving DecidableEq, Repr

/-- the `for _, res := range results` loop of `processLatestHead` -/
def stageIds : List HeadRes → List (Option Bytes)
  | [] => []
  | r :: rs =>
    if r.eligErr then stageIds rs
    else if !r.eligible then stageIds rs
    else if r.detailErr then stageIds rs
    else (match splitKey r.key with
          | some (_, id) => some id
          | none => none) :: stageIds rs

/-- `processLatestHead`.  The sample ratios of the harness configurations (targetProbability /
targetInRounds pairs with n-f = 3 whose ratio is ≥ 0.5, e.g. 0.98 for the default 0.99999 in one
round) give a sample of `round(ratio·active)` keys, which is empty exactly when `active = 0`; then
nothing is staged.  The result loop does not look at the sampling context: a head whose sampling
window (`samplingJobDuration`) runs out while results are being staged is still staged completely
and advanced (only `GetActiveUpkeepIDs` / `CheckUpkeep` failing, `srcErr` / `runErr`, abandon a head,
and they do so before anything is staged). -/
def processHead (st : Stager) (h : Head) : Stager :=
  if h.srcErr then st
  else if h.active = 0 then st
  else if h.runErr then st
  else { block := h.block, ids := stageIds h.results }

/-- the stager `Observe` reads at observation point `n` of a head sequence: after `n` heads have
been processed completely — also WHILE head `n` (0-based) is being processed, i.e. between its
`prepareBlock` / `prepareIdentifier` calls and its `advance`: `advance` copies the staged list, so
identifiers staged so far for the head in progress are invisible to `Observe`. -/
def stagerAt (heads : List Head) (n : Nat) : Stager := (heads.take n).foldl processHead {}

/-- sampling of head `h` reaches the staging loop (`Eligible` is called for each result) -/
def headSampled (h : Head) : Bool := !h.srcErr && h.active != 0 && !h.runErr

def idBytes (id : Option Bytes) : Bytes := id.getD []

/-- `PollingObserver.Observe` -/
def observe (pend : Bytes → Bool) (st : Stager) : Bytes × List (Option Bytes) :=
  (st.block, st.ids.filter fun id => !pend (mkKey st.block (idBytes id)))

/-- the identifiers `ocrPlugin.Observation` puts into the observation -/
def observationIds (sh : List (Option Bytes) → List (Option Bytes)) (ids : List (Option Bytes)) :
    List (Option Bytes) :=
  let all := sh ids
  if all.length > Gen.v2ObservationUpkeepsLimit then all.take Gen.v2ObservationUpkeepsLimit else all

/-- `ocrPlugin.Observation`: the bytes handed to libocr -/
def observation (sh : List (Option Bytes) → List (Option Bytes)) (pend : Bytes → Bool) (st : Stager) : Bytes :=
  let (block, ids) := observe pend st
  limitedLengthEncode block (observationIds sh ids) Gen.v2MaxObservationLength

/-! ## runner/runner.go : the v2 runner between `CheckUpkeep` and the registry

`Report` and the polling observer do not call the registry; they call `Runner.CheckUpkeep`, which
answers keys it has a cached result for from the cache, cuts the others into batches of
`workerBatchLimit` keys, has the worker group call the registry once per batch and aggregates the
answers.  A batch that comes back WITHOUT an error is a successful call, however many results it
carries (one per key, fewer - paused / cancelled upkeeps have none -, an empty list, the nil slice):
its results are cached and added.  A batch that comes back with an error is a failed call; results
next to the error are dropped.  Only when calls were made and EVERY one of them failed does
`CheckUpkeep` fail (`ErrTooManyErrors`); otherwise it returns cached and fresh results.

Explicit parameters: which keys end up in which batch (the observer shuffles its sample with
crypto/rand) and the order in which the workers' answers are aggregated - `calls` is the list of
registry calls as they happened (`runnerCheck_perm`: their order only permutes the results). -/

/-- `workerBatchLimit: 10` (set by `NewRunner`) -/
def runnerBatchLimit : Nat := 10

/-- one registry call: the keys of the batch, whether it returned an error, the results returned -/
structure Call (α : Type) where
  keys    : List Bytes
  err     : Bool
  results : List α
deriving Repr

/-- `runner.Result`: the accumulator of one `parallelCheck` -/
structure Tally (α : Type) where
  successes : Nat := 0
  failures  : Nat := 0
  errSet    : Bool := false    -- `Err() != nil`
  values    : List α := []
deriving Repr

/-- `wrapAggregate`: the effect of one finished batch on the accumulator -/
def aggregate {α : Type} (t : Tally α) (c : Call α) : Tally α :=
  if c.err then { t with errSet := true, failures := t.failures + 1 }
  else { t with successes := t.successes + 1, values := t.values ++ c.results }

def Tally.total {α : Type} (t : Tally α) : Nat := t.successes + t.failures

/-- the hard-failure test of `parallelCheck`:
`result.Total() > 0 && result.Total() == result.Failures() && result.Err() != nil` -/
def allFailed {α : Type} (t : Tally α) : Bool :=
  decide (t.total > 0) && decide (t.total = t.failures) && t.errSet

/-- the runner's result cache (no entry expires within a case: 20 min); the newest entry of a key first -/
abbrev RCache (α : Type) := List (Bytes × α)

def cacheGet {α : Type} (c : RCache α) (k : Bytes) : Option α := (c.find? fun e => e.1 == k).map (·.2)

/-- `cache.Set(string(key), res)` for every result of a successful batch, `key` = `Detail(res)` -/
def cacheSetAll {α : Type} (keyOf : α → Bytes) (c : RCache α) (rs : List α) : RCache α :=
  rs.foldl (fun c r => (keyOf r, r) :: c) c

def cacheAfter {α : Type} (keyOf : α → Bytes) (cache : RCache α) (calls : List (Call α)) : RCache α :=
  calls.foldl (fun c call => if call.err then c else cacheSetAll keyOf c call.results) cache

/-- what `Runner.CheckUpkeep` returns -/
structure RunOut (α : Type) where
  err     : Bool
  results : List α
deriving Repr

/-- the keys `parallelCheck` has to ask the registry about -/
def toRun {α : Type} (cache : RCache α) (keys : List Bytes) : List Bytes :=
  keys.filter fun k => (cacheGet cache k).isNone

/-- `Runner.CheckUpkeep` / `parallelCheck` with a live context: new cache and answer -/
def runnerCheck {α : Type} (keyOf : α → Bytes) (cache : RCache α) (keys : List Bytes) (calls : List (Call α)) :
    RCache α × RunOut α :=
  if keys.isEmpty then (cache, ⟨false, []⟩)
  else
    let hits := keys.filterMap (cacheGet cache)
    if (toRun cache keys).isEmpty then (cache, ⟨false, hits⟩)
    else
      let t := calls.foldl aggregate { values := hits }
      if allFailed t then (cacheAfter keyOf cache calls, ⟨true, []⟩)
      else (cacheAfter keyOf cache calls, ⟨false, t.values⟩)

/-- the registry calls fit the request: the batches are a split of a permutation of the keys to run
into pieces of at most `runnerBatchLimit`, as few as possible (`util.Unflatten`) -/
def callsFit {α : Type} (run : List Bytes) (calls : List (Call α)) : Bool :=
  let asked := calls.flatMap (·.keys)
  decide (asked.length = run.length) && asked.all (run.contains ·) && run.all (asked.contains ·) &&
  calls.all (fun c => decide (1 ≤ c.keys.length) && decide (c.keys.length ≤ runnerBatchLimit)) &&
  decide (calls.length = (run.length + runnerBatchLimit - 1) / runnerBatchLimit)

/-- a head as the REGISTRY sees it: the calls made while it was sampled -/
structure RegHead where
  block  : Bytes
  active : Nat
  srcErr : Bool
  calls  : List (Call HeadRes)
deriving Repr

/-- the keys of the sample: `MakeUpkeepKey(block, id)` for the active ids `1 … active` (harness
registry; configurations under which every active id is sampled), in some order -/
def sampleKeys (block : Bytes) (active : Nat) : List Bytes :=
  (List.range active).map fun i => mkKey block (decOf (i + 1))

/-- the cache key of a result: `Detail(res)`'s key, the nil key when `Detail` fails -/
def headResKey (r : HeadRes) : Bytes := if r.detailErr then [] else r.key

/-- what the observer gets from the runner for a head the registry answered with `calls` -/
def regHead (cache : RCache HeadRes) (h : RegHead) : RCache HeadRes × Head :=
  if h.srcErr || h.active == 0 then (cache, ⟨h.block, h.active, h.srcErr, false, []⟩)
  else
    let r := runnerCheck headResKey cache (sampleKeys h.block h.active) h.calls
    (r.1, ⟨h.block, h.active, false, r.2.err, r.2.results⟩)

/-- consecutive heads through one runner (one cache) -/
def regHeads : RCache HeadRes → List RegHead → List Head
  | _, [] => []
  | cache, h :: rest => (regHead cache h).2 :: regHeads (regHead cache h).1 rest

/-! ## ocr.go : `ShouldAcceptFinalizedReport`, `ShouldTransmitAcceptedReport`; encoding/basic.go : keys -/

/-- the report bytes handed to `ShouldAcceptFinalizedReport`, as the encoder's `KeysFromReport` sees them -/
inductive ReportBytes
  | empty                      -- `len(r) == 0`
  | undecodable                -- `KeysFromReport` fails
  | keys (ks : List Bytes)
deriving Repr

/-- `ShouldAcceptFinalizedReport`: (accept, error, the keys handed to `Coordinator.Accept`) -/
def shouldAccept : ReportBytes → Bool × Bool × List Bytes
  | .empty => (false, false, [])
  | .undecodable => (false, true, [])
  | .keys [] => (false, true, [])
  | .keys (k :: ks) => (true, false, k :: ks)

/-- `ShouldTransmitAcceptedReport` on what `KeysFromReport` returned (`none` = it failed): (transmit, error) -/
def shouldTransmit (confirmed : Bytes → Bool) : Option (List Bytes) → Bool × Bool
  | none => (false, true)
  | some [] => (false, true)
  | some ks => (ks.any fun k => !confirmed k, false)

/-- `BasicEncoder.ValidateUpkeepKey` returns `(true, nil)` -/
def validKey (k : Option Bytes) : Bool :=
  match k with
  | none => false                       -- the nil key does not split
  | some k => match splitKey k with
    | some (b, i) => validBlock b && validId i
    | none => false

/-- `big.Int.SetString(s, 10)` succeeds: an optional sign and at least one digit -/
def intParses (s : Bytes) : Bool :=
  let d := match s with
    | 43 :: r => r
    | 45 :: r => r
    | r => r
  !d.isEmpty && d.all isDigit

/-- `BasicEncoder.GetMedian` on unsigned decimal strings: `none` = it panics (a value does not parse);
"0" for no value at all -/
def getMedian (bs : List Bytes) : Option Bytes :=
  if bs.all intParses then some (decOf (median (bs.map decVal))) else none

/-! ## a strict decoder for encoded observations

Accepts exactly the shape `encodeObs` produces (`encoding/json` accepts more: white space,
other key orders, unknown keys, trailing data).  Whenever this decoder accepts, the
correspondence check compares its result with what `encoding/json` decoded. -/

def stripPrefix : Bytes → Bytes → Option Bytes
  | [], s => some s
  | _ :: _, [] => none
  | p :: ps, c :: s => if p = c then stripPrefix ps s else none

def hexVal (c : Nat) : Option Nat :=
  if 48 ≤ c ∧ c ≤ 57 then some (c - 48) else if 97 ≤ c ∧ c ≤ 102 then some (c - 87) else none

/-- body of a JSON string up to the closing quote, unescaped; returns the rest after the quote -/
def takeString : Bytes → Option (Bytes × Bytes)
  | [] => none
  | c :: rest =>
    if c = 34 then some ([], rest)
    else if c = 92 then
      match rest with
      | 117 :: 50 :: 48 :: 50 :: 56 :: r => (takeString r).map fun (s, t) => (226 :: 128 :: 168 :: s, t)
      | 117 :: 50 :: 48 :: 50 :: 57 :: r => (takeString r).map fun (s, t) => (226 :: 128 :: 169 :: s, t)
      | 117 :: 48 :: 48 :: h :: l :: r =>
        match hexVal h, hexVal l with
        | some a, some b => if a < 8 then (takeString r).map fun (s, t) => ((a * 16 + b) :: s, t) else none
        | _, _ => none
      | e :: r =>
        let d : Option Nat :=
          if e = 34 then some 34 else if e = 92 then some 92 else if e = 98 then some 8
          else if e = 102 then some 12 else if e = 110 then some 10 else if e = 114 then some 13
          else if e = 116 then some 9 else none
        match d with
        | some x => (takeString r).map fun (s, t) => (x :: s, t)
        | none => none
      | [] => none
    else if c < 32 ∨ c ≥ 128 then none
    else (takeString rest).map fun (s, t) => (c :: s, t)

/-- bytes up to the next quote, taken literally (base64 text) -/
def takeUntilQuote : Bytes → Option (Bytes × Bytes)
  | [] => none
  | c :: rest => if c = 34 then some ([], rest) else (takeUntilQuote rest).map fun (s, t) => (c :: s, t)

def b64idx (c : Nat) : Option Nat :=
  if 65 ≤ c ∧ c ≤ 90 then some (c - 65) else if 97 ≤ c ∧ c ≤ 122 then some (c - 71)
  else if 48 ≤ c ∧ c ≤ 57 then some (c + 4) else if c = 43 then some 62 else if c = 47 then some 63 else none

def b64dec : Bytes → Option Bytes
  | c0 :: c1 :: c2 :: c3 :: rest =>
    match b64idx c0, b64idx c1 with
    | some i0, some i1 =>
      if c3 = 61 ∧ rest = [] then
        if c2 = 61 then some [i0 * 4 + i1 / 16]
        else match b64idx c2 with
          | some i2 => some [i0 * 4 + i1 / 16, i1 % 16 * 16 + i2 / 4]
          | none => none
      else match b64idx c2, b64idx c3, b64dec rest with
        | some i2, some i3, some tl => some ((i0 * 4 + i1 / 16) :: (i1 % 16 * 16 + i2 / 4) :: (i2 % 4 * 64 + i3) :: tl)
        | _, _, _ => none
    | _, _ => none
  | [] => some []
  | _ => none

/-- elements of the `"2"` array after the opening bracket, up to and including `]`; fuel = input length -/
def decodeIds : Nat → Bytes → Option (List (Option Bytes) × Bytes)
  | 0, _ => none
  | fuel + 1, s =>
    let elem : Option (Option Bytes × Bytes) :=
      match s with
      | 34 :: r => (takeUntilQuote r).bind fun (t, r') => (b64dec t).map fun b => (some b, r')
      | 110 :: 117 :: 108 :: 108 :: r => some (none, r)
      | _ => none
    match elem with
    | none => none
    | some (e, r) =>
      match r with
      | 93 :: r' => some ([e], r')
      | 44 :: r' => (decodeIds fuel r').map fun (es, t) => (e :: es, t)
      | _ => none

/-- the strict decoder: `some (block, ids)` -/
def decodeObs (b : Bytes) : Option (Bytes × List (Option Bytes)) :=
  match stripPrefix [123, 34, 49, 34, 58, 34] b with
  | none => none
  | some r =>
    match takeString r with
    | none => none
    | some (block, r) =>
      match stripPrefix [44, 34, 50, 34, 58, 91] r with
      | none => none
      | some r =>
        let tl : Option (List (Option Bytes) × Bytes) :=
          match r with
          | 93 :: r' => some ([], r')
          | _ => decodeIds r.length r
        match tl with
        | some (ids, [125, 10]) => some (block, ids)
        | _ => none

end AutoVerif.C16
