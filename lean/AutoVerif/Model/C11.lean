import AutoVerif.Model.Types
import AutoVerif.Gen.Consts
/-
C11 — model of
  * pkg/v3/stores/metadata_store.go : `orderedMap` (Add/Get/Keys/Delete), `expiringRecord.expired`,
    `AddProposals` / `ViewProposals` / `RemoveProposals`  (code as it is now: `Keys()` returns a copy),
    plus `viewOld`: the pre-fix loop, a `range` over the slice returned by the old `Keys()` which
    shared its backing array with `m.keys` while `Delete` shifted that array left;
  * pkg/v3/stores/proposal_queue.go : `Enqueue` / `Dequeue` (map iteration order explicit);
  * pkg/v3/plugin/hooks/remove_from_metadata.go, add_to_proposalq.go : `RunHook`.

Time is an explicit `now : Nat` (virtual nanoseconds); the clock is monotone, so
`time.Since(createdAt)` is `now - createdAt` (truncated subtraction is only reached with
`createdAt ≤ now`).  A Go `map[string]V` is an association list on which only
`get`/`set`/`del` are used.  The upkeep type getter is a parameter `tg : upkeepID → Nat`
(`types.ConditionTrigger = 0`, `types.LogTrigger = 1`, anything else is ignored by the store).
-/
namespace AutoVerif.C11

/-! ### Go `map[string]V` -/

abbrev GMap (V : Type) := List (String × V)

namespace GMap
variable {V : Type}

def get : GMap V → String → Option V
  | [], _ => none
  | (k', v) :: m, k => if k' = k then some v else get m k

/-- `delete(m, k)` -/
def del (m : GMap V) (k : String) : GMap V := m.filter (fun e => decide (e.1 ≠ k))

/-- `m[k] = v` -/
def set (m : GMap V) (k : String) (v : V) : GMap V := (k, v) :: m.del k

def keys (m : GMap V) : List String := m.map (·.1)

end GMap

/-! ### metadata store -/

/-- `expiringRecord` -/
structure Rec where
  createdAt : Nat
  proposal  : Proposal
deriving DecidableEq, Repr

/-- `orderedMap` -/
structure OMap where
  keys   : List String
  values : GMap Rec
deriving DecidableEq, Repr

def OMap.empty : OMap := { keys := [], values := [] }

/-- `orderedMap.Add` -/
def OMap.add (m : OMap) (key : String) (v : Rec) : OMap :=
  if (m.values.get key).isSome then
    { m with values := m.values.set key v }
  else
    { keys := m.keys ++ [key], values := m.values.set key v }

/-- `orderedMap.Get`; Go returns the zero record for a missing key (creation time = year 1,
which `expired` always reports as expired): modelled by `none`. -/
def OMap.get (m : OMap) (key : String) : Option Rec := m.values.get key

/-- `orderedMap.Delete`: drop the value, remove the first occurrence of the key from `keys` -/
def OMap.delete (m : OMap) (key : String) : OMap :=
  { keys := m.keys.erase key, values := m.values.del key }

def insertSorted (k : String) : List String → List String
  | [] => [k]
  | x :: xs => if k ≤ x then k :: x :: xs else x :: insertSorted k xs

/-- `sort.Strings` (the result of sorting a list is unique, so the algorithm is immaterial) -/
def sortStrings (l : List String) : List String := l.foldr insertSorted []

/-- `orderedMap.Keys`: sorts `m.keys` in place and returns a *copy* -/
def OMap.keysCopy (m : OMap) : List String × OMap :=
  let s := sortStrings m.keys
  (s, { m with keys := s })

/-- `expiringRecord.expired`: `time.Since(r.createdAt) > expr` -/
def recExpired (expr now : Nat) (r : Rec) : Bool := decide (now - r.createdAt > expr)

/-- body of `viewLogRecoveryProposal` / `viewConditionalProposal` after `Keys()` -/
def viewLoop (expr now : Nat) : List String → OMap → List Proposal → List Proposal × OMap
  | [], m, res => (res, m)
  | key :: ks, m, res =>
    match m.get key with
    | some r =>
      if recExpired expr now r then viewLoop expr now ks (m.delete key) res
      else viewLoop expr now ks m (res ++ [r.proposal])
    | none => viewLoop expr now ks (m.delete key) res

def OMap.view (expr now : Nat) (m : OMap) : List Proposal × OMap :=
  let (ks, m1) := m.keysCopy
  viewLoop expr now ks m1 []

/-! #### the loop before `fix: metadata store: iterate over a copy of the ordered keys`

`buf` is the backing array of `m.keys` (all `n` cells the `range` statement will read),
`len` the current `len(m.keys)`, i.e. `m.keys = buf[:len]`. -/

def indexOf (key : String) : List String → Option Nat
  | [] => none
  | x :: xs => if x = key then some 0 else (indexOf key xs).map (· + 1)

/-- `Delete` acting on `m.keys = buf[:len]`: `append(keys[:i], keys[i+1:]...)` copies the tail one
cell to the left inside the shared array; cell `len-1` keeps its old content. -/
def deleteAliased (buf : List String) (len : Nat) (key : String) : List String × Nat :=
  match indexOf key (buf.take len) with
  | none => (buf, len)
  | some i => (buf.take i ++ (buf.drop (i + 1)).take (len - i - 1) ++ buf.drop (len - 1), len - 1)

/-- `for _, key := range <slice of length n over buf>`: cell `i` is read at iteration `i` -/
def viewOldLoop (expr now : Nat) : Nat → Nat → List String → Nat → GMap Rec → List Proposal →
    List Proposal × OMap
  | 0, _, buf, len, vals, res => (res, { keys := buf.take len, values := vals })
  | fuel + 1, i, buf, len, vals, res =>
    match buf[i]? with
    | none => (res, { keys := buf.take len, values := vals })
    | some key =>
      match vals.get key with
      | some r =>
        if recExpired expr now r then
          let (buf', len') := deleteAliased buf len key
          viewOldLoop expr now fuel (i + 1) buf' len' (vals.del key) res
        else viewOldLoop expr now fuel (i + 1) buf len vals (res ++ [r.proposal])
      | none =>
        let (buf', len') := deleteAliased buf len key
        viewOldLoop expr now fuel (i + 1) buf' len' (vals.del key) res

def OMap.viewOld (expr now : Nat) (m : OMap) : List Proposal × OMap :=
  let s := sortStrings m.keys
  viewOldLoop expr now s.length 0 s s.length m.values []

/-- `types.ConditionTrigger`, `types.LogTrigger` -/
def condT : Nat := 0
def logT : Nat := 1

/-- the two ordered maps of `metadataStore` -/
structure MStore where
  cond : OMap
  log  : OMap
deriving DecidableEq, Repr

def MStore.empty : MStore := { cond := OMap.empty, log := OMap.empty }

def MStore.add1 (tg : String → Nat) (now : Nat) (s : MStore) (p : Proposal) : MStore :=
  if tg p.upkeepID = logT then { s with log := s.log.add p.workID { createdAt := now, proposal := p } }
  else if tg p.upkeepID = condT then { s with cond := s.cond.add p.workID { createdAt := now, proposal := p } }
  else s

/-- `AddProposals` -/
def MStore.addProposals (tg : String → Nat) (now : Nat) (ps : List Proposal) (s : MStore) : MStore :=
  ps.foldl (MStore.add1 tg now) s

def MStore.remove1 (tg : String → Nat) (s : MStore) (p : Proposal) : MStore :=
  if tg p.upkeepID = logT then { s with log := s.log.delete p.workID }
  else if tg p.upkeepID = condT then { s with cond := s.cond.delete p.workID }
  else s

/-- `RemoveProposals` -/
def MStore.removeProposals (tg : String → Nat) (ps : List Proposal) (s : MStore) : MStore :=
  ps.foldl (MStore.remove1 tg) s

/-- `ViewProposals` (a `nil` result for any other type is the empty list) -/
def MStore.viewProposals (utype now : Nat) (s : MStore) : List Proposal × MStore :=
  if utype = logT then
    let (res, m) := s.log.view Gen.logRecoveryExpiryNs now
    (res, { s with log := m })
  else if utype = condT then
    let (res, m) := s.cond.view Gen.conditionalExpiryNs now
    (res, { s with cond := m })
  else ([], s)

/-- `RemoveFromMetadataHook.RunHook`: one `RemoveProposals(proposal)` per surfaced proposal -/
def removeFromMetadataHook (tg : String → Nat) (surfaced : List (List Proposal)) (s : MStore) : MStore :=
  surfaced.foldl (fun s round => round.foldl (fun s p => s.removeProposals tg [p]) s) s

/-! ### build hooks of the observation (`AddLogProposalsHook`, `AddConditionalProposalsHook`)

`RunHook` views the pending set of its type, passes it through the coordinator's filter (nothing is in
flight in the histories of this property: the filter is the identity; C07 is about the filter), shuffles
with a source keyed by config digest and sequence number, and keeps the first `limit`.  The shuffle is
explicit: `order` lists work ids in the order the shuffle leaves them (ids it does not list follow in
view order), so every permutation of the view is `shuffleBy order view` for some duplicate-free
`order`, and nothing else is. -/

def shuffleBy (order : List String) (view : List Proposal) : List Proposal :=
  order.filterMap (fun k => view.find? (fun p => p.workID == k)) ++
    view.filter (fun p => !order.contains p.workID)

/-- `if len(proposals) > limit { proposals = proposals[:limit] }` -/
def cutTo (limit : Nat) (l : List Proposal) : List Proposal :=
  if l.length > limit then l.take limit else l

/-- what the hook appends to the observation, given what `ViewProposals` returned -/
def observeHook (limit : Nat) (order : List String) (view : List Proposal) : List Proposal :=
  cutTo limit (shuffleBy order view)

/-- `RunHook`: the proposals added to the observation and the store after the view (expired purged) -/
def MStore.observe (utype limit now : Nat) (order : List String) (s : MStore) : List Proposal × MStore :=
  (observeHook limit order (s.viewProposals utype now).1, (s.viewProposals utype now).2)

/-! ### the proposal filterer (`preprocessors.proposalFilterer`, first stage of the recovery proposal flow)

`PreProcess` views the pending proposals of its type and lets those payloads pass whose work id is not among
them (a payload is modelled by the proposal the flow would make of it: upkeep id, trigger, work id). -/

def filterPayloads (view : List Proposal) (ps : List Proposal) : List Proposal :=
  ps.filter (fun p => !view.any (fun v => v.workID == p.workID))

def MStore.filterer (utype now : Nat) (ps : List Proposal) (s : MStore) : List Proposal × MStore :=
  (filterPayloads (s.viewProposals utype now).1 ps, (s.viewProposals utype now).2)

/-! ### life cycle of the store (`Start` / `Close`)

`Start` flags the service as running and then only moves block histories from the subscription into
`blockHistory`; `Close` unsubscribes and stops that loop.  Neither touches the pending sets, and
`AddProposals` / `ViewProposals` / `RemoveProposals` do not look at the flag: a store that has not been
started yet, is running, or was closed (and possibly started again) holds the same proposals. -/

structure Life where
  running : Bool
deriving DecidableEq, Repr

/-- `Start`: refused (`service already running`) when running, otherwise the flag is set -/
def Life.start (l : Life) : Life × Bool := if l.running then (l, false) else ({ running := true }, true)

/-- `Close`: refused (`service not running`) when not running, otherwise the flag is cleared -/
def Life.close (l : Life) : Life × Bool := if !l.running then (l, false) else ({ running := false }, true)

/-! ### proposal queue -/

/-- `proposalQueueRecord` -/
structure QRec where
  proposal  : Proposal
  removed   : Bool
  createdAt : Nat
deriving DecidableEq, Repr, Inhabited

abbrev Queue := GMap QRec

/-- `proposalQueueRecord.expired`: `now.Sub(r.createdAt) > expr` -/
def qExpired (now : Nat) (r : QRec) : Bool := decide (now - r.createdAt > Gen.proposalExpiryNs)

def enqueue1 (now : Nat) (q : Queue) (p : Proposal) : Queue :=
  match q.get p.workID with
  | some ex =>
    if ex.proposal.trigger.blockNumber ≥ p.trigger.blockNumber then q
    else q.set p.workID { proposal := p, removed := false, createdAt := now }
  | none => q.set p.workID { proposal := p, removed := false, createdAt := now }

/-- `Enqueue` -/
def enqueue (now : Nat) (ps : List Proposal) (q : Queue) : Queue := ps.foldl (enqueue1 now) q

/-- first loop of `Dequeue`; `order` is the order in which `range pq.records` yields the keys -/
def dequeueScan (tg : String → Nat) (t now : Nat) : List String → Queue → List Proposal → List Proposal × Queue
  | [], q, acc => (acc, q)
  | k :: ks, q, acc =>
    match q.get k with
    | none => dequeueScan tg t now ks q acc
    | some r =>
      if qExpired now r then dequeueScan tg t now ks (q.del r.proposal.workID) acc
      else if r.removed then dequeueScan tg t now ks q acc
      else if tg r.proposal.upkeepID = t then dequeueScan tg t now ks q (acc ++ [r.proposal])
      else dequeueScan tg t now ks q acc

def markRemoved1 (q : Queue) (p : Proposal) : Queue :=
  match q.get p.workID with
  | some r => q.set p.workID { r with removed := true }
  | none => q.set p.workID { (default : QRec) with removed := true }

/-- second loop of `Dequeue`: mark the returned proposals -/
def markRemoved (q : Queue) (ps : List Proposal) : Queue := ps.foldl markRemoved1 q

/-- `Dequeue(t, n)` for `n ≥ 0` (a negative `n` panics in `proposals[:n]`; no caller passes one) -/
def dequeue (tg : String → Nat) (t n now : Nat) (order : List String) (q : Queue) : List Proposal × Queue :=
  let (cands, q1) := dequeueScan tg t now order q []
  let out := cands.take n
  (out, markRemoved q1 out)

/-- `AddToProposalQHook.RunHook`: one `Enqueue(round...)` per round of the surfaced history -/
def addToProposalQHook (now : Nat) (surfaced : List (List Proposal)) (q : Queue) : Queue :=
  surfaced.foldl (fun q round => enqueue now round q) q

/-- guard of `ocr3Plugin.Observation`: the pre-build hooks (remove-from-staging, remove-from-metadata,
add-to-proposalq) run for EVERY call that carries a previous outcome — whether or not that outcome was
seen before: the node's pending sets change between rounds. -/
def observationAppliesOutcome (prevNotNil : Bool) (prevLen : Nat) : Bool := prevNotNil || decide (prevLen ≠ 0)

/-! ### histories -/

inductive Op where
  | add (ps : List Proposal)                 -- MetadataStore.AddProposals
  | remove (ps : List Proposal)              -- MetadataStore.RemoveProposals
  | view (t : Nat)                           -- MetadataStore.ViewProposals
  | adv (d : Nat)                            -- the clock advances by d ns
  | enq (ps : List Proposal)                 -- ProposalQueue.Enqueue
  | deq (t n : Nat) (order : List String)    -- ProposalQueue.Dequeue with the map iteration order
  | outcome (surfaced : List (List Proposal)) -- pre-build hooks: remove-from-metadata, then add-to-proposalq
  | tick (t n : Nat) (order : List String) (ok : Bool)
    -- one tick of a final flow (`coordinatedProposalsTick.Value` + observer): `Dequeue(t, n)`, then
    -- `BuildPayloads`; `ok` = the payload builder (an external dependency) returned no error.
    -- On an error `Value` returns it and the observer hands nothing on; the records stay dequeued.
    -- The output of the operation is what reaches the runner of the finalisation flow.
  | observe (t limit : Nat) (order : List String)
    -- a build hook of the observation runs for upkeep type `t` (`MStore.observe`); the output is what it
    -- adds to the observation = what the node proposes this round
  | svc (start : Bool)                       -- MetadataStore.Start (true) / Close (false)
  | filter (t : Nat) (ps : List Proposal)
    -- the proposal filterer of upkeep type `t` pre-processes the payloads `ps`; the output is what passes
deriving DecidableEq, Repr

structure St where
  ms  : MStore
  q   : Queue
  now : Nat
  life : Life := { running := false }   -- the metadata store's service state
deriving DecidableEq, Repr

def St.init (now : Nat) : St := { ms := MStore.empty, q := [], now := now }

/-- what the operation returns (nothing for operations without a result) -/
def stepOut (tg : String → Nat) (st : St) : Op → Option (List Proposal)
  | .view t => some (st.ms.viewProposals t st.now).1
  | .deq t n order => some (dequeue tg t n st.now order st.q).1
  | .tick t n order ok => some (if ok then (dequeue tg t n st.now order st.q).1 else [])
  | .observe t limit order => some (st.ms.observe t limit st.now order).1
  | .filter t ps => some (st.ms.filterer t st.now ps).1
  | _ => none

def step (tg : String → Nat) (st : St) : Op → St
  | .add ps => { st with ms := st.ms.addProposals tg st.now ps }
  | .remove ps => { st with ms := st.ms.removeProposals tg ps }
  | .view t => { st with ms := (st.ms.viewProposals t st.now).2 }
  | .adv d => { st with now := st.now + d }
  | .enq ps => { st with q := enqueue st.now ps st.q }
  | .deq t n order => { st with q := (dequeue tg t n st.now order st.q).2 }
  | .outcome sf => { st with ms := removeFromMetadataHook tg sf st.ms, q := addToProposalQHook st.now sf st.q }
  | .tick t n order _ => { st with q := (dequeue tg t n st.now order st.q).2 }
  | .observe t limit order => { st with ms := (st.ms.observe t limit st.now order).2 }
  | .filter t ps => { st with ms := (st.ms.filterer t st.now ps).2 }
  | .svc start =>   -- the pending sets, the queue and the clock are not touched (see `Life`)
    { st with life := if start then st.life.start.1 else st.life.close.1 }

/-- outputs of a history, one entry per operation -/
def run (tg : String → Nat) : List Op → St → List (Option (List Proposal))
  | [], _ => []
  | op :: ops, st => stepOut tg st op :: run tg ops (step tg st op)

def final (tg : String → Nat) (ops : List Op) (st : St) : St := ops.foldl (step tg) st

/-! ### ghost log of hand-outs -/

/-- a hand-out: work id, check block, first-seen time of the queue record, time of the dequeue -/
structure Ev where
  w : String
  b : Nat
  c : Nat
  t : Nat
deriving DecidableEq, Repr

def firstSeen (q : Queue) (p : Proposal) (now : Nat) : Nat :=
  match q.get p.workID with
  | some r => r.createdAt
  | none => now

/-- the hand-out of `p` by a dequeue at `now`, `q1` being the queue after the expiry scan -/
def mkEv (q1 : Queue) (now : Nat) (p : Proposal) : Ev :=
  { w := p.workID, b := p.trigger.blockNumber, c := firstSeen q1 p now, t := now }

def deqEvents (tg : String → Nat) (t n now : Nat) (order : List String) (q : Queue) : List Ev :=
  let (cands, q1) := dequeueScan tg t now order q []
  (cands.take n).map (mkEv q1 now)

def opEvents (tg : String → Nat) (st : St) : Op → List Ev
  | .deq t n order => deqEvents tg t n st.now order st.q
  | .tick t n order ok => if ok then deqEvents tg t n st.now order st.q else []
  | _ => []

/-- every hand-out of a history, in order -/
def handouts (tg : String → Nat) : List Op → St → List Ev
  | [], _ => []
  | op :: ops, st => opEvents tg st op ++ handouts tg ops (step tg st op)

end AutoVerif.C11
