import AutoVerif.Props.C10
import AutoVerif.Gen.Consts
/-
C10TieFields — WHAT `resultStore.Add` writes (extractor kind "fields", extract/exprs.d/C10fields.json): both
`result{data: r, addedAt: time.Now()}` literals — the result being added itself, stamped with the current time — are the
entries the model's `add1` stores on the paths that write.
-/
namespace AutoVerif.C10

theorem add1_entries_match_source (ttl now : Nat) (s : Store) (r : CheckResult) :
    Gen.Src.c10AddNewEntryFields = ["data=theResult", "addedAt"] ∧
    Gen.Src.c10AddReplaceEntryFields = ["data=theResult", "addedAt"] ∧
    (get s r.workID = none → add1 ttl now s r = set s r.workID ⟨r, Gen.Src.c10AddNewEntry_addedAt now⟩) ∧
    (∀ v, get s r.workID = some v → expired ttl now v = true →
      add1 ttl now s r = set s r.workID ⟨r, Gen.Src.c10AddNewEntry_addedAt now⟩) ∧
    (∀ v, get s r.workID = some v → expired ttl now v = false → blk v.data < blk r →
      add1 ttl now s r = set s r.workID ⟨r, Gen.Src.c10AddReplaceEntry_addedAt now⟩) := by
  refine ⟨rfl, rfl, ?_, ?_, ?_⟩
  · intro h; simp [add1, h, Gen.Src.c10AddNewEntry_addedAt]
  · intro v h he; simp [add1, h, he, Gen.Src.c10AddNewEntry_addedAt]
  · intro v h he hb; simp [add1, h, he, hb, Gen.Src.c10AddReplaceEntry_addedAt]

end AutoVerif.C10
