import AutoVerif.Lemmas.C11
/-
C11 — Proposals: viewed exactly, dropped once surfaced, finalised once per block.

Property theorems only (helper lemmas live in Lemmas/C11).  All of them hold for every
state the stores can reach and every history of operations — no bound on the number of
proposals, operations, rounds or on the clock.  Numbers (24 h, 20 s) are the regenerated
constants of `Gen/Consts`; no theorem depends on their value except where stated.
-/
namespace AutoVerif.C11

/-! ### the metadata store: a view returns exactly the unexpired proposals -/

/-- the ordered map invariant holds in every reachable state (all histories, any start) -/
theorem store_wf_all_histories (tg : String → Nat) (ops : List Op) (st : St) (h : WFS st.ms) :
    WFS (final tg ops st).ms := by
  unfold final
  induction ops generalizing st with
  | nil => exact h
  | cons op ops ih =>
    refine ih (step tg st op) ?_
    cases op with
    | add ps => exact WFS_addProposals tg _ ps h
    | remove ps => exact WFS_removeProposals tg ps h
    | view t => exact WFS_view t st.now h
    | observe t limit order => exact WFS_observe t limit st.now order h
    | svc b => exact h
    | filter t ps => exact WFS_filterer t st.now ps h
    | adv d => exact h
    | enq ps => exact h
    | deq t n order => exact h
    | tick t n order ok => exact h
    | outcome sf => exact WFS_removeHook tg sf h

/-- `view_exact`: on every well-formed ordered map the view loop returns the proposals of the
unexpired keys in key order, drops exactly the expired keys from the key slice, and leaves
exactly the unexpired records in the value map. -/
theorem view_exact (expr now : Nat) (m : OMap) (h : WF m) :
    (m.view expr now).1 = (sortStrings m.keys).filterMap (liveProp expr now m.values) ∧
    (m.view expr now).2.keys = (sortStrings m.keys).filter (fun k => !deadK expr now m.values k) ∧
    (m.view expr now).2.values = liveOf expr now m.values ∧
    WF (m.view expr now).2 := by
  refine ⟨?_, ?_, ?_, WF_view expr now h⟩ <;> rw [view_eq expr now h]

/-- each unexpired proposal exactly once: the work ids of the result are the unexpired keys in
strictly ascending order (hence no repeats), nothing unexpired is omitted, nothing else returned -/
theorem view_each_live_once (expr now : Nat) (m : OMap) (h : WF m) (hk : Keyed m) :
    let res := (m.view expr now).1
    res.map (·.workID) = (sortStrings m.keys).filter (fun k => !deadK expr now m.values k) ∧
    List.Pairwise (· < ·) (res.map (·.workID)) ∧
    (res.map (·.workID)).Nodup ∧
    (∀ k r, m.values.get k = some r → recExpired expr now r = false → r.proposal ∈ res) ∧
    (∀ p ∈ res, ∃ k r, m.values.get k = some r ∧ recExpired expr now r = false ∧ r.proposal = p) := by
  have hmap : ((m.view expr now).1).map (·.workID) =
      (sortStrings m.keys).filter (fun k => !deadK expr now m.values k) := by
    rw [view_eq expr now h]; exact map_workID_filterMap hk expr now _
  refine ⟨hmap, ?_, ?_, ?_, ?_⟩
  · rw [hmap]; exact (sortStrings_strict h.keysNodup).filter _
  · rw [hmap]; exact List.Nodup.sublist List.filter_sublist (sortStrings_nodup h.keysNodup)
  · intro k r hg he; exact (mem_view_iff expr now h _).mpr ⟨k, r, hg, he, rfl⟩
  · intro p hp; exact (mem_view_iff expr now h p).mp hp

/-- the state after a view holds the live entries only: a second view at the same instant
returns the same proposals and changes nothing -/
theorem view_idempotent (expr now : Nat) (m : OMap) (h : WF m) :
    ((m.view expr now).2.view expr now).1 = (m.view expr now).1 ∧
    ((m.view expr now).2.view expr now).2.values = (m.view expr now).2.values := by
  have h2 := WF_view expr now h
  have hv : (m.view expr now).2.values = liveOf expr now m.values := by rw [view_eq expr now h]
  have hk : (m.view expr now).2.keys = (sortStrings m.keys).filter (fun k => !deadK expr now m.values k) := by
    rw [view_eq expr now h]
  have hlive : ∀ k, (liveOf expr now m.values).get k =
      (m.values.get k).bind (fun r => if !recExpired expr now r then some r else none) := by
    intro k; unfold liveOf; exact GMap.get_filter h.valsKN _ k
  constructor
  · rw [view_eq expr now h2, hv, hk]
    have hs : sortStrings ((sortStrings m.keys).filter (fun k => !deadK expr now m.values k)) =
        (sortStrings m.keys).filter (fun k => !deadK expr now m.values k) := by
      apply List.Perm.eq_of_pairwise (le := (· ≤ ·))
      · intro a b _ _ hab hba; exact String.le_antisymm hab hba
      · exact sortStrings_sorted _
      · exact (sortStrings_sorted m.keys).filter _
      · exact sortStrings_perm _
    rw [hs, view_eq expr now h]
    simp only [List.filterMap_filter]
    apply filterMap_congr'
    intro k _
    simp only [liveProp, deadK, hlive]
    cases hg : m.values.get k with
    | none => simp
    | some r => by_cases he : recExpired expr now r = true <;> simp [he]
  · rw [view_eq expr now h2, hv]
    unfold liveOf
    rw [List.filter_filter]
    apply List.filter_congr
    intro e _; simp

/-- `view_exact` for ALL op sequences: after any history (adds, removes, views, expiries, outcomes,
queue traffic) from empty stores, a view of either pending set returns exactly its unexpired
proposals, each once, in key order. -/
theorem view_exact_all_histories (tg : String → Nat) (now0 : Nat) (ops : List Op) :
    let st := final tg ops (St.init now0)
    (∀ (m : OMap) (expr : Nat), (m = st.ms.log ∨ m = st.ms.cond) →
      (m.view expr st.now).1 = (sortStrings m.keys).filterMap (liveProp expr st.now m.values) ∧
      (m.view expr st.now).2.values = liveOf expr st.now m.values ∧
      ((m.view expr st.now).1.map (·.workID)).Nodup ∧
      (∀ k r, m.values.get k = some r → recExpired expr st.now r = false → r.proposal ∈ (m.view expr st.now).1) ∧
      (∀ p ∈ (m.view expr st.now).1, ∃ k r, m.values.get k = some r ∧ recExpired expr st.now r = false ∧ r.proposal = p)) := by
  intro st m expr hm
  have hw : WFS st.ms := store_wf_all_histories tg ops (St.init now0) WFS_empty
  have hwf : WF m ∧ Keyed m := by
    rcases hm with rfl | rfl
    · exact ⟨hw.log, hw.logK⟩
    · exact ⟨hw.cond, hw.condK⟩
  obtain ⟨e1, _, e3, _⟩ := view_exact expr st.now m hwf.1
  obtain ⟨_, _, o3, o4, o5⟩ := view_each_live_once expr st.now m hwf.1 hwf.2
  exact ⟨e1, e3, o3, o4, o5⟩

/-! ### surfaced proposals leave the pending set -/

private theorem remove1_none (tg : String → Nat) (s : MStore) (p : Proposal) (k : String) :
    (s.log.values.get k = none → (MStore.remove1 tg s p).log.values.get k = none) ∧
    (s.cond.values.get k = none → (MStore.remove1 tg s p).cond.values.get k = none) := by
  unfold MStore.remove1
  split
  · exact ⟨fun h => by simp [OMap.delete, GMap.get_del, h], fun h => h⟩
  · split
    · exact ⟨fun h => h, fun h => by simp [OMap.delete, GMap.get_del, h]⟩
    · exact ⟨fun h => h, fun h => h⟩

private theorem foldl_remove1_none (tg : String → Nat) (ps : List Proposal) (s : MStore) (k : String) :
    (s.log.values.get k = none → (ps.foldl (MStore.remove1 tg) s).log.values.get k = none) ∧
    (s.cond.values.get k = none → (ps.foldl (MStore.remove1 tg) s).cond.values.get k = none) := by
  induction ps generalizing s with
  | nil => exact ⟨fun h => h, fun h => h⟩
  | cons p ps ih =>
    simp only [List.foldl_cons]
    exact ⟨fun h => (ih _).1 ((remove1_none tg s p k).1 h), fun h => (ih _).2 ((remove1_none tg s p k).2 h)⟩

private theorem foldl_remove1_gone (tg : String → Nat) (ps : List Proposal) (s : MStore) (p : Proposal)
    (hp : p ∈ ps) :
    (tg p.upkeepID = logT → (ps.foldl (MStore.remove1 tg) s).log.values.get p.workID = none) ∧
    (tg p.upkeepID = condT → (ps.foldl (MStore.remove1 tg) s).cond.values.get p.workID = none) := by
  induction ps generalizing s with
  | nil => simp at hp
  | cons p0 ps ih =>
    simp only [List.foldl_cons]
    rcases List.mem_cons.mp hp with rfl | hp
    · constructor
      · intro ht
        apply (foldl_remove1_none tg ps _ _).1
        simp [MStore.remove1, ht, OMap.delete, GMap.get_del_self]
      · intro ht
        apply (foldl_remove1_none tg ps _ _).2
        have hne : condT ≠ logT := by decide
        simp [MStore.remove1, ht, hne, OMap.delete, GMap.get_del_self]
    · exact ih _ hp

/-- `surfaced_removed`: once the remove-from-metadata hook has run on an outcome, no view of the
node's pending proposals returns the work id of any proposal surfaced in that outcome (any round
of its history) — whatever the time, whatever else is pending. -/
theorem surfaced_removed (tg : String → Nat) (s : MStore) (hw : WFS s) (sf : List (List Proposal))
    (p : Proposal) (hp : p ∈ sf.flatten) (now : Nat) :
    ∀ x ∈ ((removeFromMetadataHook tg sf s).viewProposals (tg p.upkeepID) now).1, x.workID ≠ p.workID := by
  have hw' := WFS_removeHook tg sf hw
  rw [removeHook_eq] at hw' ⊢
  obtain ⟨hl, hc⟩ := foldl_remove1_gone tg sf.flatten s p hp
  intro x hx hxp
  unfold MStore.viewProposals at hx
  split at hx
  · rename_i ht
    obtain ⟨k, r, hg, _, hr⟩ := (mem_view_iff _ now hw'.log x).mp hx
    have : k = p.workID := by rw [← hxp, ← hr]; exact (hw'.logK k r hg).symm
    rw [this, hl ht] at hg; simp at hg
  · split at hx
    · rename_i ht
      obtain ⟨k, r, hg, _, hr⟩ := (mem_view_iff _ now hw'.cond x).mp hx
      have : k = p.workID := by rw [← hxp, ← hr]; exact (hw'.condK k r hg).symm
      rw [this, hc ht] at hg; simp at hg
    · simp at hx

private theorem foldl_remove1_frame (tg : String → Nat) (ps : List Proposal) (s : MStore) (k : String)
    (hk : k ∉ ps.map (·.workID)) :
    (ps.foldl (MStore.remove1 tg) s).log.values.get k = s.log.values.get k ∧
    (ps.foldl (MStore.remove1 tg) s).cond.values.get k = s.cond.values.get k := by
  induction ps generalizing s with
  | nil => exact ⟨rfl, rfl⟩
  | cons p ps ih =>
    simp only [List.map_cons, List.mem_cons, not_or] at hk
    simp only [List.foldl_cons]
    obtain ⟨i1, i2⟩ := ih (MStore.remove1 tg s p) hk.2
    rw [i1, i2]
    unfold MStore.remove1
    split
    · exact ⟨by simp [OMap.delete, GMap.get_del, hk.1], rfl⟩
    · split
      · exact ⟨rfl, by simp [OMap.delete, GMap.get_del, hk.1]⟩
      · exact ⟨rfl, rfl⟩

/-- the hook removes nothing else: a pending proposal whose work id is not surfaced stays viewable -/
theorem unsurfaced_kept (tg : String → Nat) (s : MStore) (hw : WFS s) (sf : List (List Proposal))
    (t now : Nat) (x : Proposal) (hx : x ∈ (s.viewProposals t now).1)
    (hns : x.workID ∉ sf.flatten.map (·.workID)) :
    x ∈ ((removeFromMetadataHook tg sf s).viewProposals t now).1 := by
  have hw' := WFS_removeHook tg sf hw
  rw [removeHook_eq] at hw' ⊢
  unfold MStore.viewProposals at hx ⊢
  split
  · rename_i ht
    simp only [ht, if_true] at hx
    obtain ⟨k, r, hg, he, hr⟩ := (mem_view_iff _ now hw.log x).mp hx
    have hkx : k = x.workID := by rw [← hr]; exact (hw.logK k r hg).symm
    refine (mem_view_iff _ now hw'.log x).mpr ⟨k, r, ?_, he, hr⟩
    rw [(foldl_remove1_frame tg _ s k (hkx ▸ hns)).1]; exact hg
  · rename_i ht
    simp only [ht, if_false] at hx
    split
    · rename_i ht2
      simp only [ht2, if_true] at hx
      obtain ⟨k, r, hg, he, hr⟩ := (mem_view_iff _ now hw.cond x).mp hx
      have hkx : k = x.workID := by rw [← hr]; exact (hw.condK k r hg).symm
      refine (mem_view_iff _ now hw'.cond x).mpr ⟨k, r, ?_, he, hr⟩
      rw [(foldl_remove1_frame tg _ s k (hkx ▸ hns)).2]; exact hg
    · rename_i ht2
      simp [ht2] at hx

/-! ### what the node proposes: the build hooks of the observation -/

/-- `observation_proposes_pending`: whatever the keyed shuffle does (`order`), a build hook adds to the
observation only proposals the view of that instant returns — unexpired, pending — none twice, at most
`limit`, and every one of them when they fit into the limit (no omission at the observation level). -/
theorem observation_proposes_pending (s : MStore) (hw : WFS s) (t limit now : Nat) (order : List String)
    (ho : order.Nodup) :
    let out := (s.observe t limit now order).1
    let view := (s.viewProposals t now).1
    (out.map (·.workID)).Nodup ∧ (∀ p ∈ out, p ∈ view) ∧ out.length ≤ limit ∧
    (out.length = limit ∨ ∀ p ∈ view, p ∈ out) ∧
    (s.observe t limit now order).2 = (s.viewProposals t now).2 := by
  intro out view
  have hvnd : (view.map (·.workID)).Nodup := by
    show (((s.viewProposals t now).1).map (·.workID)).Nodup
    unfold MStore.viewProposals
    split
    · exact (view_each_live_once _ now s.log hw.log hw.logK).2.2.1
    · split
      · exact (view_each_live_once _ now s.cond hw.cond hw.condK).2.2.1
      · simp
  have hsub : out.Sublist (shuffleBy order view) := cutTo_sublist limit _
  obtain ⟨hlen, hfull⟩ := cutTo_length limit (shuffleBy order view)
  refine ⟨List.Nodup.sublist (hsub.map _) (shuffleBy_nodup ho hvnd),
    fun p hp => mem_view_of_mem_shuffleBy (hsub.subset hp), hlen, ?_, rfl⟩
  rcases hfull with h | h
  · exact Or.inl h
  · right; intro p hp
    show p ∈ cutTo limit (shuffleBy order view)
    rw [h]; exact mem_shuffleBy_of_mem hvnd hp

/-- the shuffle is recoverable from the observation (how the correspondence check follows the
implementation's keyed shuffle without losing or inventing behaviours): whatever order `o1` the hook's
shuffle took, the model run with the work ids of its result as order returns the same proposals, and the
store after the hook does not depend on the order at all -/
theorem observe_choice_recoverable (s : MStore) (hw : WFS s) (t limit now : Nat) (o1 : List String) :
    let out := (s.observe t limit now o1).1
    (s.observe t limit now (out.map (·.workID))).1 = out ∧
    (s.observe t limit now (out.map (·.workID))).2 = (s.observe t limit now o1).2 := by
  refine ⟨?_, rfl⟩
  have hvnd : (((s.viewProposals t now).1).map (·.workID)).Nodup := by
    unfold MStore.viewProposals
    split
    · exact (view_each_live_once _ now s.log hw.log hw.logK).2.2.1
    · split
      · exact (view_each_live_once _ now s.cond hw.cond hw.condK).2.2.1
      · simp
  exact observeHook_recovered limit o1 _ hvnd

/-- `surfaced_not_proposed`: once the remove-from-metadata hook has run on an outcome, no observation
built from the node's pending set carries the work id of a proposal surfaced in that outcome (any round
of its history, whoever proposed it) — the hook holds nothing over from earlier rounds: what it proposes
is a function of the pending set at the time of the call. -/
theorem surfaced_not_proposed (tg : String → Nat) (s : MStore) (hw : WFS s) (sf : List (List Proposal))
    (p : Proposal) (hp : p ∈ sf.flatten) (limit now : Nat) (order : List String) :
    ∀ x ∈ ((removeFromMetadataHook tg sf s).observe (tg p.upkeepID) limit now order).1, x.workID ≠ p.workID := by
  intro x hx
  exact surfaced_removed tg s hw sf p hp now x
    (mem_view_of_mem_shuffleBy ((cutTo_sublist limit _).subset hx))

/-- a proposal surfaced in an outcome is proposed again only after the node's flows have added it again -/
theorem surfaced_not_proposed_in_round (tg : String → Nat) (st : St) (hw : WFS st.ms) (sf : List (List Proposal))
    (p : Proposal) (hp : p ∈ sf.flatten) (limit : Nat) (order : List String) :
    ∀ out, stepOut tg (step tg st (.outcome sf)) (.observe (tg p.upkeepID) limit order) = some out →
      ∀ x ∈ out, x.workID ≠ p.workID := by
  intro out ho
  simp only [stepOut, step, Option.some.injEq] at ho
  subst ho
  exact surfaced_not_proposed tg st.ms hw sf p hp limit st.now order

/-- `filterer_withholds_exactly_pending`: the proposal filterer of the node's recovery proposal flow lets a
payload pass iff no unexpired proposal with its work id is pending — it sees every pending proposal (a
viewer of the pending set like the build hooks: no omission there either) and nothing that was removed. -/
theorem filterer_withholds_exactly_pending (s : MStore) (hw : WFS s) (now : Nat) (ps : List Proposal) (p : Proposal) :
    p ∈ (s.filterer logT now ps).1 ↔
      p ∈ ps ∧ ∀ k r, s.log.values.get k = some r → recExpired Gen.logRecoveryExpiryNs now r = false →
        r.proposal.workID ≠ p.workID := by
  simp only [MStore.filterer, MStore.viewProposals, if_true, filterPayloads, List.mem_filter,
    Bool.not_eq_true', List.any_eq_false, beq_iff_eq]
  constructor
  · rintro ⟨hp, hno⟩
    refine ⟨hp, fun k r hg he hw' => ?_⟩
    exact hno r.proposal ((mem_view_iff _ now hw.log _).mpr ⟨k, r, hg, he, rfl⟩) hw'
  · rintro ⟨hp, hno⟩
    refine ⟨hp, fun v hv hw' => ?_⟩
    obtain ⟨k, r, hg, he, hr⟩ := (mem_view_iff _ now hw.log v).mp hv
    exact hno k r hg he (by rw [hr]; exact hw')

/-! ### life cycle: Start / Close / restart keep every pending proposal -/

def isSvc : Op → Bool
  | .svc _ => true
  | _ => false

/-- `Start` and `Close` (accepted or refused) leave both pending sets, the queue and the clock as they are:
what was added before the store was started, while it runs, or after it was closed is viewed alike -/
theorem lifecycle_keeps_pending (tg : String → Nat) (st : St) (start : Bool) :
    (step tg st (.svc start)).ms = st.ms ∧ (step tg st (.svc start)).q = st.q ∧
    (step tg st (.svc start)).now = st.now ∧
    (∀ t, stepOut tg (step tg st (.svc start)) (.view t) = stepOut tg st (.view t)) ∧
    (∀ t limit order, stepOut tg (step tg st (.svc start)) (.observe t limit order) =
      stepOut tg st (.observe t limit order)) :=
  ⟨rfl, rfl, rfl, fun _ => rfl, fun _ _ _ => rfl⟩

/-- the service flag: a second `Start` is refused, `Close` of a store that is not running is refused,
`Start → Close → Start` is accepted each time -/
theorem lifecycle_flag :
    (Life.start { running := false }) = ({ running := true }, true) ∧
    (Life.start { running := true }).2 = false ∧
    (Life.close { running := false }).2 = false ∧
    (Life.close { running := true }) = ({ running := false }, true) := by decide

def sameCore (a b : St) : Prop := a.ms = b.ms ∧ a.q = b.q ∧ a.now = b.now

private theorem step_sameCore (tg : String → Nat) {a b : St} (h : sameCore a b) (op : Op) :
    stepOut tg a op = stepOut tg b op ∧ sameCore (step tg a op) (step tg b op) := by
  obtain ⟨h1, h2, h3⟩ := h
  cases op <;> simp [stepOut, step, sameCore, h1, h2, h3]

/-- `lifecycle_transparent`: in EVERY history, erasing all `Start` / `Close` calls changes no result of
any view, observation or dequeue and no pending set: the life cycle of the store is invisible to the
proposals it holds (adds before the first `Start`, `Start → add → Close → Start`, …). -/
theorem lifecycle_transparent (tg : String → Nat) : ∀ (ops : List Op) (a b : St), sameCore a b →
    (run tg ops a).filterMap id = (run tg (ops.filter (fun o => !isSvc o)) b).filterMap id ∧
    sameCore (final tg ops a) (final tg (ops.filter (fun o => !isSvc o)) b)
  | [], a, b, h => ⟨rfl, h⟩
  | op :: ops, a, b, h => by
    cases hs : isSvc op with
    | true =>
      have hop : ∃ s, op = .svc s := by cases op <;> simp [isSvc] at hs; exact ⟨_, rfl⟩
      obtain ⟨s, rfl⟩ := hop
      have h' : sameCore (step tg a (.svc s)) b := h
      obtain ⟨i1, i2⟩ := lifecycle_transparent tg ops _ b h'
      simp only [List.filter_cons, hs, Bool.not_true, Bool.false_eq_true, if_false]
      exact ⟨by simpa [run, stepOut] using i1, by simpa [final] using i2⟩
    | false =>
      obtain ⟨o1, o2⟩ := step_sameCore tg h op
      obtain ⟨i1, i2⟩ := lifecycle_transparent tg ops _ _ o2
      simp only [List.filter_cons, hs, Bool.not_false, if_true]
      refine ⟨?_, by simpa [final] using i2⟩
      simp only [run, List.filterMap_cons, o1]
      cases stepOut tg b op <;> simp [i1]

/-! ### volume and drain: removing what is not pending changes nothing; adding again restores -/

/-- `orderedMap.Delete` of an absent key is the identity — on the key slice as well as on the values -/
theorem delete_absent {m : OMap} (h : WF m) {key : String} (hk : key ∉ m.keys) : m.delete key = m := by
  have hnone : m.values.get key = none := by
    cases hg : m.values.get key with
    | none => rfl
    | some r => exact absurd ((h.dom key).mpr (by simp [hg])) hk
  have hvals : m.values.del key = m.values := by
    unfold GMap.del
    apply List.filter_eq_self.mpr
    intro e he
    simp only [ne_eq, decide_not, Bool.not_eq_true', decide_eq_false_iff_not]
    intro hek
    have : m.values.get key = some e.2 := GMap.get_of_mem h.valsKN (by rw [← hek]; exact he)
    rw [hnone] at this; cases this
  cases m with
  | mk keys values =>
    simp only [OMap.delete, OMap.mk.injEq]
    exact ⟨List.erase_of_not_mem hk, hvals⟩

/-- `RemoveProposals` of a proposal this node does not hold (surfaced through other nodes, removed
before, expired and purged, never added) leaves the store exactly as it is — however many proposals
are pending and however often it happens -/
theorem remove_not_pending_noop (tg : String → Nat) (s : MStore) (hw : WFS s) (p : Proposal)
    (hl : p.workID ∉ s.log.keys) (hc : p.workID ∉ s.cond.keys) : MStore.remove1 tg s p = s := by
  unfold MStore.remove1
  split
  · rw [delete_absent hw.log hl]
  · split
    · rw [delete_absent hw.cond hc]
    · rfl

theorem removeHook_not_pending_noop (tg : String → Nat) (s : MStore) (hw : WFS s) (sf : List (List Proposal))
    (h : ∀ p ∈ sf.flatten, p.workID ∉ s.log.keys ∧ p.workID ∉ s.cond.keys) :
    removeFromMetadataHook tg sf s = s := by
  rw [removeHook_eq]
  generalize sf.flatten = ps at h
  induction ps with
  | nil => rfl
  | cons p ps ih =>
    simp only [List.foldl_cons, remove_not_pending_noop tg s hw p (h p (by simp)).1 (h p (by simp)).2]
    exact ih (fun q hq => h q (by simp [hq]))

/-- a proposal added (again) is viewed until it expires: in whatever state the store is — after any
burst, drain, removal of absent work ids — `AddProposals(p)` makes `p` part of every view of its type
taken within the expiry time -/
theorem added_is_viewed (tg : String → Nat) (s : MStore) (hw : WFS s) (p : Proposal) (now now' : Nat)
    (hlog : tg p.upkeepID = logT) (hle : now' - now ≤ Gen.logRecoveryExpiryNs) :
    p ∈ ((s.addProposals tg now [p]).viewProposals logT now').1 := by
  have hw' := WFS_addProposals tg now [p] hw
  simp only [MStore.addProposals, List.foldl_cons, List.foldl_nil, MStore.add1, hlog, if_true] at hw' ⊢
  simp only [MStore.viewProposals, if_true]
  refine (mem_view_iff _ now' hw'.log p).mpr ⟨p.workID, { createdAt := now, proposal := p }, ?_, ?_, rfl⟩
  · rw [add_values, GMap.get_set_self]
  · simp only [recExpired, decide_eq_false_iff_not]; omega

/-! ### the loop before the fix: skips and repeats -/

def wP (wid : String) : Proposal := { upkeepID := "u-" ++ wid, trigger := { blockNumber := 100, blockHash := "h", ext := none }, workID := wid }

/-- add `a`; 2 h later add `b`, `c` -/
def witness : OMap :=
  ((OMap.empty.add "a" { createdAt := 0, proposal := wP "a" }).add
    "b" { createdAt := 7200000000000, proposal := wP "b" }).add
    "c" { createdAt := 7200000000000, proposal := wP "c" }

/-- 23 h later (`a` is 25 h old, `b` and `c` 23 h) the pre-fix loop — a `range` over the slice that
`Delete` shifts left underneath it — returns `[c, c]`: it skips `b` and repeats `c`. -/
theorem view_skips_and_repeats :
    (witness.viewOld Gen.logRecoveryExpiryNs 90000000000000).1 = [wP "c", wP "c"] := by decide

/-- … which the Spec's view clause rejects (live set = {b, c}) -/
theorem view_skips_and_repeats_rejected :
    viewOk (liveOf Gen.logRecoveryExpiryNs 90000000000000 witness.values)
      (witness.viewOld Gen.logRecoveryExpiryNs 90000000000000).1 = false := by decide

/-- the loop as it is now returns `[b, c]` on the same state and purges `a` -/
theorem view_fixed_on_witness :
    (witness.view Gen.logRecoveryExpiryNs 90000000000000).1 = [wP "b", wP "c"] ∧
    (witness.view Gen.logRecoveryExpiryNs 90000000000000).2.keys = ["b", "c"] := by decide

example : WF witness ∧ Keyed witness := by
  refine ⟨WF_add (WF_add (WF_add WF_empty _ _) _ _) _ _, ?_⟩
  exact Keyed_add (m := (OMap.empty.add "a" _).add "b" _)
    (Keyed_add (m := OMap.empty.add "a" _) (Keyed_add (m := OMap.empty) Keyed_empty 0 (wP "a")) 7200000000000 (wP "b"))
    7200000000000 (wP "c")

/-! ### the proposal queue -/

/-- `higher_supersedes`: a re-coordination on a strictly higher block replaces the queued record —
handed-out or not, expired or not — by a fresh, not yet dequeued one first seen now -/
theorem higher_supersedes (now : Nat) (q : Queue) (p : Proposal) (ex : QRec)
    (hex : q.get p.workID = some ex) (hlt : ex.proposal.trigger.blockNumber < p.trigger.blockNumber) :
    (enqueue1 now q p).get p.workID = some { proposal := p, removed := false, createdAt := now } ∧
    ∀ k, k ≠ p.workID → (enqueue1 now q p).get k = q.get k := by
  constructor
  · rw [enqueue1_get]; simp only [if_true, hex]
    have : ¬ ex.proposal.trigger.blockNumber ≥ p.trigger.blockNumber := by omega
    simp [this]
  · intro k hk; rw [enqueue1_get]; simp [hk]

/-- … and that record is handed out by the next `Dequeue` of its type inside the window
(any iteration order that visits its key, any limit that does not cut the scan short) -/
theorem higher_supersedes_handed (tg : String → Nat) (lo now now' n : Nat) (q : Queue) (p : Proposal) (ex : QRec)
    (hq : QInv lo now q) (hlo : lo ≤ now) (hex : q.get p.workID = some ex)
    (hlt : ex.proposal.trigger.blockNumber < p.trigger.blockNumber)
    (hnow : now ≤ now') (hwin : now' - now ≤ Gen.proposalExpiryNs)
    (order : List String) (hnd : order.Nodup) (hin : p.workID ∈ order) (hn : order.length ≤ n) :
    p ∈ (dequeue tg (tg p.upkeepID) n now' order (enqueue1 now q p)).1 := by
  have hq' : QInv lo now' (enqueue1 now q p) := QInv_mono (QInv_enqueue1 hq hlo p) hnow
  obtain ⟨h1, _⟩ := scan_spec tg (tg p.upkeepID) now' lo order (enqueue1 now q p) [] hq' hnd
  rw [dequeue_def]
  simp only
  rw [h1, List.nil_append]
  have hlen : (order.filterMap (scanCand tg (tg p.upkeepID) now' (enqueue1 now q p))).length ≤ n :=
    Nat.le_trans (List.length_filterMap_le _ _) hn
  rw [List.take_of_length_le hlen, List.mem_filterMap]
  refine ⟨p.workID, hin, ?_⟩
  have hnot : ¬ (Gen.proposalExpiryNs < now' - now) := by omega
  simp [scanCand, (higher_supersedes now q p ex hex hlt).1, qExpired, hnot]

/-- `lower_equal_ignored`: a proposal on a lower or equal block never touches the queued record
(whatever its state: dequeued, expired but not yet purged, …): the queue is unchanged -/
theorem lower_equal_ignored (now : Nat) (q : Queue) (p : Proposal) (ex : QRec)
    (hex : q.get p.workID = some ex) (hle : p.trigger.blockNumber ≤ ex.proposal.trigger.blockNumber) :
    enqueue1 now q p = q := by
  unfold enqueue1; simp [hex, hle]

private theorem foldl_enqueue1_ignored (now : Nat) (q : Queue) : ∀ (ps : List Proposal),
    (∀ p ∈ ps, ∃ ex, q.get p.workID = some ex ∧ p.trigger.blockNumber ≤ ex.proposal.trigger.blockNumber) →
    ps.foldl (enqueue1 now) q = q
  | [], _ => rfl
  | p :: ps, h => by
    obtain ⟨ex, hex, hle⟩ := h p (by simp)
    simp only [List.foldl_cons, lower_equal_ignored now q p ex hex hle]
    exact foldl_enqueue1_ignored now q ps (fun p' hp' => h p' (by simp [hp']))

/-- a whole outcome of stale proposals (every round of its history) leaves the queue unchanged -/
theorem lower_equal_ignored_outcome (now : Nat) (q : Queue) (sf : List (List Proposal))
    (h : ∀ p ∈ sf.flatten, ∃ ex, q.get p.workID = some ex ∧ p.trigger.blockNumber ≤ ex.proposal.trigger.blockNumber) :
    addToProposalQHook now sf q = q := by
  rw [addHook_eq]; exact foldl_enqueue1_ignored now q _ h

/-- "any n items", made precise: whatever order the map iteration takes, `Dequeue(t, n)` returns
pairwise distinct work ids, each the queued, unexpired, not yet dequeued proposal of type `t`
stored under that id, and as many of them as the limit allows -/
theorem dequeue_returns_candidates (tg : String → Nat) (t n now lo : Nat) (order : List String) (q : Queue)
    (hq : QInv lo now q) (hnd : order.Nodup) :
    let out := (dequeue tg t n now order q).1
    (out.map (·.workID)).Nodup ∧
    (∀ p ∈ out, ∃ r, q.get p.workID = some r ∧ r.proposal = p ∧ qExpired now r = false ∧ r.removed = false ∧
      tg p.upkeepID = t) ∧
    out.length = min n (order.filterMap (scanCand tg t now q)).length := by
  obtain ⟨h1, h2, _⟩ := dequeue_facts tg t n now lo order q hq hnd
  refine ⟨h1, fun p hp => ?_, ?_⟩
  · obtain ⟨r, a, b, c, d, e, _⟩ := h2 p hp
    exact ⟨r, a, b, c, d, e⟩
  · obtain ⟨s1, _⟩ := scan_spec tg t now lo order q [] hq hnd
    rw [dequeue_def]; simp only; rw [s1, List.nil_append, List.length_take]

/-- the map iteration order is recoverable from the result: if Go iterated in order `o1`, the model
run with "the returned work ids first, then all other keys" (a permutation of `o1`) returns the
same list and leaves the same queue.  This is how the correspondence check advances the model
with the implementation's choice without losing or inventing behaviours. -/
theorem dequeue_choice_recoverable (tg : String → Nat) (t n now lo : Nat) (o1 : List String) (q : Queue)
    (hq : QInv lo now q) (hnd : o1.Nodup) :
    (recovered o1 (dequeue tg t n now o1 q).1).Perm o1 ∧
    (dequeue tg t n now (recovered o1 (dequeue tg t n now o1 q).1) q).1 = (dequeue tg t n now o1 q).1 ∧
    ∀ k, (dequeue tg t n now (recovered o1 (dequeue tg t n now o1 q).1) q).2.get k =
         (dequeue tg t n now o1 q).2.get k :=
  dequeue_recovered tg t n now lo o1 q hq hnd

/-- a final-flow tick whose payload builder succeeds hands on exactly what it dequeued … -/
theorem tick_hands_on_dequeued (tg : String → Nat) (st : St) (t n : Nat) (order : List String) :
    stepOut tg st (.tick t n order true) = stepOut tg st (.deq t n order) ∧
    opEvents tg st (.tick t n order true) = opEvents tg st (.deq t n order) ∧
    step tg st (.tick t n order true) = step tg st (.deq t n order) := ⟨rfl, rfl, rfl⟩

/-- … and one whose builder fails hands on nothing (`Value` returns the error), while the records
stay flagged as dequeued — so nothing of that batch can reach the finalisation flow twice -/
theorem tick_builder_error_hands_nothing (tg : String → Nat) (st : St) (t n : Nat) (order : List String) :
    stepOut tg st (.tick t n order false) = some [] ∧
    opEvents tg st (.tick t n order false) = [] ∧
    step tg st (.tick t n order false) = step tg st (.deq t n order) := ⟨rfl, rfl, rfl⟩

/-- `handed_once_per_block`: in every history from an empty queue (enqueues, outcomes through the
hook, dequeues of any type/limit in any iteration order, final-flow ticks with a succeeding or failing
payload builder, any passage of time), whenever the same
(work id, check block) is handed out twice, the second hand-out comes from a record first seen
more than `proposalExpiry` (20 s) after the record of the first. -/
theorem handed_once_per_block (tg : String → Nat) (now0 : Nat) (ops : List Op) (hn : OrdersNodup ops) :
    List.Pairwise sep (handouts tg ops (St.init now0)) := by
  have := (handouts_sep_aux tg now0 ops (St.init now0) [] hn (QInv_nil _ _) (Nat.le_refl _)
    (by simp) List.Pairwise.nil).1
  simpa using this

/-- … hence inside the 20 s window of a record nothing is handed out a second time -/
theorem handed_once_in_window (tg : String → Nat) (now0 : Nat) (ops : List Op) (hn : OrdersNodup ops) :
    List.Pairwise (fun e1 e2 => e1.w = e2.w → e1.b = e2.b → e2.t > e1.c + Gen.proposalExpiryNs)
      (handouts tg ops (St.init now0)) := by
  have h1 := handed_once_per_block tg now0 ops hn
  have h2 := (handouts_sep_aux tg now0 ops (St.init now0) [] hn (QInv_nil _ _) (Nat.le_refl _)
    (by simp) List.Pairwise.nil).2
  have h3 : List.Pairwise (fun (_ e2 : Ev) => e2.c ≤ e2.t) (handouts tg ops (St.init now0)) :=
    List.pairwise_of_forall_mem_list (fun _ _ e2 he2 => (h2 e2 he2).2.1)
  exact (h1.and h3).imp (fun {e1 e2} ⟨hs, hc⟩ hw hb => by have := hs hw hb; omega)

/-- repeated-history corollary: however often the same proposals are re-enqueued (an outcome
carries up to 20 rounds of surfaced proposals, all of them re-enqueued every round), a history
that lasts no longer than the window hands out each (work id, check block) at most once. -/
theorem repeated_history_once (tg : String → Nat) (now0 : Nat) (ops : List Op) (hn : OrdersNodup ops)
    (hd : duration ops ≤ Gen.proposalExpiryNs) (w : String) (b : Nat) :
    ((handouts tg ops (St.init now0)).filter (fun e => decide (e.w = w) && decide (e.b = b))).length ≤ 1 := by
  have h1 := (handed_once_per_block tg now0 ops hn).filter (fun e => decide (e.w = w) && decide (e.b = b))
  have h2 := (handouts_sep_aux tg now0 ops (St.init now0) [] hn (QInv_nil _ _) (Nat.le_refl _)
    (by simp) List.Pairwise.nil).2
  have hmem : ∀ e ∈ (handouts tg ops (St.init now0)).filter (fun e => decide (e.w = w) && decide (e.b = b)),
      e ∈ handouts tg ops (St.init now0) ∧ e.w = w ∧ e.b = b := by
    intro e he
    have := List.mem_filter.mp he
    simpa using this
  generalize (handouts tg ops (St.init now0)).filter (fun e => decide (e.w = w) && decide (e.b = b)) = L at h1 hmem
  match L, h1, hmem with
  | [], _, _ => simp
  | [_], _, _ => simp
  | e1 :: e2 :: rest, h1, hmem =>
    obtain ⟨i1, p1⟩ := hmem e1 (by simp)
    obtain ⟨i2, p2⟩ := hmem e2 (by simp)
    have hs : sep e1 e2 := (List.pairwise_cons.mp h1).1 e2 (by simp)
    have := hs (p1.1.trans p2.1.symm) (p1.2.trans p2.2.symm)
    have b1 := h2 e1 i1
    have b2 := h2 e2 i2
    simp only [St.init] at b1 b2
    omega

/-- one plugin round: time passes, the pre-build hooks run on the previous outcome, the final
flows dequeue -/
structure Round where
  d        : Nat
  surfaced : List (List Proposal)
  deqs     : List (Nat × Nat × List String)

def roundOps (r : Round) : List Op :=
  [.adv r.d, .outcome r.surfaced] ++ r.deqs.map (fun x => .deq x.1 x.2.1 x.2.2)

/-- the corollary in round form: any number of rounds whose outcomes repeat the same proposals,
lasting at most 20 s in total, finalise each (work id, check block) at most once -/
theorem repeated_rounds_once (tg : String → Nat) (now0 : Nat) (rounds : List Round)
    (hn : OrdersNodup (rounds.flatMap roundOps))
    (hd : duration (rounds.flatMap roundOps) ≤ Gen.proposalExpiryNs) (w : String) (b : Nat) :
    ((handouts tg (rounds.flatMap roundOps) (St.init now0)).filter
      (fun e => decide (e.w = w) && decide (e.b = b))).length ≤ 1 :=
  repeated_history_once tg now0 _ hn hd w b

/-! ### the oracle predicate holds of the model -/

/-- C11 as one statement: the decidable predicate the run-time oracle evaluates on the
implementation's outputs holds of the model's outputs for every history and every map
iteration order -/
theorem history_spec (tg : String → Nat) (now0 : Nat) (ops : List Op) (hn : OrdersNodup ops) :
    spec tg now0 ops (run tg ops (St.init now0)) = true := by
  have hs : Sim (St.init now0) (SSt.init now0) := ⟨rfl, rfl, rfl, rfl⟩
  unfold spec
  rw [sRun_model tg ops WFS_empty hs hn]
  simp only [Bool.true_and, eventsOk, decide_eq_true_eq]
  exact handed_once_per_block tg now0 ops hn

/-! ### non-vacuity -/

def pQ (b : Nat) : Proposal := { upkeepID := "u", trigger := { blockNumber := b, blockHash := "h", ext := none }, workID := "q" }

/-- enqueue, dequeue, re-enqueue (ignored), 20 s + 1 ns later dequeue (purges), enqueue, dequeue:
handed twice, the records first seen 20 s + 1 ns apart -/
def sampleOps : List Op :=
  [.enq [pQ 100], .deq 1 50 ["q"], .enq [pQ 100], .deq 1 50 ["q"], .adv 20000000001, .deq 1 50 ["q"],
   .outcome [[pQ 100], [pQ 100]], .tick 1 50 ["q"] true, .enq [pQ 101], .tick 1 50 ["q"] false, .tick 1 50 ["q"] true]

example : OrdersNodup sampleOps := OrdersNodup_of_all _ (by decide)

example : handouts (fun _ => 1) sampleOps (St.init 5) =
    [⟨"q", 100, 5, 5⟩, ⟨"q", 100, 20000000006, 20000000006⟩] := by decide

example : duration sampleOps = 20000000001 := by decide

/-- hypotheses of `higher_supersedes` / `lower_equal_ignored` are met -/
example : ∃ (q : Queue) (ex : QRec), GMap.get q (pQ 101).workID = some ex ∧ ex.proposal.trigger.blockNumber < (pQ 101).trigger.blockNumber :=
  ⟨enqueue1 0 [] (pQ 100), (⟨pQ 100, false, 0⟩ : QRec), by decide, by decide⟩

/-- hypotheses of `surfaced_removed` are met by a store in which the surfaced proposal is pending -/
example : ∃ s : MStore, WFS s ∧ wP "a" ∈ (s.viewProposals 1 0).1 ∧
    ∀ x ∈ ((removeFromMetadataHook (fun _ => 1) [[wP "a"]] s).viewProposals 1 0).1, x.workID ≠ "a" :=
  ⟨MStore.empty.addProposals (fun _ => 1) 0 [wP "a", wP "b"], WFS_addProposals _ _ _ WFS_empty, by decide, by decide⟩

/-- seven pending log proposals, five per observation: the shuffle puts `g`, `a` first -/
def obsStore : MStore := MStore.empty.addProposals (fun _ => 1) 0 (["a", "b", "c", "d", "e", "f", "g"].map wP)

example : ((obsStore.observe 1 5 0 ["g", "a"]).1).map (·.workID) = ["g", "a", "b", "c", "d"] := by decide

/-- `f` (deferred by that observation) and `g` (sent) are surfaced: the next observation, whatever its
shuffle prefers, carries all five that are left and neither `f` nor `g` -/
example : ((removeFromMetadataHook (fun _ => 1) [[wP "f"], [wP "g"]] obsStore).observe 1 5 0 ["f", "g", "e"]).1.map (·.workID) =
    ["e", "a", "b", "c", "d"] := by decide

/-- the filterer withholds the payload of a pending proposal and lets the one of a surfaced proposal pass -/
example : ((removeFromMetadataHook (fun _ => 1) [[wP "f"]] obsStore).filterer 1 0 [wP "a", wP "f", wP "z"]).1.map (·.workID) =
    ["f", "z"] := by decide

/-- added before the first `Start`, while closed, and across a restart: all viewed -/
example : (run (fun _ => 1) [.add [wP "a"], .svc true, .view 1, .svc false, .add [wP "b"], .svc true, .svc true, .view 1]
      (St.init 0)).filterMap id = [[wP "a"], [wP "a", wP "b"]] := by decide

example : OrdersNodup [.observe 1 5 ["g", "a"], .svc true, .filter 1 [wP "a"]] := OrdersNodup_of_all _ (by decide)

end AutoVerif.C11
