import AutoVerif.Props.C17
import AutoVerif.Gen.Consts
/-
C17TieFields — WHAT the v2 report coordinator writes into its per-upkeep blocking table: the five `idBlocker{…}` literals
of `Accept` and `checkLogs` are regenerated field by field on every run (extractor kind "fields",
extract/exprs.d/C17fields.json); the model's `accept`, `performLog` and `staleLog` are proved to write exactly those
values on the paths that reach the literals.  Swapping `l.TransmitBlock` and `nextKey`, the check block and the
transmit block, or `IndefiniteBlockingKey` for something else changes the regenerated definitions and breaks these
theorems independently of any test input.
-/
namespace AutoVerif.C17

/-- `Accept` of a key that is not active yet blocks the id with the literal of the source -/
theorem accept_blocker_matches_source (cfg : Cfg) (s : State) (now : Nat) (key blockKey id : Str)
    (hk : splitUpkeepKey key = some (blockKey, id)) (ha : s.activeKeys.get now key = none) :
    Gen.Src.c17AcceptBlockerFields = ["CheckBlockNumber", "TransmitBlockNumber"] ∧
    accept cfg s now key =
      { activeKeys := s.activeKeys.set now activeTtlNs key false
        idBlocks := updateIdBlock cfg s.idBlocks now id
          { check := Gen.Src.c17AcceptBlocker_CheckBlockNumber blockKey indefinite,
            transmit := Gen.Src.c17AcceptBlocker_TransmitBlockNumber blockKey indefinite } } := by
  refine ⟨rfl, ?_⟩
  simp [accept, hk, ha, Gen.Src.c17AcceptBlocker_CheckBlockNumber, Gen.Src.c17AcceptBlocker_TransmitBlockNumber]

/-- first confirmed perform log of an accepted key: the id is blocked up to the log's transmit block -/
theorem perform_first_blocker_matches_source (cfg : Cfg) (s : State) (now : Nat) (l : Log) (logCheck id nextKey : Str)
    (hc : ¬ l.confs < cfg.minConfs) (hk : splitUpkeepKey l.key = some (logCheck, id))
    (ha : s.activeKeys.get now l.key = some false) :
    Gen.Src.c17PerformFirstBlockerFields = ["CheckBlockNumber", "TransmitBlockNumber"] ∧
    performLog cfg s now l =
      { activeKeys := s.activeKeys.set now activeTtlNs l.key true
        idBlocks := updateIdBlock cfg s.idBlocks now id
          { check := Gen.Src.c17PerformFirstBlocker_CheckBlockNumber logCheck l.transmit nextKey,
            transmit := Gen.Src.c17PerformFirstBlocker_TransmitBlockNumber logCheck l.transmit nextKey } } := by
  refine ⟨rfl, ?_⟩
  simp [performLog, processLog, hc, hk, ha, Gen.Src.c17PerformFirstBlocker_CheckBlockNumber,
    Gen.Src.c17PerformFirstBlocker_TransmitBlockNumber]

/-- a perform log seen again at another transmit block (re-org) rewrites the block with the literal of the source -/
theorem perform_again_blocker_matches_source (cfg : Cfg) (s : State) (now : Nat) (l : Log) (logCheck id nextKey : Str)
    (b : IdBlocker) (hc : ¬ l.confs < cfg.minConfs) (hk : splitUpkeepKey l.key = some (logCheck, id))
    (ha : s.activeKeys.get now l.key = some true) (hb : s.idBlocks.get now id = some b)
    (hcond : b.check = logCheck ∧ b.transmit ≠ l.transmit) :
    Gen.Src.c17PerformAgainBlockerFields = ["CheckBlockNumber", "TransmitBlockNumber"] ∧
    performLog cfg s now l =
      { s with idBlocks := updateIdBlock cfg s.idBlocks now id
                  (IdBlocker.mk (Gen.Src.c17PerformAgainBlocker_CheckBlockNumber logCheck l.transmit nextKey)
                    (Gen.Src.c17PerformAgainBlocker_TransmitBlockNumber logCheck l.transmit nextKey)) } := by
  refine ⟨rfl, ?_⟩
  simp [performLog, processLog, hc, hk, ha, hb, hcond, Gen.Src.c17PerformAgainBlocker_CheckBlockNumber,
    Gen.Src.c17PerformAgainBlocker_TransmitBlockNumber]

/-- first confirmed stale-report log of an accepted key: the id is blocked up to the check block plus one -/
theorem stale_first_blocker_matches_source (cfg : Cfg) (s : State) (now : Nat) (l : Log) (logCheck id nextKey : Str)
    (hc : ¬ l.confs < cfg.minConfs) (hk : splitUpkeepKey l.key = some (logCheck, id))
    (hn : increment logCheck = some nextKey) (ha : s.activeKeys.get now l.key = some false) :
    Gen.Src.c17StaleFirstBlockerFields = ["CheckBlockNumber", "TransmitBlockNumber"] ∧
    staleLog cfg s now l =
      { activeKeys := s.activeKeys.set now activeTtlNs l.key true
        idBlocks := updateIdBlock cfg s.idBlocks now id
          { check := Gen.Src.c17StaleFirstBlocker_CheckBlockNumber logCheck l.transmit nextKey,
            transmit := Gen.Src.c17StaleFirstBlocker_TransmitBlockNumber logCheck l.transmit nextKey } } := by
  refine ⟨rfl, ?_⟩
  simp [staleLog, processLog, hc, hk, hn, ha, Gen.Src.c17StaleFirstBlocker_CheckBlockNumber,
    Gen.Src.c17StaleFirstBlocker_TransmitBlockNumber]

/-- a stale-report log for a key already confirmed (e.g. a perform re-orged into a stale report) -/
theorem stale_again_blocker_matches_source (cfg : Cfg) (s : State) (now : Nat) (l : Log) (logCheck id nextKey : Str)
    (b : IdBlocker) (hc : ¬ l.confs < cfg.minConfs) (hk : splitUpkeepKey l.key = some (logCheck, id))
    (hn : increment logCheck = some nextKey) (ha : s.activeKeys.get now l.key = some true)
    (hb : s.idBlocks.get now id = some b) (hcond : b.check = logCheck ∧ b.transmit ≠ nextKey) :
    Gen.Src.c17StaleAgainBlockerFields = ["CheckBlockNumber", "TransmitBlockNumber"] ∧
    staleLog cfg s now l =
      { s with idBlocks := updateIdBlock cfg s.idBlocks now id
                  (IdBlocker.mk (Gen.Src.c17StaleAgainBlocker_CheckBlockNumber logCheck l.transmit nextKey)
                    (Gen.Src.c17StaleAgainBlocker_TransmitBlockNumber logCheck l.transmit nextKey)) } := by
  refine ⟨rfl, ?_⟩
  simp [staleLog, processLog, hc, hk, hn, ha, hb, hcond, Gen.Src.c17StaleAgainBlocker_CheckBlockNumber,
    Gen.Src.c17StaleAgainBlocker_TransmitBlockNumber]

end AutoVerif.C17
