import AutoVerif.Spec.C16
/-
C16, registry level: the v2 runner (`pkg/v2/runner`) between `Report` / the polling observer and the
registry.  What `CheckUpkeep` answers when the registry's batches come back complete, short, empty, as
the nil slice, with an error, in any mixture; what the observation must list after a head whose every
batch came back empty ("everything vanished"): nothing, under the NEW block; and that the run-time
predicate `specObservation` rejects an observation that still lists an identifier, or still carries
the block, of an older head.
-/
namespace AutoVerif.C16

/-- results of the batches that came back without an error, in aggregation order -/
def okResults {α : Type} (calls : List (Call α)) : List α :=
  (calls.filter fun c => !c.err).flatMap (·.results)

private theorem foldl_aggregate {α : Type} (calls : List (Call α)) (t : Tally α) :
    (calls.foldl aggregate t).successes = t.successes + (calls.filter fun c => !c.err).length ∧
    (calls.foldl aggregate t).failures = t.failures + (calls.filter fun c => c.err).length ∧
    (calls.foldl aggregate t).errSet = (t.errSet || calls.any fun c => c.err) ∧
    (calls.foldl aggregate t).values = t.values ++ okResults calls := by
  induction calls generalizing t with
  | nil => simp [okResults]
  | cons c rest ih =>
    simp only [List.foldl_cons]
    obtain ⟨h1, h2, h3, h4⟩ := ih (aggregate t c)
    rw [h1, h2, h3, h4]
    cases hc : c.err with
    | true =>
      simp [aggregate, hc, okResults]
      omega
    | false =>
      simp [aggregate, hc, okResults]
      omega

private theorem filter_split_length {α : Type} (p : α → Bool) (l : List α) :
    (l.filter fun c => !p c).length + (l.filter p).length = l.length := by
  induction l with
  | nil => rfl
  | cons x xs ih =>
    cases hx : p x <;> simp [hx] <;> omega

/-- **all_failed_iff.**  The hard-failure test of `parallelCheck` fires exactly when registry calls were
made and EVERY one of them returned an error.  A batch that came back without an error - with one
result per key, with fewer, with none at all - is a successful call. -/
theorem all_failed_iff {α : Type} (calls : List (Call α)) (hits : List α) :
    allFailed (calls.foldl aggregate { values := hits }) = true ↔
      calls ≠ [] ∧ ∀ c ∈ calls, c.err = true := by
  obtain ⟨h1, h2, h3, _⟩ := foldl_aggregate calls ({ values := hits } : Tally α)
  have hsplit := filter_split_length (fun c : Call α => c.err) calls
  simp only [allFailed, Tally.total, Bool.and_eq_true, decide_eq_true_eq, h1, h2, h3, Nat.zero_add,
    Bool.false_or, List.any_eq_true]
  constructor
  · rintro ⟨⟨hpos, heq⟩, _⟩
    have hz : (calls.filter fun c => !c.err).length = 0 := by omega
    refine ⟨?_, ?_⟩
    · intro hnil; subst hnil; simp at hpos
    · intro c hc
      have hnil := List.eq_nil_of_length_eq_zero hz
      have := List.filter_eq_nil_iff.mp hnil c hc
      simpa using this
  · rintro ⟨hne, hall⟩
    have hz : (calls.filter fun c => !c.err) = [] := by
      apply List.filter_eq_nil_iff.mpr
      intro c hc; simp [hall c hc]
    have hlen : 0 < calls.length := List.length_pos_iff.mpr hne
    rw [hz] at hsplit ⊢
    simp only [List.length_nil, Nat.zero_add] at hsplit ⊢
    refine ⟨⟨by omega, trivial⟩, ?_⟩
    cases calls with
    | nil => exact absurd rfl hne
    | cons c rest => exact ⟨c, by simp, hall c (by simp)⟩

/-- **runner_fails_iff.**  `Runner.CheckUpkeep` returns an error exactly when it had to ask the registry
(some key is not cached), calls were made and every call failed. -/
theorem runner_fails_iff {α : Type} (keyOf : α → Bytes) (cache : RCache α) (keys : List Bytes)
    (calls : List (Call α)) :
    (runnerCheck keyOf cache keys calls).2.err = true ↔
      toRun cache keys ≠ [] ∧ calls ≠ [] ∧ ∀ c ∈ calls, c.err = true := by
  unfold runnerCheck
  by_cases hk : keys.isEmpty = true
  · have : keys = [] := List.isEmpty_iff.mp hk
    subst this
    simp [toRun]
  · by_cases hr : (toRun cache keys).isEmpty = true
    · have : toRun cache keys = [] := List.isEmpty_iff.mp hr
      simp [hk, this]
    · have hne : toRun cache keys ≠ [] := fun h => hr (by simp [h])
      simp only [hk, hr, Bool.false_eq_true, if_false]
      by_cases haf : allFailed (calls.foldl aggregate { values := keys.filterMap (cacheGet cache) }) = true
      · simp only [haf, if_true, true_iff]
        exact ⟨hne, (all_failed_iff calls _).mp haf⟩
      · simp only [haf, Bool.false_eq_true, if_false, false_iff]
        intro ⟨_, h⟩
        exact haf ((all_failed_iff calls _).mpr h)

/-- **runner_answered_batch_no_error.**  One batch that came back without an error - even an empty one -
and `CheckUpkeep` does not fail. -/
theorem runner_answered_batch_no_error {α : Type} (keyOf : α → Bytes) (cache : RCache α) (keys : List Bytes)
    (calls : List (Call α)) (c : Call α) (hc : c ∈ calls) (he : c.err = false) :
    (runnerCheck keyOf cache keys calls).2.err = false := by
  cases h : (runnerCheck keyOf cache keys calls).2.err with
  | false => rfl
  | true =>
    have := ((runner_fails_iff keyOf cache keys calls).mp h).2.2 c hc
    rw [he] at this; cases this

/-- **runner_results.**  When it does not fail, `CheckUpkeep` returns the cached results of the keys it
was handed followed by the results of the batches that came back without an error - nothing from a
failed batch (results next to an error are dropped), nothing else. -/
theorem runner_results {α : Type} (keyOf : α → Bytes) (cache : RCache α) (keys : List Bytes)
    (calls : List (Call α)) (hr : toRun cache keys ≠ [])
    (he : (runnerCheck keyOf cache keys calls).2.err = false) :
    (runnerCheck keyOf cache keys calls).2.results = keys.filterMap (cacheGet cache) ++ okResults calls := by
  have hk : keys.isEmpty = false := by
    cases keys with
    | nil => simp [toRun] at hr
    | cons _ _ => rfl
  have hr' : (toRun cache keys).isEmpty = false := by
    cases h : toRun cache keys with
    | nil => exact absurd h hr
    | cons _ _ => rfl
  unfold runnerCheck at he ⊢
  simp only [hk, hr', Bool.false_eq_true, if_false] at he ⊢
  by_cases haf : allFailed (calls.foldl aggregate { values := keys.filterMap (cacheGet cache) }) = true
  · simp [haf] at he
  · simp only [haf, Bool.false_eq_true, if_false]
    exact (foldl_aggregate calls _).2.2.2

/-- everything asked for is cached: no registry call, the cached results -/
theorem runner_all_cached {α : Type} (keyOf : α → Bytes) (cache : RCache α) (keys : List Bytes)
    (calls : List (Call α)) (hr : toRun cache keys = []) :
    runnerCheck keyOf cache keys calls = (cache, ⟨false, keys.filterMap (cacheGet cache)⟩) := by
  unfold runnerCheck
  cases keys with
  | nil => simp
  | cons k ks => simp [hr]

/-- the report-time check: at most `ReportKeysLimit` = 10 keys on an empty cache are one batch; the
runner hands the registry's answer through (an empty answer without error is an empty answer, NOT an
error) and fails iff that one call failed -/
theorem runner_single_call {α : Type} (keyOf : α → Bytes) (k : Bytes) (ks : List Bytes) (e : Bool) (rs : List α) :
    (runnerCheck keyOf [] (k :: ks) [⟨k :: ks, e, rs⟩]).2.err = e ∧
    (runnerCheck keyOf [] (k :: ks) [⟨k :: ks, e, rs⟩]).2.results = if e then [] else rs := by
  cases e <;> simp [runnerCheck, toRun, cacheGet, aggregate, allFailed, Tally.total]

/-- **runner_order_irrelevant.**  The order in which the workers' answers are aggregated decides neither
whether `CheckUpkeep` fails nor which results it returns (only their order). -/
theorem runner_order_irrelevant {α : Type} (keyOf : α → Bytes) (cache : RCache α) (keys : List Bytes)
    (calls calls' : List (Call α)) (hp : calls.Perm calls') :
    (runnerCheck keyOf cache keys calls).2.err = (runnerCheck keyOf cache keys calls').2.err ∧
    (runnerCheck keyOf cache keys calls).2.results.Perm (runnerCheck keyOf cache keys calls').2.results := by
  have herr : (runnerCheck keyOf cache keys calls).2.err = (runnerCheck keyOf cache keys calls').2.err := by
    have hiff : (runnerCheck keyOf cache keys calls).2.err = true ↔ (runnerCheck keyOf cache keys calls').2.err = true := by
      rw [runner_fails_iff, runner_fails_iff]
      constructor
      · rintro ⟨h1, h2, h3⟩
        exact ⟨h1, fun h => h2 (List.Perm.eq_nil (h ▸ hp)), fun c hc => h3 c (hp.mem_iff.mpr hc)⟩
      · rintro ⟨h1, h2, h3⟩
        exact ⟨h1, fun h => h2 (List.Perm.eq_nil (h ▸ hp.symm)), fun c hc => h3 c (hp.mem_iff.mp hc)⟩
    cases h1 : (runnerCheck keyOf cache keys calls).2.err <;> cases h2 : (runnerCheck keyOf cache keys calls').2.err <;> simp_all
  refine ⟨herr, ?_⟩
  by_cases hr : toRun cache keys = []
  · rw [runner_all_cached keyOf cache keys calls hr, runner_all_cached keyOf cache keys calls' hr]
  · cases he : (runnerCheck keyOf cache keys calls).2.err with
    | false =>
      rw [runner_results keyOf cache keys calls hr he, runner_results keyOf cache keys calls' hr (herr ▸ he)]
      exact List.Perm.append_left _ ((hp.filter _).flatMap_right _)
    | true =>
      have he' := herr ▸ he
      have hk : keys.isEmpty = false := by
        cases keys with
        | nil => simp [toRun] at hr
        | cons _ _ => rfl
      have hr' : (toRun cache keys).isEmpty = false := by
        cases h : toRun cache keys with
        | nil => exact absurd h hr
        | cons _ _ => rfl
      have h1 := (all_failed_iff calls (keys.filterMap (cacheGet cache))).mpr ((runner_fails_iff keyOf cache keys calls).mp he).2
      have h2 := (all_failed_iff calls' (keys.filterMap (cacheGet cache))).mpr ((runner_fails_iff keyOf cache keys calls').mp he').2
      simp [runnerCheck, hk, hr', h1, h2]

/-! ### the observer behind the runner -/

/-- **vanished_head_staged_empty.**  A head for which every registry call came back without an error
and without a single result (every sampled upkeep paused / cancelled, a registry lagging behind the
head) and of which nothing is cached IS sampled: the stager moves to the new block with no
identifier, whatever it held before. -/
theorem vanished_head_staged_empty (cache : RCache HeadRes) (h : RegHead) (st : Stager)
    (hs : h.srcErr = false) (ha : h.active ≠ 0)
    (hmiss : ∀ k ∈ sampleKeys h.block h.active, cacheGet cache k = none)
    (hempty : ∀ c ∈ h.calls, c.err = false ∧ c.results = []) :
    processHead st (regHead cache h).2 = { block := h.block, ids := [] } := by
  have hhits : (sampleKeys h.block h.active).filterMap (cacheGet cache) = [] := by
    apply List.filterMap_eq_nil_iff.mpr
    intro k hk; exact hmiss k hk
  have hok : okResults h.calls = [] := by
    unfold okResults
    apply List.flatMap_eq_nil_iff.mpr
    intro c hc
    exact (hempty c (List.mem_filter.mp hc).1).2
  have herr : (runnerCheck headResKey cache (sampleKeys h.block h.active) h.calls).2.err = false := by
    cases hc : h.calls with
    | nil =>
      cases he : (runnerCheck headResKey cache (sampleKeys h.block h.active) []).2.err with
      | false => rfl
      | true => exact absurd rfl ((runner_fails_iff _ _ _ _).mp he).2.1
    | cons c rest =>
      rw [← hc]
      exact runner_answered_batch_no_error _ _ _ _ c (by simp [hc]) (hempty c (by simp [hc])).1
  have hres : (runnerCheck headResKey cache (sampleKeys h.block h.active) h.calls).2.results = [] := by
    by_cases hr : toRun cache (sampleKeys h.block h.active) = []
    · rw [runner_all_cached _ _ _ _ hr]; exact hhits
    · rw [runner_results _ _ _ _ hr herr, hhits, hok]; rfl
  have ha' : (h.active == 0) = false := by simpa using ha
  simp only [regHead, hs, ha', Bool.or_self, Bool.false_eq_true, if_false, processHead, herr, hres, stageIds]
  simp [ha]

/-- **vanished_head_observation_empty.**  After such a head `Observe` returns the new block and no
identifier, and the observation is the encoding of exactly that: nothing of an older head survives. -/
theorem vanished_head_observation_empty (cache : RCache HeadRes) (h : RegHead) (st : Stager)
    (hs : h.srcErr = false) (ha : h.active ≠ 0)
    (hmiss : ∀ k ∈ sampleKeys h.block h.active, cacheGet cache k = none)
    (hempty : ∀ c ∈ h.calls, c.err = false ∧ c.results = [])
    (pend : Bytes → Bool) (sh : List (Option Bytes) → List (Option Bytes)) (hsh : ∀ l, ∀ x ∈ sh l, x ∈ l) :
    observe pend (processHead st (regHead cache h).2) = (h.block, []) ∧
    observation sh pend (processHead st (regHead cache h).2) = encodeObs h.block [] := by
  rw [vanished_head_staged_empty cache h st hs ha hmiss hempty]
  have hnil : sh [] = [] := List.eq_nil_iff_forall_not_mem.mpr fun x hx => by simpa using hsh [] x hx
  refine ⟨rfl, ?_⟩
  simp [observation, observe, observationIds, hnil, limitedLengthEncode]

/-- a head whose every registry call failed is not sampled: the stager keeps what it held -/
theorem failed_head_keeps_previous (cache : RCache HeadRes) (h : RegHead) (st : Stager)
    (hr : toRun cache (sampleKeys h.block h.active) ≠ []) (hc : h.calls ≠ [])
    (hall : ∀ c ∈ h.calls, c.err = true) :
    processHead st (regHead cache h).2 = st := by
  have herr := (runner_fails_iff headResKey cache (sampleKeys h.block h.active) h.calls).mpr ⟨hr, hc, hall⟩
  unfold regHead processHead
  by_cases h1 : (h.srcErr || h.active == 0) = true
  · simp only [h1, if_true]
    simp only [Bool.or_eq_true, beq_iff_eq] at h1
    rcases h1 with h1 | h1 <;> simp [h1]
  · simp [h1, herr]

/-! ### the run-time predicate rejects what an older head left behind -/

/-- **spec_observation_sound.**  An observation accepted by the oracle carries the block last sampled,
at most `ObservationUpkeepsLimit` identifiers, each staged from THAT head and not in flight. -/
theorem spec_observation_sound (st : Stager) (pend : Bytes → Bool) (out b : Bytes) (ids : List (Option Bytes))
    (h : specObservation st pend out (some (b, ids)) = true) :
    b = st.block ∧ ids.length ≤ Gen.v2ObservationUpkeepsLimit ∧
    ∀ id ∈ ids, id ∈ st.ids ∧ pend (mkKey st.block (idBytes id)) = false := by
  simp only [specObservation, Bool.and_eq_true, decide_eq_true_eq, List.all_eq_true, beq_iff_eq] at h
  obtain ⟨⟨⟨hb, hl⟩, hall⟩, _⟩ := h
  refine ⟨hb, hl, ?_⟩
  intro id hid
  have := (observe_mem pend st id).mp (List.contains_iff_mem.mp (hall id hid))
  exact this
where
  observe_mem (pend : Bytes → Bool) (st : Stager) (id : Option Bytes) :
      id ∈ (observe pend st).2 ↔ id ∈ st.ids ∧ pend (mkKey st.block (idBytes id)) = false := by
    simp [observe, List.mem_filter]

/-- **spec_flags_stale_id.**  Nothing staged from the head last sampled (it came back empty): an
observation that lists ANY identifier is rejected. -/
theorem spec_flags_stale_id (st : Stager) (hst : st.ids = []) (pend : Bytes → Bool) (out b : Bytes)
    (id : Option Bytes) (rest : List (Option Bytes)) :
    specObservation st pend out (some (b, id :: rest)) = false := by
  cases h : specObservation st pend out (some (b, id :: rest)) with
  | false => rfl
  | true =>
    have := ((spec_observation_sound st pend out b (id :: rest) h).2.2 id (by simp)).1
    rw [hst] at this; cases this

/-- **spec_flags_stale_block.**  An observation that still carries the block of an older head is rejected. -/
theorem spec_flags_stale_block (st : Stager) (pend : Bytes → Bool) (out b : Bytes) (ids : List (Option Bytes))
    (hb : b ≠ st.block) : specObservation st pend out (some (b, ids)) = false := by
  cases h : specObservation st pend out (some (b, ids)) with
  | false => rfl
  | true => exact absurd (spec_observation_sound st pend out b ids h).1 hb

set_option maxRecDepth 20000 in
/-- non-vacuity: upkeeps 1, 2, 3 eligible at block 10; at block 11 the only batch comes back empty without an
error: the stager after head 11 is (11, no ids), an observation still listing id 1 under block 10 is rejected,
the empty observation under block 11 is accepted -/
example :
    let r (k : Bytes) : HeadRes := ⟨k, true, false, false⟩
    let k10 := [[49, 48, 124, 49], [49, 48, 124, 50], [49, 48, 124, 51]]
    let k11 := [[49, 49, 124, 49], [49, 49, 124, 50], [49, 49, 124, 51]]
    let heads := regHeads [] [⟨[49, 48], 3, false, [⟨k10, false, k10.map r⟩]⟩, ⟨[49, 49], 3, false, [⟨k11, false, []⟩]⟩]
    sampleKeys [49, 48] 3 = k10 ∧
    stagerAt heads 1 = { block := [49, 48], ids := [some [49], some [50], some [51]] } ∧
    stagerAt heads 2 = { block := [49, 49], ids := [] } ∧
    specObservation (stagerAt heads 2) (fun _ => false) (encodeObs [49, 48] [some [49]]) (some ([49, 48], [some [49]])) = false ∧
    specObservation (stagerAt heads 2) (fun _ => false) (encodeObs [49, 49] []) (some ([49, 49], [])) = true := by
  decide

/-! ### refused reports, upkeep keys, the median of no value -/

/-- **refused_report_accepts_nothing.**  `ShouldAcceptFinalizedReport` accepts exactly a report that decodes to at
least one key; an empty report (no error), an undecodable one and one without keys (error) hand NOTHING to
`Coordinator.Accept`, so nothing becomes in flight. -/
theorem refused_report_accepts_nothing (r : ReportBytes) :
    ((shouldAccept r).1 = true ↔ ∃ k ks, r = .keys (k :: ks)) ∧
    ((shouldAccept r).1 = false → (shouldAccept r).2.2 = []) ∧
    ((shouldAccept r).2.1 = true → (shouldAccept r).1 = false) := by
  cases r with
  | empty => simp [shouldAccept]
  | undecodable => simp [shouldAccept]
  | keys ks =>
    cases ks with
    | nil => simp [shouldAccept]
    | cons k ks => simp [shouldAccept]

/-- `ShouldTransmitAcceptedReport` fails on a report that does not decode or carries no key, and otherwise says
"transmit" iff some key's transmission is not confirmed -/
theorem transmit_iff_unconfirmed (confirmed : Bytes → Bool) (k : Bytes) (ks : List Bytes) :
    shouldTransmit confirmed (some (k :: ks)) = ((k :: ks).any fun x => !confirmed x, false) ∧
    shouldTransmit confirmed none = (false, true) ∧ shouldTransmit confirmed (some []) = (false, true) := by
  simp [shouldTransmit]

private theorem splitBar_no_bar (l : Bytes) (h : ∀ c ∈ l, c ≠ 124) : splitBar l = [l] := by
  induction l with
  | nil => rfl
  | cons c l ih =>
    have hc : c ≠ 124 := h c (by simp)
    have := ih fun x hx => h x (by simp [hx])
    simp [splitBar, hc, this]

private theorem splitBar_append (b rest : Bytes) (h : ∀ c ∈ b, c ≠ 124) :
    splitBar (b ++ 124 :: rest) = b :: splitBar rest := by
  induction b with
  | nil => simp [splitBar]
  | cons c b ih =>
    have hc : c ≠ 124 := h c (by simp)
    have := ih fun x hx => h x (by simp [hx])
    simp [splitBar, hc, this]

/-- `SplitUpkeepKey(MakeUpkeepKey(b, i)) = (b, i)` when neither part contains the separator -/
theorem splitKey_mkKey (b i : Bytes) (hb : ∀ c ∈ b, c ≠ 124) (hi : ∀ c ∈ i, c ≠ 124) :
    splitKey (mkKey b i) = some (b, i) := by
  simp [splitKey, mkKey, splitBar_append b i hb, splitBar_no_bar i hi]

/-- **valid_key_iff.**  `ValidateUpkeepKey` accepts the key built from a block key and an identifier of digits
iff `ValidateBlockKey` and `ValidateUpkeepIdentifier` accept the parts; the nil key is never valid. -/
theorem valid_key_iff (b i : Bytes) (hb : b.all isDigit = true) (hi : i.all isDigit = true) :
    validKey (some (mkKey b i)) = (validBlock b && validId i) ∧ validKey none = false := by
  have nb : ∀ l : Bytes, l.all isDigit = true → ∀ c ∈ l, c ≠ 124 := by
    intro l hl c hc
    have := List.all_eq_true.mp hl c hc
    simp only [isDigit, Bool.and_eq_true, decide_eq_true_eq] at this
    omega
  simp [validKey, splitKey_mkKey b i (nb b hb) (nb i hi)]

/-- **median_of_none.**  `GetMedian` of no value is "0"; it panics exactly when some value does not parse -/
theorem median_of_none_and_panic (bs : List Bytes) :
    getMedian [] = some [48] ∧ (getMedian bs = none ↔ ∃ b ∈ bs, intParses b = false) := by
  refine ⟨by decide, ?_⟩
  unfold getMedian
  by_cases h : bs.all intParses = true
  · simp only [h, if_true, reduceCtorEq, false_iff, not_exists, not_and]
    intro b hb
    simp [List.all_eq_true.mp h b hb]
  · simp only [h, Bool.false_eq_true, if_false, true_iff]
    have h' : bs.all intParses = false := by simpa using h
    obtain ⟨b, hb, hp⟩ := List.all_eq_false.mp h'
    exact ⟨b, hb, by simpa using hp⟩

end AutoVerif.C16
