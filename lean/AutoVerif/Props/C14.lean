import AutoVerif.Lemmas.C14
/-
C14 — Parallel job runs always finish and deliver each job's result exactly once.

Model: `Model/C14.lean`, a transition system over the atomic steps of the
goroutines of `pkg/util/worker.go` (submitters, result readers, queuing loop,
processing loop, workers, stopper, canceller).  `Reach cfg s` = `s` is reachable
by SOME schedule; every theorem below quantifies over every reachable state,
i.e. over every schedule / interleaving, every number of callers, jobs and
workers, and every placement of `Stop` and of the ctx cancellations.

* safety (both the repaired code `cfg.fixed = true` and the pre-fix variant):
  `delivered_at_most_once`, `delivered_only_accepted`,
  `wait_eq_accepted_minus_delivered`, `waitgroup_never_negative`,
  `workers_le_max`, `returned_all_delivered_once`;
* termination of the repaired code: `no_stuck_state` (+ `no_stuck_state_stopped`,
  `quiescent_all_returned`), `measure_decreases` and `schedule_length_bounded` (both variants),
  `quiescent_after_stop_nothing_left`;
* the run-time oracle: `spec_caller_of_returned`, `spec_of_final` — the Bool predicate of
  `Spec/C14.lean`, which the driver evaluates on the implementation's observation, holds of the
  model's observation;
* trace validation (code instrumented with the `verif` hooks): `trace_sound` — a log of hook events
  accepted by the driver's `traceOk` is a run of the model, so every safety invariant holds of the
  abstracted real state at every hook point;
* the pre-fix variant: `stuck_reachable_old`;
* arms no run reaches: `put_never_dropped`, `pop_never_empty`; direct use of the exported API (a result
  stored after `RemoveGroup`, `Queue.Pop` on the empty queue): `direct_spec_of_model`, `direct_conservation`,
  `direct_delivered_once`, `store_after_remove_kept`, `wStore_view` / `rdResults_view` / `subRemove_view`.

Full statement of the property vs. what is proved: "RunJobs returns" is proved as
"no reachable state is stuck" + "no schedule is longer than `measure cfg (init cfg)`"; turning this
into "the call returns" needs the one assumption that the Go scheduler keeps running some runnable
goroutine, and that job functions / `resFunc` return (a job function may wait for its ctx).

Panicking job functions (since "fix: worker group: a panicking work item becomes an error result"):
`runWorkItem` recovers the panic into an error result and `worker.Do` continues exactly as after a
normal return, so the model's step `wRun j` stands for both outcomes and every theorem below covers
runs with panicking jobs; `cfg.panics` only labels the observation (`spec_caller_of_returned`: the
error result of every job that panicked is delivered, exactly once, and no other job yields one).
`workers_le_max` is the statement a double put-back of a worker would break (`active = idle + busy`,
`dropped = 0`: each execution returns its worker exactly once).

PARTIAL by nature — what is assumed, not proved:
* the Go scheduler eventually runs some runnable goroutine (nothing more: no
  fairness between goroutines or between ready `select` cases is needed,
  because `measure_decreases` bounds the length of EVERY schedule);
* granularity: one step = one access to a shared object (see the header of
  `Model/C14.lean` for the list of abstractions: map-entry existence,
  `resFunc`+`Done` as one step, ctx propagation to workers, job functions that
  return or wait for their ctx, pairwise distinct random group ids);
* the correspondence between these steps and the Go code is checked by
  differential runs (harness/c14_test.go), not proved.
Helper lemmas and the inductive invariants live in `Lemmas/C14.lean`.
-/
namespace AutoVerif.C14

/-! ### safety: every reachable state of every schedule, both variants -/

/-- no result is handed to `resFunc` twice -/
theorem delivered_at_most_once {cfg : Cfg} {s : State} (h : Reach cfg s) : s.delivered.Nodup := by
  have hf := flow_reach h
  rw [List.nodup_iff_count]
  intro j
  have h1 := hf.cons (fun k => k == j)
  have h2 := (List.nodup_iff_count.mp hf.nodup) j
  simp only [List.count_eq_countP] at *
  omega

/-- only accepted jobs (`Do` returned nil) are ever reported, and they are jobs of the caller's list -/
theorem delivered_only_accepted {cfg : Cfg} {s : State} (h : Reach cfg s) :
    ∀ j ∈ s.delivered, j ∈ s.accepted ∧ j.idx < (s.callers j.grp).next := by
  intro j hj
  have hf := flow_reach h
  have h1 := hf.cons (fun k => k == j)
  have h2 : 0 < s.delivered.countP (fun k => k == j) := countP_self_pos hj
  have h3 : 0 < s.accepted.countP (fun k => k == j) := by omega
  obtain ⟨a, ha, hb⟩ := List.countP_pos_iff.mp h3
  have : a = j := by simpa using hb
  subst this
  exact ⟨ha, hf.idx a ha⟩

/-- the `sync.WaitGroup` counter of a caller = accepted − delivered (+1 while `Do` is undecided) -/
theorem wait_eq_accepted_minus_delivered {cfg : Cfg} {s : State} (h : Reach cfg s) (g : Nat) :
    (s.callers g).wait + s.delivered.countP (isGrp g) =
      s.accepted.countP (isGrp g) + (if (s.callers g).sub.inDo then 1 else 0) :=
  (flow_reach h).wait g

/-- `wait.Done()` is never called on a zero counter (no "negative WaitGroup counter" panic) -/
theorem waitgroup_never_negative {cfg : Cfg} {s : State} (h : Reach cfg s) : s.panicked = false :=
  (flow_reach h).nopanic

/-- never more job functions running — nor worker goroutines alive — than `maxWorkers`;
the put-back on the `workers` channel never hits the `default` branch -/
theorem workers_le_max {cfg : Cfg} {s : State} (h : Reach cfg s) :
    s.wRun.length ≤ cfg.maxWorkers ∧ busy s ≤ cfg.maxWorkers ∧ s.active ≤ cfg.maxWorkers ∧ s.dropped = 0 := by
  have hw := work_reach h
  have h1 := hw.acct
  have h2 := hw.le
  simp only [busy] at *
  exact ⟨by omega, by omega, h2, hw.nodrop⟩

/-- once `wait.Wait()` has returned for caller `g`, none of its jobs is left anywhere in the worker
group and every accepted job of `g` has been delivered exactly once -/
theorem returned_all_delivered_once {cfg : Cfg} {s : State} (h : Reach cfg s) {g : Nat}
    (hp : (s.callers g).sub.past = true) :
    pipe s (isGrp g) = 0 ∧ ∀ j ∈ s.accepted, j.grp = g → s.delivered.count j = 1 := by
  have hf := flow_reach h
  have hz := hf.pipe_zero hp
  refine ⟨hz, ?_⟩
  intro j hj hg
  have h1 := hf.cons (fun k => k == j)
  have h2 := List.Nodup.count (a := j) hf.nodup
  simp only [hj, if_true, List.count_eq_countP] at h2
  have h3 : pipe s (fun k => k == j) ≤ pipe s (isGrp g) := by
    have hmono : ∀ l : List Job, l.countP (fun k => k == j) ≤ l.countP (isGrp g) := by
      intro l
      apply List.countP_mono_left
      intro a _ ha
      have : a = j := by simpa using ha
      simp [this, isGrp, hg]
    simp only [pipe]
    have a1 := hmono (optList s.input); have a2 := hmono s.q.hand; have a3 := hmono s.queue
    have a4 := hmono s.p.hand; have a5 := hmono s.wStart; have a6 := hmono s.wRun
    have a7 := hmono s.wStore; have a8 := hmono s.results; have a9 := hmono s.rbatch
    omega
  simp only [List.count_eq_countP]
  omega

/-! ### termination of the repaired code -/

/-- NO STUCK STATE.  In every reachable state of the repaired code in which some `RunJobs` call has
not returned, some goroutine of the code (not the environment, i.e. not a new `Stop` or `cancel`)
can take a step — unless a job function is itself waiting for a cancellation that has not happened. -/
theorem no_stuck_state {cfg : Cfg} (hfix : cfg.fixed = true) (hmax : 1 ≤ cfg.maxWorkers) {s : State}
    (h : Reach cfg s) {g : Nat} (hg : g < cfg.ncallers) (hnr : (s.callers g).sub ≠ .returned) :
    CanStep cfg s ∨ BlockedJob cfg s :=
  caller_progress hfix (live_reach hfix h) (flow_reach h) (work_reach h) hmax hg hnr

/-- the same, read the other way: when nothing of the code can move (and no job function waits for its
ctx), every `RunJobs` call has returned -/
theorem quiescent_all_returned {cfg : Cfg} (hfix : cfg.fixed = true) (hmax : 1 ≤ cfg.maxWorkers) {s : State}
    (h : Reach cfg s) (hq : ¬ CanStep cfg s) (hb : ¬ BlockedJob cfg s) :
    ∀ g, g < cfg.ncallers → (s.callers g).sub = .returned := by
  intro g hg
  apply Classical.byContradiction
  intro hnr
  rcases no_stuck_state hfix hmax h hg hnr with h1 | h1
  · exact hq h1
  · exact hb h1

/-- after `Stop` (or with job functions that do not wait for their ctx) the exception disappears -/
theorem no_stuck_state_stopped {cfg : Cfg} (hfix : cfg.fixed = true) (hmax : 1 ≤ cfg.maxWorkers) {s : State}
    (h : Reach cfg s) (hst : s.stopped = true ∨ ∀ j, cfg.blocking j = false)
    {g : Nat} (hg : g < cfg.ncallers) (hnr : (s.callers g).sub ≠ .returned) : CanStep cfg s := by
  rcases no_stuck_state hfix hmax h hg hnr with h1 | ⟨j, _, hb, _, hs⟩
  · exact h1
  · rcases hst with hst | hst
    · rw [hst] at hs; cases hs
    · rw [hst j] at hb; cases hb

/-- DECREASING MEASURE (both variants): every step — of the code or of the environment — strictly
decreases `measure`, a natural number -/
theorem measure_decreases {cfg : Cfg} {s s' : State} {l : Label} (h : Reach cfg s)
    (hs : step cfg s l = some s') : measure cfg s' < measure cfg s :=
  measure_step (next_reach h) hs

/-- hence every schedule is finite, with an explicit bound: no livelock, and together with
`no_stuck_state` every maximal run of the repaired code ends with all `RunJobs` calls returned -/
theorem schedule_length_bounded {cfg : Cfg} (sched : List Label) {s : State}
    (h : runSched cfg (init cfg) sched = some s) :
    sched.length + measure cfg s ≤ measure cfg (init cfg) := by
  suffices H : ∀ (s0 : State), Reach cfg s0 → runSched cfg s0 sched = some s →
      sched.length + measure cfg s ≤ measure cfg s0 from H _ Reach.init h
  clear h
  induction sched with
  | nil => intro s0 _ h0; simp [runSched] at h0; subst h0; simp
  | cons l ls ih =>
    intro s0 hr h0
    simp only [runSched] at h0
    cases hs : step cfg s0 l with
    | none => simp [hs] at h0
    | some s1 =>
      rw [hs] at h0
      have := ih s1 (Reach.step l hr hs) h0
      have := measure_decreases hr hs
      simp only [List.length_cons]
      omega

/-- QUIESCENT AFTER STOP = NOTHING LEFT: when the repaired code can make no further step after `Stop`,
`Stop` has completed, both loops and every worker goroutine have ended, and every `RunJobs` call and
its reader goroutine have returned (the model's "no leaked goroutine after Stop") -/
theorem quiescent_after_stop_nothing_left {cfg : Cfg} (hfix : cfg.fixed = true) (hmax : 1 ≤ cfg.maxWorkers)
    {s : State} (h : Reach cfg s) (hq : ¬ CanStep cfg s) (hst : s.stopped = true) :
    s.t = .done ∧ s.q = .exited ∧ s.p = .exited ∧ busy s = 0 ∧
    ∀ g, g < cfg.ncallers → (s.callers g).sub = .returned ∧ (s.callers g).rd = .exited :=
  quiescent_clean hfix (live_reach hfix h) (flow_reach h) (work_reach h) hmax hq hst

/-! ### the Spec predicate (the run-time oracle Ω) holds of the model -/

/-- both variants: in every reachable state the observation of a caller whose `RunJobs` has returned
satisfies every per-caller conjunct of `Spec.C14` (exactly-once, results only for jobs that ran, every
job that ran delivered, accepted jobs a prefix, nothing after the return; all jobs run when neither
`Stop` nor a cancellation happened; no job skipped without `Stop`; the error result of a recovered
panic delivered for exactly the jobs whose function panicked) -/
theorem spec_caller_of_returned {cfg : Cfg} {s : State} (h : Reach cfg s) {g : Nat}
    (hret : (s.callers g).sub = .returned) (cs : Case)
    (hq : cs.quiet = true → s.stopped = false ∧ (s.callers g).cancelled = false)
    (hns : cs.noStop = true → s.stopped = false) :
    callerOk cs (observeCaller cfg s g) = true :=
  callerOk_of_facts cs hret (retFacts h hret) hq hns

/-- the repaired code: the observation of every quiescent state after `Stop` satisfies the whole
predicate — every caller returned, exactly-once delivery, concurrency bound, no goroutine left.
(`mc` is the running maximum of `|wRun|`, bounded by `workers_le_max`.) -/
theorem spec_of_final {cfg : Cfg} (hfix : cfg.fixed = true) (hmax : 1 ≤ cfg.maxWorkers) {s : State}
    (h : Reach cfg s) (hq : ¬ CanStep cfg s) (hst : s.stopped = true) (mc : Nat) (hmc : mc ≤ cfg.maxWorkers) :
    spec { workers := cfg.maxWorkers, quiet := false, noStop := false } (observe cfg s mc) = true :=
  spec_of_final_aux hfix hmax h hq hst mc hmc

/-! ### trace validation (instrumented code) -/

/-- TRACE SOUNDNESS.  If the driver's trace check `traceOk` accepts a recorded log of hook events
(in the admissible reordering `order`), then the log is a run of the model: after EVERY event — i.e.
at every instrumentation point the real run went through — the model state the events lead to is
reachable, hence satisfies all the safety invariants of this file (exactly-once bookkeeping,
WaitGroup accounting, concurrency bound).  Together with `Spec.C14.interp` (each event reports the
OUTCOME of the real step: select branch taken, channel full or not, number of results taken, group of
the item received, new vs. reused worker, and the replay fails if the model disagrees) this makes the
model state after a prefix the abstraction of the real state at that hook point. -/
theorem trace_sound {cfg : Cfg} {evs : Array Ev} {order : List Nat} (h : traceOk cfg evs order = true) :
    ∃ t, replay cfg evs { s := init cfg } order = some t ∧ Reach cfg t.s ∧
      ∀ k, ∃ tk, replay cfg evs { s := init cfg } (order.take k) = some tk ∧ Reach cfg tk.s ∧
        tk.s.delivered.Nodup ∧ (∀ j ∈ tk.s.delivered, j ∈ tk.s.accepted) ∧
        (∀ g, (tk.s.callers g).wait + tk.s.delivered.countP (isGrp g) =
          tk.s.accepted.countP (isGrp g) + (if (tk.s.callers g).sub.inDo then 1 else 0)) ∧
        tk.s.panicked = false ∧ tk.s.wRun.length ≤ cfg.maxWorkers ∧ tk.s.dropped = 0 := by
  unfold traceOk at h
  simp only [Bool.and_eq_true] at h
  cases hr : replay cfg evs { s := init cfg } order with
  | none => simp [hr] at h
  | some t =>
    have h0 : Reach cfg ({ s := init cfg } : TState).s := Reach.init
    refine ⟨t, rfl, replay_reach h0 hr, ?_⟩
    intro k
    obtain ⟨tk, htk⟩ := replay_take hr k
    have hk := replay_reach h0 htk
    exact ⟨tk, htk, hk, delivered_at_most_once hk, fun j hj => (delivered_only_accepted hk j hj).1,
      wait_eq_accepted_minus_delivered hk, waitgroup_never_negative hk, (workers_le_max hk).1,
      (workers_le_max hk).2.2.2⟩

/-! ### the two arms that no run reaches (worker.go:59 `default:` of the put-back, worker.go:258 `if err != nil` after `Pop`)

Both are steps of the model (`wPut` with a full `workers` channel, `pPopEmpty`), the trace validator accepts
their hook events (`wk.put-dropped`, `pq.pop-err`) exactly where the model enables them — and these two
theorems say that this is nowhere: a log containing one of them is rejected. -/

/-- the put-back `select` never finds the `workers` channel full: whenever a worker is about to put
itself back there is room (capacity `maxWorkers`, and the worker itself is not in the channel) -/
theorem put_never_dropped {cfg : Cfg} {s : State} (h : Reach cfg s) (hp : 0 < s.wPut) :
    s.idle < cfg.maxWorkers := by
  have hw := work_reach h
  have h1 := hw.acct
  have h2 := hw.le
  simp only [busy] at h1
  omega

/-- `Pop` never fails in `processQueue`: the step "Pop returned an error" is never enabled -/
theorem pop_never_empty {cfg : Cfg} {s : State} (h : Reach cfg s) (f : Bool) :
    step cfg s (.pPopEmpty f) = none := by
  have hp := pop_reach h f
  simp only [step]
  split
  · rename_i hc; exact absurd hc.2 (hp hc.1)
  · rfl

/-! ### direct use of the public API: `Do` / `Results` / `NotifyResult` / `RemoveGroup` / `Queue` -/

/-- the Spec predicate for direct histories holds of the model with explicit map entries, for EVERY
sequence of calls: re-creating a missing entry in `storeResult` (worker.go:369, :374), in `Do`, `Results`
and `NotifyResult` is invisible in the entry-less view (`DMon`) that the transition system uses -/
theorem direct_spec_of_model (workers : Nat) (ops : List DOp) :
    directSpec workers ops (drun workers {} ops) = true := by
  have h0 : DRel ({} : DState) ({} : DMon) := ⟨fun _ => rfl, fun _ => rfl, rfl, rfl, fun _ => rfl⟩
  obtain ⟨m, hm⟩ := drel_run workers ops h0
  simp [directSpec, hm]

/-- EXACTLY ONCE at the level of the store, for every history the monitor accepts (the model's, by
`direct_spec_of_model`, and the implementation's, checked by the driver): per group, the results of the
finished jobs are, as multisets, those handed out by `Results` + those the client wiped with `RemoveGroup`
+ those still stored -/
theorem direct_conservation {workers : Nat} {ops : List DOp} {outs : List DOut} {m : DMon}
    (h : dmonRun workers {} ops outs = .ok m) (g v : Nat) :
    (m.finished g).count v = (m.delivered g).count v + (m.wiped g).count v + (m.owed g).count v :=
  dcons_run ops (m := {}) (fun _ _ => rfl) h g v

/-- hence: a result is handed out at most once, and one that was handed out was not wiped -/
theorem direct_delivered_once {workers : Nat} {ops : List DOp} {outs : List DOut} {m : DMon}
    (h : dmonRun workers {} ops outs = .ok m) (g : Nat) (hn : (m.finished g).Nodup) :
    (m.delivered g).Nodup ∧ ∀ v ∈ m.delivered g, v ∈ m.finished g ∧ v ∉ m.wiped g := by
  refine ⟨?_, fun v hv => ?_⟩
  · rw [List.nodup_iff_count]
    intro v
    have := direct_conservation h g v
    have := (List.nodup_iff_count.mp hn) v
    omega
  · have h1 := direct_conservation h g v
    have h2 := (List.nodup_iff_count.mp hn) v
    have h3 : 0 < (m.delivered g).count v := List.count_pos_iff.mpr hv
    exact ⟨List.count_pos_iff.mp (by omega), fun hw => by have := List.count_pos_iff.mpr hw; omega⟩

/-- the path through `storeResult`'s `if !ok` arms (a result stored AFTER `RemoveGroup` of its group): the
result is kept for the next `Results` of the group — alone, the results wiped before stay wiped — and the
re-created channel holds a token -/
theorem store_after_remove_kept (workers : Nat) (d : DState) (g v : Nat) :
    drun workers d [.remove g, .finish g v, .poll g, .results g, .poll g, .results g] =
      [.unit, .finished (min workers (d.outstanding - 1)), .token true, .vals [v], .token false, .vals []] := by
  simp [drun, dstep, Store.remove, Store.store, Store.dataEnsured, Store.notifyEnsured, Store.poll, Store.results]

/-- without the second arm the token would be lost: a store that finds no channel and does not create
one leaves none (the send on a nil channel takes `default`) — the arm is what keeps the wake-up -/
example (st : Store) (g r : Nat) (h : st.notify g = none) :
    (setAt st.notify g ((st.notify g).map fun _ => true)) g = none ∧ ((st.store g r).notify g) = some true := by
  simp [h, Store.store, Store.notifyEnsured]

/-- the transition system treats `resultData` / `resultNotify` exactly as the monitor does (no entries):
`storeResult` puts the job on top of the group's results and leaves a token … -/
theorem wStore_view {cfg : Cfg} {s s' : State} {j : Job} (hs : step cfg s (.wStore j) = some s') :
    s'.results.filter (isGrp j.grp) = j :: s.results.filter (isGrp j.grp) ∧ (s'.callers j.grp).notify = true := by
  simp only [step, ite_some_none] at hs
  obtain ⟨_, rfl⟩ := hs
  simp [State.setC, upd, isGrp]

/-- … `Results` hands the group's results out oldest first and leaves none … -/
theorem rdResults_view {cfg : Cfg} {s s' : State} {g : Nat} (hs : step cfg s (.rdResults g) = some s') :
    s'.rbatch = s.rbatch ++ (s.results.filter (isGrp g)).reverse ∧ s'.results.filter (isGrp g) = [] := by
  simp only [step, ite_some_none] at hs
  obtain ⟨_, rfl⟩ := hs
  refine ⟨by simp only [State.setC]; rfl, ?_⟩
  simp only [State.setC, List.filter_filter, isGrp]
  apply List.filter_eq_nil_iff.mpr
  intro a _
  by_cases ha : a.grp = g <;> simp [ha]

/-- … and `RemoveGroup` leaves neither results nor a token -/
theorem subRemove_view {cfg : Cfg} {s s' : State} {g : Nat} (hs : step cfg s (.subRemove g) = some s') :
    s'.results.filter (isGrp g) = [] ∧ (s'.callers g).notify = false := by
  simp only [step, ite_some_none] at hs
  obtain ⟨_, rfl⟩ := hs
  refine ⟨?_, by simp [State.setC, upd]⟩
  simp only [State.setC, List.filter_filter, isGrp]
  apply List.filter_eq_nil_iff.mpr
  intro a _
  by_cases ha : a.grp = g <;> simp [ha]

/-- `Queue`: `Pop` on the empty queue is an error and leaves it empty; otherwise head and rest — the
`head?` / `tail` of the transition system's `pPop` -/
theorem queuePop_spec (q : List Nat) : queuePop q = (q.head?, q.tail) ∧ (queuePop [] = (none, [])) :=
  ⟨queuePop_eq q, rfl⟩

/-- the direct-call hypotheses are met: a history with a result stored after `RemoveGroup`, one wiped, a
refused item, and a `Pop` on the empty queue is accepted, with the expected bookkeeping -/
example :
    let ops : List DOp := [.submit 7 1, .submit 7 2, .submitCancelled 7, .finish 7 1, .remove 7, .finish 7 2,
      .poll 7, .results 7, .qPop, .qAdd [4, 5], .qPop, .qLen]
    drun 1 {} ops = [.accepted 1, .accepted 1, .refused, .finished 1, .unit, .finished 0, .token true, .vals [2],
      .popped none, .unit, .popped (some 4), .len 1] ∧
    directSpec 1 ops (drun 1 {} ops) = true ∧
    -- an implementation that hands the late result out twice, loses its token, or answers `Pop` on the
    -- empty queue with a value is rejected
    directSpec 1 [.finish 7 2, .results 7] [.finished 0, .vals [2, 2]] = false ∧
    directSpec 1 [.remove 7, .finish 7 2, .poll 7] [.unit, .finished 0, .token false] = false ∧
    directSpec 1 [.qPop] [.popped (some 0)] = false := by
  decide

/-! ### VOLUME: any number of groups on one worker group, any number of results under one wake-up

The reader of `RunJobs` sleeps on the channel OBJECT it fetched for its group and fetches the group's
channel again only after a wake-up; `Results` is called once per wake-up.  Two facts of the store carry
"`RunJobs` returns" from a handful of callers and jobs to crowds of callers and thousands of results; both
are theorems of the store model for every history of calls, and both are compared call by call with the
real group (`watch` / `pollHeld` calls, long result lists: harness/c14_direct_test.go). -/

/-- WAITING IS NOT FINISHED.  A client fetched the channel of group `g` and a result of `g` was stored.
Whatever happens then — calls on any number of other groups, in any state, `RemoveGroup` of every one of
them, further jobs and results of `g` itself — short of `RemoveGroup(g)` and of a receive from `g`'s
channel: the channel the client kept still is the group's channel and the token is on it (the parked
reader wakes up). -/
theorem watcher_woken (workers : Nat) (d : DState) (g v : Nat) (mid : List DOp)
    (hmid : ∀ op ∈ mid, op ≠ .remove g ∧ op ≠ .poll g ∧ op ≠ .pollHeld g) :
    drun workers d ([.watch g, .finish g v] ++ mid ++ [.pollHeld g]) =
      drun workers d ([.watch g, .finish g v] ++ mid) ++ [.token true] := by
  have hw : Woken (dend workers d ([.watch g, .finish g v] ++ mid)) g := by
    rw [dend_append]
    exact woken_run workers mid (woken_after_watch_finish workers d g v) hmid
  rw [drun_append]
  obtain ⟨hh, hn⟩ := hw
  simp only [List.cons_append, List.nil_append] at hh hn ⊢
  simp [drun, dstep, pollHeldStep, hh, hn]

/-- `RemoveGroup(k)` touches group `k` only: the channel kept for any other group stays attached, its token
and its stored results stay — with 2 groups registered or with 2000 -/
theorem remove_touches_own_group_only (workers : Nat) (d : DState) {g k : Nat} (hk : g ≠ k) :
    ((dstep workers d (.remove k)).2.held g = d.held g) ∧
    ((dstep workers d (.remove k)).2.store.notify g = d.store.notify g) ∧
    ((dstep workers d (.remove k)).2.store.data g = d.store.data g) := by
  exact ⟨by simp [dstep, setAt_other _ _ hk], by simp [dstep, Store.remove, setAt_other _ _ hk],
    by simp [dstep, Store.remove, setAt_other _ _ hk]⟩

/-- ONE CALL OF `Results` TAKES EVERYTHING.  However many results were stored for the group since the last
call (one notification covers them all: the channel has capacity 1), the next `Results` hands out all of
them, oldest first, after what was stored before -/
theorem results_takes_all (workers : Nat) (d : DState) (g : Nat) (vs : List Nat) :
    drun workers d (vs.map (.finish g) ++ [.results g]) =
      drun workers d (vs.map (.finish g)) ++ [.vals (((d.store.data g).getD []).reverse ++ vs)] := by
  rw [drun_append]
  simp [drun, dstep, Store.results, dend_finishes_data]

/-- … and leaves nothing behind: a second call finds the group empty -/
theorem results_leaves_nothing (workers : Nat) (d : DState) (g : Nat) :
    drun workers d [.results g, .results g] = [.vals ((d.store.data g).getD []).reverse, .vals []] := by
  simp [drun, dstep, Store.results]

/-- the hypotheses are met and the monitor tells the difference: 5 groups, the reader of group 2 is parked,
groups 1, 3, 4, 5 are removed, a result of group 2 arrives: the reader is woken; an implementation that sweeps
the waiting group along with another one (the reader is left on a dead channel), or whose `Results` hands out
only a part of a list, is rejected -/
example :
    let ops : List DOp := [.submit 1 1, .submit 2 2, .submit 3 3, .watch 2, .finish 1 1, .results 1, .remove 1,
      .remove 3, .remove 4, .remove 5, .finish 2 2, .pollHeld 2, .results 2]
    drun 3 {} ops = [.accepted 1, .accepted 2, .accepted 3, .unit, .finished 2, .vals [1], .unit, .unit, .unit, .unit,
      .finished 1, .token true, .vals [2]] ∧
    directSpec 3 ops (drun 3 {} ops) = true ∧
    directSpec 3 [.submit 1 1, .submit 2 2, .watch 2, .remove 1, .finish 2 2, .pollHeld 2]
      [.accepted 1, .accepted 2, .unit, .unit, .finished 1, .token false] = false ∧
    directSpec 3 [.finish 1 1, .finish 1 2, .finish 1 3, .results 1] [.finished 0, .finished 0, .finished 0, .vals [1, 2]] = false ∧
    -- the channel of a group that WAS removed is dead: the late result goes to a new channel
    drun 1 {} [.submit 7 1, .watch 7, .remove 7, .finish 7 1, .pollHeld 7, .poll 7] =
      [.accepted 1, .unit, .unit, .finished 0, .token false, .token true] := by
  decide

/-! ### the pre-fix variant gets stuck -/

/-- STUCK STATE REACHABLE in the code before "fix: worker group: a job handed over while Stop runs is
no longer stranded" (`schedOld`: a job accepted into `input` after the queuing loop has left):
the state is reachable, `RunJobs` has not returned and waits with counter 1, nothing of the code can
move, and from there on — whatever the environment does — the counter never reaches zero. -/
theorem stuck_reachable_old :
    Reach cfgOld stuckOld ∧
    (stuckOld.callers 0).sub = .wait ∧ (stuckOld.callers 0).wait = 1 ∧
    stuckOld.input = some ⟨0, 0⟩ ∧ stuckOld.q = .exited ∧
    ¬ CanStep cfgOld stuckOld ∧ ¬ BlockedJob cfgOld stuckOld ∧
    ∀ s', Steps cfgOld stuckOld s' → (s'.callers 0).sub = .wait ∧ (s'.callers 0).wait = 1 := by
  have hi := stuckOld_inv
  refine ⟨stuckOld_reach, hi.sub, hi.wait, hi.input, hi.q, ?_, ?_, ?_⟩
  · rintro ⟨l, hl, he⟩
    simp only [enabled] at he
    cases hs : step cfgOld stuckOld l with
    | none => simp [hs] at he
    | some s' =>
      have := (stuckOld_step hi hs).2
      rw [hl] at this; cases this
  · rintro ⟨j, hj, -⟩
    rw [hi.w2] at hj; cases hj
  · intro s' hs'
    have := stuckOld_steps hs'
    exact ⟨this.sub, this.wait⟩

/-! ### non-vacuity -/

/-- a configuration of the repaired code: 2 workers, 2 callers with 3 and 1 jobs, one job waits for its ctx -/
private def cfgEx : Cfg :=
  { fixed := true, maxWorkers := 2, ncallers := 2, jobs := fun g => if g = 0 then 3 else 1,
    blocking := fun j => j == ⟨0, 1⟩ }

/-- a schedule that accepts, runs, stores and delivers a job while `Stop` is half-way -/
private def schedEx : List Label :=
  [.subAdd 0, .subCtx 0, .subRLock 0, .subClosed 0, .subSend 0, .stopBegin, .tLockReq, .subRUnlockOk 0,
   .qRecv ⟨0, 0⟩, .qAdd ⟨0, 0⟩, .qNotify, .pNotify, .pLen false, .pPop false ⟨0, 0⟩, .pSpawnNew false ⟨0, 0⟩,
   .wCheckOk ⟨0, 0⟩, .wRun ⟨0, 0⟩, .wStore ⟨0, 0⟩, .wPut, .rdNotify 0, .rdResults 0, .rdDeliver ⟨0, 0⟩,
   .tLockAcq, .tSet, .tUnlock, .tSend]

/-- the hypotheses of the safety theorems are met by a non-trivial reachable state (one job delivered,
`Stop` in progress, caller 0 not returned), and `no_stuck_state` applies to it -/
example : ∃ s, runSched cfgEx (init cfgEx) schedEx = some s ∧ s.delivered = [⟨0, 0⟩] ∧
    (s.callers 0).sub ≠ .returned ∧ s.q = .drain := by
  refine ⟨(runSched cfgEx (init cfgEx) schedEx).getD (init cfgEx), ?_, by decide, by decide, by decide⟩
  have : (runSched cfgEx (init cfgEx) schedEx).isSome = true := by decide
  cases h : runSched cfgEx (init cfgEx) schedEx with
  | none => simp [h] at this
  | some s => simp

example : cfgEx.fixed = true ∧ 1 ≤ cfgEx.maxWorkers ∧ (0 : Nat) < cfgEx.ncallers := by decide

/-- the bound of `schedule_length_bounded` for `cfgEx`: 3·23+12 + 1·23+12 + 10 steps -/
example : measure cfgEx (init cfgEx) = 126 := by decide

/-- one caller, one job, one worker: the whole life of a job and of the group, then `Stop` -/
private def cfgOne : Cfg := { fixed := true, maxWorkers := 1, ncallers := 1, jobs := fun _ => 1, blocking := fun _ => false }

private def schedOne : List Label :=
  [.subAdd 0, .subCtx 0, .subRLock 0, .subClosed 0, .subSend 0, .subRUnlockOk 0, .qRecv ⟨0, 0⟩, .qAdd ⟨0, 0⟩,
   .qNotify, .pNotify, .pLen false, .pPop false ⟨0, 0⟩, .pSpawnNew false ⟨0, 0⟩, .wCheckOk ⟨0, 0⟩, .wRun ⟨0, 0⟩,
   .wStore ⟨0, 0⟩, .wPut, .rdNotify 0, .rdResults 0, .rdDeliver ⟨0, 0⟩, .rdBatchEnd 0, .subLoopEnd 0, .subWait 0,
   .subRemove 0, .subCloseEnd 0, .rdEnd 0, .pLen false, .stopBegin, .tLockReq, .tLockAcq, .tSet, .tUnlock, .tSend,
   .qDrainEmpty, .qSendStop, .pLen true]

private def finalOne : State := (runSched cfgOne (init cfgOne) schedOne).getD (init cfgOne)

/-- the hypotheses of `spec_of_final` / `quiescent_after_stop_nothing_left` are met by a reachable state
with a delivered job: `finalOne` is reachable, stopped and quiescent, and its observation is non-trivial -/
example : Reach cfgOne finalOne ∧ ¬ CanStep cfgOne finalOne ∧ finalOne.stopped = true ∧
    finalOne.delivered = [⟨0, 0⟩] ∧
    (observe cfgOne finalOne 1).callers.map (fun c => (c.returned, c.delivered, c.started)) = [(true, [0], [0])] := by
  refine ⟨?_, ?_, by decide, by decide, by decide⟩
  · apply reach_runSched Reach.init (sched := schedOne)
    have : (runSched cfgOne (init cfgOne) schedOne).isSome = true := by decide
    unfold finalOne
    cases h : runSched cfgOne (init cfgOne) schedOne with
    | none => simp [h] at this
    | some s => simp
  · apply final_quiescent <;> decide

/-- the same run when the job function panics: the one delivered result is the panic's error result -/
example :
    let c := observeCaller { cfgOne with panics := fun _ => true } finalOne 0
    c.panicked = [0] ∧ c.errDelivered = [0] ∧ c.delivered = [0] ∧
    callerOk { workers := 1, quiet := false, noStop := false } c = true := by decide

/-- `trace_sound` is not vacuous: the log of a run in which one job is accepted, executed and delivered
(in the order the hooks would report it, the result's store logged before the worker's own `ran`
event is not needed here) is accepted -/
example :
    let evs : Array Ev := #[⟨"rj.start", 0, 1, 0⟩, ⟨"rj.add", 0, 0, 0⟩, ⟨"do.ctxok", 0, 0, 0⟩, ⟨"do.rlock", 0, 0, 0⟩,
      ⟨"do.open", 0, 0, 0⟩, ⟨"do.sent", 0, 0, 0⟩, ⟨"do.runlocked", 0, 0, 0⟩, ⟨"rq.recv", 0, 0, 0⟩, ⟨"rq.added", 0, 0, 0⟩,
      ⟨"rq.notified", 0, 0, 0⟩, ⟨"rp.notify", 0, 0, 0⟩, ⟨"pq.nonempty", 0, 0, 0⟩, ⟨"pq.popped", 0, 0, 0⟩, ⟨"dj.new", 0, 0, 1⟩,
      ⟨"wk.ctxok", 0, 0, 0⟩, ⟨"wk.ran", 0, 0, 0⟩, ⟨"sr.notified", 0, 0, 0⟩, ⟨"wk.put", 0, 0, 0⟩, ⟨"rd.notify", 0, 0, 0⟩,
      ⟨"res.take", 0, 1, 0⟩, ⟨"rd.done", 0, 1, 0⟩, ⟨"rd.batchend", 0, 0, 0⟩, ⟨"rj.loopend", 0, 0, 0⟩, ⟨"rj.waited", 0, 0, 0⟩]
    traceOk cfgOne evs (List.range evs.size) = true ∧
    -- the same log with the events of the reader moved before the worker stored the result is rejected
    traceOk cfgOne (evs.swap 16 18) (List.range evs.size) = false := by
  decide

/-- the pre-fix witness is an actual schedule of the model -/
example : (runSched cfgOld (init cfgOld) schedOld).isSome = true := by decide

end AutoVerif.C14
