import AutoVerif.Props.C19
import AutoVerif.Gen.Consts
/-
C19Tie — the tie theorems of Props/C19.lean (`…_matches_source`): the model's decision functions equal the
decision expressions `AutoVerif.Gen.Src.*` that the extractor regenerates from the Go source on every check run
(docs/TIE_THEOREMS.md).  They live in a module of their own, which nothing but AutoVerif.lean (and another
property's Tie module, where a tie is reused) imports: a source change that breaks a tie here breaks this
property's check (bin/check audits every module `Props/C19*.lean`) and not the build of the theorem
modules of other properties that import Props/C19.lean.
-/
namespace AutoVerif.C19

/-! ### tie to the source: the model's decisions are the expressions regenerated from the Go code

`Gen.Src.c19…` are translated from tools/simulator on every check run (extract/exprs.d/C19.json).  A changed
operator or operand there changes these definitions and the theorems below stop checking.
(`createPluginTransmitEvents`' `new(big.Int).Sub(latest.Number, chainEvent.BlockNumber).Int64()` is a
method-call chain the translator cannot express; its exact text is pinned by the site expectation in
extract/expect.json instead.) -/

/-- the `less` closure of `SortedKeyMap.Set`: `if len(a) != len(b) { return len(a) < len(b) }; return a < b` -/
theorem numLt_matches_source (a b : String) :
    numLt a b = if Gen.Src.c19KeyLenDiffer a.length b.length then Gen.Src.c19KeyShorter a.length b.length
                else Gen.Src.c19KeyLexLess a b := by
  unfold numLt Gen.Src.c19KeyLenDiffer Gen.Src.c19KeyShorter Gen.Src.c19KeyLexLess
  split <;> simp_all

/-- `Set`: the key is appended and the slice re-sorted exactly under `!ok` -/
theorem set_matches_source {α} (lt : String → String → Bool) (m : SKM α) (k : String) (v : α) :
    m.set lt k v =
      if Gen.Src.c19SetNewKey (m.get k).isSome then { keys := insertSorted lt k m.keys, vals := (k, v) :: m.vals }
      else { m with vals := (k, v) :: m.vals } := by
  unfold SKM.set Gen.Src.c19SetNewKey
  split <;> simp_all

/-- `Keys`: `if count > keysLen { count = keysLen }`, then `for i := 1; i <= count; i++ { keys[i-1] = m.keys[keysLen-i] }` -/
theorem keysDesc_matches_source {α} (m : SKM α) (count : Nat) :
    m.keysDesc count =
      ((List.range (if Gen.Src.c19KeysClamp count m.keys.length then m.keys.length else count)).map
        fun j => m.keys.getD (m.keys.length - (j + 1)) "") ∧
    ∀ n i, (1 ≤ i ∧ Gen.Src.c19KeysLoop i n = true) ↔ (1 ≤ i ∧ i - 1 ∈ List.range n) := by
  refine ⟨?_, ?_⟩
  · unfold SKM.keysDesc Gen.Src.c19KeysClamp
    simp only [decide_eq_true_eq]
  · intro n i
    simp only [Gen.Src.c19KeysLoop, decide_eq_true_eq, List.mem_range]
    omega

/-- `Transmit`: refused exactly when the `(report, round)` key is in the index (`if _, ok := tl.transmitted[key]; ok`) -/
theorem transmit_matches_source (tl : TL) (t : Transmit) :
    tl.transmit t =
      if Gen.Src.c19TransmitDuplicate (tl.transmitted.any (sameKey t)) then (tl, false)
      else ({ queue := tl.queue ++ [t], transmitted := tl.transmitted ++ [t] }, true) := rfl

/-- `Load`: a block gets no perform transaction exactly when `len(tl.queue) == 0` -/
theorem load_matches_source (tl : TL) : (tl.load).2.isEmpty = Gen.Src.c19LoadNothing tl.queue.length := by
  cases h : tl.queue <;> simp [TL.load, Gen.Src.c19LoadNothing, h]

/-- `updateBlock`: `rt.latest == nil || rt.latest.Number == nil || (block.Number != nil && block.Number.Cmp(rt.latest.Number) > 0)`
    (block numbers are never nil in the model) -/
theorem onBlock_matches_source (rt : RT) (b : Block) :
    rt.onBlock b =
      if Gen.Src.c19LatestMoves rt.latest.isNone false true
          (match rt.latest with | some l => bigCmp b.number l.number | none => 0)
      then { rt with latest := some b } else rt := by
  unfold RT.onBlock Gen.Src.c19LatestMoves bigCmp
  cases h : rt.latest with
  | none => simp
  | some l =>
    simp only [Option.isNone_some, Bool.false_or, Bool.true_and, decide_eq_true_eq]
    by_cases h1 : b.number > l.number
    · have h2 : ¬ b.number < l.number := by omega
      have h3 : ¬ b.number = l.number := by omega
      simp [h1, h2, h3]
    · by_cases h2 : b.number < l.number
      · simp [h1, h2]
      · have h3 : b.number = l.number := by omega
        simp [h3]

/-- `run`: block `n` is broadcast unless `bb.nextBlock.Cmp(bb.limit) > 0`, with `limit = genesis + count - 1` -/
theorem chainNumbers_matches_source (g count n : Nat) (hc : 0 < count) :
    n ∈ chainNumbers g count ↔ (g ≤ n ∧ Gen.Src.c19PastLimit (bigCmp n (g + (count - 1))) = false) := by
  simp only [chainNumbers, List.mem_map, List.mem_range, Gen.Src.c19PastLimit, bigCmp, decide_eq_false_iff_not]
  constructor
  · rintro ⟨i, hi, rfl⟩
    refine ⟨by omega, ?_⟩
    by_cases h1 : g + i < g + (count - 1)
    · simp [h1]
    · have : g + i = g + (count - 1) := by omega
      simp [this]
  · rintro ⟨h1, h2⟩
    refine ⟨n - g, ?_, by omega⟩
    by_cases h3 : n < g + (count - 1)
    · omega
    · by_cases h4 : n = g + (count - 1)
      · omega
      · simp [h3, h4] at h2

/-! ### decision trees: which exit the source takes under which conditions (`"kind": "tree"`)

`Gen.Src.c19…Tree` are the nested `if`s of the function bodies with the terminating statements numbered in source
order.  Trees exist only for bodies with exits; `SortedKeyMap.Set` and `ReportTracker.updateBlock` decide whether an
ASSIGNMENT happens (no exit: their trees have a single leaf) and `BlockBroadcaster.run` / `Listener.run` are `select`
loops — these three stay with the expression ties above (`set_`, `onBlock_`, `chainNumbers_matches_source`). -/

/-- `Transmit`: exits 1, 2 = a gob encoding error (never for the model's transmits), 3 = `return fmt.Errorf("report
    already transmitted")` when the key is in the index, 4 = `return nil`; `c19TransmitTreeVal` is 1 where the source
    returns an error and 0 where it returns `nil`; every exit is a `return`.  The model's answer is `true` exactly where
    the source returns `nil`, it queues and records the transmit exactly at exit 4, and an encoding error (either of
    the two) never ends in `nil`. -/
theorem transmit_tree_matches_source (tl : TL) (t : Transmit) :
    let found := tl.transmitted.any (sameKey t)
    (tl.transmit t).2 =
      decide (Gen.Src.c19TransmitTreeVal false false found (Gen.Src.c19TransmitTree false false found) = 0) ∧
    (tl.transmit t).1 =
      (if Gen.Src.c19TransmitTree false false found = 4
       then { queue := tl.queue ++ [t], transmitted := tl.transmitted ++ [t] } else tl) ∧
    (∀ e₁ e₂ f, (e₁ || e₂) = true →
      Gen.Src.c19TransmitTreeVal e₁ e₂ f (Gen.Src.c19TransmitTree e₁ e₂ f) = 1) ∧
    (∀ e₁ e₂ f, Gen.Src.c19TransmitTreeKind (Gen.Src.c19TransmitTree e₁ e₂ f) = 1) := by
  intro found
  refine ⟨?_, ?_, ?_, ?_⟩
  · unfold TL.transmit Gen.Src.c19TransmitTree Gen.Src.c19TransmitTreeVal
    cases h : tl.transmitted.any (sameKey t) <;> simp [found, h]
  · unfold TL.transmit Gen.Src.c19TransmitTree
    cases h : tl.transmitted.any (sameKey t) <;> simp [found, h]
  · intro e₁ e₂ f h
    cases e₁ <;> cases e₂ <;> cases f <;> simp_all [Gen.Src.c19TransmitTree, Gen.Src.c19TransmitTreeVal]
  · intro e₁ e₂ f
    cases e₁ <;> cases e₂ <;> cases f <;> simp [Gen.Src.c19TransmitTree, Gen.Src.c19TransmitTreeKind]

/-- `Load`: exit 1 = the early `return` on an empty queue (the block gets no perform transaction); otherwise the body
    runs to its end (exit 0) whether or not there is a progress telemetry -/
theorem load_tree_matches_source (tl : TL) (hasProgress : Bool) :
    (tl.load).2.isEmpty = decide (Gen.Src.c19LoadTree tl.queue.length hasProgress = 1) ∧
    (Gen.Src.c19LoadTree tl.queue.length hasProgress = 1 ∨ Gen.Src.c19LoadTree tl.queue.length hasProgress = 0) ∧
    Gen.Src.c19LoadTreeKind 1 = 1 := by
  unfold Gen.Src.c19LoadTree
  cases h : tl.queue <;> cases hasProgress <;> simp [TL.load, h, Gen.Src.c19LoadTreeKind]

/-- `GetLatestEvents`: exit 1 = `return nil, nil` before the first block; exit 2 = `return events, nil` after the
    look-back loop -/
theorem latestEvents_tree_matches_source (reports : List (List String)) (rt : RT) :
    rt.latestEvents reports =
      if Gen.Src.c19LatestEventsTree rt.latest.isNone = 1 then []
      else match rt.latest with
        | none => []
        | some l =>
          (rt.blockEvents.keysDesc reportTrackerBlockRange).flatMap fun k =>
            match rt.blockEvents.get k with
            | some (blk, ts) => ts.flatMap (pluginEvents reports l blk)
            | none => [] := by
  unfold RT.latestEvents Gen.Src.c19LatestEventsTree
  cases rt.latest with
  | none => simp
  | some l => simp only [Option.isNone_some]; rfl

/-- `createPluginTransmitEvents`: exit 1 = `return nil, err` when the report does not decode (the model: a report
    without work ids), exit 2 = `return events, nil` with one event per check result of the report -/
theorem pluginEvents_tree_matches_source (decodeFails : Bool) (ws : List String) (latest : Block) (blk : Nat)
    (t : Transmit) (ht : t.rep = 0) :
    pluginEvents [if decodeFails then [] else ws] latest blk t =
      if Gen.Src.c19PluginEventsTree decodeFails = 1 then []
      else ws.map fun w =>
        { wid := w, block := blk, conf := confirmations latest.number blk, rep := t.rep, round := t.round } := by
  unfold pluginEvents Gen.Src.c19PluginEventsTree
  cases decodeFails <;> simp [ht]

/-- `SortedKeyMap.Get`: exit 1 = `return v, ok` for a bound key, exit 2 = `return getZero[T](), false` -/
theorem get_tree_matches_source {α} (m : SKM α) (k : String) :
    m.get k = if Gen.Src.c19GetTree (m.vals.lookup k).isSome = 1 then m.vals.lookup k else none := by
  unfold SKM.get Gen.Src.c19GetTree
  cases m.vals.lookup k <;> simp

/-! ### what the exits are and what they return (`…Kind`, `…Nil<i>`), and marked effects (`"marks"`) -/

/-- `GetLatestEvents`: both exits are `return`s; the events result is the literal `nil` exactly at the exit taken
    without a latest block, the error result is `nil` at both -/
theorem latestEvents_tree_results (noLatest : Bool) :
    Gen.Src.c19LatestEventsTreeKind (Gen.Src.c19LatestEventsTree noLatest) = 1 ∧
    Gen.Src.c19LatestEventsTreeNil1 (Gen.Src.c19LatestEventsTree noLatest) = noLatest ∧
    Gen.Src.c19LatestEventsTreeNil2 (Gen.Src.c19LatestEventsTree noLatest) = true := by
  cases noLatest <;> simp [Gen.Src.c19LatestEventsTree, Gen.Src.c19LatestEventsTreeKind,
    Gen.Src.c19LatestEventsTreeNil1, Gen.Src.c19LatestEventsTreeNil2]

/-- `createPluginTransmitEvents`: both exits are `return`s; no events (`nil`) together with a non-nil error exactly
    when the report does not decode, events together with a `nil` error otherwise -/
theorem pluginEvents_tree_results (decodeFails : Bool) :
    Gen.Src.c19PluginEventsTreeKind (Gen.Src.c19PluginEventsTree decodeFails) = 1 ∧
    Gen.Src.c19PluginEventsTreeNil1 (Gen.Src.c19PluginEventsTree decodeFails) = decodeFails ∧
    Gen.Src.c19PluginEventsTreeNil2 (Gen.Src.c19PluginEventsTree decodeFails) = !decodeFails := by
  cases decodeFails <;> simp [Gen.Src.c19PluginEventsTree, Gen.Src.c19PluginEventsTreeKind,
    Gen.Src.c19PluginEventsTreeNil1, Gen.Src.c19PluginEventsTreeNil2]

/-- `Get`: both exits are `return`s and neither returns a literal `nil` (the results are `v, ok` and
    `getZero[T](), false`) -/
theorem get_tree_results (found : Bool) :
    Gen.Src.c19GetTreeKind (Gen.Src.c19GetTree found) = 1 ∧
    Gen.Src.c19GetTreeNil1 (Gen.Src.c19GetTree found) = false ∧
    Gen.Src.c19GetTreeNil2 (Gen.Src.c19GetTree found) = false := by
  cases found <;> simp [Gen.Src.c19GetTree, Gen.Src.c19GetTreeKind, Gen.Src.c19GetTreeNil1, Gen.Src.c19GetTreeNil2]

/-- `updateBlock`: the assignment `rt.latest = &block` is reached (exit 1, a marked effect) exactly when the model
    moves `latest`; otherwise the body ends without it -/
theorem updateBlock_tree_matches_source (rt : RT) (b : Block) :
    rt.onBlock b =
      (if Gen.Src.c19UpdateBlockTree rt.latest.isNone false true
            (match rt.latest with | some l => bigCmp b.number l.number | none => 0) = 1
       then { rt with latest := some b } else rt) ∧
    Gen.Src.c19UpdateBlockTreeKind 1 = 4 := by
  refine ⟨?_, rfl⟩
  unfold RT.onBlock Gen.Src.c19UpdateBlockTree bigCmp
  cases h : rt.latest with
  | none => simp
  | some l =>
    simp only [Option.isNone_some, Bool.false_or, Bool.true_and]
    by_cases h1 : b.number > l.number
    · have h2 : ¬ b.number < l.number := by omega
      have h3 : ¬ b.number = l.number := by omega
      simp [h1, h2, h3]
    · by_cases h2 : b.number < l.number
      · simp [h1, h2]
      · have h3 : b.number = l.number := by omega
        simp [h3]

/-- `Set`: `m.keys = append(m.keys, key)` and the `sort.Slice` call are reached exactly for a key that is not bound
    (then the model inserts it in order); for a bound key the first marked statement reached is the value write -/
theorem set_tree_matches_source {α} (lt : String → String → Bool) (m : SKM α) (k : String) (v : α) :
    (m.set lt k v).keys =
      (if Gen.Src.c19SetTree (m.get k).isSome = 1 then insertSorted lt k m.keys else m.keys) ∧
    (Gen.Src.c19SetTree (m.get k).isSome = 1 ↔ Gen.Src.c19SetSortTree (m.get k).isSome = 1) ∧
    (Gen.Src.c19SetTree (m.get k).isSome = 1 ∨ Gen.Src.c19SetTree (m.get k).isSome = 2) ∧
    (m.set lt k v).get k = some v ∧
    Gen.Src.c19SetTreeKind 1 = 4 ∧ Gen.Src.c19SetTreeKind 2 = 4 ∧ Gen.Src.c19SetSortTreeKind 1 = 4 := by
  refine ⟨?_, ?_, ?_, ?_, rfl, rfl, rfl⟩
  · unfold SKM.set Gen.Src.c19SetTree
    cases (m.get k).isSome <;> simp
  · cases (m.get k).isSome <;> simp [Gen.Src.c19SetTree, Gen.Src.c19SetSortTree]
  · cases (m.get k).isSome <;> simp [Gen.Src.c19SetTree]
  · unfold SKM.set
    split <;> simp [SKM.get, List.lookup_cons]

/-- `Keys`: the clamp `count = keysLen` is reached (exit 1, a marked effect) exactly when the model clamps; otherwise
    the body goes straight on to `return keys` (exit 2, a `return`) -/
theorem keys_tree_matches_source {α} (m : SKM α) (count : Nat) :
    m.keysDesc count =
      ((List.range (if Gen.Src.c19KeysTree count m.keys.length = 1 then m.keys.length else count)).map
        fun j => m.keys.getD (m.keys.length - (j + 1)) "") ∧
    Gen.Src.c19KeysTreeKind 1 = 4 ∧ Gen.Src.c19KeysTreeKind 2 = 1 := by
  refine ⟨?_, rfl, rfl⟩
  unfold SKM.keysDesc Gen.Src.c19KeysTree
  by_cases h : count > m.keys.length <;> simp [h]

end AutoVerif.C19
