import AutoVerif.Props.C12
import AutoVerif.Gen.Consts
/-
C12Tie — the tie theorems of Props/C12.lean (`…_matches_source`): the model's decision functions equal the
decision expressions `AutoVerif.Gen.Src.*` that the extractor regenerates from the Go source on every check run
(docs/TIE_THEOREMS.md).  They live in a module of their own, which nothing but AutoVerif.lean (and another
property's Tie module, where a tie is reused) imports: a source change that breaks a tie here breaks this
property's check (bin/check audits every module `Props/C12*.lean`) and not the build of the theorem
modules of other properties that import Props/C12.lean.
-/
namespace AutoVerif.C12

/-! ## the model's decisions ARE the expressions of the working tree (`Gen.Src`, regenerated every run) -/

/-! ### post-processor conditions -/

/-- eligible.go: `res.PipelineExecutionState == 0 && res.Eligible` -/
theorem succEligible_matches_source (r : Res) : r.succEligible = Gen.Src.c12Eligible r.cr.pes r.cr.eligible := rfl

/-- ineligible.go: `res.PipelineExecutionState == 0 && !res.Eligible` -/
theorem succIneligible_matches_source (r : Res) : r.succIneligible = Gen.Src.c12Ineligible r.cr.pes r.cr.eligible := rfl

/-- metadata.go: `r.PipelineExecutionState == 0 && r.Eligible` -/
theorem proposes_matches_source (r : Res) : r.succEligible = Gen.Src.c12Proposes r.cr.pes r.cr.eligible := rfl

/-- retry.go: `res.PipelineExecutionState != 0 && res.Retryable` -/
theorem retryableFail_matches_source (r : Res) : r.retryableFail = Gen.Src.c12Retryable r.cr.pes r.cr.retryable := rfl

/-- the eligible post-processor stages exactly the results its `if` condition selects -/
theorem eligiblePP_matches_source (rt : List Res → List Payload → List RetryRecord) (ue : CheckResult → Bool)
    (rs : List Res) (ps : List Payload) (s : Sinks) :
    (PP.run rt ue rs ps s .eligible).staged =
      s.staged ++ (rs.filter (fun r => Gen.Src.c12Eligible r.cr.pes r.cr.eligible)).map (·.cr) := rfl

/-- the ineligible post-processor calls the state updater for exactly the results its `if` condition selects -/
theorem ineligiblePP_matches_source (rt : List Res → List Payload → List RetryRecord) (ue : CheckResult → Bool)
    (rs : List Res) (ps : List Payload) (s : Sinks) :
    (PP.run rt ue rs ps s .ineligible).ineligible =
      s.ineligible ++ (rs.filter (fun r => Gen.Src.c12Ineligible r.cr.pes r.cr.eligible)).map (·.cr) := rfl

/-- the metadata post-processor proposes exactly the results its `if` condition selects -/
theorem addProposalPP_matches_source (rt : List Res → List Payload → List RetryRecord) (ue : CheckResult → Bool)
    (rs : List Res) (ps : List Payload) (s : Sinks) :
    (PP.run rt ue rs ps s .addProposal).proposed =
      s.proposed ++ (rs.filter (fun r => Gen.Src.c12Proposes r.cr.pes r.cr.eligible)).map (fun r => toProposal r.cr) := rfl

/-! ### retry post-processor: pairing a failure with a payload -/

/-- retry.go: `payloads[j].Trigger.BlockNumber == res.Trigger.BlockNumber && payloads[j].Trigger.BlockHash == res.Trigger.BlockHash` -/
theorem blockMatch_matches_source (p : Payload) (r : CheckResult) :
    blockMatch p r = Gen.Src.c12RetryBlockMatch p.trigger.blockNumber r.trigger.blockNumber
      p.trigger.blockHash r.trigger.blockHash := rfl

/-- the inner loop of retry.go in the shape of the source: `cs` are `payloads[j]` for the remaining
`j ∈ byWorkID[res.WorkID]`, `pos` the position of the head among all candidates, `idx` the variable `idx`
(`-1` = none yet).  Both `if`s are the regenerated conditions. -/
private def srcInner (r : CheckResult) : List Payload → Nat → Int → Int
  | [], _, idx => idx
  | p :: cs, pos, idx =>
    if Gen.Src.c12RetryBlockMatch p.trigger.blockNumber r.trigger.blockNumber p.trigger.blockHash r.trigger.blockHash
    then (pos : Int)                                                                       -- `idx = j; break`
    else srcInner r cs (pos + 1) (if Gen.Src.c12RetryNoCandidate idx then (pos : Int) else idx)   -- `if idx < 0 { idx = j }`

private theorem srcInner_nonneg (r : CheckResult) : ∀ (cs : List Payload) (pos : Nat) (idx : Int), 0 ≤ idx →
    srcInner r cs pos idx = match cs.findIdx? (fun p => blockMatch p r) with
      | some k => ((pos + k : Nat) : Int)
      | none => idx := by
  intro cs
  induction cs with
  | nil => intro pos idx _; simp [srcInner]
  | cons p cs ih =>
    intro pos idx h
    unfold srcInner
    rw [← blockMatch_matches_source]
    by_cases hb : blockMatch p r = true
    · simp [hb, List.findIdx?_cons]
    · have hn : Gen.Src.c12RetryNoCandidate idx = false := by simp [Gen.Src.c12RetryNoCandidate]; omega
      simp only [hb, hn, Bool.false_eq_true, if_false, List.findIdx?_cons]
      rw [ih (pos + 1) idx h]
      cases List.findIdx? (fun p => blockMatch p r) cs with
      | none => simp
      | some k => simp only [Option.map_some]; congr 1; omega

private theorem srcInner_start (r : CheckResult) (cs : List Payload) :
    srcInner r cs 0 (-1) = match cs.findIdx? (fun p => blockMatch p r) with
      | some k => (k : Int)
      | none => if cs = [] then -1 else 0 := by
  cases cs with
  | nil => simp [srcInner]
  | cons p cs =>
    unfold srcInner
    rw [← blockMatch_matches_source]
    by_cases hb : blockMatch p r = true
    · simp [hb, List.findIdx?_cons]
    · have hn : Gen.Src.c12RetryNoCandidate (-1) = true := by decide
      simp only [hb, hn, Bool.false_eq_true, if_false, if_true, List.findIdx?_cons]
      rw [srcInner_nonneg r cs 1 ((0 : Nat) : Int) (by simp)]
      cases List.findIdx? (fun p => blockMatch p r) cs with
      | none => simp
      | some k => simp only [Option.map_some]; congr 1; omega

/-- **the pairing is the source's loop**: the model's `matchPayload` is what the inner loop of retry.go —
written with the regenerated conditions `idx < 0` and the block/hash comparison — selects among the
payloads carrying the result's work id; `none` is the source's `idx < 0` after the loop -/
theorem matchPayload_matches_source (ps : List Payload) (r : CheckResult) :
    matchPayload ps r =
      (if Gen.Src.c12RetryNoCandidate (srcInner r (candidates ps r.workID) 0 (-1)) then none
       else (candidates ps r.workID)[(srcInner r (candidates ps r.workID) 0 (-1)).toNat]?) := by
  rw [srcInner_start]
  unfold matchPayload
  generalize candidates ps r.workID = cs
  cases hf : cs.findIdx? (fun p => blockMatch p r) with
  | some k =>
    have hk := List.findIdx?_eq_some_iff_getElem.mp hf
    obtain ⟨hlt, hbk, _⟩ := hk
    have hfind : cs.find? (fun p => blockMatch p r) = some cs[k] := by
      rw [List.find?_eq_some_iff_getElem]
      refine ⟨hbk, k, hlt, rfl, ?_⟩
      intro j hj
      have := (List.findIdx?_eq_some_iff_getElem.mp hf).2.2 j hj
      simpa using this
    have hn : Gen.Src.c12RetryNoCandidate (k : Int) = false := by simp [Gen.Src.c12RetryNoCandidate]
    simp [hfind, hn, hlt]
  | none =>
    have hnone : cs.find? (fun p => blockMatch p r) = none := by
      rw [List.findIdx?_eq_none_iff] at hf
      rw [List.find?_eq_none]
      exact fun x hx => by simpa using hf x hx
    cases cs with
    | nil => simp [hnone, Gen.Src.c12RetryNoCandidate]
    | cons a t => simp [hnone, Gen.Src.c12RetryNoCandidate]

/-- one iteration of the outer loop of retry.go: the regenerated `if` conditions in source order —
retryable failure?, (pairing), positional fallback out of range? -/
theorem retryLoop_matches_source (ps : List Payload) (i : Nat) (res : Res) (rest : List Res) :
    retryLoop ps i (res :: rest) =
      if Gen.Src.c12Retryable res.cr.pes res.cr.retryable then
        match matchPayload ps res.cr with
        | some p => { payload := p, interval := res.retryInterval } :: retryLoop ps (i + 1) rest
        | none =>
          if Gen.Src.c12RetryFallbackOutOfRange i ps.length then retryLoop ps (i + 1) rest
          else match ps[i]? with
            | some p => { payload := p, interval := res.retryInterval } :: retryLoop ps (i + 1) rest
            | none => retryLoop ps (i + 1) rest
      else retryLoop ps (i + 1) rest := by
  rw [← retryableFail_matches_source]
  conv => lhs; unfold retryLoop
  by_cases hr : res.retryableFail = true
  · simp only [hr, if_true]
    cases matchPayload ps res.cr with
    | some p => rfl
    | none =>
      simp only [Gen.Src.c12RetryFallbackOutOfRange, decide_eq_true_eq]
      by_cases hi : i ≥ ps.length
      · simp [hi]
      · simp only [hi, if_false]; cases ps[i]? <;> rfl
  · simp [hr]

/-! ### retry queue -/

/-- retry_queue.go `elapsed`: `now.Sub(r.updatedAt) > expr` -/
theorem elapsed_matches_source (now : Nat) (r : Rec) :
    elapsed now r = Gen.Src.c12Elapsed (now - r.updatedAt) r.interval := by
  simp only [elapsed, Gen.Src.c12Elapsed]
  exact decide_eq_decide.mpr (by omega)

/-- retry_queue.go `expired`: `now.Sub(r.createdAt) > expr` -/
theorem expired_matches_source (cfg : Cfg) (now : Nat) (r : Rec) :
    expired cfg now r = Gen.Src.c12Expired (now - r.createdAt) cfg.expiration := by
  simp only [expired, Gen.Src.c12Expired]
  exact decide_eq_decide.mpr (by omega)

/-- `Enqueue`: `rec.Interval > 0` selects the custom interval, else the queue's default -/
theorem effInterval_matches_source (cfg : Cfg) (iv : Int) :
    effInterval cfg iv = if Gen.Src.c12EnqueueCustomInterval iv then iv.toNat else cfg.interval := by
  simp [effInterval, Gen.Src.c12EnqueueCustomInterval]

/-- one iteration of `Enqueue`: the three regenerated `if` conditions in source order — `!ok` (fresh
record), the check-block comparison (payload replaced), `rec.Interval > 0` -/
theorem enqueue_matches_source (cfg : Cfg) (now : Nat) (q : Queue) (r : RetryRecord) :
    enqueue cfg now q r =
      (let rec0 : Rec :=
        if Gen.Src.c12EnqueueFresh (get q r.payload.workID).isSome then
          { payload := r.payload, interval := 0, pending := false, createdAt := now, updatedAt := 0 }
        else (get q r.payload.workID).getD default
       let rec1 : Rec :=
        if Gen.Src.c12EnqueueReplaces r.payload.trigger.blockNumber rec0.payload.trigger.blockNumber
        then { rec0 with payload := r.payload } else rec0
       let iv : Nat := if Gen.Src.c12EnqueueCustomInterval r.interval then r.interval.toNat else cfg.interval
       put q r.payload.workID { rec1 with updatedAt := now, pending := false, interval := iv }) := by
  simp only [enqueue, effInterval_matches_source, Gen.Src.c12EnqueueFresh, Gen.Src.c12EnqueueReplaces]
  cases get q r.payload.workID <;> simp

/-- one iteration of the `Dequeue` loop: the four regenerated `if` conditions in source order — expired
(purge), pending (skip), elapsed (hand out), `len(results) >= n` (break) — over the regenerated `expired`
and `elapsed` tests -/
theorem dequeueLoop_matches_source (cfg : Cfg) (now n : Nat) (k : String) (ks : List String) (q : Queue)
    (out : List Payload) :
    dequeueLoop cfg now n (k :: ks) q out =
      match get q k with
      | none => dequeueLoop cfg now n ks q out
      | some r =>
        if Gen.Src.c12DequeuePurges (Gen.Src.c12Expired (now - r.createdAt) cfg.expiration) then
          dequeueLoop cfg now n ks (del q k) out
        else if Gen.Src.c12DequeueSkipsPending r.pending then dequeueLoop cfg now n ks q out
        else if Gen.Src.c12DequeueDue (Gen.Src.c12Elapsed (now - r.updatedAt) r.interval) then
          if Gen.Src.c12DequeueFull (out ++ [r.payload]).length n then
            (put q k { r with pending := true }, out ++ [r.payload])
          else dequeueLoop cfg now n ks (put q k { r with pending := true }) (out ++ [r.payload])
        else dequeueLoop cfg now n ks q out := by
  conv => lhs; unfold dequeueLoop
  cases get q k with
  | none => rfl
  | some r =>
    simp only [Gen.Src.c12DequeuePurges, Gen.Src.c12DequeueSkipsPending, Gen.Src.c12DequeueDue,
      Gen.Src.c12DequeueFull, ← expired_matches_source, ← elapsed_matches_source, decide_eq_true_eq]

/-! ## decision trees: the ORDER of the tests, the nesting and the exits are the source's too -/

/-- **the body of the `Dequeue` loop is the source's decision tree**: expired → `continue` (after `delete`);
pending → `continue`; elapsed → hand out, and `break` iff `len(results) >= n`; otherwise the end of the body.
Which exit is taken under which conditions and in which order the conditions are tested are read off the source on
every run (`c12DequeueTree`); the model's loop takes the corresponding step for every record, queue and output. -/
theorem dequeueLoop_tree_matches_source (cfg : Cfg) (now n : Nat) (k : String) (ks : List String) (q : Queue)
    (out : List Payload) :
    dequeueLoop cfg now n (k :: ks) q out =
      match get q k with
      | none => dequeueLoop cfg now n ks q out
      | some r =>
        match Gen.Src.c12DequeueTree (expired cfg now r) r.pending (elapsed now r) (out ++ [r.payload]).length n with
        | 1 => dequeueLoop cfg now n ks (del q k) out                                  -- `delete`, `continue`
        | 2 => dequeueLoop cfg now n ks q out                                          -- `continue`
        | 3 => (put q k { r with pending := true }, out ++ [r.payload])                -- handed out, `break`
        | _ =>                                                                          -- end of the body
          if elapsed now r then dequeueLoop cfg now n ks (put q k { r with pending := true }) (out ++ [r.payload])
          else dequeueLoop cfg now n ks q out := by
  conv => lhs; unfold dequeueLoop
  cases get q k with
  | none => rfl
  | some r =>
    simp only [Gen.Src.c12DequeueTree]
    by_cases he : expired cfg now r = true
    · simp [he]
    · by_cases hp : r.pending = true
      · simp [he, hp]
      · by_cases hl : elapsed now r = true
        · by_cases hn : n ≤ out.length + 1
          · simp [he, hp, hl, hn]
          · simp [he, hp, hl, hn]
        · simp [he, hp, hl]

/-- **one step of the pairing loop of retry.go is the source's decision tree**: `if idx < 0 { idx = j }`, then the
block/hash comparison with `idx = j; break` — `srcInner` (the source-shaped loop `matchPayload` is proved equal to
in `matchPayload_matches_source`) leaves through the `break` exactly when the regenerated tree does -/
theorem srcInner_tree_matches_source (r : CheckResult) (p : Payload) (cs : List Payload) (pos : Nat) (idx : Int) :
    srcInner r (p :: cs) pos idx =
      match Gen.Src.c12RetryInnerTree idx p.trigger.blockNumber r.trigger.blockNumber p.trigger.blockHash r.trigger.blockHash with
      | 1 => (pos : Int)                                                                       -- `idx = j; break`
      | _ => srcInner r cs (pos + 1) (if Gen.Src.c12RetryNoCandidate idx then (pos : Int) else idx) := by
  conv => lhs; unfold srcInner
  simp only [Gen.Src.c12RetryInnerTree, Gen.Src.c12RetryBlockMatch]
  by_cases hb : (decide (p.trigger.blockNumber = r.trigger.blockNumber) && decide (p.trigger.blockHash = r.trigger.blockHash)) = true
  · by_cases hi : idx < 0 <;> simp [hb, hi]
  · by_cases hi : idx < 0 <;> simp [hb, hi]

private theorem idx_valid (r : CheckResult) (cs : List Payload) (h : ¬ srcInner r cs 0 (-1) < 0) :
    ∃ p, cs[(srcInner r cs 0 (-1)).toNat]? = some p := by
  rw [srcInner_start] at h ⊢
  cases hf : cs.findIdx? (fun p => blockMatch p r) with
  | some k =>
    have hk := (List.findIdx?_eq_some_iff_getElem.mp hf).1
    exact ⟨cs[k], by simp [hk]⟩
  | none =>
    cases cs with
    | nil => simp [hf] at h
    | cons a t => exact ⟨a, by simp⟩

/-- **one iteration of the outer loop of retry.go is the source's decision tree**: retryable failure? → (pairing) →
`idx < 0`? → `i >= len(payloads)`? → `continue`; everything else reaches the `Enqueue` and the end of the body.
`idx` is the variable of the source after the pairing loop (`srcInner`, position among the payloads carrying the
result's work id, `-1` = none). -/
theorem retryLoop_tree_matches_source (ps : List Payload) (i : Nat) (res : Res) (rest : List Res) :
    retryLoop ps i (res :: rest) =
      match Gen.Src.c12RetryOuterTree res.cr.pes res.cr.retryable (srcInner res.cr (candidates ps res.cr.workID) 0 (-1))
          i ps.length true with
      | 1 => retryLoop ps (i + 1) rest                                                 -- fallback out of range: `continue`
      | _ =>                                                                            -- end of the body
        if res.retryableFail then
          match (if srcInner res.cr (candidates ps res.cr.workID) 0 (-1) < 0 then ps[i]?
                 else (candidates ps res.cr.workID)[(srcInner res.cr (candidates ps res.cr.workID) 0 (-1)).toNat]?) with
          | some p => { payload := p, interval := res.retryInterval } :: retryLoop ps (i + 1) rest
          | none => retryLoop ps (i + 1) rest
        else retryLoop ps (i + 1) rest := by
  rw [retryLoop_matches_source, matchPayload_matches_source]
  simp only [Gen.Src.c12RetryOuterTree, ← retryableFail_matches_source, Gen.Src.c12RetryNoCandidate,
    Gen.Src.c12RetryFallbackOutOfRange, Res.retryableFail]
  by_cases hr : ¬res.cr.pes = 0 ∧ res.cr.retryable = true
  · by_cases hi : srcInner res.cr (candidates ps res.cr.workID) 0 (-1) < 0
    · by_cases hn : ps.length ≤ i
      · simp [hr, hi, hn]
      · simp [hr, hi, hn]
    · obtain ⟨p, hp⟩ := idx_valid res.cr (candidates ps res.cr.workID) hi
      simp [hr, hi, hp]
  · simp [hr]

/-- **the body of the ineligible post-processor's loop is the source's decision tree**: selected
(`PipelineExecutionState == 0 && !Eligible`)? → the state updater is called → failed? → `continue` (error joined) —
for one result, whatever the sinks held before -/
theorem ineligiblePP_tree_matches_source (rt : List Res → List Payload → List RetryRecord) (ue : CheckResult → Bool)
    (r : Res) (ps : List Payload) (s : Sinks) :
    PP.run rt ue [r] ps s .ineligible =
      match Gen.Src.c12IneligibleTree r.cr.pes r.cr.eligible (ue r.cr) with
      | 1 => { s with ineligible := s.ineligible ++ [r.cr], err := true }            -- updater failed: `continue`
      | _ => if Gen.Src.c12Ineligible r.cr.pes r.cr.eligible then { s with ineligible := s.ineligible ++ [r.cr] } else s := by
  simp only [PP.run, Gen.Src.c12IneligibleTree, Gen.Src.c12Ineligible, Res.succIneligible]
  by_cases hsel : (decide (r.cr.pes = 0) && !r.cr.eligible) = true
  · by_cases hu : ue r.cr = true
    · simp [hsel, hu]
    · simp [hsel, hu]
  · simp [hsel]

/-! ### tick getters (flows/retry.go, flows/logtrigger.go, flows/recovery.go) -/

/-- **`retryTick.Value` is the source's decision tree**: no queue → `nil, nil`; `Dequeue` failed → `nil, error`;
else what `Dequeue` handed out -/
theorem sourceTick_tree_matches_source (src : Option (Option (List Payload))) :
    sourceTick src =
      match Gen.Src.c12RetryTickTree src.isNone (decide (src = some none)) with
      | 1 => some []                                                   -- `return nil, nil`
      | 2 => none                                                      -- `return nil, fmt.Errorf(…)`
      | _ => src.bind id := by                                         -- `return payloads, err`
  cases src with
  | none => rfl
  | some o => cases o <;> simp [sourceTick, Gen.Src.c12RetryTickTree]

/-- **`logTick.Value`**: no provider → `nil, nil`; else what the provider returned, its error included -/
theorem logTick_tree_matches_source (src : Option (Option (List Payload))) :
    sourceTick src =
      match Gen.Src.c12LogTickTree src.isNone with
      | 1 => some []                                                   -- `return nil, nil`
      | _ => src.bind id := by                                         -- `return logs, err`
  cases src with
  | none => rfl
  | some o => cases o <;> simp [sourceTick, Gen.Src.c12LogTickTree]

/-- **`logRecoveryTick.Value`**: the same shape -/
theorem recoveryTick_tree_matches_source (src : Option (Option (List Payload))) :
    sourceTick src =
      match Gen.Src.c12RecoveryTickTree src.isNone with
      | 1 => some []                                                   -- `return nil, nil`
      | _ => src.bind id := by                                         -- `return logs, err`
  cases src with
  | none => rfl
  | some o => cases o <;> simp [sourceTick, Gen.Src.c12RecoveryTickTree]

/-- **`coordinatedProposalsTick.Value` is the source's decision tree**: no queue → `nil, nil`; `Dequeue` failed →
`nil, error`; builder failed → `nil, error`; else the built payloads through the `IsEmpty` loop.  Both `err != nil`
tests are ONE leaf for the translator (`failed`); it stands for "the call just made failed", and exits 2 and 3 return
the same. -/
theorem proposalsTick_tree_matches_source (q : Option (Option (List Proposal)))
    (build : List Proposal → Option (List Payload)) :
    proposalsTick q build =
      match Gen.Src.c12ProposalsTickTree q.isNone
          (decide (q = some none) || (match q with | some (some props) => (build props).isNone | _ => false)) with
      | 1 => some []                                                   -- `return nil, nil`
      | 2 => none                                                      -- `Dequeue`: `return nil, fmt.Errorf(…)`
      | 3 => none                                                      -- `BuildPayloads`: `return nil, fmt.Errorf(…)`
      | _ => (q.bind id).bind (fun props => (build props).map skipEmpty) := by   -- `return payloads, nil`
  cases q with
  | none => rfl
  | some o =>
    cases o with
    | none => simp [proposalsTick, Gen.Src.c12ProposalsTickTree]
    | some props => cases hb : build props <;> simp [proposalsTick, Gen.Src.c12ProposalsTickTree, hb]

/-- **one step of the `range builtPayloads` loop is the source's decision tree**: `if p.IsEmpty() { filtered++;
continue }`, else the payload is appended -/
theorem skipEmpty_tree_matches_source (p : Payload) (ps : List Payload) :
    skipEmpty (p :: ps) =
      match Gen.Src.c12ProposalsTickLoopTree (payloadEmpty p) with
      | 1 => skipEmpty ps                                              -- `continue`
      | _ => p :: skipEmpty ps := by                                   -- `payloads = append(payloads, p)`
  by_cases h : payloadEmpty p = true <;> simp [skipEmpty, Gen.Src.c12ProposalsTickLoopTree, h]

end AutoVerif.C12
