import AutoVerif.Gen.Consts
import AutoVerif.Model.C09Sample
/-
C09 — tie of the sampler model (Model/C09Sample) to `sampler.Value` in pkg/v3/flows/conditional.go, regenerated from
the source on every run (extract/exprs.d/C09.json → `AutoVerif.Gen.Src.c09*`).

What the liveness clause needs from the code is an ORDER of two effects: the whole registry is shuffled BEFORE the cut
is computed and taken (`Sample.IsSample`: the sample is the head of a permutation of the WHOLE registry).  The decision
tree of the function body with the two statements as marks says which of them is reached first; the second tree and
the two conditions pin when a tick returns a sample at all and how the sample size is clamped.
-/
namespace AutoVerif.C09.Sample
open AutoVerif.Gen

/-- on every path of `sampler.Value` the first of {shuffle of the provider's whole list, computation of the cut}
that is reached is the one the model says: the shuffle (mark 1), unless the function returns before both -/
theorem firstStep_tree_matches_source (getterFailed : Bool) (n : Nat) :
    firstStep getterFailed n = Src.c09SamplerOrderTreeMark (Src.c09SamplerOrderTree getterFailed n) := by
  unfold firstStep Src.c09SamplerOrderTree
  cases getterFailed <;> by_cases h : n = 0 <;> simp [h, Src.c09SamplerOrderTreeMark]

/-- a marked effect is reached exactly when the provider answered with a non-empty registry; otherwise the function
returns (nil, with the provider's error or without one) -/
theorem firstStep_kind_matches_source (getterFailed : Bool) (n : Nat) :
    Src.c09SamplerOrderTreeKind (Src.c09SamplerOrderTree getterFailed n) = (if firstStep getterFailed n = 0 then 1 else 4) := by
  unfold firstStep Src.c09SamplerOrderTree
  cases getterFailed <;> by_cases h : n = 0 <;> simp [h, Src.c09SamplerOrderTreeKind]

/-- a tick returns a non-nil list exactly when the provider answered, the registry is not empty and `OfInt` is
positive — whatever the clamps do -/
theorem returnsSample_tree_matches_source (getterFailed : Bool) (n : Nat) (size maxS : Int) :
    returnsSample getterFailed n size = !Src.c09SamplerCutTreeNil1 (Src.c09SamplerCutTree getterFailed n size maxS) := by
  unfold returnsSample Src.c09SamplerCutTree
  cases getterFailed <;> by_cases h : n = 0 <;> by_cases hs : size ≤ 0 <;>
    by_cases hm : size > maxS <;> by_cases hl : (n : Int) < size <;>
    simp [h, hs, hm, hl, Src.c09SamplerCutTreeNil1] <;> omega

/-- the length of the returned list: `OfInt`, clamped by the two conditions of the source in source order -/
theorem sampleSize_matches_source (num den n : Nat) :
    sampleSize num den n =
      (let s1 := if Src.c09SizeOverMax (ofInt num den n) maxSampled then maxSampled else ofInt num den n
       if Src.c09RegistryShorter s1 n then n else s1) := by
  simp only [sampleSize, Src.c09SizeOverMax, Src.c09RegistryShorter]
  by_cases h1 : ofInt num den n > maxSampled
  · by_cases h2 : n < maxSampled <;> simp [h1, h2] <;> omega
  · by_cases h2 : n < ofInt num den n <;> simp [h1, h2] <;> omega

end AutoVerif.C09.Sample
