import AutoVerif.Props.C01
import AutoVerif.Lemmas.C01
/-
C01, converse clause — a result vouched for identically by f+1 or more valid observations IS included
among the agreed performables, unless it is displaced only by the cap (`OutcomeAgreedPerformablesLimit`)
or by another quorum result for the same unit of work.

Proved for every `Ctx` (arbitrary upkeep-type getter, work-id generator, shuffle `key`, and arbitrary —
possibly non-injective — `uid`), every limit record, every previous outcome, every list of attributed
observations and every block-map order.  The only hypothesis is that `πres`, the iteration order of
`range p.resultCount`, mentions every key of the tally (it is a permutation of the map's key set in the
implementation; duplicates or foreign keys in `πres` do no harm).

Ingredients (Lemmas/C01.lean): the probing loop never runs out of fuel and finds the slot of a stored
result (`probe_spec`, `TallyInv`), so a slot's count is exactly the number of occurrences of its result;
the traversal of `performables.set` visits every key (`select_covers`); sorting + truncation
(`sortByKey_take_or`).
-/
namespace AutoVerif.C01
open AutoVerif.Outcome

/-- **Completeness.** -/
theorem agreed_complete (ctx : Ctx) (lim : Limits) (prev : Outcome) (obs : List (Option Observation))
    (πres : List String) (πblk : List BlockKey)
    (hπ : ∀ s ∈ tally ctx (validObs ctx lim obs), s.key ∈ πres)
    (r : CheckResult) (hr : ctx.F + 1 ≤ votes (validObs ctx lim obs) r) :
    let agreed := (outcome ctx lim prev obs πres πblk).agreed
    r ∈ agreed ∨
    (∃ a ∈ agreed, a.workID = r.workID ∧ ctx.F + 1 ≤ votes (validObs ctx lim obs) a) ∨
    (lim.agreedLimit ≤ agreed.length ∧ ∀ a ∈ agreed, ctx.key a.workID ≤ ctx.key r.workID) := by
  intro agreed
  -- the slot of `r` has counted every vote
  obtain ⟨s, hs, hsr, hcount⟩ := tally_slot_of_votes ctx (validObs ctx lim obs) r (by omega)
  have hinv := tally_inv ctx (validObs ctx lim obs)
  -- its key is visited by the traversal
  have hkey : s.key ∈ sortStrings πres := by
    unfold sortStrings
    exact (List.mergeSort_perm _ _).mem_iff.mpr (hπ s hs)
  obtain ⟨x, hx, hxw⟩ := select_covers (ctx.F + 1) hinv.keys hs (by omega) (sortStrings πres) [] hkey
  rw [hsr] at hxw
  -- sorting and truncation
  have hagreed : agreed = (sortByKey ctx.key (·.workID)
      (select (ctx.F + 1) (tally ctx (validObs ctx lim obs)) (sortStrings πres) [])).take lim.agreedLimit := rfl
  rcases sortByKey_take_or ctx.key (·.workID) _ lim.agreedLimit x hx with h | ⟨hlen, hall⟩
  · rw [← hagreed] at h
    exact Or.inr (Or.inl ⟨x, h, hxw, agreed_sound ctx lim prev obs πres πblk x h⟩)
  · rw [← hagreed] at hlen hall
    refine Or.inr (Or.inr ⟨hlen, fun a ha => ?_⟩)
    have := hall a ha
    rwa [hxw] at this

/-- the same as a statement of the run-time oracle's predicate -/
theorem agreed_complete_spec (ctx : Ctx) (lim : Limits) (prev : Outcome) (obs : List (Option Observation))
    (πres : List String) (πblk : List BlockKey)
    (hπ : ∀ s ∈ tally ctx (validObs ctx lim obs), s.key ∈ πres) :
    complete ctx lim (validObs ctx lim obs) (outcome ctx lim prev obs πres πblk).agreed = true := by
  simp only [complete, List.all_eq_true]
  intro r _
  by_cases hr : ctx.F + 1 ≤ votes (validObs ctx lim obs) r
  · have h := agreed_complete ctx lim prev obs πres πblk hπ r hr
    simp only [completeFor, Bool.or_eq_true, Bool.and_eq_true, Bool.not_eq_true', decide_eq_false_iff_not,
      decide_eq_true_eq, List.contains_eq_mem, List.any_eq_true, List.all_eq_true, beq_iff_eq]
    rcases h with h | ⟨a, ha, haw, hav⟩ | ⟨hlen, hall⟩
    · exact Or.inl (Or.inl (Or.inr h))
    · exact Or.inl (Or.inr ⟨a, ha, haw, hav⟩)
    · exact Or.inr ⟨hlen, hall⟩
  · simp [completeFor, hr]

/-- **C01, all three clauses, as the predicate the driver evaluates**: the model's outcome satisfies `spec`
for every input whenever `πres` enumerates the tally's keys. -/
theorem outcome_meets_spec (ctx : Ctx) (lim : Limits) (prev : Outcome) (obs : List (Option Observation))
    (πres : List String) (πblk : List BlockKey)
    (hπ : ∀ s ∈ tally ctx (validObs ctx lim obs), s.key ∈ πres) :
    spec ctx lim (validObs ctx lim obs) (outcome ctx lim prev obs πres πblk).agreed = true := by
  simp only [spec, Bool.and_eq_true]
  refine ⟨⟨agreed_sound_spec ctx lim prev obs πres πblk, ?_⟩, agreed_complete_spec ctx lim prev obs πres πblk hπ⟩
  simp only [nodupWork, decide_eq_true_eq]
  exact agreed_nodup_workid ctx lim prev obs πres πblk

/-- the driver's canonical order `resKeys` satisfies the hypothesis on `πres` -/
theorem resKeys_enumerates (ctx : Ctx) (os : List Observation) :
    ∀ s ∈ tally ctx os, s.key ∈ resKeys ctx os :=
  fun s hs => List.mem_map.mpr ⟨s, hs, rfl⟩

/-! ### non-vacuity

`uid` is constant, so all results collide on the same `UniqueID` and are separated only by the probe chain.
`a` and `b` are different results for the same unit of work `"w"`, `c` is for another unit `"v"`;
F = 1, three valid observations and one undecodable one:
`a` has 2 votes, `b` has 2 votes, `c` has 3 votes; the cap is 1. -/

private def wres (wid pd : String) : CheckResult :=
  { pes := 0, retryable := false, eligible := true, reason := 0, upkeepID := "u",
    trigger := { blockNumber := 1, blockHash := "h", ext := none }, workID := wid, gas := 5,
    performData := pd, fastGasWei := some 1, linkNative := some 1 }

private def xctx : Ctx :=
  { F := 1, utg := fun _ => .condition, wg := fun _ t => if t.blockHash = "h" then "w" else "v",
    key := id, uid := fun _ => "same" }

private def xlim : Limits :=
  { obsPerformables := 100, obsLogProposals := 5, obsCondProposals := 5, obsBlockHistory := 256,
    agreedLimit := 1, perRound := 50, roundHistory := 20 }

private def xc : CheckResult := { wres "v" "cc" with trigger := { blockNumber := 1, blockHash := "g", ext := none } }

private def xobs : List (Option Observation) :=
  [ some { performable := [wres "w" "aa", xc], proposals := [], blockHistory := [] },
    some { performable := [wres "w" "bb", xc], proposals := [], blockHistory := [] },
    none,
    some { performable := [xc, wres "w" "aa"], proposals := [], blockHistory := [] },
    some { performable := [wres "w" "bb"], proposals := [], blockHistory := [] } ]

/-- the hypotheses of `agreed_complete` are met by a non-trivial round: four valid observations, three slots on
one probe chain, the map order a non-identity permutation of the keys, and three quorum results -/
example :
    (validObs xctx xlim xobs).length = 4 ∧
    (tally xctx (validObs xctx xlim xobs)).map (fun s => (s.key, s.result.performData, s.count)) =
      [("same", "aa", 2), ("same+", "cc", 3), ("same++", "bb", 2)] ∧
    (∀ s ∈ tally xctx (validObs xctx xlim xobs), s.key ∈ ["same++", "same", "same+"]) ∧
    xctx.F + 1 ≤ votes (validObs xctx xlim xobs) (wres "w" "aa") ∧
    xctx.F + 1 ≤ votes (validObs xctx xlim xobs) (wres "w" "bb") ∧
    xctx.F + 1 ≤ votes (validObs xctx xlim xobs) xc := by
  decide

/-- … and the theorem applied to it: each of the three quorum results is agreed, or displaced by a quorum
result for the same work, or by the cap -/
example (prev : Outcome) (πblk : List BlockKey) :
    spec xctx xlim (validObs xctx xlim xobs)
      (outcome xctx xlim prev xobs ["same++", "same", "same+"] πblk).agreed = true :=
  outcome_meets_spec xctx xlim prev xobs _ πblk (by decide)

end AutoVerif.C01

#print axioms AutoVerif.C01.agreed_complete
#print axioms AutoVerif.C01.agreed_complete_spec
#print axioms AutoVerif.C01.outcome_meets_spec
