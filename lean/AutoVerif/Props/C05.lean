import AutoVerif.Spec.C05
import AutoVerif.Gen.Consts
/-
C05 — New proposals bind to the latest block f+1 oracles share and are kept once.

Property theorems only (helper lemmas are `private`).  Everything is proved for every
threshold, every vote function / set of observations, every iteration order `π` of the
`recentBlocks` map, every list of agreed performables and every previous history — no bounds.

Known finding (see `zero_hash_quorum_block_ignored`): a block whose hash is all zeros is never
coordinated on, even with f+1 support and the highest number; `quorumBlock_maximal` is therefore
proved as `quorumBlock_maximal_partial` (region excluded: candidates `c` with `c.hash = zeroHash`).
-/
namespace AutoVerif.C05
open AutoVerif.Outcome

/-! ### `getLatestQuorumBlock` -/

private theorem step_cases (thr : Nat) (votes : BlockKey → Nat) (m b : BlockKey) :
    quorumStep thr votes m b = m ∨
    (quorumStep thr votes m b = b ∧ thr ≤ votes b ∧ b.hash ≠ zeroHash ∧ better b m = true) := by
  unfold quorumStep
  split
  · exact Or.inl rfl
  · rename_i hz
    split
    · rename_i hq
      simp only [Bool.and_eq_true, decide_eq_true_eq] at hq
      exact Or.inr ⟨rfl, hq.1, by simpa using hz, hq.2⟩
    · exact Or.inl rfl

/-- the fold returns its start value or a non-zero-hash member of `π` with quorum -/
private theorem fold_sound (thr : Nat) (votes : BlockKey → Nat) (π : List BlockKey) (m : BlockKey) :
    π.foldl (quorumStep thr votes) m = m ∨
    (π.foldl (quorumStep thr votes) m ∈ π ∧ thr ≤ votes (π.foldl (quorumStep thr votes) m) ∧
      (π.foldl (quorumStep thr votes) m).hash ≠ zeroHash) := by
  induction π generalizing m with
  | nil => exact Or.inl rfl
  | cons b π ih =>
    simp only [List.foldl_cons]
    rcases ih (quorumStep thr votes m b) with h | ⟨h1, h2, h3⟩
    · rcases step_cases thr votes m b with hs | ⟨hs, hv, hz, _⟩
      · left; rw [h, hs]
      · right; rw [h, hs]; exact ⟨by simp, hv, hz⟩
    · right; exact ⟨List.mem_cons_of_mem _ h1, h2, h3⟩

/-- one step never goes down: a non-zero-hash maximum stays non-zero-hash and its number does not decrease -/
private theorem step_mono (thr : Nat) (votes : BlockKey → Nat) (m b : BlockKey) (hm : m.hash ≠ zeroHash) :
    (quorumStep thr votes m b).hash ≠ zeroHash ∧ m.number ≤ (quorumStep thr votes m b).number := by
  rcases step_cases thr votes m b with hs | ⟨hs, _, hz, hb⟩
  · rw [hs]; exact ⟨hm, Nat.le_refl _⟩
  · rw [hs]
    refine ⟨hz, ?_⟩
    simp only [better, Bool.or_eq_true, Bool.and_eq_true, decide_eq_true_eq, beq_iff_eq] at hb
    rcases hb with (hb | hb) | hb
    · exact absurd hb hm
    · omega
    · omega

/-- one step takes a non-zero-hash quorum block into account -/
private theorem step_takes (thr : Nat) (votes : BlockKey → Nat) (m b : BlockKey)
    (hv : thr ≤ votes b) (hz : b.hash ≠ zeroHash) :
    (quorumStep thr votes m b).hash ≠ zeroHash ∧ b.number ≤ (quorumStep thr votes m b).number := by
  unfold quorumStep
  have hz' : (b.hash == zeroHash) = false := by simpa using hz
  simp only [hz', Bool.false_eq_true, if_false]
  split
  · exact ⟨hz, Nat.le_refl _⟩
  · rename_i hq
    simp only [Bool.and_eq_true, decide_eq_true_eq, not_and] at hq
    have hb := hq hv
    simp only [better, Bool.or_eq_true, Bool.and_eq_true, decide_eq_true_eq, beq_iff_eq, not_or] at hb
    exact ⟨hb.1.1, by omega⟩

private theorem fold_mono (thr : Nat) (votes : BlockKey → Nat) (π : List BlockKey) (m : BlockKey)
    (hm : m.hash ≠ zeroHash) :
    (π.foldl (quorumStep thr votes) m).hash ≠ zeroHash ∧ m.number ≤ (π.foldl (quorumStep thr votes) m).number := by
  induction π generalizing m with
  | nil => exact ⟨hm, Nat.le_refl _⟩
  | cons b π ih =>
    simp only [List.foldl_cons]
    have h1 := step_mono thr votes m b hm
    have h2 := ih _ h1.1
    exact ⟨h2.1, Nat.le_trans h1.2 h2.2⟩

private theorem fold_max (thr : Nat) (votes : BlockKey → Nat) (π : List BlockKey) (m : BlockKey) :
    ∀ c ∈ π, thr ≤ votes c → c.hash ≠ zeroHash →
      (π.foldl (quorumStep thr votes) m).hash ≠ zeroHash ∧ c.number ≤ (π.foldl (quorumStep thr votes) m).number := by
  induction π generalizing m with
  | nil => intro c hc; simp at hc
  | cons b π ih =>
    intro c hc hv hz
    simp only [List.foldl_cons]
    rcases List.mem_cons.mp hc with hcb | hcπ
    · subst hcb
      have h1 := step_takes thr votes m c hv hz
      have h2 := fold_mono thr votes π _ h1.1
      exact ⟨h2.1, Nat.le_trans h1.2 h2.2⟩
    · exact ih _ c hcπ hv hz

private theorem lqb_some {thr : Nat} {votes : BlockKey → Nat} {π : List BlockKey} {b : BlockKey}
    (h : latestQuorumBlock thr votes π = some b) :
    b = π.foldl (quorumStep thr votes) { number := 0, hash := zeroHash } ∧ b.hash ≠ zeroHash := by
  simp only [latestQuorumBlock, latestQuorumBlockWith] at h
  split at h
  · exact absurd h (by simp)
  · rename_i hz
    simp only [Option.some.injEq] at h
    subst h
    exact ⟨rfl, by simpa using hz⟩

/-- the coordinated block is one of the reported blocks, has `thr` (= f+1) support and a non-zero hash -/
theorem quorumBlock_supported {thr : Nat} {votes : BlockKey → Nat} {π : List BlockKey} {b : BlockKey}
    (h : latestQuorumBlock thr votes π = some b) : b ∈ π ∧ thr ≤ votes b ∧ b.hash ≠ zeroHash := by
  obtain ⟨hb, hz⟩ := lqb_some h
  rcases fold_sound thr votes π { number := 0, hash := zeroHash } with hs | hs
  · rw [← hb] at hs; rw [hs] at hz; exact absurd rfl hz
  · rw [← hb] at hs; exact hs

/-
Full statement (FALSE of the code, see `zero_hash_quorum_block_ignored`):
  latestQuorumBlock thr votes π = some b → ∀ c ∈ π, thr ≤ votes c → c.number ≤ b.number
Proved: the same with the extra hypothesis `c.hash ≠ zeroHash`; missing region: candidates with an all-zero hash.
-/
/-- no block with `thr` support and a non-zero hash has a higher number than the coordinated block -/
theorem quorumBlock_maximal_partial {thr : Nat} {votes : BlockKey → Nat} {π : List BlockKey} {b : BlockKey}
    (h : latestQuorumBlock thr votes π = some b) :
    ∀ c ∈ π, thr ≤ votes c → c.hash ≠ zeroHash → c.number ≤ b.number := by
  obtain ⟨hb, _⟩ := lqb_some h
  intro c hc hv hz
  rw [hb]
  exact (fold_max thr votes π _ c hc hv hz).2

/-- a block is coordinated on exactly when some reported block has `thr` support and a non-zero hash -/
theorem quorumBlock_some_iff (thr : Nat) (votes : BlockKey → Nat) (π : List BlockKey) :
    (latestQuorumBlock thr votes π).isSome ↔ ∃ c ∈ π, thr ≤ votes c ∧ c.hash ≠ zeroHash := by
  constructor
  · intro h
    obtain ⟨b, hb⟩ := Option.isSome_iff_exists.mp h
    exact ⟨b, quorumBlock_supported hb⟩
  · rintro ⟨c, hc, hv, hz⟩
    have := (fold_max thr votes π { number := 0, hash := zeroHash } c hc hv hz).1
    simp only [latestQuorumBlock, latestQuorumBlockWith]
    have hz' : ((π.foldl (quorumStep thr votes) { number := 0, hash := zeroHash }).hash == zeroHash) = false := by
      simpa using this
    simp [hz']

theorem quorumBlock_none_iff (thr : Nat) (votes : BlockKey → Nat) (π : List BlockKey) :
    latestQuorumBlock thr votes π = none ↔ ∀ c ∈ π, thr ≤ votes c → c.hash = zeroHash := by
  have h := quorumBlock_some_iff thr votes π
  constructor
  · intro hn c hc hv
    apply Classical.byContradiction
    intro hz
    have := h.mpr ⟨c, hc, hv, hz⟩
    rw [hn] at this
    simp at this
  · intro hall
    cases hq : latestQuorumBlock thr votes π with
    | none => rfl
    | some b =>
      obtain ⟨c, hc, hv, hz⟩ := h.mp (by rw [hq]; rfl)
      exact absurd (hall c hc hv) hz

/-! ### the tie-break among forks, and independence of the map iteration order -/

/-- the order `getLatestQuorumBlock` maximises: by number, then by hash -/
def BlockLe (c b : BlockKey) : Prop := c.number < b.number ∨ (c.number = b.number ∧ c.hash ≤ b.hash)

private theorem blockLe_refl (b : BlockKey) : BlockLe b b := Or.inr ⟨rfl, String.le_refl _⟩

private theorem blockLe_trans {a b c : BlockKey} (h1 : BlockLe a b) (h2 : BlockLe b c) : BlockLe a c := by
  rcases h1 with h1 | ⟨h1, h1'⟩ <;> rcases h2 with h2 | ⟨h2, h2'⟩
  · exact Or.inl (by omega)
  · exact Or.inl (by omega)
  · exact Or.inl (by omega)
  · exact Or.inr ⟨by omega, String.le_trans h1' h2'⟩

private theorem blockLe_antisymm {a b : BlockKey} (h1 : BlockLe a b) (h2 : BlockLe b a) : a = b := by
  rcases h1 with h1 | ⟨h1, h1'⟩ <;> rcases h2 with h2 | ⟨h2, h2'⟩
  · omega
  · omega
  · omega
  · cases a; cases b; simp only [BlockKey.mk.injEq]; exact ⟨h1, String.le_antisymm h1' h2'⟩

private theorem step_mono_lex (thr : Nat) (votes : BlockKey → Nat) (m b : BlockKey) (hm : m.hash ≠ zeroHash) :
    BlockLe m (quorumStep thr votes m b) := by
  rcases step_cases thr votes m b with hs | ⟨hs, _, _, hb⟩
  · rw [hs]; exact blockLe_refl m
  · rw [hs]
    simp only [better, Bool.or_eq_true, Bool.and_eq_true, decide_eq_true_eq, beq_iff_eq] at hb
    rcases hb with (hb | hb) | hb
    · exact absurd hb hm
    · exact Or.inl hb
    · exact Or.inr ⟨hb.1.symm, String.not_lt.mp (String.lt_asymm hb.2)⟩

private theorem step_takes_lex (thr : Nat) (votes : BlockKey → Nat) (m b : BlockKey)
    (hv : thr ≤ votes b) (hz : b.hash ≠ zeroHash) : BlockLe b (quorumStep thr votes m b) := by
  unfold quorumStep
  have hz' : (b.hash == zeroHash) = false := by simpa using hz
  simp only [hz', Bool.false_eq_true, if_false]
  split
  · exact blockLe_refl b
  · rename_i hq
    simp only [Bool.and_eq_true, decide_eq_true_eq, not_and] at hq
    have hb := hq hv
    simp only [better, Bool.or_eq_true, Bool.and_eq_true, decide_eq_true_eq, beq_iff_eq, not_or, not_and] at hb
    by_cases hn : b.number = m.number
    · exact Or.inr ⟨hn, String.not_lt.mp (hb.2 hn)⟩
    · exact Or.inl (by omega)

private theorem fold_mono_lex (thr : Nat) (votes : BlockKey → Nat) (π : List BlockKey) (m : BlockKey)
    (hm : m.hash ≠ zeroHash) : BlockLe m (π.foldl (quorumStep thr votes) m) := by
  induction π generalizing m with
  | nil => exact blockLe_refl m
  | cons b π ih =>
    simp only [List.foldl_cons]
    exact blockLe_trans (step_mono_lex thr votes m b hm) (ih _ (step_mono thr votes m b hm).1)

private theorem fold_max_lex (thr : Nat) (votes : BlockKey → Nat) (π : List BlockKey) (m : BlockKey) :
    ∀ c ∈ π, thr ≤ votes c → c.hash ≠ zeroHash → BlockLe c (π.foldl (quorumStep thr votes) m) := by
  induction π generalizing m with
  | nil => intro c hc; simp at hc
  | cons b π ih =>
    intro c hc hv hz
    simp only [List.foldl_cons]
    rcases List.mem_cons.mp hc with hcb | hcπ
    · subst hcb
      exact blockLe_trans (step_takes_lex thr votes m c hv hz)
        (fold_mono_lex thr votes π _ (step_takes thr votes m c hv hz).1)
    · exact ih _ c hcπ hv hz

/-
Full statement (FALSE of the code for the same reason): … → ∀ c ∈ π, thr ≤ votes c → BlockLe c b.
-/
/-- among forks at the same height the larger hash wins: no block with `thr` support and a non-zero hash is
larger in (number, hash) order than the coordinated block -/
theorem quorumBlock_maximal_lex_partial {thr : Nat} {votes : BlockKey → Nat} {π : List BlockKey} {b : BlockKey}
    (h : latestQuorumBlock thr votes π = some b) :
    ∀ c ∈ π, thr ≤ votes c → c.hash ≠ zeroHash → BlockLe c b := by
  obtain ⟨hb, _⟩ := lqb_some h
  intro c hc hv hz
  rw [hb]
  exact fold_max_lex thr votes π _ c hc hv hz

/-- the coordinated block does not depend on the iteration order of the `recentBlocks` map (nor on
repetitions): two enumerations of the same key set give the same block — so all honest oracles stamp with one block -/
theorem quorumBlock_order_indep (thr : Nat) (votes : BlockKey → Nat) (π π' : List BlockKey)
    (hπ : ∀ b, b ∈ π ↔ b ∈ π') : latestQuorumBlock thr votes π = latestQuorumBlock thr votes π' := by
  cases h : latestQuorumBlock thr votes π with
  | none =>
    symm
    rw [quorumBlock_none_iff] at h ⊢
    exact fun c hc => h c ((hπ c).mpr hc)
  | some b =>
    cases h' : latestQuorumBlock thr votes π' with
    | none =>
      rw [quorumBlock_none_iff] at h'
      have hs := quorumBlock_supported h
      exact absurd (h' b ((hπ b).mp hs.1) hs.2.1) hs.2.2
    | some b' =>
      have hs := quorumBlock_supported h
      have hs' := quorumBlock_supported h'
      have h1 := quorumBlock_maximal_lex_partial h b' ((hπ b').mpr hs'.1) hs'.2.1 hs'.2.2
      have h2 := quorumBlock_maximal_lex_partial h' b ((hπ b).mp hs.1) hs.2.1 hs.2.2
      rw [blockLe_antisymm h1 h2]

/-! ### the known finding: an all-zero hash is never coordinated on -/

private def zb (n : Nat) (h : String) : BlockKey := { number := n, hash := h }
private def obsB (bs : List BlockKey) : Observation := { performable := [], proposals := [], blockHistory := bs }

/-- counter-example to the unrestricted `quorumBlock_maximal`: with f = 1, two observations that both list
block 5 (hash `ab`) and block 9 (all-zero hash) give both blocks f+1 = 2 votes; block 9 is the highest with
quorum, yet block 5 is coordinated on — in either iteration order -/
theorem zero_hash_quorum_block_ignored :
    let os := [obsB [zb 5 "ab", zb 9 zeroHash], obsB [zb 5 "ab", zb 9 zeroHash]]
    2 ≤ blockVotes os (zb 9 zeroHash) ∧ zb 9 zeroHash ∈ [zb 5 "ab", zb 9 zeroHash] ∧
    latestQuorumBlock 2 (blockVotes os) [zb 5 "ab", zb 9 zeroHash] = some (zb 5 "ab") ∧
    latestQuorumBlock 2 (blockVotes os) [zb 9 zeroHash, zb 5 "ab"] = some (zb 5 "ab") ∧
    ¬ (∀ c ∈ [zb 5 "ab", zb 9 zeroHash], 2 ≤ blockVotes os c → c.number ≤ (zb 5 "ab").number) := by
  decide

/-- if every block with quorum has an all-zero hash, no block is coordinated on (for every order) -/
theorem zero_hash_only_no_quorum (thr : Nat) (votes : BlockKey → Nat) (π : List BlockKey)
    (h : ∀ c ∈ π, thr ≤ votes c → c.hash = zeroHash) : latestQuorumBlock thr votes π = none :=
  (quorumBlock_none_iff thr votes π).mpr h

/-- … concretely: all of f+1 = 2 observations list only block 9 with an all-zero hash -/
example : latestQuorumBlock 2 (blockVotes [obsB [zb 9 zeroHash], obsB [zb 9 zeroHash]]) [zb 9 zeroHash] = none ∧
    2 ≤ blockVotes [obsB [zb 9 zeroHash], obsB [zb 9 zeroHash]] (zb 9 zeroHash) := by decide

/-! ### `coordinatedBlockProposals.set`: no quorum, stamping -/

/-- what is kept of the carried-over rounds when a new round is prepended -/
private def trim (lim : Limits) (carried : List (List Proposal)) : List (List Proposal) :=
  if carried.length ≥ lim.roundHistory then carried.take (lim.roundHistory - 1) else carried

/-- the new round -/
private def fresh (ctx : Ctx) (lim : Limits) (agreed : List CheckResult) (hist : List (List Proposal))
    (b : BlockKey) (os : List Observation) : List Proposal :=
  (sortByKey ctx.key (·.workID) (newRound agreed hist b (os.flatMap (·.proposals)) [])).take lim.perRound

private theorem surfacedOf_some {ctx : Ctx} {lim : Limits} {agreed : List CheckResult}
    {prev : List (List Proposal)} {os : List Observation} {π : List BlockKey} {b : BlockKey}
    (h : latestQuorumBlock (ctx.F + 1) (blockVotes os) π = some b) :
    surfacedOf ctx lim agreed prev os π =
      fresh ctx lim agreed (trim lim (carryOver agreed prev)) b os :: trim lim (carryOver agreed prev) := by
  simp only [surfacedOf, h, fresh, trim]

/-- if no block has f+1 support (and a non-zero hash), nothing new is surfaced: the earlier rounds are only carried over -/
theorem no_quorum_carry_only {ctx : Ctx} {lim : Limits} {agreed : List CheckResult}
    {prev : List (List Proposal)} {os : List Observation} {π : List BlockKey}
    (h : latestQuorumBlock (ctx.F + 1) (blockVotes os) π = none) :
    surfacedOf ctx lim agreed prev os π = carryOver agreed prev := by
  simp only [surfacedOf, h]

private theorem stampedWith_stamp (b : BlockKey) (p : Proposal) :
    (decide ((stamp b p).trigger.blockNumber = b.number) && (stamp b p).trigger.blockHash == b.hash &&
      (match (stamp b p).trigger.ext with | some e => decide (e.blockNumber = 0) | none => true)) = true := by
  cases he : p.trigger.ext <;> simp [stamp, he]

/-- every member of the result is an old member of `acc` or the stamped version of a source proposal that is
neither in the history nor agreed -/
private theorem newRound_mem (agreed : List CheckResult) (hist : List (List Proposal)) (b : BlockKey)
    (ps acc : List Proposal) (q : Proposal) (hq : q ∈ newRound agreed hist b ps acc) :
    q ∈ acc ∨ ∃ p ∈ ps, proposalExists hist p = false ∧ performableExists agreed p = false ∧ stamp b p = q := by
  induction ps generalizing acc with
  | nil => left; simpa [newRound] using hq
  | cons p ps ih =>
    unfold newRound at hq
    split at hq
    · rcases ih acc hq with h | ⟨p', hp', h⟩
      · exact Or.inl h
      · exact Or.inr ⟨p', List.mem_cons_of_mem _ hp', h⟩
    · rename_i hc
      simp only [Bool.or_eq_true, not_or, Bool.not_eq_true] at hc
      rcases ih _ hq with h | ⟨p', hp', h⟩
      · rcases List.mem_append.mp h with h | h
        · exact Or.inl h
        · simp only [List.mem_singleton] at h
          exact Or.inr ⟨p, by simp, hc.1.1, hc.1.2, h.symm⟩
      · exact Or.inr ⟨p', List.mem_cons_of_mem _ hp', h⟩

private theorem newRound_nodup (agreed : List CheckResult) (hist : List (List Proposal)) (b : BlockKey)
    (ps acc : List Proposal) (hacc : (acc.map (·.workID)).Nodup) :
    ((newRound agreed hist b ps acc).map (·.workID)).Nodup := by
  induction ps generalizing acc with
  | nil => simpa [newRound] using hacc
  | cons p ps ih =>
    unfold newRound
    split
    · exact ih acc hacc
    · rename_i hc
      simp only [Bool.or_eq_true, not_or, Bool.not_eq_true] at hc
      apply ih
      rw [List.map_append, List.nodup_append]
      refine ⟨hacc, by simp, ?_⟩
      intro a ha c hc'
      simp only [List.map_cons, List.map_nil, List.mem_singleton] at hc'
      subst hc'
      intro hac
      have h3 := hc.2
      simp only [List.contains_eq_mem, decide_eq_false_iff_not] at h3
      apply h3
      rw [← show (stamp b p).workID = p.workID from rfl, ← hac]
      exact ha

private theorem mem_fresh {ctx : Ctx} {lim : Limits} {agreed : List CheckResult} {hist : List (List Proposal)}
    {b : BlockKey} {os : List Observation} {q : Proposal} (hq : q ∈ fresh ctx lim agreed hist b os) :
    ∃ p ∈ os.flatMap (·.proposals), proposalExists hist p = false ∧ performableExists agreed p = false ∧
      stamp b p = q := by
  have h1 : q ∈ newRound agreed hist b (os.flatMap (·.proposals)) [] :=
    (List.mergeSort_perm _ _).mem_iff.mp ((List.take_sublist _ _).subset hq)
  rcases newRound_mem agreed hist b _ [] q h1 with h | h
  · simp at h
  · exact h

private theorem fresh_nodup (ctx : Ctx) (lim : Limits) (agreed : List CheckResult) (hist : List (List Proposal))
    (b : BlockKey) (os : List Observation) : ((fresh ctx lim agreed hist b os).map (·.workID)).Nodup := by
  have h1 := newRound_nodup agreed hist b (os.flatMap (·.proposals)) [] (by simp)
  have h2 : ((sortByKey ctx.key (·.workID) (newRound agreed hist b (os.flatMap (·.proposals)) [])).map
      (·.workID)).Nodup := ((List.mergeSort_perm _ _).map _).nodup_iff.mpr h1
  exact List.Nodup.sublist ((List.take_sublist _ _).map _) h2

/-- if a block `b` is coordinated on, a new round is prepended; all its proposals carry `b`'s number and hash
(log extensions get block number 0), and the rest is the carried-over history, its oldest rounds dropped only
when the limit would be exceeded -/
theorem new_round_stamped {ctx : Ctx} {lim : Limits} {agreed : List CheckResult}
    {prev : List (List Proposal)} {os : List Observation} {π : List BlockKey} {b : BlockKey}
    (h : latestQuorumBlock (ctx.F + 1) (blockVotes os) π = some b) :
    ∃ latest hist, surfacedOf ctx lim agreed prev os π = latest :: hist ∧ stampedWith b latest = true ∧
      hist = (if (carryOver agreed prev).length ≥ lim.roundHistory
              then (carryOver agreed prev).take (lim.roundHistory - 1) else carryOver agreed prev) := by
  refine ⟨_, _, surfacedOf_some h, ?_, rfl⟩
  simp only [stampedWith, List.all_eq_true]
  intro q hq
  obtain ⟨p, _, _, _, rfl⟩ := mem_fresh hq
  exact stampedWith_stamp b p

/-- the block the new round is stamped with has f+1 support among the round's valid observations, and no block
with a non-zero hash and f+1 support has a higher number (C05, first sentence, as one statement) -/
theorem new_round_block {ctx : Ctx} {os : List Observation} {π : List BlockKey} {b : BlockKey}
    (h : latestQuorumBlock (ctx.F + 1) (blockVotes os) π = some b) :
    ctx.F + 1 ≤ blockVotes os b ∧ b ∈ os.flatMap (·.blockHistory) ∧
    ∀ c ∈ π, ctx.F + 1 ≤ blockVotes os c → c.hash ≠ zeroHash → c.number ≤ b.number := by
  have hs := quorumBlock_supported h
  refine ⟨hs.2.1, ?_, quorumBlock_maximal_partial h⟩
  have : 0 < blockVotes os b := by omega
  exact List.count_pos_iff.mp this

/-- hence the whole surfaced history is independent of the map iteration order -/
theorem surfacedOf_order_indep (ctx : Ctx) (lim : Limits) (agreed : List CheckResult) (prev : List (List Proposal))
    (os : List Observation) (π π' : List BlockKey) (hπ : ∀ b, b ∈ π ↔ b ∈ π') :
    surfacedOf ctx lim agreed prev os π = surfacedOf ctx lim agreed prev os π' := by
  simp only [surfacedOf, quorumBlock_order_indep (ctx.F + 1) (blockVotes os) π π' hπ]

/-! ### the history invariant -/

/-- the part of the invariant that does not mention the agreed performables (what `validateAutomationOutcome`
checks of `SurfacedProposals`, minus per-proposal validity) -/
def HistShape (lim : Limits) (sur : List (List Proposal)) : Prop :=
  sur.length ≤ lim.roundHistory ∧ (∀ r ∈ sur, r.length ≤ lim.perRound) ∧ (sur.flatten.map (·.workID)).Nodup

/-- the retained history: at most `roundHistory` (20) rounds, at most `perRound` (50) proposals each, every
unit of work at most once across all rounds, and none that is also an agreed performable -/
def HistInv (lim : Limits) (agreed : List CheckResult) (sur : List (List Proposal)) : Prop :=
  sur.length ≤ lim.roundHistory ∧ (∀ r ∈ sur, r.length ≤ lim.perRound) ∧
  (sur.flatten.map (·.workID)).Nodup ∧ (∀ p ∈ sur.flatten, performableExists agreed p = false)

theorem HistInv.shape {lim : Limits} {agreed : List CheckResult} {sur : List (List Proposal)}
    (h : HistInv lim agreed sur) : HistShape lim sur := ⟨h.1, h.2.1, h.2.2.1⟩

/-- `HistInv` is exactly the Boolean `historyOk` that the run-time oracle evaluates -/
theorem historyOk_iff_histInv (lim : Limits) (agreed : List CheckResult) (sur : List (List Proposal)) :
    historyOk lim agreed sur = true ↔ HistInv lim agreed sur := by
  simp only [historyOk, HistInv, Bool.and_eq_true, decide_eq_true_eq, List.all_eq_true, Bool.not_eq_true',
    and_assoc]

theorem historyOk_of_histInv {lim : Limits} {agreed : List CheckResult} {sur : List (List Proposal)}
    (h : HistInv lim agreed sur) : historyOk lim agreed sur = true :=
  (historyOk_iff_histInv lim agreed sur).mpr h

private theorem sublist_flatten {α} {l₁ l₂ : List (List α)} (h : l₁.Sublist l₂) : l₁.flatten.Sublist l₂.flatten := by
  induction h with
  | slnil => exact List.Sublist.refl _
  | cons a _ ih => exact ih.trans (by simp)
  | cons_cons a _ ih => simpa using (List.Sublist.refl a).append ih

private theorem carry_flatten_sublist (agreed : List CheckResult) (prev : List (List Proposal)) :
    (carryOver agreed prev).flatten.Sublist prev.flatten := by
  induction prev with
  | nil => exact List.Sublist.refl _
  | cons r rs ih =>
    simp only [carryOver, List.map_cons, List.flatten_cons]
    exact List.filter_sublist.append ih

private theorem carry_round_le (agreed : List CheckResult) (prev : List (List Proposal)) (n : Nat)
    (h : ∀ r ∈ prev, r.length ≤ n) : ∀ r ∈ carryOver agreed prev, r.length ≤ n := by
  intro r hr
  simp only [carryOver, List.mem_map] at hr
  obtain ⟨r', hr', rfl⟩ := hr
  exact Nat.le_trans (List.length_filter_le _ _) (h r' hr')

private theorem carry_not_agreed (agreed : List CheckResult) (prev : List (List Proposal)) :
    ∀ p ∈ (carryOver agreed prev).flatten, performableExists agreed p = false := by
  intro p hp
  simp only [carryOver, List.mem_flatten, List.mem_map] at hp
  obtain ⟨_, ⟨r', _, rfl⟩, hp⟩ := hp
  simpa using (List.mem_filter.mp hp).2

private theorem trim_sublist (lim : Limits) (c : List (List Proposal)) : (trim lim c).Sublist c := by
  unfold trim; split
  · exact List.take_sublist _ _
  · exact List.Sublist.refl _

private theorem trim_length (lim : Limits) (c : List (List Proposal)) (h1 : 1 ≤ lim.roundHistory)
    (hc : c.length ≤ lim.roundHistory) : (trim lim c).length + 1 ≤ lim.roundHistory := by
  unfold trim; split
  · simp only [List.length_take]; omega
  · omega

private theorem proposalExists_false {hist : List (List Proposal)} {p : Proposal}
    (h : proposalExists hist p = false) : p.workID ∉ hist.flatten.map (·.workID) := by
  intro hm
  obtain ⟨q, hq, hqp⟩ := List.mem_map.mp hm
  obtain ⟨r, hr, hqr⟩ := List.mem_flatten.mp hq
  have : proposalExists hist p = true := by
    simp only [proposalExists, List.any_eq_true, beq_iff_eq]
    exact ⟨r, hr, q, hqr, hqp⟩
  rw [h] at this
  exact absurd this (by simp)

private theorem carry_histInv (lim : Limits) (agreed : List CheckResult) (prev : List (List Proposal))
    (h : HistShape lim prev) : HistInv lim agreed (carryOver agreed prev) := by
  obtain ⟨hl, hr, hn⟩ := h
  refine ⟨by simpa [carryOver] using hl, carry_round_le agreed prev _ hr, ?_, carry_not_agreed agreed prev⟩
  exact List.Nodup.sublist ((carry_flatten_sublist agreed prev).map _) hn

/-- `coordinatedBlockProposals.set` establishes the history invariant from a well-shaped previous history —
for every list of agreed performables, every set of observations and every map iteration order -/
theorem hist_inv_preserved (ctx : Ctx) (lim : Limits) (agreed : List CheckResult) (prev : List (List Proposal))
    (os : List Observation) (π : List BlockKey)
    (hnd : (prev.flatten.map (·.workID)).Nodup) (hlen : prev.length ≤ lim.roundHistory)
    (hround : ∀ r ∈ prev, r.length ≤ lim.perRound) (h1 : 1 ≤ lim.roundHistory) :
    HistInv lim agreed (surfacedOf ctx lim agreed prev os π) := by
  have hc := carry_histInv lim agreed prev ⟨hlen, hround, hnd⟩
  cases hq : latestQuorumBlock (ctx.F + 1) (blockVotes os) π with
  | none => rw [no_quorum_carry_only hq]; exact hc
  | some b =>
    rw [surfacedOf_some hq]
    obtain ⟨cl, cr, cn, ca⟩ := hc
    have hsub := trim_sublist lim (carryOver agreed prev)
    have hfl := sublist_flatten hsub
    refine ⟨?_, ?_, ?_, ?_⟩
    · simpa using trim_length lim _ h1 cl
    · intro r hr
      rcases List.mem_cons.mp hr with rfl | hr
      · simp [fresh, List.length_take, Nat.min_le_left]
      · exact cr r (hsub.subset hr)
    · simp only [List.flatten_cons, List.map_append, List.nodup_append]
      refine ⟨fresh_nodup .., List.Nodup.sublist (hfl.map _) cn, ?_⟩
      intro a ha c hc' hac
      subst hac
      obtain ⟨q, hq', rfl⟩ := List.mem_map.mp ha
      obtain ⟨p, _, hpe, _, rfl⟩ := mem_fresh hq'
      exact proposalExists_false hpe hc'
    · intro p hp
      simp only [List.flatten_cons, List.mem_append] at hp
      rcases hp with hp | hp
      · obtain ⟨p', _, _, hpa, rfl⟩ := mem_fresh hp
        exact hpa
      · exact ca p (hfl.subset hp)

/-- the same with the hypotheses bundled -/
theorem hist_inv_step (ctx : Ctx) (lim : Limits) (h1 : 1 ≤ lim.roundHistory) (agreed : List CheckResult)
    (prev : List (List Proposal)) (os : List Observation) (π : List BlockKey) (h : HistShape lim prev) :
    HistInv lim agreed (surfacedOf ctx lim agreed prev os π) :=
  hist_inv_preserved ctx lim agreed prev os π h.2.2 h.1 h.2.1 h1

/-! ### every reachable history -/

/-- one round's inputs to `coordinatedBlockProposals.set`: the agreed performables, the valid observations and
the iteration order of the `recentBlocks` map — all arbitrary -/
structure RoundIn where
  agreed : List CheckResult
  os     : List Observation
  π      : List BlockKey

/-- the surfaced history after a chain of rounds started from the empty outcome -/
def chain (ctx : Ctx) (lim : Limits) (rs : List RoundIn) : List (List Proposal) :=
  rs.foldl (fun prev r => surfacedOf ctx lim r.agreed prev r.os r.π) []

private theorem foldl_shape (ctx : Ctx) (lim : Limits) (h1 : 1 ≤ lim.roundHistory) (rs : List RoundIn)
    (prev : List (List Proposal)) (h : HistShape lim prev) :
    HistShape lim (rs.foldl (fun prev r => surfacedOf ctx lim r.agreed prev r.os r.π) prev) := by
  induction rs generalizing prev with
  | nil => exact h
  | cons r rs ih => exact ih _ (hist_inv_step ctx lim h1 r.agreed prev r.os r.π h).shape

/-- every history reachable from the empty outcome, by any number of rounds with arbitrary inputs, is well shaped -/
theorem hist_shape_chain (ctx : Ctx) (lim : Limits) (h1 : 1 ≤ lim.roundHistory) (rs : List RoundIn) :
    HistShape lim (chain ctx lim rs) :=
  foldl_shape ctx lim h1 rs [] ⟨by simp, by simp, by simp⟩

/-- … and after every round of every chain the full invariant holds w.r.t. that round's agreed performables -/
theorem hist_inv_chain (ctx : Ctx) (lim : Limits) (h1 : 1 ≤ lim.roundHistory) (rs : List RoundIn) (r : RoundIn) :
    HistInv lim r.agreed (chain ctx lim (rs ++ [r])) := by
  simp only [chain, List.foldl_append, List.foldl_cons, List.foldl_nil]
  exact hist_inv_step ctx lim h1 r.agreed _ r.os r.π (hist_shape_chain ctx lim h1 rs)

/-- the same for the plugin's `Outcome` function iterated from the empty outcome: each round's inputs are the
attributed observations (possibly undecodable / invalid) and the two map iteration orders -/
def outcomeChain (ctx : Ctx) (lim : Limits)
    (rs : List (List (Option Observation) × List String × List BlockKey)) : Outcome :=
  rs.foldl (fun prev r => outcome ctx lim prev r.1 r.2.1 r.2.2) { agreed := [], surfaced := [] }

private theorem outcome_foldl_inv (ctx : Ctx) (lim : Limits) (h1 : 1 ≤ lim.roundHistory)
    (rs : List (List (Option Observation) × List String × List BlockKey)) (o : Outcome)
    (h : HistInv lim o.agreed o.surfaced) :
    HistInv lim (rs.foldl (fun prev r => outcome ctx lim prev r.1 r.2.1 r.2.2) o).agreed
      (rs.foldl (fun prev r => outcome ctx lim prev r.1 r.2.1 r.2.2) o).surfaced := by
  induction rs generalizing o with
  | nil => exact h
  | cons r rs ih =>
    simp only [List.foldl_cons]
    apply ih
    simp only [outcome]
    exact hist_inv_step ctx lim h1 _ _ _ _ h.shape

theorem outcome_chain_histInv (ctx : Ctx) (lim : Limits) (h1 : 1 ≤ lim.roundHistory)
    (rs : List (List (Option Observation) × List String × List BlockKey)) :
    HistInv lim (outcomeChain ctx lim rs).agreed (outcomeChain ctx lim rs).surfaced :=
  outcome_foldl_inv ctx lim h1 rs _ ⟨by simp, by simp, by simp, by simp⟩

/-! ### earlier rounds persist until performed or aged out -/

/-- the carried-over history is the previous one, round by round in the same positions, each round filtered
(order kept) by "not performed in this round" -/
theorem carry_over_exact (agreed : List CheckResult) (prev : List (List Proposal)) :
    (carryOver agreed prev).length = prev.length ∧
    ∀ i : Nat, (carryOver agreed prev)[i]? =
      prev[i]?.map (fun round : List Proposal => round.filter (fun p => !performableExists agreed p)) := by
  simp [carryOver]

/-- a carried-over round is a sublist (same order) of the round in the same position, holding exactly its
proposals that were not performed -/
theorem carry_over_round {agreed : List CheckResult} {prev : List (List Proposal)} {i : Nat} {r : List Proposal}
    (h : (carryOver agreed prev)[i]? = some r) :
    ∃ r₀, prev[i]? = some r₀ ∧ r.Sublist r₀ ∧ ∀ p, p ∈ r ↔ p ∈ r₀ ∧ performableExists agreed p = false := by
  rw [(carry_over_exact agreed prev).2 i] at h
  cases hp : prev[i]? with
  | none => rw [hp] at h; simp at h
  | some r₀ =>
    rw [hp] at h
    simp only [Option.map_some, Option.some.injEq] at h
    subst h
    exact ⟨r₀, rfl, List.filter_sublist, fun p => by simp [List.mem_filter]⟩

/-- a proposal of an earlier round that was not performed is carried over in the same round position -/
theorem carry_over_persists {agreed : List CheckResult} {prev : List (List Proposal)} {i : Nat}
    {r₀ : List Proposal} {p : Proposal} (hr : prev[i]? = some r₀) (hp : p ∈ r₀)
    (hperf : performableExists agreed p = false) :
    ∃ r, (carryOver agreed prev)[i]? = some r ∧ p ∈ r := by
  refine ⟨_, by rw [(carry_over_exact agreed prev).2 i, hr]; rfl, ?_⟩
  simp [List.mem_filter, hp, hperf]

/-- with a new round prepended, earlier round `i` moves to position `i+1` (filtered as above) if that is still
within the history limit, and is dropped otherwise — so only the oldest rounds are dropped, and only at the limit -/
theorem surfaced_earlier_rounds {ctx : Ctx} {lim : Limits} {agreed : List CheckResult}
    {prev : List (List Proposal)} {os : List Observation} {π : List BlockKey} {b : BlockKey}
    (h : latestQuorumBlock (ctx.F + 1) (blockVotes os) π = some b) (i : Nat) :
    (surfacedOf ctx lim agreed prev os π)[i + 1]? =
      if i + 1 < lim.roundHistory
      then prev[i]?.map (fun round : List Proposal => round.filter (fun p => !performableExists agreed p)) else none := by
  rw [surfacedOf_some h, List.getElem?_cons_succ, ← (carry_over_exact agreed prev).2 i]
  unfold trim
  split
  · rw [List.getElem?_take]
    by_cases hi : i + 1 < lim.roundHistory
    · rw [if_pos hi, if_pos (by omega)]
    · rw [if_neg hi, if_neg (by omega)]
  · rename_i hlt
    by_cases hi : i + 1 < lim.roundHistory
    · rw [if_pos hi]
    · rw [if_neg hi]
      exact List.getElem?_eq_none (by omega)

/-- an un-performed proposal of earlier round `i` persists: in place when no block is coordinated on, one
position later when a new round is prepended and `i+1` is within the limit -/
theorem proposal_persists {ctx : Ctx} {lim : Limits} {agreed : List CheckResult}
    {prev : List (List Proposal)} {os : List Observation} {π : List BlockKey} {i : Nat}
    {r₀ : List Proposal} {p : Proposal} (hr : prev[i]? = some r₀) (hp : p ∈ r₀)
    (hperf : performableExists agreed p = false) :
    (latestQuorumBlock (ctx.F + 1) (blockVotes os) π = none →
      ∃ r, (surfacedOf ctx lim agreed prev os π)[i]? = some r ∧ p ∈ r) ∧
    (∀ b, latestQuorumBlock (ctx.F + 1) (blockVotes os) π = some b → i + 1 < lim.roundHistory →
      ∃ r, (surfacedOf ctx lim agreed prev os π)[i + 1]? = some r ∧ p ∈ r) := by
  constructor
  · intro h
    rw [no_quorum_carry_only h]
    exact carry_over_persists hr hp hperf
  · intro b h hi
    rw [surfaced_earlier_rounds h, if_pos hi, hr]
    exact ⟨_, rfl, by simp [List.mem_filter, hp, hperf]⟩

/-- below the limit nothing is dropped -/
theorem nothing_dropped_below_limit {ctx : Ctx} {lim : Limits} {agreed : List CheckResult}
    {prev : List (List Proposal)} {os : List Observation} {π : List BlockKey} {b : BlockKey}
    (h : latestQuorumBlock (ctx.F + 1) (blockVotes os) π = some b) (hlen : prev.length < lim.roundHistory) :
    (surfacedOf ctx lim agreed prev os π).tail = carryOver agreed prev := by
  rw [surfacedOf_some h, List.tail_cons, trim, if_neg]
  rw [(carry_over_exact agreed prev).1]; omega

/-- a surfaced proposal is dropped from the history in the round in which it is performed -/
theorem performed_is_dropped (ctx : Ctx) (lim : Limits) (agreed : List CheckResult) (prev : List (List Proposal))
    (os : List Observation) (π : List BlockKey) (p : Proposal) (hp : performableExists agreed p = true) :
    p ∉ (surfacedOf ctx lim agreed prev os π).flatten := by
  intro hm
  have hcar : ∀ c : List (List Proposal), c.Sublist (carryOver agreed prev) → p ∉ c.flatten := by
    intro c hc hpc
    have := carry_not_agreed agreed prev p ((sublist_flatten hc).subset hpc)
    rw [hp] at this; exact absurd this (by simp)
  cases hq : latestQuorumBlock (ctx.F + 1) (blockVotes os) π with
  | none => rw [no_quorum_carry_only hq] at hm; exact hcar _ (List.Sublist.refl _) hm
  | some b =>
    rw [surfacedOf_some hq, List.flatten_cons, List.mem_append] at hm
    rcases hm with hm | hm
    · obtain ⟨p', _, _, hpa, rfl⟩ := mem_fresh hm
      have : performableExists agreed (stamp b p') = performableExists agreed p' := rfl
      rw [this, hpa] at hp; exact absurd hp (by simp)
    · exact hcar _ (trim_sublist _ _) hm

/-! ### the run-time oracle accepts the model's own output -/

private theorem newRound_acc (agreed : List CheckResult) (hist : List (List Proposal)) (b : BlockKey)
    (ps acc : List Proposal) : ∀ q ∈ acc, q ∈ newRound agreed hist b ps acc := by
  induction ps generalizing acc with
  | nil => intro q hq; simpa [newRound] using hq
  | cons p ps ih =>
    intro q hq
    unfold newRound
    split
    · exact ih acc q hq
    · exact ih _ q (List.mem_append_left _ hq)

/-- nothing eligible is left out before the cap is applied -/
private theorem newRound_complete (agreed : List CheckResult) (hist : List (List Proposal)) (b : BlockKey)
    (ps acc : List Proposal) : ∀ p ∈ ps, proposalExists hist p = false → performableExists agreed p = false →
      p.workID ∈ (newRound agreed hist b ps acc).map (·.workID) := by
  induction ps generalizing acc with
  | nil => intro p hp; simp at hp
  | cons p₀ ps ih =>
    intro p hp hpe hpa
    unfold newRound
    split
    · rename_i hc
      rcases List.mem_cons.mp hp with rfl | hp
      · simp only [hpe, hpa, Bool.or_false, Bool.false_or, List.contains_eq_mem, decide_eq_true_eq] at hc
        obtain ⟨q, hq, hqp⟩ := List.mem_map.mp hc
        exact List.mem_map.mpr ⟨q, newRound_acc agreed hist b ps acc q hq, hqp⟩
      · exact ih acc p hp hpe hpa
    · rcases List.mem_cons.mp hp with rfl | hp
      · exact List.mem_map.mpr ⟨stamp b p, newRound_acc agreed hist b ps _ _ (by simp), rfl⟩
      · exact ih _ p hp hpe hpa

private theorem fresh_newRoundOk (ctx : Ctx) (lim : Limits) (agreed : List CheckResult) (hist : List (List Proposal))
    (b : BlockKey) (os : List Observation) :
    newRoundOk lim agreed hist os b (fresh ctx lim agreed hist b os) = true := by
  simp only [newRoundOk, Bool.and_eq_true, Bool.or_eq_true, decide_eq_true_eq, List.all_eq_true,
    List.any_eq_true, beq_iff_eq, List.mem_filter, Bool.not_eq_true']
  refine ⟨⟨?_, fresh_nodup ..⟩, ?_⟩
  · intro q hq
    obtain ⟨p, hp, hpe, hpa, rfl⟩ := mem_fresh hq
    exact ⟨p, ⟨hp, hpe, hpa⟩, rfl⟩
  · by_cases hlen : lim.perRound ≤ (fresh ctx lim agreed hist b os).length
    · exact Or.inl hlen
    · right
      intro p ⟨hp, hpe, hpa⟩
      have hfull : fresh ctx lim agreed hist b os =
          sortByKey ctx.key (·.workID) (newRound agreed hist b (os.flatMap (·.proposals)) []) := by
        unfold fresh at hlen ⊢
        apply List.take_of_length_le
        simp only [List.length_take] at hlen
        omega
      obtain ⟨q, hq, hqp⟩ := List.mem_map.mp (newRound_complete agreed hist b _ [] p hp hpe hpa)
      refine ⟨q, ?_, hqp⟩
      rw [hfull]
      exact (List.mergeSort_perm _ _).mem_iff.mpr hq

private theorem mem_quorumBlocks {thr : Nat} {os : List Observation} {c : BlockKey} :
    c ∈ quorumBlocks thr os ↔ c ∈ os.flatMap (·.blockHistory) ∧ thr ≤ blockVotes os c := by
  simp [quorumBlocks, List.mem_filter, List.mem_eraseDups]

/-- `judge` on a history of the form `latest :: trim carried` when some block has quorum -/
private theorem judge_cons (ctx : Ctx) (lim : Limits) (prev : List (List Proposal)) (os : List Observation)
    (agreed : List CheckResult) (p : Proposal) (rest : List Proposal) (b : BlockKey)
    (hb : ({ number := p.trigger.blockNumber, hash := p.trigger.blockHash } : BlockKey) = b)
    (hq : (quorumBlocks (ctx.F + 1) os).isEmpty = false) :
    judge ctx lim prev os agreed ((p :: rest) :: trim lim (carryOver agreed prev)) =
      (if !stampedWith b (p :: rest) then .notStamped
       else if !latestSupported (ctx.F + 1) os b then
         (if decide (ctx.F + 1 ≤ blockVotes os b) &&
             ((quorumBlocks (ctx.F + 1) os).filter (fun c => decide (c.number > b.number))).all
               (fun c => c.hash == zeroHash)
          then .zeroHashQuorumIgnored else .notLatestQuorum)
       else if !newRoundOk lim agreed (trim lim (carryOver agreed prev)) os b (p :: rest) then .newRoundBad
       else .ok) := by
  subst hb
  simp [judge, hq, trim]

/-- `judge` when some block has quorum, all such blocks have a zero hash and the history is just carried over -/
private theorem judge_unchanged (ctx : Ctx) (lim : Limits) (prev : List (List Proposal)) (os : List Observation)
    (agreed : List CheckResult) (sur : List (List Proposal))
    (hqe : (quorumBlocks (ctx.F + 1) os).isEmpty = false)
    (hall : (quorumBlocks (ctx.F + 1) os).all (fun b => b.hash == zeroHash) = true)
    (hs : sur = carryOver agreed prev)
    (hgood : ∀ latest hist, sur = latest :: hist → hist = trim lim (carryOver agreed prev) → latest = []) :
    judge ctx lim prev os agreed sur = .ok ∨ judge ctx lim prev os agreed sur = .zeroHashQuorumIgnored := by
  cases sur with
  | nil => right; simp [judge, hqe, hall]
  | cons latest hist =>
    by_cases hh : hist = trim lim (carryOver agreed prev)
    · have hl := hgood latest hist rfl hh
      subst hl
      left
      simp only [trim] at hh
      simp [judge, hqe, ← hh]
    · right
      simp only [trim] at hh
      simp [judge, hqe, hh, hs, hall]

/-- a history that equals its own trimmed shift has an empty first round (given distinct work ids) -/
private theorem self_shift {lim : Limits} {latest : List Proposal} {hist : List (List Proposal)}
    (h2 : 2 ≤ lim.roundHistory) (hh : hist = trim lim (latest :: hist))
    (hn : ((latest :: hist).flatten.map (·.workID)).Nodup) : latest = [] := by
  unfold trim at hh
  split at hh
  · obtain ⟨k, hk⟩ : ∃ k, lim.roundHistory - 1 = k + 1 := ⟨lim.roundHistory - 2, by omega⟩
    rw [hk, List.take_succ_cons] at hh
    rw [hh] at hn
    cases latest with
    | nil => rfl
    | cons a l =>
      exfalso
      simp only [List.flatten_cons, List.map_append, List.map_cons] at hn
      exact (List.nodup_append.mp hn).2.2 a.workID (by simp) a.workID (by simp) rfl
  · have := congrArg List.length hh
    simp at this

/-- On the model's own output the run-time oracle `judge` says `ok`, or reports the known finding — and the
latter only if some reported block with f+1 support really has an all-zero hash.
Hypotheses: `π` enumerates the reported blocks (the key set of `recentBlocks`), the history limit is at least 2
(it is 20) and the previous history has distinct work ids (`validateAutomationOutcome`). -/
theorem spec_judge_cases (ctx : Ctx) (lim : Limits) (agreed : List CheckResult) (prev : List (List Proposal))
    (os : List Observation) (π : List BlockKey)
    (hπ : ∀ b, b ∈ π ↔ b ∈ os.flatMap (·.blockHistory))
    (h2 : 2 ≤ lim.roundHistory) (hnd : (prev.flatten.map (·.workID)).Nodup) :
    judge ctx lim prev os agreed (surfacedOf ctx lim agreed prev os π) = .ok ∨
    (judge ctx lim prev os agreed (surfacedOf ctx lim agreed prev os π) = .zeroHashQuorumIgnored ∧
      ∃ c ∈ os.flatMap (·.blockHistory), ctx.F + 1 ≤ blockVotes os c ∧ c.hash = zeroHash) := by
  cases hqe : (quorumBlocks (ctx.F + 1) os).isEmpty with
  | true =>
    left
    have hn : latestQuorumBlock (ctx.F + 1) (blockVotes os) π = none :=
      zero_hash_only_no_quorum _ _ _ (fun c hc hv => by
        have hm : c ∈ quorumBlocks (ctx.F + 1) os := mem_quorumBlocks.mpr ⟨(hπ c).mp hc, hv⟩
        rw [List.isEmpty_iff.mp hqe] at hm
        simp at hm)
    rw [no_quorum_carry_only hn]
    simp [judge, hqe]
  | false =>
    cases hq : latestQuorumBlock (ctx.F + 1) (blockVotes os) π with
    | none =>
      rw [no_quorum_carry_only hq]
      have hz : ∀ c ∈ quorumBlocks (ctx.F + 1) os, c.hash = zeroHash := fun c hc =>
        (quorumBlock_none_iff _ _ _).mp hq c ((hπ c).mpr (mem_quorumBlocks.mp hc).1) (mem_quorumBlocks.mp hc).2
      have hall : (quorumBlocks (ctx.F + 1) os).all (fun b => b.hash == zeroHash) = true := by
        simpa [List.all_eq_true] using hz
      have wit : ∃ c ∈ os.flatMap (·.blockHistory), ctx.F + 1 ≤ blockVotes os c ∧ c.hash = zeroHash := by
        cases hql : quorumBlocks (ctx.F + 1) os with
        | nil => rw [hql] at hqe; simp at hqe
        | cons c _ =>
          have hc : c ∈ quorumBlocks (ctx.F + 1) os := by rw [hql]; simp
          exact ⟨c, (mem_quorumBlocks.mp hc).1, (mem_quorumBlocks.mp hc).2, hz c hc⟩
      have hcn : ((carryOver agreed prev).flatten.map (·.workID)).Nodup :=
        List.Nodup.sublist ((carry_flatten_sublist agreed prev).map _) hnd
      rcases judge_unchanged ctx lim prev os agreed _ hqe hall rfl (fun latest hist he hh => by
          rw [he] at hh hcn; exact self_shift h2 hh hcn) with h | h
      · exact Or.inl h
      · exact Or.inr ⟨h, wit⟩
    | some b =>
      rw [surfacedOf_some hq]
      cases hf : fresh ctx lim agreed (trim lim (carryOver agreed prev)) b os with
      | nil => left; simp [judge, hqe, trim]
      | cons p rest =>
        have hsup := quorumBlock_supported hq
        have hmax := quorumBlock_maximal_partial hq
        obtain ⟨p', _, _, _, hp'⟩ := mem_fresh (show p ∈ fresh ctx lim agreed (trim lim (carryOver agreed prev)) b os by
          rw [hf]; simp)
        have hb : ({ number := p.trigger.blockNumber, hash := p.trigger.blockHash } : BlockKey) = b := by
          rw [← hp']; rfl
        have hst : stampedWith b (p :: rest) = true := by
          rw [← hf]
          simp only [stampedWith, List.all_eq_true]
          intro q hq'
          obtain ⟨p'', _, _, _, rfl⟩ := mem_fresh hq'
          exact stampedWith_stamp b p''
        have hnr : newRoundOk lim agreed (trim lim (carryOver agreed prev)) os b (p :: rest) = true := by
          rw [← hf]; exact fresh_newRoundOk ..
        rw [judge_cons ctx lim prev os agreed p rest b hb hqe]
        simp only [hst, hnr, Bool.not_true, Bool.false_eq_true, if_false]
        cases hls : latestSupported (ctx.F + 1) os b with
        | true => left; simp
        | false =>
          right
          have hgt : ((quorumBlocks (ctx.F + 1) os).filter (fun c => decide (c.number > b.number))).all
              (fun c => c.hash == zeroHash) = true := by
            simp only [List.all_eq_true, List.mem_filter, decide_eq_true_eq, beq_iff_eq]
            intro c ⟨hc, hcb⟩
            apply Classical.byContradiction
            intro hcz
            have := hmax c ((hπ c).mpr (mem_quorumBlocks.mp hc).1) (mem_quorumBlocks.mp hc).2 hcz
            omega
          have hv : decide (ctx.F + 1 ≤ blockVotes os b) = true := by simpa using hsup.2.1
          refine ⟨by simp [hgt, hv], ?_⟩
          -- some quorum block has a higher number than `b`; it has a zero hash
          simp only [latestSupported, hv, Bool.true_and] at hls
          have : ∃ c ∈ quorumBlocks (ctx.F + 1) os, ¬ c.number ≤ b.number := by
            apply Classical.byContradiction
            intro hne
            have : (quorumBlocks (ctx.F + 1) os).all (fun c => decide (c.number ≤ b.number)) = true := by
              simp only [List.all_eq_true, decide_eq_true_eq]
              intro c hc
              apply Classical.byContradiction
              intro hcb
              exact hne ⟨c, hc, hcb⟩
            rw [this] at hls
            exact absurd hls (by simp)
          obtain ⟨c, hc, hcb⟩ := this
          refine ⟨c, (mem_quorumBlocks.mp hc).1, (mem_quorumBlocks.mp hc).2, ?_⟩
          apply Classical.byContradiction
          intro hcz
          exact hcb (hmax c ((hπ c).mpr (mem_quorumBlocks.mp hc).1) (mem_quorumBlocks.mp hc).2 hcz)

/-- the run-time oracle never raises anything but the known finding on the model's own output -/
theorem spec_judge_ok (ctx : Ctx) (lim : Limits) (agreed : List CheckResult) (prev : List (List Proposal))
    (os : List Observation) (π : List BlockKey)
    (hπ : ∀ b, b ∈ π ↔ b ∈ os.flatMap (·.blockHistory))
    (h2 : 2 ≤ lim.roundHistory) (hnd : (prev.flatten.map (·.workID)).Nodup) :
    judge ctx lim prev os agreed (surfacedOf ctx lim agreed prev os π) = .ok ∨
    judge ctx lim prev os agreed (surfacedOf ctx lim agreed prev os π) = .zeroHashQuorumIgnored := by
  rcases spec_judge_cases ctx lim agreed prev os π hπ h2 hnd with h | h
  · exact Or.inl h
  · exact Or.inr h.1

/-- outside the known finding's region (no reported block with f+1 support has an all-zero hash) the oracle says `ok` -/
theorem spec_judge_ok_of_nonzero (ctx : Ctx) (lim : Limits) (agreed : List CheckResult) (prev : List (List Proposal))
    (os : List Observation) (π : List BlockKey)
    (hπ : ∀ b, b ∈ π ↔ b ∈ os.flatMap (·.blockHistory))
    (h2 : 2 ≤ lim.roundHistory) (hnd : (prev.flatten.map (·.workID)).Nodup)
    (hnz : ∀ c ∈ os.flatMap (·.blockHistory), ctx.F + 1 ≤ blockVotes os c → c.hash ≠ zeroHash) :
    judge ctx lim prev os agreed (surfacedOf ctx lim agreed prev os π) = .ok := by
  rcases spec_judge_cases ctx lim agreed prev os π hπ h2 hnd with h | ⟨_, c, hc, hv, hz⟩
  · exact h
  · exact absurd hz (hnz c hc hv)

/-- C05 as one statement: the decidable predicate that the driver evaluates on the implementation's output holds
of the model's output, for every previous outcome with distinct work ids, outside the known finding's region -/
theorem spec_model (ctx : Ctx) (lim : Limits) (agreed : List CheckResult) (prev : Outcome)
    (os : List Observation) (π : List BlockKey)
    (hπ : ∀ b, b ∈ π ↔ b ∈ os.flatMap (·.blockHistory))
    (h2 : 2 ≤ lim.roundHistory) (hnd : (prev.surfaced.flatten.map (·.workID)).Nodup)
    (hnz : ∀ c ∈ os.flatMap (·.blockHistory), ctx.F + 1 ≤ blockVotes os c → c.hash ≠ zeroHash) :
    spec ctx lim prev os agreed (surfacedOf ctx lim agreed prev.surfaced os π) = true := by
  simp only [spec, Bool.and_eq_true, decide_eq_true_eq, Bool.or_eq_true, Bool.not_eq_true']
  refine ⟨spec_judge_ok_of_nonzero ctx lim agreed prev.surfaced os π hπ h2 hnd hnz, ?_⟩
  cases hv : validOutcome ctx lim prev with
  | false => exact Or.inl rfl
  | true =>
    right
    simp only [validOutcome, Bool.and_eq_true, decide_eq_true_eq, List.all_eq_true] at hv
    exact historyOk_of_histInv
      (hist_inv_preserved ctx lim agreed prev.surfaced os π hnd hv.1.1.1.2 hv.1.1.2 (by omega))

/-- `blkKeys` (the order the driver uses) satisfies the enumeration hypothesis -/
theorem blkKeys_enumerates (os : List Observation) : ∀ b, b ∈ blkKeys os ↔ b ∈ os.flatMap (·.blockHistory) := by
  intro b; simp [blkKeys, List.mem_eraseDups]

/-! ### non-vacuity -/

private def xctx : Ctx :=
  { F := 1, utg := fun _ => .condition, wg := fun _ _ => "", key := id, uid := fun _ => "" }
private def xlim : Limits :=
  { obsPerformables := 100, obsLogProposals := 5, obsCondProposals := 5, obsBlockHistory := 256,
    agreedLimit := 100, perRound := 2, roundHistory := 2 }
private def xp (wid : String) (n : Nat) (h : String) (ext : Option LogExt) : Proposal :=
  { upkeepID := "u" ++ wid, trigger := { blockNumber := n, blockHash := h, ext := ext }, workID := wid }
private def xr (wid : String) : CheckResult :=
  { pes := 0, retryable := false, eligible := true, reason := 0, upkeepID := "u" ++ wid,
    trigger := { blockNumber := 1, blockHash := "", ext := none }, workID := wid, gas := 1,
    performData := "", fastGasWei := some 1, linkNative := some 1 }
/-- two oracles, forks at height 7 (`aa` vs `bb`, only `bb` shared), shared block 6; duplicated proposal `w1`,
a log proposal `w2` with a non-zero extension block number, `w3` already in the history, `w4` just agreed -/
private def xos : List Observation :=
  [ { performable := [], blockHistory := [zb 6 "cc", zb 7 "bb", zb 7 "aa"],
      proposals := [xp "w1" 3 "x" none, xp "w3" 3 "x" none] },
    { performable := [], blockHistory := [zb 7 "bb", zb 6 "cc"],
      proposals := [xp "w1" 4 "y" none, xp "w2" 4 "y" (some { txHash := "t", index := 0, blockHash := "z", blockNumber := 4 }),
                    xp "w4" 4 "y" none] } ]
private def xprev : List (List Proposal) := [[xp "w3" 5 "dd" none, xp "w5" 5 "dd" none], [xp "w4" 4 "ee" none]]
private def xagreed : List CheckResult := [xr "w4", xr "w5"]

/-- the hypothesis of `new_round_stamped` / `new_round_block` is met: the shared fork `bb` at height 7 wins -/
example : latestQuorumBlock (xctx.F + 1) (blockVotes xos) (blkKeys xos) = some (zb 7 "bb") := by decide

/-- … and the round it produces: `w1` once (duplicate across oracles), `w2` with its extension block number zeroed,
both stamped `(7, bb)`; `w3` (in the history) and `w4` (agreed) are not re-surfaced; of the previous rounds, `w5`
was performed and the oldest round is dropped at the limit of 2 -/
private theorem x_surfaced : surfacedOf xctx xlim xagreed xprev xos (blkKeys xos) =
    [[xp "w1" 7 "bb" none, xp "w2" 7 "bb" (some { txHash := "t", index := 0, blockHash := "z", blockNumber := 0 })],
     [xp "w3" 5 "dd" none]] := by
  have hq : latestQuorumBlock (xctx.F + 1) (blockVotes xos) (blkKeys xos) = some (zb 7 "bb") := by decide
  have hn : newRound xagreed (trim xlim (carryOver xagreed xprev)) (zb 7 "bb") (xos.flatMap (·.proposals)) [] =
      [xp "w1" 7 "bb" none, xp "w2" 7 "bb" (some { txHash := "t", index := 0, blockHash := "z", blockNumber := 0 })] := by
    decide
  have ht : trim xlim (carryOver xagreed xprev) = [[xp "w3" 5 "dd" none]] := by decide
  rw [surfacedOf_some hq, fresh, hn, ht, sortByKey, List.mergeSort_of_pairwise (by decide)]
  decide

/-- `new_round_stamped` on this value: the new round is non-empty and stamped -/
example : ∃ latest hist, surfacedOf xctx xlim xagreed xprev xos (blkKeys xos) = latest :: hist ∧
    latest.length = 2 ∧ stampedWith (zb 7 "bb") latest = true ∧ hist = [[xp "w3" 5 "dd" none]] :=
  ⟨_, _, x_surfaced, by decide, by decide, rfl⟩

/-- `hist_inv_preserved` on this value: its hypotheses hold of a non-trivial previous history at the round limit,
and the resulting history is the non-trivial one above -/
example : HistInv xlim xagreed (surfacedOf xctx xlim xagreed xprev xos (blkKeys xos)) ∧
    (surfacedOf xctx xlim xagreed xprev xos (blkKeys xos)).flatten.length = 3 :=
  ⟨hist_inv_preserved xctx xlim xagreed xprev xos (blkKeys xos) (by decide) (by decide) (by decide) (by decide),
   by rw [x_surfaced]; decide⟩

/-- the hypotheses of `hist_inv_preserved` cannot be dropped: from a previous history that repeats a unit of
work (which `validateAutomationOutcome` rejects) the repetition is simply carried over -/
example : ¬ HistInv xlim [] (surfacedOf xctx xlim [] [[xp "w1" 1 "a" none], [xp "w1" 2 "b" none]] [] []) := by
  rw [← historyOk_iff_histInv]; decide

/-- `spec_judge_ok_of_nonzero` / `spec_model` on this value (no zero-hash block): the oracle says `ok` -/
example : judge xctx xlim xprev xos xagreed (surfacedOf xctx xlim xagreed xprev xos (blkKeys xos)) = .ok :=
  spec_judge_ok_of_nonzero xctx xlim xagreed xprev xos (blkKeys xos) (blkKeys_enumerates xos) (by decide) (by decide)
    (by decide)

/-- the known finding as the oracle sees it: both oracles report block 9 with an all-zero hash (and block 5);
block 5 is coordinated on and the verdict is `zeroHashQuorumIgnored` -/
example :
    let os : List Observation :=
      [ { performable := [], blockHistory := [zb 5 "ab", zb 9 zeroHash], proposals := [xp "w1" 3 "x" none] },
        { performable := [], blockHistory := [zb 5 "ab", zb 9 zeroHash], proposals := [] } ]
    latestQuorumBlock 2 (blockVotes os) (blkKeys os) = some (zb 5 "ab") ∧
    judge xctx xlim [] os [] [[xp "w1" 5 "ab" none]] = .zeroHashQuorumIgnored := by
  decide

/-- `2 ≤ roundHistory` in `spec_judge_cases` cannot be weakened to `1 ≤`: with a history limit of 1 (never
configured; the constant is 20) a carried-over single round is indistinguishable from a new one for the oracle -/
example : judge xctx { xlim with roundHistory := 1 } [[xp "w1" 7 "cc" none]]
      [obsB [zb 9 zeroHash], obsB [zb 9 zeroHash]] []
      (surfacedOf xctx { xlim with roundHistory := 1 } [] [[xp "w1" 7 "cc" none]]
        [obsB [zb 9 zeroHash], obsB [zb 9 zeroHash]] [zb 9 zeroHash]) = .notLatestQuorum := by
  decide

/-- competing forks at quorum: both hashes of height 7 have f+1 = 2 votes; the larger hash wins in every order,
and a lower shared block never does (`quorumBlock_maximal_lex_partial`, `quorumBlock_order_indep`) -/
example :
    let os := [obsB [zb 6 "cc", zb 7 "aa", zb 7 "bb"], obsB [zb 7 "bb", zb 7 "aa", zb 6 "cc"]]
    2 ≤ blockVotes os (zb 7 "aa") ∧ 2 ≤ blockVotes os (zb 7 "bb") ∧
    latestQuorumBlock 2 (blockVotes os) [zb 6 "cc", zb 7 "aa", zb 7 "bb"] = some (zb 7 "bb") ∧
    latestQuorumBlock 2 (blockVotes os) [zb 7 "bb", zb 7 "aa", zb 6 "cc"] = some (zb 7 "bb") ∧
    latestQuorumBlock 2 (blockVotes os) [zb 7 "aa", zb 6 "cc", zb 7 "bb"] = some (zb 7 "bb") := by
  decide

/-- the real limits satisfy the hypotheses on `lim` used above -/
example : 2 ≤ Gen.outcomeSurfacedProposalsRoundHistoryLimit := by decide

end AutoVerif.C05
