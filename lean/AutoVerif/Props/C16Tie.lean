import AutoVerif.Props.C16
import AutoVerif.Gen.Consts
/-
C16Tie — the tie theorems of Props/C16.lean (`…_matches_source`): the model's decision functions equal the
decision expressions `AutoVerif.Gen.Src.*` that the extractor regenerates from the Go source on every check run
(docs/TIE_THEOREMS.md).  They live in a module of their own, which nothing but AutoVerif.lean (and another
property's Tie module, where a tie is reused) imports: a source change that breaks a tie here breaks this
property's check (bin/check audits every module `Props/C16*.lean`) and not the build of the theorem
modules of other properties that import Props/C16.lean.
-/
namespace AutoVerif.C16

/-! ### tie to the source: the model's decision functions are the expressions the extractor
regenerates from /repo on every run (`Gen.Src.c16*`, see extract/exprs.d/C16.json) -/

/-- `if ok, err := Eligible(result); err != nil || !ok { continue }` -/
theorem skipNow_matches_source (r : Res) : skipNow r = Gen.Src.c16SkipResult r.eligErr r.eligible := rfl

/-- the gas test and update in unbounded arithmetic are the source's `upkeepMaxGas := …` and
`uint64(totalReportGas)+upkeepMaxGas > uint64(limit)` -/
theorem stepIdeal_matches_source (cfg : Cfg) (total : Nat) (r : Res) :
    stepIdeal cfg total r =
      if Gen.Src.c16OverGasLimit total (Gen.Src.c16UpkeepMaxGas r.gas.toNat cfg.overhead.toNat) cfg.gasLimit.toNat
      then none else some (total + Gen.Src.c16UpkeepMaxGas r.gas.toNat cfg.overhead.toNat) := by
  simp [stepIdeal, Gen.Src.c16OverGasLimit, Gen.Src.c16UpkeepMaxGas]

/-- … and so is the step with the explicit 64/32-bit wrap-around, as long as the running total is
within the limit (which the loop maintains, `report_no_wrap`) -/
theorem stepNow_matches_source (cfg : Cfg) (total : Nat) (r : Res) (h : total ≤ cfg.gasLimit.toNat) :
    stepNow cfg total r =
      if Gen.Src.c16OverGasLimit total (Gen.Src.c16UpkeepMaxGas r.gas.toNat cfg.overhead.toNat) cfg.gasLimit.toNat
      then none else some (total + Gen.Src.c16UpkeepMaxGas r.gas.toNat cfg.overhead.toNat) := by
  rw [stepNow_eq_ideal cfg total r h, stepIdeal_matches_source]

/-- one iteration of the report-building loop: eligibility test, gas test and batch test of the source,
in source order -/
theorem reportLoop_step_matches_source (cfg : Cfg) (r : Res) (rs acc : List Res) (total : Nat) :
    loopG skipNow stepNow cfg (r :: rs) acc total =
      if Gen.Src.c16SkipResult r.eligErr r.eligible then loopG skipNow stepNow cfg rs acc total
      else if r.detailErr then loopG skipNow stepNow cfg rs acc total
      else match stepNow cfg total r with
        | none => loopG skipNow stepNow cfg rs acc total
        | some total' =>
          if Gen.Src.c16BatchFull (acc ++ [r]).length cfg.batch then acc ++ [r]
          else loopG skipNow stepNow cfg rs (acc ++ [r]) total' := by
  rw [loopG, skipNow_matches_source]
  cases stepNow cfg total r with
  | none => rfl
  | some t => simp [Gen.Src.c16BatchFull]

/-- `Report`: every guard of the source in source order (`len(attributed) == 0` is the only one not
regenerated: it is the first statement and has no operator the property depends on) -/
theorem report_matches_source (loop : Cfg → List Res → List Res) (cfg : Cfg) (attr : List (Option Obs))
    (pend : Bytes → Bool) (sh : List Bytes → List Bytes) (run : List Bytes → RunnerAns) (encErr : Bool) :
    reportWith loop cfg attr pend sh run encErr =
      if attr.length = 0 then ⟨.errNotEnoughInputs, [], []⟩ else
      match observationsToKeys attr with
      | none => ⟨.errTooManyErrors, [], []⟩
      | some keys =>
        let keysToCheck := sh (filterAndDedupe pend keys)
        let keysToCheck := if Gen.Src.c16KeysOverLimit keysToCheck.length Gen.v2ReportKeysLimit
                           then keysToCheck.take Gen.v2ReportKeysLimit else keysToCheck
        if keysToCheck.length = 0 then ⟨.noReport, [], []⟩ else
        let ans := run keysToCheck
        if ans.err then ⟨.errRunner, keysToCheck, []⟩
        else if Gen.Src.c16NoResults ans.results.length then ⟨.noReport, keysToCheck, []⟩
        else if Gen.Src.c16TooManyResults ans.results.length keysToCheck.length then ⟨.errTooManyResults, keysToCheck, []⟩
        else
          let toPerform := loop cfg ans.results
          if toPerform.length = 0 then ⟨.noReport, keysToCheck, []⟩
          else if encErr then ⟨.errEncode, keysToCheck, toPerform⟩
          else ⟨.report, keysToCheck, toPerform⟩ := by
  unfold reportWith
  cases observationsToKeys attr with
  | none => rfl
  | some keys => simp [Gen.Src.c16KeysOverLimit, Gen.Src.c16NoResults, Gen.Src.c16TooManyResults]

/-- `Observation.Validate`: `!ok || err != nil` for the block key and for every identifier
(`BasicEncoder` answers `(true, nil)` or `(false, err)`) -/
theorem validObs_matches_source (o : Obs) :
    validObs o = (!Gen.Src.c16ValidateRejects (validBlock o.block) (!validBlock o.block) &&
      o.ids.all fun i => !Gen.Src.c16ValidateRejects (validId i) (!validId i)) := by
  simp [validObs, Gen.Src.c16ValidateRejects]

/-- `ValidateBlockKey`: the range test `Cmp(0) == -1 || Cmp(max) > 0` (a canonical numeral is never negative) -/
theorem validBlock_matches_source (s : Bytes) (c : Int) (hc : c > 0 ↔ decVal s > maxBlockNumber) :
    validBlock s = (canonDec s && !Gen.Src.c16BlockOutOfRange false c) := by
  simp only [validBlock, Gen.Src.c16BlockOutOfRange, Bool.false_or]
  by_cases h : decVal s ≤ maxBlockNumber
  · have : ¬ c > 0 := fun hh => by have := hc.mp hh; omega
    simp [h, this]
  · have : c > 0 := hc.mpr (by omega)
    simp [h, this]

/-- `ValidateUpkeepIdentifier`: the same range test against 2^256 − 1 -/
theorem validId_matches_source (s : Bytes) (c : Int) (hc : c > 0 ↔ decVal s > maxUpkeepIdentifier) :
    validId s = (canonDec s && !Gen.Src.c16IdOutOfRange false c) := by
  simp only [validId, Gen.Src.c16IdOutOfRange, Bool.false_or]
  by_cases h : decVal s ≤ maxUpkeepIdentifier
  · have : ¬ c > 0 := fun hh => by have := hc.mp hh; omega
    simp [h, this]
  · have : c > 0 := hc.mpr (by omega)
    simp [h, this]

/-- one iteration of the loop of `ObservationsToUpkeepKeys` on a decoded observation: validation,
`len(ids) > 0` and the cut to `ObservationUpkeepsLimit` -/
theorem collect_step_matches_source (ob : Obs) (rest : List (Option Obs)) (a : Acc) :
    collect (some ob :: rest) a =
      if !validObs ob then collect rest { a with parseErrors := a.parseErrors + 1 }
      else
        let a := { a with blocks := a.blocks ++ [ob.block] }
        let a := if Gen.Src.c16HasIds ob.ids.length then
                   { a with ids := a.ids ++ [if Gen.Src.c16IdsOverLimit ob.ids.length Gen.v2ObservationUpkeepsLimit
                                             then ob.ids.take Gen.v2ObservationUpkeepsLimit else ob.ids] }
                 else a
        collect rest a := by
  rw [collect]
  simp only [Gen.Src.c16HasIds, Gen.Src.c16IdsOverLimit, decide_eq_true_eq]

/-- `ObservationsToUpkeepKeys`: the error test `parseErrors == len(attr)` -/
theorem observationsToKeys_matches_source (attr : List (Option Obs)) :
    observationsToKeys attr =
      if Gen.Src.c16AllObservationsFailed (collect attr {}).parseErrors attr.length then none
      else some ((collect attr {}).ids.map fun ids =>
        ids.map (mkKey (decOf (median ((collect attr {}).blocks.map decVal))))) := by
  simp only [observationsToKeys, Gen.Src.c16AllObservationsFailed, decide_eq_true_eq]

/-- `GetMedian`: `l == 0` gives 0, otherwise the element at `l/2` of the sorted values -/
theorem median_matches_source (vs : List Nat) :
    median vs = if Gen.Src.c16MedianOfNone vs.length then 0 else (isort vs).getD (vs.length / 2) 0 := by
  simp only [Gen.Src.c16MedianOfNone, decide_eq_true_eq]
  split
  · rename_i h
    have : vs = [] := List.length_eq_zero_iff.mp h
    subst this; rfl
  · rfl

/-- `filterAndDedupe`: a key is skipped when a filter answers `ok || err != nil` -/
theorem dedupeLoop_matches_source (pending failed : Bytes → Bool) (ks out : List Bytes) :
    dedupeLoop (fun k => Gen.Src.c16FilterSkips (pending k) (failed k)) ks out =
      dedupeLoop (fun k => pending k || failed k) ks out := rfl

/-- `PollingObserver.Observe`: an identifier is dropped when `pending || err != nil` -/
theorem observe_matches_source (pending failed : Bytes → Bool) (st : Stager) :
    observe (fun k => Gen.Src.c16ObserveSkips (pending k) (failed k)) st =
      (st.block, st.ids.filter fun id =>
        !(pending (mkKey st.block (idBytes id)) || failed (mkKey st.block (idBytes id)))) := rfl

/-- `ocrPlugin.Observation`: `len(allIDs) > ObservationUpkeepsLimit` -/
theorem observationIds_matches_source (sh : List (Option Bytes) → List (Option Bytes)) (ids : List (Option Bytes)) :
    observationIds sh ids =
      if Gen.Src.c16ObservationIdsOverLimit (sh ids).length Gen.v2ObservationUpkeepsLimit
      then (sh ids).take Gen.v2ObservationUpkeepsLimit else sh ids := by
  simp only [observationIds, Gen.Src.c16ObservationIdsOverLimit, decide_eq_true_eq]

/-- `limitedLengthEncode`: `len(obs.UpkeepIdentifiers) == 0` and, per prefix, `len(b) > limit` -/
theorem limitedLengthEncode_matches_source (block : Bytes) (ids : List (Option Bytes)) (limit : Nat) :
    limitedLengthEncode block ids limit =
      if Gen.Src.c16EncodeNoIds ids.length then encodeObs block ids else lleGo block ids limit ids.length 0 [] := by
  simp only [limitedLengthEncode, Gen.Src.c16EncodeNoIds, decide_eq_true_eq]

theorem lleGo_step_matches_source (block : Bytes) (ids : List (Option Bytes)) (limit n i : Nat) (res : Bytes) :
    lleGo block ids limit (n + 1) i res =
      if Gen.Src.c16EncodedOverLimit (encodeObs block (ids.take (i + 1))).length limit then res
      else lleGo block ids limit n (i + 1) (encodeObs block (ids.take (i + 1))) := by
  rw [lleGo]
  simp only [Gen.Src.c16EncodedOverLimit, decide_eq_true_eq]

/-- `DecodeOffchainConfig`: the three validators' tests and default values -/
theorem defaults_matches_source (c : RawCfg) :
    defaults c =
      { batch := if Gen.Src.c16BatchNeedsDefault c.batch then Gen.Src.c16DefaultBatch else c.batch.toNat,
        gasLimit := if Gen.Src.c16GasLimitNeedsDefault c.gasLimit.toNat
                    then UInt32.ofNat Gen.Src.c16DefaultGasLimit else c.gasLimit,
        overhead := if Gen.Src.c16OverheadNeedsDefault c.overhead.toNat
                    then UInt32.ofNat Gen.Src.c16DefaultOverhead else c.overhead } := by
  have hz : ∀ x : UInt32, (x = 0) ↔ (x.toNat = 0) := fun x =>
    ⟨fun h => by rw [h]; rfl, fun h => UInt32.toNat_inj.mp (by rw [h]; rfl)⟩
  simp only [defaults, Gen.Src.c16BatchNeedsDefault, Gen.Src.c16GasLimitNeedsDefault,
    Gen.Src.c16OverheadNeedsDefault, Gen.Src.c16DefaultBatch, Gen.Src.c16DefaultGasLimit,
    Gen.Src.c16DefaultOverhead, decide_eq_true_eq, hz]
  rfl

/-! ### decision trees: order of the tests, nesting and exits regenerated from the source
(`Gen.Src.c16*Tree`, `"kind": "tree"` entries of extract/exprs.d/C16.json) -/

/-- **the body of `Report`'s build loop is the source's decision tree**: eligibility test, `Detail`
error, gas test (three `continue`s), batch test (`break`), fall-through — in that order; one
iteration of the model's loop takes the same exit for every result, batch under construction and
running total within the limit (which the loop maintains, `report_no_wrap`). -/
theorem reportLoop_tree_matches_source (cfg : Cfg) (r : Res) (rs acc : List Res) (total : Nat)
    (h : total ≤ cfg.gasLimit.toNat) :
    loopG skipNow stepNow cfg (r :: rs) acc total =
      match Gen.Src.c16ReportLoopTree (Gen.Src.c16SkipResult r.eligErr r.eligible) r.detailErr total
          (Gen.Src.c16UpkeepMaxGas r.gas.toNat cfg.overhead.toNat) cfg.gasLimit.toNat
          (acc ++ [r]).length cfg.batch with
      | 1 => loopG skipNow stepNow cfg rs acc total          -- continue: not eligible / eligibility error
      | 2 => loopG skipNow stepNow cfg rs acc total          -- continue: Detail failed
      | 3 => loopG skipNow stepNow cfg rs acc total          -- continue: over the gas limit
      | 4 => acc ++ [r]                                      -- appended, batch full: break
      | _ => loopG skipNow stepNow cfg rs (acc ++ [r])       -- appended, next result
              (total + Gen.Src.c16UpkeepMaxGas r.gas.toNat cfg.overhead.toNat) := by
  rw [reportLoop_step_matches_source, stepNow_matches_source cfg total r h]
  unfold Gen.Src.c16ReportLoopTree
  by_cases h1 : Gen.Src.c16SkipResult r.eligErr r.eligible = true
  · simp [h1]
  · by_cases h2 : r.detailErr = true
    · simp [h1, h2]
    · by_cases h3 : total + Gen.Src.c16UpkeepMaxGas r.gas.toNat cfg.overhead.toNat > cfg.gasLimit.toNat
      · simp [h1, h2, h3, Gen.Src.c16OverGasLimit]
      · by_cases h4 : cfg.batch ≤ acc.length + 1
        · simp [h1, h2, h3, h4, Gen.Src.c16OverGasLimit, Gen.Src.c16BatchFull]
        · simp [h1, h2, h3, h4, Gen.Src.c16OverGasLimit, Gen.Src.c16BatchFull]

/-- **`Observation.Validate` is the source's decision tree**: the block key is tested first (exits 1, 2 =
the two error returns), the identifier loop's body returns an error at its exits 1, 2, and `return nil`
(exit 5) is reached only past both.  `BasicEncoder` answers `(true, nil)` or `(false, err)`. -/
theorem validObs_tree_matches_source (o : Obs) :
    validObs o =
      (decide (Gen.Src.c16ValidateTree (validBlock o.block) (!validBlock o.block) = 5) &&
       o.ids.all fun i => decide (Gen.Src.c16ValidateIdsTree (validId i) (!validId i) = 0)) := by
  have hb : ∀ b : Bool, decide (Gen.Src.c16ValidateTree b (!b) = 5) = b := by
    intro b; cases b <;> simp [Gen.Src.c16ValidateTree]
  have hi : ∀ b : Bool, decide (Gen.Src.c16ValidateIdsTree b (!b) = 0) = b := by
    intro b; cases b <;> simp [Gen.Src.c16ValidateIdsTree]
  simp only [validObs, hb, hi]

/-- **`ValidateBlockKey` is the source's decision tree**: parse, canonical rendering, range — in that
order, `return true, nil` (exit 4) only past all three.  `parses`, `rendered`, `negative`, `c` stand for
what `big.Int` answers; their identification with the model's numeral predicates is the hypothesis. -/
theorem validBlock_tree_matches_source (s : Bytes) (parses negative : Bool) (rendered key : String) (c : Int)
    (h1 : canonDec s = (parses && decide (rendered = key) && !negative))
    (h2 : c > 0 ↔ decVal s > maxBlockNumber) :
    validBlock s = decide (Gen.Src.c16ValidateBlockKeyTree parses rendered key negative c = 4) := by
  simp only [validBlock, h1, Gen.Src.c16ValidateBlockKeyTree]
  by_cases hr : decVal s ≤ maxBlockNumber
  · have hc : ¬ c > 0 := fun hh => by have := h2.mp hh; omega
    cases parses <;> cases negative <;> by_cases hk : rendered = key <;> simp [hr, hc, hk]
  · have hc : c > 0 := h2.mpr (by omega)
    cases parses <;> cases negative <;> by_cases hk : rendered = key <;> simp [hr, hc, hk]

/-- **`ValidateUpkeepIdentifier` is the source's decision tree** (same shape, bound 2^256 − 1) -/
theorem validId_tree_matches_source (s : Bytes) (parses negative : Bool) (rendered key : String) (c : Int)
    (h1 : canonDec s = (parses && decide (rendered = key) && !negative))
    (h2 : c > 0 ↔ decVal s > maxUpkeepIdentifier) :
    validId s = decide (Gen.Src.c16ValidateIdTree parses rendered key negative c = 4) := by
  simp only [validId, h1, Gen.Src.c16ValidateIdTree]
  by_cases hr : decVal s ≤ maxUpkeepIdentifier
  · have hc : ¬ c > 0 := fun hh => by have := h2.mp hh; omega
    cases parses <;> cases negative <;> by_cases hk : rendered = key <;> simp [hr, hc, hk]
  · have hc : c > 0 := h2.mpr (by omega)
    cases parses <;> cases negative <;> by_cases hk : rendered = key <;> simp [hr, hc, hk]

/-- **the filter loop of `filterAndDedupe` is the source's decision tree**: a key leaves the inner loop
(`continue InnerLoop`, exit 1) as soon as a filter answers `ok || err != nil`; otherwise it reaches the
de-duplication -/
theorem dedupeLoop_tree_matches_source (pending failed : Bytes → Bool) (k : Bytes) (ks out : List Bytes) :
    dedupeLoop (fun k => pending k || failed k) (k :: ks) out =
      match Gen.Src.c16FilterLoopTree (pending k) (failed k) with
      | 1 => dedupeLoop (fun k => pending k || failed k) ks out
      | _ => if out.contains k then dedupeLoop (fun k => pending k || failed k) ks out
             else dedupeLoop (fun k => pending k || failed k) ks (out ++ [k]) := by
  rw [dedupeLoop]
  unfold Gen.Src.c16FilterLoopTree
  by_cases h : (pending k || failed k) = true
  · simp [h]
  · simp [h]

/-! ### kinds of exit and (value, error) pairings of the trees above -/

/-- in the report loop the first three exits `continue` and the batch exit `break`s (what
`reportLoop_tree_matches_source` maps them to) -/
theorem reportLoop_tree_kinds_match_source :
    Gen.Src.c16ReportLoopTreeKind 1 = 2 ∧ Gen.Src.c16ReportLoopTreeKind 2 = 2 ∧
    Gen.Src.c16ReportLoopTreeKind 3 = 2 ∧ Gen.Src.c16ReportLoopTreeKind 4 = 3 ∧
    Gen.Src.c16ReportLoopTreeKind 0 = 0 := by decide

/-- the filter loop leaves with `continue` (of the key loop), not `break` / `return` -/
theorem dedupeLoop_tree_kinds_match_source :
    Gen.Src.c16FilterLoopTreeKind 1 = 2 ∧ Gen.Src.c16FilterLoopTreeKind 0 = 0 := by decide

/-- `Validate` leaves only by `return`; its identifier loop body by `return` or by falling through -/
theorem validObs_tree_kinds_match_source :
    (∀ e, e < 5 → Gen.Src.c16ValidateTreeKind (e + 1) = 1) ∧
    Gen.Src.c16ValidateIdsTreeKind 1 = 1 ∧ Gen.Src.c16ValidateIdsTreeKind 2 = 1 ∧
    Gen.Src.c16ValidateIdsTreeKind 0 = 0 := by decide

/-- `ValidateBlockKey` / `ValidateUpkeepIdentifier`: every exit is a `return`; the error result is `nil`
exactly at exit 4 (the `true` exit of `validBlock_tree_matches_source`), the boolean result never is -/
theorem validators_tree_nil_match_source :
    (∀ e, e < 5 → (1 ≤ e → Gen.Src.c16ValidateBlockKeyTreeKind e = 1 ∧ Gen.Src.c16ValidateIdTreeKind e = 1) ∧
      Gen.Src.c16ValidateBlockKeyTreeNil1 e = false ∧ Gen.Src.c16ValidateIdTreeNil1 e = false ∧
      Gen.Src.c16ValidateBlockKeyTreeNil2 e = decide (e = 4) ∧ Gen.Src.c16ValidateIdTreeNil2 e = decide (e = 4)) := by
  decide

/-! ### the loop body of `ObservationsToUpkeepKeys` and the staging loop of `processLatestHead` -/

/-- **the loop body of `ObservationsToUpkeepKeys` is the source's decision tree**, undecodable observation:
first `continue` -/
theorem collect_tree_matches_source_none (rest : List (Option Obs)) (a : Acc) (invalid : Bool) (n m : Nat) :
    Gen.Src.c16CollectLoopTree true invalid n m Gen.v2ObservationUpkeepsLimit = 1 ∧
    Gen.Src.c16CollectBlockTree true invalid = 1 ∧
    collect (none :: rest) a = collect rest { a with parseErrors := a.parseErrors + 1 } := by
  refine ⟨by simp [Gen.Src.c16CollectLoopTree], by simp [Gen.Src.c16CollectBlockTree], by rw [collect]⟩

/-- … decoded observation: the validation `continue` (exit 2) comes second; the block key is collected
(`c16CollectBlockTree` reaches its mark, exit 3) only past BOTH tests; the identifier list is appended
(mark, exit 3 of `c16CollectLoopTree`) only when it is not empty, otherwise the body falls through -/
theorem collect_tree_matches_source (ob : Obs) (rest : List (Option Obs)) (a : Acc) :
    collect (some ob :: rest) a =
      match Gen.Src.c16CollectLoopTree false (!validObs ob) ob.ids.length ob.ids.length Gen.v2ObservationUpkeepsLimit with
      | 1 => collect rest { a with parseErrors := a.parseErrors + 1 }
      | 2 => collect rest { a with parseErrors := a.parseErrors + 1 }
      | 3 => collect rest
          { parseErrors := a.parseErrors,
            blocks := if Gen.Src.c16CollectBlockTree false (!validObs ob) = 3 then a.blocks ++ [ob.block] else a.blocks,
            ids := a.ids ++ [ob.ids.take Gen.v2ObservationUpkeepsLimit] }
      | _ => collect rest
          { parseErrors := a.parseErrors,
            blocks := if Gen.Src.c16CollectBlockTree false (!validObs ob) = 3 then a.blocks ++ [ob.block] else a.blocks,
            ids := a.ids } := by
  rw [collect]
  unfold Gen.Src.c16CollectLoopTree Gen.Src.c16CollectBlockTree
  cases hv : validObs ob
  · simp
  · by_cases hl : ob.ids.length > 0
    · by_cases hk : Gen.v2ObservationUpkeepsLimit < ob.ids.length
      · simp [hl, hk]
      · simp [hl, hk, List.take_of_length_le (Nat.le_of_not_lt hk)]
    · simp [hl]

theorem collect_tree_kinds_match_source :
    Gen.Src.c16CollectLoopTreeKind 1 = 2 ∧ Gen.Src.c16CollectLoopTreeKind 2 = 2 ∧
    Gen.Src.c16CollectLoopTreeKind 3 = 4 ∧ Gen.Src.c16CollectLoopTreeKind 0 = 0 ∧
    Gen.Src.c16CollectBlockTreeKind 1 = 2 ∧ Gen.Src.c16CollectBlockTreeKind 2 = 2 ∧
    Gen.Src.c16CollectBlockTreeKind 3 = 4 := by decide

/-- **the staging loop of `processLatestHead` is the source's decision tree**: eligibility error,
not eligible, `Detail` error `continue` in that order; a key that cannot be split does NOT skip the
result (`prepareIdentifier` is reached on both arms, with the nil identifier) -/
theorem stageIds_tree_matches_source (r : HeadRes) (rs : List HeadRes) :
    stageIds (r :: rs) =
      match Gen.Src.c16StageLoopTree r.eligErr r.eligible r.detailErr (splitKey r.key).isNone with
      | 4 => (splitKey r.key).map (·.2) :: stageIds rs   -- `prepareIdentifier` reached
      | _ => stageIds rs := by
  rw [stageIds]
  unfold Gen.Src.c16StageLoopTree
  cases r.eligErr <;> cases r.eligible <;> cases r.detailErr <;> cases splitKey r.key <;> simp

theorem stageIds_tree_kinds_match_source :
    Gen.Src.c16StageLoopTreeKind 1 = 2 ∧ Gen.Src.c16StageLoopTreeKind 2 = 2 ∧
    Gen.Src.c16StageLoopTreeKind 3 = 2 ∧ Gen.Src.c16StageLoopTreeKind 4 = 4 := by decide

end AutoVerif.C16
