import AutoVerif.Spec.C16
/-
C16 — OCR2 (v2) reports: robust median block, eligible upkeeps once, limits kept.

Property theorems only (helper lemmas are `private`).  Everything is proved for all
inputs: every list of attributed observations, every coordinator predicate, every
shuffle that is a permutation, every answer of the report-time check, every `uint32`
gas / overhead / limit value and every batch size ≥ 1.
-/
namespace AutoVerif.C16

/-! ### sorting and the median -/

private theorem insertSorted_perm (x : Nat) (l : List Nat) : (insertSorted x l).Perm (x :: l) := by
  induction l with
  | nil => simp [insertSorted]
  | cons y ys ih =>
    unfold insertSorted
    split
    · exact List.Perm.refl _
    · exact (List.Perm.cons y ih).trans (List.Perm.swap x y ys)

private theorem isort_perm (l : List Nat) : (isort l).Perm l := by
  induction l with
  | nil => simp [isort]
  | cons x xs ih => exact (insertSorted_perm x (isort xs)).trans (List.Perm.cons x ih)

private theorem insertSorted_sorted (x : Nat) (l : List Nat) (h : l.Pairwise (· ≤ ·)) :
    (insertSorted x l).Pairwise (· ≤ ·) := by
  induction l with
  | nil => simp [insertSorted]
  | cons y ys ih =>
    unfold insertSorted
    split
    · rename_i hxy
      rw [List.pairwise_cons] at h ⊢
      refine ⟨?_, List.pairwise_cons.mpr h⟩
      intro a ha
      rcases List.mem_cons.mp ha with rfl | ha
      · exact hxy
      · exact Nat.le_trans hxy (h.1 a ha)
    · rename_i hxy
      rw [List.pairwise_cons] at h ⊢
      refine ⟨?_, ih h.2⟩
      intro a ha
      have := (insertSorted_perm x ys).mem_iff.mp ha
      rcases List.mem_cons.mp this with rfl | ha'
      · omega
      · exact h.1 a ha'

private theorem isort_sorted (l : List Nat) : (isort l).Pairwise (· ≤ ·) := by
  induction l with
  | nil => simp [isort]
  | cons x xs ih => exact insertSorted_sorted x _ ih

private theorem isort_length (l : List Nat) : (isort l).length = l.length := (isort_perm l).length_eq

private theorem isort_of_sorted (l : List Nat) (h : l.Pairwise (· ≤ ·)) : isort l = l :=
  List.Perm.eq_of_pairwise (le := (· ≤ ·)) (fun _ _ _ _ h1 h2 => Nat.le_antisymm h1 h2)
    (isort_sorted l) h (isort_perm l)

/-- in a sorted list, at least `k+1` elements are `≤ s[k]` and at least `|s|-k` are `≥ s[k]` -/
private theorem sorted_counts (s : List Nat) (hs : s.Pairwise (· ≤ ·)) (k : Nat) (hk : k < s.length) :
    k + 1 ≤ s.countP (fun x => decide (x ≤ s[k])) ∧ s.length - k ≤ s.countP (fun x => decide (s[k] ≤ x)) := by
  rw [List.pairwise_iff_getElem] at hs
  constructor
  · have h1 : (s.take (k + 1)).countP (fun x => decide (x ≤ s[k])) = (s.take (k + 1)).length := by
      rw [List.countP_eq_length]
      intro a ha
      obtain ⟨j, hj, rfl⟩ := List.mem_take_iff_getElem.mp ha
      have hj' : j < k + 1 ∧ j < s.length := by omega
      simp only [decide_eq_true_eq]
      by_cases hjk : j = k
      · subst hjk; exact Nat.le_refl _
      · exact hs j k hj'.2 hk (by omega)
    have h2 := (List.take_sublist (k + 1) s).countP_le (p := fun x => decide (x ≤ s[k]))
    rw [h1, List.length_take] at h2
    omega
  · have h1 : (s.drop k).countP (fun x => decide (s[k] ≤ x)) = (s.drop k).length := by
      rw [List.countP_eq_length]
      intro a ha
      obtain ⟨j, hj, rfl⟩ := List.mem_drop_iff_getElem.mp ha
      simp only [decide_eq_true_eq]
      by_cases hj0 : j = 0
      · subst hj0; exact Nat.le_refl _
      · exact hs k (k + j) hk (by omega) (by omega)
    have h2 := (List.drop_sublist k s).countP_le (p := fun x => decide (s[k] ≤ x))
    rw [h1, List.length_drop] at h2
    omega

private theorem median_eq_getElem (vs : List Nat) (h : 0 < vs.length) :
    median vs = (isort vs)[vs.length / 2]'(by rw [isort_length]; omega) := by
  unfold median
  rw [List.getD_eq_getElem?_getD, List.getElem?_eq_getElem (by rw [isort_length]; omega)]
  rfl

/-- the median is one of the values -/
theorem median_mem (vs : List Nat) (h : 0 < vs.length) : median vs ∈ vs := by
  rw [median_eq_getElem vs h]
  exact (isort_perm vs).mem_iff.mp (List.getElem_mem _)

/-- on an already sorted list the median is the element at index `m/2` (the upper median) -/
theorem median_sorted (vs : List Nat) (h : vs.Pairwise (· ≤ ·)) : median vs = vs.getD (vs.length / 2) 0 := by
  unfold median; rw [isort_of_sorted vs h]

/-- **Byzantine bound of the median block.**  If the valid block numbers `vs` are, in any
order, the values `hs` reported by honest oracles together with at most `F` values `fs`
reported by faulty ones, and there are at least `2F+1` of them, then the median lies between
two honest values (hence between the smallest and the largest honest block). -/
theorem median_between_honest (vs hs fs : List Nat) (F : Nat)
    (hperm : vs.Perm (hs ++ fs)) (hf : fs.length ≤ F) (hm : 2 * F + 1 ≤ vs.length) :
    ∃ a ∈ hs, ∃ b ∈ hs, a ≤ median vs ∧ median vs ≤ b := by
  have hpos : 0 < vs.length := by omega
  have hk : vs.length / 2 < (isort vs).length := by rw [isort_length]; omega
  have hmed := median_eq_getElem vs hpos
  obtain ⟨hlo, hhi⟩ := sorted_counts (isort vs) (isort_sorted vs) (vs.length / 2) hk
  rw [← hmed] at hlo hhi
  rw [isort_length] at hhi
  have hp := (isort_perm vs).trans hperm
  rw [hp.countP_eq, List.countP_append] at hlo hhi
  have hf1 := List.countP_le_length (p := fun x => decide (x ≤ median vs)) (l := fs)
  have hf2 := List.countP_le_length (p := fun x => decide (median vs ≤ x)) (l := fs)
  have h1 : 0 < hs.countP (fun x => decide (x ≤ median vs)) := by omega
  have h2 : 0 < hs.countP (fun x => decide (median vs ≤ x)) := by omega
  obtain ⟨a, ha, hae⟩ := List.countP_pos_iff.mp h1
  obtain ⟨b, hb, hbe⟩ := List.countP_pos_iff.mp h2
  exact ⟨a, ha, b, hb, by simpa using hae, by simpa using hbe⟩

/-- the hypotheses are satisfiable with a faulty extreme value: 3 honest, 1 faulty (F = 1) -/
example : ∃ a ∈ [100, 101, 102], ∃ b ∈ [100, 101, 102],
    a ≤ median [101, 999999, 100, 102] ∧ median [101, 999999, 100, 102] ≤ b :=
  median_between_honest [101, 999999, 100, 102] [100, 101, 102] [999999] 1 (by decide) (by decide) (by decide)

example : median [101, 999999, 100, 102] = 102 := by decide

/-! ### `ObservationsToUpkeepKeys`: keys come from valid observations only, at the median block -/

private theorem take_limit (l : List Bytes) :
    (if l.length > Gen.v2ObservationUpkeepsLimit then l.take Gen.v2ObservationUpkeepsLimit else l)
      = l.take Gen.v2ObservationUpkeepsLimit := by
  split
  · rfl
  · rw [List.take_of_length_le (by omega)]

private theorem validOnes_cons_none (rest : List (Option Obs)) : validOnes (none :: rest) = validOnes rest := by
  simp [validOnes]

private theorem validOnes_cons_invalid (ob : Obs) (rest : List (Option Obs)) (h : validObs ob = false) :
    validOnes (some ob :: rest) = validOnes rest := by
  simp [validOnes, h]

private theorem validOnes_cons_valid (ob : Obs) (rest : List (Option Obs)) (h : validObs ob = true) :
    validOnes (some ob :: rest) = ob :: validOnes rest := by
  simp [validOnes, h]

private theorem collect_eq (attr : List (Option Obs)) (a : Acc) :
    (collect attr a).parseErrors + (validOnes attr).length = a.parseErrors + attr.length ∧
    (collect attr a).blocks = a.blocks ++ (validOnes attr).map (·.block) ∧
    (collect attr a).ids = a.ids ++
      ((validOnes attr).filter fun ob => decide (ob.ids.length > 0)).map
        (fun ob => ob.ids.take Gen.v2ObservationUpkeepsLimit) := by
  induction attr generalizing a with
  | nil => simp [collect, validOnes]
  | cons o rest ih =>
    cases o with
    | none =>
      rw [validOnes_cons_none]
      unfold collect
      obtain ⟨h1, h2, h3⟩ := ih { a with parseErrors := a.parseErrors + 1 }
      refine ⟨?_, h2, h3⟩
      simp only [List.length_cons] at h1 ⊢; omega
    | some ob =>
      unfold collect
      cases hv : validObs ob with
      | false =>
        rw [validOnes_cons_invalid ob rest hv]
        obtain ⟨h1, h2, h3⟩ := ih { a with parseErrors := a.parseErrors + 1 }
        simp only [Bool.not_false, if_true]
        refine ⟨?_, h2, h3⟩
        simp only [List.length_cons] at h1 ⊢; omega
      | true =>
        rw [validOnes_cons_valid ob rest hv]
        simp only [Bool.not_true, Bool.false_eq_true, if_false]
        by_cases hl : ob.ids.length > 0
        · simp only [hl, if_true, take_limit]
          obtain ⟨h1, h2, h3⟩ := ih
            { parseErrors := a.parseErrors, blocks := a.blocks ++ [ob.block],
              ids := a.ids ++ [ob.ids.take Gen.v2ObservationUpkeepsLimit] }
          refine ⟨?_, ?_, ?_⟩
          · simp only [List.length_cons] at h1 ⊢; omega
          · rw [h2]; simp
          · rw [h3]; simp [hl]
        · simp only [hl, if_false]
          obtain ⟨h1, h2, h3⟩ := ih
            { parseErrors := a.parseErrors, blocks := a.blocks ++ [ob.block], ids := a.ids }
          refine ⟨?_, ?_, ?_⟩
          · simp only [List.length_cons] at h1 ⊢; omega
          · rw [h2]; simp
          · rw [h3]; simp [hl]

/-- closed form of `ObservationsToUpkeepKeys` -/
private theorem observationsToKeys_eq (attr : List (Option Obs)) :
    observationsToKeys attr =
      if validOnes attr = [] then none
      else some (((validOnes attr).filter fun ob => decide (ob.ids.length > 0)).map fun ob =>
        (ob.ids.take Gen.v2ObservationUpkeepsLimit).map (mkKey (medianBlock attr))) := by
  obtain ⟨h1, h2, h3⟩ := collect_eq attr {}
  unfold observationsToKeys
  simp only []
  have hlen : (validOnes attr = []) ↔ (collect attr {}).parseErrors = attr.length := by
    rw [← List.length_eq_zero_iff]
    have h1' : (collect attr {}).parseErrors + (validOnes attr).length = 0 + attr.length := h1
    omega
  by_cases hv : validOnes attr = []
  · rw [if_pos (hlen.mp hv), if_pos hv]
  · rw [if_neg (fun h => hv (hlen.mpr h)), if_neg hv, h2, h3]
    simp [medianBlock, validBlocks, List.map_map, Function.comp_def]

private theorem mem_validOnes {attr : List (Option Obs)} {ob : Obs} :
    ob ∈ validOnes attr ↔ some ob ∈ attr ∧ validObs ob = true := by
  unfold validOnes
  rw [List.mem_filterMap]
  constructor
  · rintro ⟨o, ho, h⟩
    cases o with
    | none => simp at h
    | some ob' =>
      by_cases hv : validObs ob' = true
      · simp [hv] at h; subst h; exact ⟨ho, hv⟩
      · simp [hv] at h
  · rintro ⟨h1, h2⟩
    exact ⟨some ob, h1, by simp [h2]⟩

/-- every observation failed ⇒ error; otherwise keys are produced -/
theorem keys_none_iff (attr : List (Option Obs)) :
    observationsToKeys attr = none ↔ ∀ ob, some ob ∈ attr → validObs ob = false := by
  rw [observationsToKeys_eq]
  constructor
  · intro h ob hob
    by_cases hv : validOnes attr = []
    · cases hvo : validObs ob with
      | false => rfl
      | true => have := mem_validOnes.mpr ⟨hob, hvo⟩; rw [hv] at this; simp at this
    · rw [if_neg hv] at h; simp at h
  · intro h
    have : validOnes attr = [] := by
      apply List.eq_nil_iff_forall_not_mem.mpr
      intro ob hob
      obtain ⟨h1, h2⟩ := mem_validOnes.mp hob
      rw [h _ h1] at h2; simp at h2
    rw [if_pos this]

/-- **keys_from_valid_only.**  Every upkeep key a report can be built from consists of the
median of the *valid* observations' block numbers and one of the first
`ObservationUpkeepsLimit` identifiers of an observation that decoded and validated.
Malformed, undecodable or invalid observations contribute neither a block nor an id. -/
theorem keys_from_valid_only (attr : List (Option Obs)) (keys : List (List Bytes))
    (h : observationsToKeys attr = some keys) :
    ∀ ks ∈ keys, ∀ k ∈ ks, ∃ ob, some ob ∈ attr ∧ validObs ob = true ∧
      ∃ id ∈ ob.ids.take Gen.v2ObservationUpkeepsLimit, k = mkKey (decOf (median (validBlocks attr))) id := by
  rw [observationsToKeys_eq] at h
  by_cases hv : validOnes attr = []
  · rw [if_pos hv] at h; simp at h
  · rw [if_neg hv] at h
    simp only [Option.some.injEq] at h
    subst h
    intro ks hks k hk
    obtain ⟨ob, hob, rfl⟩ := List.mem_map.mp hks
    obtain ⟨id, hid, rfl⟩ := List.mem_map.mp hk
    obtain ⟨h1, h2⟩ := mem_validOnes.mp (List.mem_filter.mp hob).1
    exact ⟨ob, h1, h2, id, hid, rfl⟩

/-- each observation contributes at most `ObservationUpkeepsLimit` keys (oversized id lists are cut) -/
theorem keys_per_observation_le (attr : List (Option Obs)) (keys : List (List Bytes))
    (h : observationsToKeys attr = some keys) : ∀ ks ∈ keys, ks.length ≤ Gen.v2ObservationUpkeepsLimit := by
  rw [observationsToKeys_eq] at h
  by_cases hv : validOnes attr = []
  · rw [if_pos hv] at h; simp at h
  · rw [if_neg hv] at h
    simp only [Option.some.injEq] at h
    subst h
    intro ks hks
    obtain ⟨ob, _, rfl⟩ := List.mem_map.mp hks
    simp only [List.length_map, List.length_take]; omega

/-- non-vacuity: a malformed (`none`), an invalid ("007") and an oversized observation among valid ones -/
example : observationsToKeys
    [some ⟨[49, 48], [[55], [56]]⟩, none, some ⟨[49, 50], []⟩, some ⟨[49, 49], [[48, 48, 55]]⟩]
    = some [[[49, 50, 124, 55]]] := by decide

/-! ### `filterAndDedupe`: pending keys removed, every other key exactly once -/

private theorem dedupeLoop_spec (pend : Bytes → Bool) (ks out : List Bytes) (hout : out.Nodup) :
    (dedupeLoop pend ks out).Nodup ∧
    ∀ k, k ∈ dedupeLoop pend ks out ↔ (k ∈ out ∨ (k ∈ ks ∧ pend k = false)) := by
  induction ks generalizing out with
  | nil => simp [dedupeLoop, hout]
  | cons x xs ih =>
    unfold dedupeLoop
    by_cases hp : pend x = true
    · rw [if_pos hp]
      obtain ⟨h1, h2⟩ := ih out hout
      refine ⟨h1, fun k => ?_⟩
      rw [h2 k]
      constructor
      · rintro (h | ⟨h, hk⟩)
        · exact Or.inl h
        · exact Or.inr ⟨List.mem_cons_of_mem _ h, hk⟩
      · rintro (h | ⟨h, hk⟩)
        · exact Or.inl h
        · rcases List.mem_cons.mp h with rfl | h
          · rw [hp] at hk; cases hk
          · exact Or.inr ⟨h, hk⟩
    · rw [if_neg hp]
      have hp' : pend x = false := by simpa using hp
      by_cases hc : out.contains x = true
      · rw [if_pos hc]
        have hmem : x ∈ out := List.contains_iff_mem.mp hc
        obtain ⟨h1, h2⟩ := ih out hout
        refine ⟨h1, fun k => ?_⟩
        rw [h2 k]
        constructor
        · rintro (h | ⟨h, hk⟩)
          · exact Or.inl h
          · exact Or.inr ⟨List.mem_cons_of_mem _ h, hk⟩
        · rintro (h | ⟨h, hk⟩)
          · exact Or.inl h
          · rcases List.mem_cons.mp h with rfl | h
            · exact Or.inl hmem
            · exact Or.inr ⟨h, hk⟩
      · rw [if_neg hc]
        have hmem : x ∉ out := fun h => hc (List.contains_iff_mem.mpr h)
        have hnd : (out ++ [x]).Nodup := by
          rw [List.nodup_append]
          refine ⟨hout, by simp, ?_⟩
          intro a ha b hb
          simp only [List.mem_singleton] at hb
          subst hb
          intro hab; subst hab; exact hmem ha
        obtain ⟨h1, h2⟩ := ih (out ++ [x]) hnd
        refine ⟨h1, fun k => ?_⟩
        rw [h2 k]
        simp only [List.mem_append, List.mem_cons, List.not_mem_nil, or_false]
        constructor
        · rintro ((h | rfl) | ⟨h, hk⟩)
          · exact Or.inl h
          · exact Or.inr ⟨Or.inl rfl, hp'⟩
          · exact Or.inr ⟨Or.inr h, hk⟩
        · rintro (h | ⟨rfl | h, hk⟩)
          · exact Or.inl (Or.inl h)
          · exact Or.inl (Or.inr rfl)
          · exact Or.inr ⟨h, hk⟩

/-- **dedupe_nodup.**  No key is handed on twice, whatever the observations and the coordinator say. -/
theorem dedupe_nodup (pend : Bytes → Bool) (inputs : List (List Bytes)) :
    (filterAndDedupe pend inputs).Nodup :=
  (dedupeLoop_spec pend inputs.flatten [] List.nodup_nil).1

/-- **pending_removed.**  A key survives iff some observation's key list contains it and the
coordinator does not report it pending (or fail on it): locally in-flight keys are removed,
and nothing else is. -/
theorem pending_removed (pend : Bytes → Bool) (inputs : List (List Bytes)) (k : Bytes) :
    k ∈ filterAndDedupe pend inputs ↔ (∃ ks ∈ inputs, k ∈ ks) ∧ pend k = false := by
  unfold filterAndDedupe
  rw [(dedupeLoop_spec pend inputs.flatten [] List.nodup_nil).2 k]
  simp [List.mem_flatten]

example : filterAndDedupe (fun k => k == [49, 124, 55]) [[[49, 124, 55]], [[49, 124, 56]], [[49, 124, 56]], [[49, 124, 57]]]
    = [[49, 124, 56], [49, 124, 57]] := by decide

/-! ### the report-building loop -/

private theorem loopG_sublist (skip : Res → Bool) (step : Cfg → Nat → Res → Option Nat) (cfg : Cfg)
    (rs acc : List Res) (total : Nat) :
    ∃ ext, ext.Sublist rs ∧ loopG skip step cfg rs acc total = acc ++ ext := by
  induction rs generalizing acc total with
  | nil => exact ⟨[], List.Sublist.refl _, by simp [loopG]⟩
  | cons r rs ih =>
    unfold loopG
    split
    · obtain ⟨e, h1, h2⟩ := ih acc total; exact ⟨e, h1.cons r, h2⟩
    · split
      · obtain ⟨e, h1, h2⟩ := ih acc total; exact ⟨e, h1.cons r, h2⟩
      · split
        · obtain ⟨e, h1, h2⟩ := ih acc total; exact ⟨e, h1.cons r, h2⟩
        · rename_i total' _
          split
          · exact ⟨[r], by simp, rfl⟩
          · obtain ⟨e, h1, h2⟩ := ih (acc ++ [r]) total'
            exact ⟨r :: e, h1.cons_cons r, by rw [h2]; simp⟩

private theorem loopG_batch (skip : Res → Bool) (step : Cfg → Nat → Res → Option Nat) (cfg : Cfg)
    (rs acc : List Res) (total : Nat) (h : acc.length < cfg.batch) :
    (loopG skip step cfg rs acc total).length ≤ cfg.batch := by
  induction rs generalizing acc total with
  | nil => simp [loopG]; omega
  | cons r rs ih =>
    unfold loopG
    split
    · exact ih acc total h
    · split
      · exact ih acc total h
      · split
        · exact ih acc total h
        · rename_i total' _
          split
          · simp only [List.length_append, List.length_singleton]; omega
          · rename_i hb
            exact ih (acc ++ [r]) total' (by simpa using hb)

private theorem loopG_kept (skip : Res → Bool) (step : Cfg → Nat → Res → Option Nat) (cfg : Cfg)
    (rs acc : List Res) (total : Nat) (h : ∀ r ∈ acc, skip r = false ∧ r.detailErr = false) :
    ∀ r ∈ loopG skip step cfg rs acc total, skip r = false ∧ r.detailErr = false := by
  induction rs generalizing acc total with
  | nil => simpa [loopG] using h
  | cons r rs ih =>
    unfold loopG
    split
    · exact ih acc total h
    · rename_i hs
      split
      · exact ih acc total h
      · rename_i hd
        have hacc : ∀ x ∈ acc ++ [r], skip x = false ∧ x.detailErr = false := by
          intro x hx
          rcases List.mem_append.mp hx with hx | hx
          · exact h x hx
          · simp only [List.mem_singleton] at hx; subst hx
            exact ⟨by simpa using hs, by simpa using hd⟩
        split
        · exact ih acc total h
        · rename_i total' _
          split
          · exact hacc
          · exact ih (acc ++ [r]) total' hacc

private theorem gasSum_append (cfg : Cfg) (acc : List Res) (r : Res) :
    gasSum cfg (acc ++ [r]) = gasSum cfg acc + (r.gas.toNat + cfg.overhead.toNat) := by
  simp [gasSum]

/-- the 64-bit sums and the `uint32(...)` narrowing never wrap while the running total is within the limit -/
theorem stepNow_eq_ideal (cfg : Cfg) (total : Nat) (r : Res) (h : total ≤ cfg.gasLimit.toNat) :
    stepNow cfg total r = stepIdeal cfg total r := by
  have hl := UInt32.toNat_lt cfg.gasLimit
  have hg := UInt32.toNat_lt r.gas
  have ho := UInt32.toNat_lt cfg.overhead
  unfold stepNow stepIdeal u64 u32
  have e1 : (r.gas.toNat + cfg.overhead.toNat) % 2 ^ 64 = r.gas.toNat + cfg.overhead.toNat :=
    Nat.mod_eq_of_lt (by omega)
  have e2 : (total + (r.gas.toNat + cfg.overhead.toNat)) % 2 ^ 64 = total + (r.gas.toNat + cfg.overhead.toNat) :=
    Nat.mod_eq_of_lt (by omega)
  simp only [e1, e2]
  split
  · rfl
  · rename_i hle
    have e3 : (r.gas.toNat + cfg.overhead.toNat) % 2 ^ 32 = r.gas.toNat + cfg.overhead.toNat :=
      Nat.mod_eq_of_lt (by omega)
    have e4 : (total + (r.gas.toNat + cfg.overhead.toNat)) % 2 ^ 32 = total + (r.gas.toNat + cfg.overhead.toNat) :=
      Nat.mod_eq_of_lt (by omega)
    rw [e3, e4]

private theorem loop_no_wrap (cfg : Cfg) (rs acc : List Res) (total : Nat) (h : total ≤ cfg.gasLimit.toNat) :
    loopG skipNow stepNow cfg rs acc total = loopG skipNow stepIdeal cfg rs acc total := by
  induction rs generalizing acc total with
  | nil => simp [loopG]
  | cons r rs ih =>
    unfold loopG
    rw [stepNow_eq_ideal cfg total r h, ih acc total h]
    cases hs : stepIdeal cfg total r with
    | none => rfl
    | some t =>
      have ht : t ≤ cfg.gasLimit.toNat := by
        unfold stepIdeal at hs
        split at hs
        · cases hs
        · simp only [Option.some.injEq] at hs; omega
      simp only [ih (acc ++ [r]) t ht]

private theorem loopIdeal_gas (cfg : Cfg) (rs acc : List Res) (total : Nat)
    (h1 : total = gasSum cfg acc) (h2 : gasSum cfg acc ≤ cfg.gasLimit.toNat) :
    gasSum cfg (loopG skipNow stepIdeal cfg rs acc total) ≤ cfg.gasLimit.toNat := by
  induction rs generalizing acc total with
  | nil => simpa [loopG] using h2
  | cons r rs ih =>
    unfold loopG
    split
    · exact ih acc total h1 h2
    · split
      · exact ih acc total h1 h2
      · split
        · exact ih acc total h1 h2
        · rename_i total' hs
          have : total' = gasSum cfg (acc ++ [r]) ∧ gasSum cfg (acc ++ [r]) ≤ cfg.gasLimit.toNat := by
            unfold stepIdeal at hs
            rw [gasSum_append]
            split at hs
            · cases hs
            · simp only [Option.some.injEq] at hs; omega
          split
          · exact this.2
          · exact ih (acc ++ [r]) total' this.1 this.2

/-- **report_no_wrap.**  With `uint32` inputs the sums the code now forms in 64 bits, and the
conversion of `upkeepMaxGas` back to `uint32`, never wrap: the loop computes exactly what
unbounded arithmetic computes. -/
theorem report_no_wrap (cfg : Cfg) (rs : List Res) :
    reportLoop cfg rs = loopG skipNow stepIdeal cfg rs [] 0 :=
  loop_no_wrap cfg rs [] 0 (Nat.zero_le _)

/-- **report_only_eligible.**  Whatever the report-time check answers, every reported result is
one of its answers (in answer order) for which `Eligible` said `(true, nil)` and `Detail` did not fail. -/
theorem report_only_eligible (cfg : Cfg) (rs : List Res) :
    (reportLoop cfg rs).Sublist rs ∧
    ∀ r ∈ reportLoop cfg rs, r.eligible = true ∧ r.eligErr = false ∧ r.detailErr = false := by
  constructor
  · obtain ⟨e, h1, h2⟩ := loopG_sublist skipNow stepNow cfg rs [] 0
    unfold reportLoop; rw [h2]; simpa using h1
  · intro r hr
    have := loopG_kept skipNow stepNow cfg rs [] 0 (by simp) r hr
    obtain ⟨h1, h2⟩ := this
    simp only [skipNow, Bool.or_eq_false_iff, Bool.not_eq_false'] at h1
    exact ⟨h1.2, h1.1, h2⟩

/-- **report_batch_le.**  At most `MaxUpkeepBatchSize` upkeeps per report (the decoded configuration
always has a batch size ≥ 1, see `defaults_batch_pos`). -/
theorem report_batch_le (cfg : Cfg) (hb : 1 ≤ cfg.batch) (rs : List Res) :
    (reportLoop cfg rs).length ≤ cfg.batch :=
  loopG_batch skipNow stepNow cfg rs [] 0 (by simp only [List.length_nil]; omega)

theorem defaults_batch_pos (c : RawCfg) : 1 ≤ (defaults c).batch := by
  unfold defaults
  simp only
  split
  · exact Nat.le_refl 1
  · omega

/-- the configuration `Report` works with does not depend on `reportBlockLag` nor on any of the
coordinator / observer settings: no lag is subtracted from the median, whatever is configured -/
theorem defaults_ignores_other_fields (c : RawCfg) (lag lock rounds dur confs : Int) (m : Bool) :
    defaults { c with reportBlockLag := lag, performLockoutWindow := lock, targetInRounds := rounds,
                      samplingJobDuration := dur, minConfirmations := confs, mercuryLookup := m } = defaults c := rfl

/-- **report_gas_le.**  For ALL `uint32` gas values, overheads and limits, the real gas of the report,
Σ (gas + overhead) computed without any bound, is within `GasLimitPerReport`. -/
theorem report_gas_le (cfg : Cfg) (rs : List Res) :
    gasSum cfg (reportLoop cfg rs) ≤ cfg.gasLimit.toNat := by
  rw [report_no_wrap]
  exact loopIdeal_gas cfg rs [] 0 (by simp [gasSum]) (by simp [gasSum])

/-- non-vacuity: gas near 2^32, an ineligible, an erroring and a fitting result -/
example : reportLoop ⟨2, 5300000, 300000⟩
    [⟨0, [49], true, false, 4294667301, false⟩, ⟨1, [50], false, false, 10, false⟩,
     ⟨2, [51], true, true, 10, false⟩, ⟨3, [52], true, false, 4999999, false⟩,
     ⟨4, [53], true, false, 1, false⟩] = [⟨3, [52], true, false, 4999999, false⟩] := by decide

/-- **report_gas_wraps_old** (pinned tree, `uint32` sums).  gas = 2^32 − 300000 + 5 plus the
300000 overhead wraps to 5, passes the 5.3M limit and is reported: real gas 4294967301 > 5300000. -/
theorem report_gas_wraps_old :
    let cfg : Cfg := ⟨1, 5300000, 300000⟩
    let r : Res := ⟨0, [49, 48, 124, 55], true, false, 4294667301, false⟩
    reportGasOld32 cfg [r] = [r] ∧ ¬ gasSum cfg (reportGasOld32 cfg [r]) ≤ cfg.gasLimit.toNat ∧
    reportLoop cfg [r] = [] := by decide

/-- **report_old_includes_ineligible** (pinned tree, `err != nil && ok`).  A result the report-time
check found ineligible is reported; the present code drops it. -/
theorem report_old_includes_ineligible :
    let cfg : Cfg := ⟨1, 5300000, 300000⟩
    let r : Res := ⟨0, [49, 48, 124, 55], false, false, 100000, false⟩
    reportOld cfg [r] = [r] ∧ reportPinned cfg [r] = [r] ∧ reportLoop cfg [r] = [] := by decide

/-! ### `Report` as a whole -/

private theorem cut_eq_take (l : List Bytes) :
    (if l.length > Gen.v2ReportKeysLimit then l.take Gen.v2ReportKeysLimit else l) = l.take Gen.v2ReportKeysLimit := by
  split
  · rfl
  · rw [List.take_of_length_le (by omega)]

private theorem report_shape (cfg : Cfg) (attr : List (Option Obs)) (pend : Bytes → Bool)
    (sh : List Bytes → List Bytes) (run : List Bytes → RunnerAns) (encErr : Bool) :
    ((report cfg attr pend sh run encErr).checked = [] ∨
      ∃ keys, observationsToKeys attr = some keys ∧
        (report cfg attr pend sh run encErr).checked = (sh (filterAndDedupe pend keys)).take Gen.v2ReportKeysLimit) ∧
    ((report cfg attr pend sh run encErr).performed = [] ∨
      (report cfg attr pend sh run encErr).performed =
        reportLoop cfg (run (report cfg attr pend sh run encErr).checked).results) ∧
    ((report cfg attr pend sh run encErr).status = .report →
      (report cfg attr pend sh run encErr).performed ≠ []) := by
  unfold report reportWith
  simp only [cut_eq_take]
  split
  · simp
  · split
    · simp
    · rename_i keys hk
      split
      · simp
      · split
        · exact ⟨Or.inr ⟨keys, hk, rfl⟩, Or.inl rfl, by simp⟩
        · split
          · exact ⟨Or.inr ⟨keys, hk, rfl⟩, Or.inl rfl, by simp⟩
          · split
            · exact ⟨Or.inr ⟨keys, hk, rfl⟩, Or.inl rfl, by simp⟩
            · split
              · exact ⟨Or.inr ⟨keys, hk, rfl⟩, Or.inl rfl, by simp⟩
              · rename_i hne
                split
                · exact ⟨Or.inr ⟨keys, hk, rfl⟩, Or.inr rfl, by simp⟩
                · refine ⟨Or.inr ⟨keys, hk, rfl⟩, Or.inr rfl, fun _ h => hne ?_⟩
                  simp only [] at h
                  rw [h]; rfl

/-- **checked_le_ten.**  However many observations and identifiers arrive, at most `ReportKeysLimit`
(= 10) keys are handed to the report-time check. -/
theorem checked_le_ten (cfg : Cfg) (attr : List (Option Obs)) (pend : Bytes → Bool)
    (sh : List Bytes → List Bytes) (run : List Bytes → RunnerAns) (encErr : Bool) :
    (report cfg attr pend sh run encErr).checked.length ≤ Gen.v2ReportKeysLimit := by
  rcases (report_shape cfg attr pend sh run encErr).1 with h | ⟨keys, _, h⟩
  · rw [h]; simp
  · rw [h, List.length_take]; omega

/-- the keys handed to the report-time check: each exactly once, none pending, each built from an
identifier of a valid observation at the median block -/
theorem checked_keys (cfg : Cfg) (attr : List (Option Obs)) (pend : Bytes → Bool)
    (sh : List Bytes → List Bytes) (hsh : ∀ l, (sh l).Perm l) (run : List Bytes → RunnerAns) (encErr : Bool) :
    (report cfg attr pend sh run encErr).checked.Nodup ∧
    ∀ k ∈ (report cfg attr pend sh run encErr).checked, pend k = false ∧
      ∃ ob, some ob ∈ attr ∧ validObs ob = true ∧
        ∃ id ∈ ob.ids.take Gen.v2ObservationUpkeepsLimit, k = mkKey (medianBlock attr) id := by
  rcases (report_shape cfg attr pend sh run encErr).1 with h | ⟨keys, hk, h⟩
  · rw [h]; simp
  · rw [h]
    constructor
    · exact ((hsh _).nodup_iff.mpr (dedupe_nodup pend keys)).sublist (List.take_sublist _ _)
    · intro k hkm
      have hmem : k ∈ filterAndDedupe pend keys := (hsh _).mem_iff.mp (List.mem_of_mem_take hkm)
      obtain ⟨⟨ks, hks, hkks⟩, hp⟩ := (pending_removed pend keys k).mp hmem
      exact ⟨hp, keys_from_valid_only attr keys hk ks hks k hkks⟩

private theorem keys_as_ids (b : Bytes) (P : Bytes → Prop) (l : List Bytes) (hnd : l.Nodup)
    (h : ∀ k ∈ l, ∃ id, P id ∧ k = mkKey b id) :
    ∃ ids : List Bytes, ids.Nodup ∧ (∀ id ∈ ids, P id) ∧ l = ids.map (mkKey b) := by
  induction l with
  | nil => exact ⟨[], List.nodup_nil, by simp, rfl⟩
  | cons k l ih =>
    rw [List.nodup_cons] at hnd
    obtain ⟨ids, h1, h2, h3⟩ := ih hnd.2 (fun k' hk' => h k' (List.mem_cons_of_mem _ hk'))
    obtain ⟨id, hp, rfl⟩ := h k (by simp)
    refine ⟨id :: ids, ?_, ?_, by rw [h3]; rfl⟩
    · rw [List.nodup_cons]
      refine ⟨fun hmem => hnd.1 ?_, h1⟩
      rw [h3]; exact List.mem_map.mpr ⟨id, hmem, rfl⟩
    · intro x hx
      rcases List.mem_cons.mp hx with rfl | hx
      · exact hp
      · exact h2 x hx

/-- **eligible upkeeps once.**  The checked keys are the median block joined to pairwise distinct
identifiers of valid observations: no upkeep is checked (hence reported) twice in a round. -/
theorem checked_ids_once (cfg : Cfg) (attr : List (Option Obs)) (pend : Bytes → Bool)
    (sh : List Bytes → List Bytes) (hsh : ∀ l, (sh l).Perm l) (run : List Bytes → RunnerAns) (encErr : Bool) :
    ∃ ids : List Bytes, ids.Nodup ∧ (∀ id ∈ ids, id ∈ candidateIds attr) ∧
      (report cfg attr pend sh run encErr).checked = ids.map (mkKey (medianBlock attr)) := by
  obtain ⟨hnd, hk⟩ := checked_keys cfg attr pend sh hsh run encErr
  apply keys_as_ids (medianBlock attr) (fun id => id ∈ candidateIds attr) _ hnd
  intro k hkm
  obtain ⟨_, ob, hob, hv, id, hid, rfl⟩ := hk k hkm
  exact ⟨id, List.mem_flatMap.mpr ⟨ob, mem_validOnes.mpr ⟨hob, hv⟩, hid⟩, rfl⟩

/-- what goes into the report is the loop's output on the answers for the checked keys -/
theorem performed_eq (cfg : Cfg) (attr : List (Option Obs)) (pend : Bytes → Bool)
    (sh : List Bytes → List Bytes) (run : List Bytes → RunnerAns) (encErr : Bool) :
    (report cfg attr pend sh run encErr).performed = [] ∨
    (report cfg attr pend sh run encErr).performed =
      reportLoop cfg (run (report cfg attr pend sh run encErr).checked).results :=
  (report_shape cfg attr pend sh run encErr).2.1

/-- the model's `Report` always returns (a panic of the implementation is a disagreement and a violation) -/
theorem report_never_panics (cfg : Cfg) (attr : List (Option Obs)) (pend : Bytes → Bool)
    (sh : List Bytes → List Bytes) (run : List Bytes → RunnerAns) (encErr : Bool) :
    (report cfg attr pend sh run encErr).status ≠ .panicked := by
  unfold report reportWith
  simp only []
  repeat' split
  all_goals simp

/-- **spec_report_model.**  The model's `Report` satisfies the decidable C16 predicate the oracle
evaluates on the implementation — for every configuration with batch ≥ 1 (all decoded ones), all
observations, every coordinator predicate, every permutation as shuffle, every answer of the
report-time check. -/
theorem spec_report_model (cfg : Cfg) (hb : 1 ≤ cfg.batch) (attr : List (Option Obs)) (pend : Bytes → Bool)
    (inflight : List Bytes) (hinf : ∀ id ∈ inflight, pend (mkKey (medianBlock attr) id) = true)
    (sh : List Bytes → List Bytes) (hsh : ∀ l, (sh l).Perm l) (run : List Bytes → RunnerAns) (encErr : Bool) :
    specReport cfg attr pend inflight (run (report cfg attr pend sh run encErr).checked).results
      (report cfg attr pend sh run encErr) = true := by
  obtain ⟨hnd, hkeys⟩ := checked_keys cfg attr pend sh hsh run encErr
  have hlen := checked_le_ten cfg attr pend sh run encErr
  have hperf := performed_eq cfg attr pend sh run encErr
  have hst := (report_shape cfg attr pend sh run encErr).2.2
  have hnp := report_never_panics cfg attr pend sh run encErr
  generalize report cfg attr pend sh run encErr = o at *
  have hsub : o.performed.Sublist (run o.checked).results ∧
      (∀ r ∈ o.performed, r.eligible = true ∧ r.eligErr = false ∧ r.detailErr = false) ∧
      o.performed.length ≤ cfg.batch ∧ gasSum cfg o.performed ≤ cfg.gasLimit.toNat := by
    rcases hperf with h | h
    · rw [h]; simp [gasSum]
    · rw [h]
      exact ⟨(report_only_eligible cfg _).1, (report_only_eligible cfg _).2, report_batch_le cfg hb _,
        report_gas_le cfg _⟩
  obtain ⟨hs1, hs2, hs3, hs4⟩ := hsub
  unfold specReport
  simp only [Bool.and_eq_true, List.all_eq_true, decide_eq_true_eq,
    Bool.or_eq_true, Bool.not_eq_true', bne_iff_ne, ne_eq, List.contains_iff_mem, List.mem_map,
    Bool.eq_false_iff]
  refine ⟨⟨⟨⟨⟨⟨⟨⟨⟨⟨hnp, ?_⟩, hnd⟩, ?_⟩, ?_⟩, hlen⟩, ?_⟩, hs3⟩, hs4⟩, ?_⟩, ?_⟩
  · intro k hk
    obtain ⟨_, ob, hob, hv, id, hid, rfl⟩ := hkeys k hk
    refine ⟨id, ?_, rfl⟩
    unfold candidateIds
    exact List.mem_flatMap.mpr ⟨ob, mem_validOnes.mpr ⟨hob, hv⟩, hid⟩
  · intro k hk; simp [(hkeys k hk).1]
  · rintro k hk ⟨id, hid, heq⟩
    have := (hkeys k hk).1
    rw [← heq, hinf id hid] at this; cases this
  · intro r hr
    obtain ⟨h1, h2, h3⟩ := hs2 r hr
    refine ⟨by simp [eligibleRes, h1, h2, h3], ?_⟩
    exact hs1.subset hr
  · by_cases hn : (List.map (fun x => x.key) (run o.checked).results).Nodup
    · exact Or.inr (hn.sublist (hs1.map _))
    · exact Or.inl (by simpa using hn)
  · by_cases hr : o.status = .report
    · right; have := hst hr; simpa using this
    · left; simpa using hr

/-- non-vacuity of `spec_report_model`: four observations (one undecodable, one invalid), one key
pending, a report of two with a third result ineligible -/
example :
    let attr : List (Option Obs) := [some ⟨[49, 48], [[55]]⟩, none, some ⟨[49, 50], [[56]]⟩,
      some ⟨[48, 49], [[57]]⟩, some ⟨[49, 49], [[57], [49]]⟩, some ⟨[57], [[53]]⟩]
    let pend : Bytes → Bool := fun k => k == [49, 49, 124, 53]
    let run : List Bytes → RunnerAns := fun ks =>
      ⟨false, (ks.zipIdx).map fun (k, i) => ⟨i, k, decide (i ≠ 1), false, 1000, false⟩⟩
    report ⟨2, 5300000, 300000⟩ attr pend id run false =
      ⟨.report, [[49, 49, 124, 55], [49, 49, 124, 56], [49, 49, 124, 57]],
        [⟨0, [49, 49, 124, 55], true, false, 1000, false⟩, ⟨2, [49, 49, 124, 57], true, false, 1000, false⟩]⟩ := by
  decide

/-! ### the encoded observation: base64, escaping, strict decoding -/

private theorem b64idx_char : ∀ n, n < 64 → b64idx (b64char n) = some n := by decide

private theorem b64char_ne (n : Nat) : b64char n ≠ 61 ∧ b64char n ≠ 34 := by
  unfold b64char; split <;> (try split) <;> (try split) <;> (try split) <;> omega

private theorem three_step {P : Bytes → Prop} (h0 : P []) (h1 : ∀ a, P [a]) (h2 : ∀ a b, P [a, b])
    (h3 : ∀ a b c rest, P rest → P (a :: b :: c :: rest)) : ∀ l, P l
  | [] => h0
  | [a] => h1 a
  | [a, b] => h2 a b
  | a :: b :: c :: rest => h3 a b c rest (three_step h0 h1 h2 h3 rest)

private theorem b64enc_length (l : Bytes) : (b64enc l).length = 4 * ((l.length + 2) / 3) := by
  induction l using three_step with
  | h0 => rfl
  | h1 a => simp [b64enc]
  | h2 a b => simp [b64enc]
  | h3 a b c rest ih => simp only [b64enc, List.length_cons, ih]; omega

private theorem b64enc_noquote (l : Bytes) : ∀ c ∈ b64enc l, c ≠ 34 := by
  induction l using three_step with
  | h0 => simp [b64enc]
  | h1 a => intro c hc; simp only [b64enc, List.mem_cons, List.not_mem_nil, or_false] at hc; rcases hc with rfl | rfl | rfl | rfl <;> first | exact (b64char_ne _).2 | decide
  | h2 a b => intro c hc; simp only [b64enc, List.mem_cons, List.not_mem_nil, or_false] at hc; rcases hc with rfl | rfl | rfl | rfl <;> first | exact (b64char_ne _).2 | decide
  | h3 a b c rest ih =>
    intro x hx
    simp only [b64enc, List.mem_cons] at hx
    rcases hx with rfl | rfl | rfl | rfl | hx
    · exact (b64char_ne _).2
    · exact (b64char_ne _).2
    · exact (b64char_ne _).2
    · exact (b64char_ne _).2
    · exact ih x hx

private theorem b64_roundtrip (l : Bytes) (h : ∀ x ∈ l, x < 256) : b64dec (b64enc l) = some l := by
  induction l using three_step with
  | h0 => rfl
  | h1 a =>
    have ha : a < 256 := h a (by simp)
    unfold b64enc b64dec
    rw [b64idx_char _ (by omega), b64idx_char _ (by omega)]
    simp only [and_self, if_true]
    congr 2; omega
  | h2 a b =>
    have ha : a < 256 := h a (by simp)
    have hb : b < 256 := h b (by simp)
    unfold b64enc b64dec
    rw [b64idx_char _ (by omega), b64idx_char _ (by omega)]
    simp only [and_self, if_true, (b64char_ne _).1, if_false]
    rw [b64idx_char _ (by omega)]
    simp only
    congr 2
    · omega
    · congr 1; omega
  | h3 a b c rest ih =>
    have ha : a < 256 := h a (by simp)
    have hb : b < 256 := h b (by simp)
    have hc : c < 256 := h c (by simp)
    have hrest := ih (fun x hx => h x (by simp [hx]))
    rw [b64enc]
    unfold b64dec
    rw [b64idx_char _ (by omega), b64idx_char _ (by omega)]
    simp only [(b64char_ne _).1, false_and, if_false]
    rw [b64idx_char _ (by omega), b64idx_char _ (by omega), hrest]
    simp only
    congr 2
    · omega
    · congr 1
      · omega
      · congr 1; omega

private theorem isDigit_iff (c : Nat) : isDigit c = true ↔ 48 ≤ c ∧ c ≤ 57 := by
  simp [isDigit]

private theorem escape_digits (s : Bytes) (h : s.all isDigit = true) : escape s = s := by
  induction s with
  | nil => simp [escape]
  | cons c rest ih =>
    simp only [List.all_cons, Bool.and_eq_true] at h
    have hc := (isDigit_iff c).mp h.1
    have ih' := ih h.2
    unfold escape
    split
    · cases ‹c :: rest = []›
    · rename_i heq; injection heq with h1 _; omega
    · rename_i heq; injection heq with h1 _; omega
    · rename_i c' rest' _ _ heq
      injection heq with h1 h2
      subst h1 h2
      rw [if_neg (by omega), if_neg (by omega), if_neg (by omega), if_neg (by omega), if_neg (by omega),
        if_neg (by omega), if_neg (by omega), if_neg (by omega), ih']

private theorem takeString_digits (s rest : Bytes) (h : s.all isDigit = true) :
    takeString (s ++ 34 :: rest) = some (s, rest) := by
  induction s with
  | nil => simp only [List.nil_append]; unfold takeString; simp
  | cons c t ih =>
    simp only [List.all_cons, Bool.and_eq_true] at h
    have hc := (isDigit_iff c).mp h.1
    simp only [List.cons_append]
    unfold takeString
    rw [if_neg (by omega), if_neg (by omega), if_neg (by omega), ih h.2]
    rfl

private theorem takeUntilQuote_append (s rest : Bytes) (h : ∀ c ∈ s, c ≠ 34) :
    takeUntilQuote (s ++ 34 :: rest) = some (s, rest) := by
  induction s with
  | nil => simp [takeUntilQuote]
  | cons c t ih =>
    simp only [List.cons_append]
    unfold takeUntilQuote
    rw [if_neg (h c (by simp)), ih (fun x hx => h x (by simp [hx]))]
    rfl

private theorem stripPrefix_append (p s : Bytes) : stripPrefix p (p ++ s) = some s := by
  induction p with
  | nil => simp [stripPrefix]
  | cons c t ih => simp [stripPrefix, ih]

private theorem decode_encode_nil (block : Bytes) (hb : block.all isDigit = true) :
    decodeObs (encodeObs block []) = some (block, []) := by
  unfold decodeObs encodeObs
  rw [escape_digits block hb]
  simp only [List.append_assoc, stripPrefix_append]
  rw [show ([34, 44, 34, 50, 34, 58, 91] ++ (joinComma (List.map encId []) ++ [93, 125, 10]) : Bytes)
        = 34 :: ([44, 34, 50, 34, 58, 91] ++ [93, 125, 10]) from rfl]
  rw [takeString_digits block _ hb]
  simp only [stripPrefix_append]

private theorem decode_encode_one (block id : Bytes) (hb : block.all isDigit = true)
    (hi : id.all isDigit = true) :
    decodeObs (encodeObs block [some id]) = some (block, [some id]) := by
  have hlt : ∀ x ∈ id, x < 256 := by
    intro x hx
    have := (isDigit_iff x).mp (List.all_eq_true.mp hi x hx)
    omega
  unfold decodeObs encodeObs
  rw [escape_digits block hb]
  simp only [List.append_assoc, stripPrefix_append]
  rw [show ([34, 44, 34, 50, 34, 58, 91] ++ (joinComma (List.map encId [some id]) ++ [93, 125, 10]) : Bytes)
        = 34 :: ([44, 34, 50, 34, 58, 91] ++ (34 :: (b64enc id ++ 34 :: [93, 125, 10]))) from by
          simp [joinComma, encId]]
  rw [takeString_digits block _ hb]
  simp only [stripPrefix_append]
  simp only [List.length_cons]
  unfold decodeIds
  simp only [takeUntilQuote_append (b64enc id) [93, 125, 10] (b64enc_noquote id), Option.bind_some,
    b64_roundtrip id hlt, Option.map_some]

private theorem encode_nil_length (block : Bytes) (hb : block.all isDigit = true) :
    (encodeObs block []).length = block.length + 16 := by
  unfold encodeObs; rw [escape_digits block hb]; simp [joinComma]

private theorem encode_one_length (block id : Bytes) (hb : block.all isDigit = true) :
    (encodeObs block [some id]).length = block.length + 18 + 4 * ((id.length + 2) / 3) := by
  unfold encodeObs; rw [escape_digits block hb]; simp [joinComma, encId, b64enc_length]; omega

/-! ### the observation: only ids last sampled eligible and not in flight, at most one, fits and decodes -/

/-- the identifiers staged by a head are exactly those of results that `Eligible` accepted without
error and whose `Detail` did not fail (an unsplittable key stages the nil identifier) -/
theorem stage_only_eligible (rs : List HeadRes) :
    ∀ id ∈ stageIds rs, ∃ r ∈ rs, r.eligible = true ∧ r.eligErr = false ∧ r.detailErr = false ∧
      id = (splitKey r.key).map (·.2) := by
  induction rs with
  | nil => simp [stageIds]
  | cons r rs ih =>
    intro id hid
    unfold stageIds at hid
    split at hid
    · obtain ⟨r', h1, h2⟩ := ih id hid; exact ⟨r', List.mem_cons_of_mem _ h1, h2⟩
    · rename_i he
      split at hid
      · obtain ⟨r', h1, h2⟩ := ih id hid; exact ⟨r', List.mem_cons_of_mem _ h1, h2⟩
      · rename_i hel
        split at hid
        · obtain ⟨r', h1, h2⟩ := ih id hid; exact ⟨r', List.mem_cons_of_mem _ h1, h2⟩
        · rename_i hd
          rcases List.mem_cons.mp hid with rfl | hid
          · refine ⟨r, by simp, by simpa using hel, by simpa using he, by simpa using hd, ?_⟩
            cases splitKey r.key with
            | none => rfl
            | some p => rfl
          · obtain ⟨r', h1, h2⟩ := ih id hid; exact ⟨r', List.mem_cons_of_mem _ h1, h2⟩

/-- *last sampled*: after a head whose sampling succeeded the stager holds that head's block and
eligible identifiers, whatever was staged before; a head whose sampling failed changes nothing -/
theorem staged_from_last_sample (st : Stager) (heads : List Head) (h : Head) :
    (heads ++ [h]).foldl processHead st =
      if h.srcErr = true ∨ h.active = 0 ∨ h.runErr = true then heads.foldl processHead st
      else { block := h.block, ids := stageIds h.results } := by
  rw [List.foldl_append]
  simp only [List.foldl_cons, List.foldl_nil, processHead]
  by_cases h1 : h.srcErr = true
  · simp [h1]
  · by_cases h2 : h.active = 0
    · simp [h1, h2]
    · by_cases h3 : h.runErr = true
      · simp [h1, h2, h3]
      · simp [h1, h2, h3]

/-- `Observe` lists only staged identifiers whose key at the staged block is not pending -/
theorem observe_only_staged_not_pending (pend : Bytes → Bool) (st : Stager) :
    (observe pend st).1 = st.block ∧
    ∀ id ∈ (observe pend st).2, id ∈ st.ids ∧ pend (mkKey st.block (idBytes id)) = false := by
  refine ⟨rfl, ?_⟩
  intro id hid
  simp only [observe, List.mem_filter, Bool.not_eq_true'] at hid
  exact hid

/-- **observation_le_one_id.**  Whatever the observer returns and however it is shuffled, the
observation carries at most `ObservationUpkeepsLimit` (= 1) identifiers, all of them from the observer. -/
theorem observation_le_one_id (sh : List (Option Bytes) → List (Option Bytes))
    (hsh : ∀ l, ∀ x ∈ sh l, x ∈ l) (ids : List (Option Bytes)) :
    (observationIds sh ids).length ≤ Gen.v2ObservationUpkeepsLimit ∧
    ∀ x ∈ observationIds sh ids, x ∈ ids := by
  unfold observationIds
  simp only
  split
  · refine ⟨by rw [List.length_take]; omega, ?_⟩
    intro x hx; exact hsh _ x (List.mem_of_mem_take hx)
  · refine ⟨by omega, ?_⟩
    intro x hx; exact hsh _ x hx

private theorem processHead_eq (st : Stager) (h : Head) :
    processHead st h = if headSampled h = true then { block := h.block, ids := stageIds h.results } else st := by
  unfold processHead headSampled
  by_cases h1 : h.srcErr = true
  · simp [h1]
  · by_cases h2 : h.active = 0
    · simp [h1, h2]
    · by_cases h3 : h.runErr = true
      · simp [h1, h2, h3]
      · simp [h1, h2, h3]

private theorem foldl_processHead_cases (heads : List Head) (st0 : Stager) :
    heads.foldl processHead st0 = st0 ∨
    ∃ h ∈ heads, headSampled h = true ∧
      heads.foldl processHead st0 = { block := h.block, ids := stageIds h.results } := by
  induction heads generalizing st0 with
  | nil => exact Or.inl rfl
  | cons h t ih =>
    simp only [List.foldl_cons]
    rcases ih (processHead st0 h) with hq | ⟨h', hm, hs, hq⟩
    · rw [hq, processHead_eq]
      by_cases hsamp : headSampled h = true
      · exact Or.inr ⟨h, by simp, hsamp, by rw [if_pos hsamp]⟩
      · exact Or.inl (by rw [if_neg hsamp])
    · exact Or.inr ⟨h', List.mem_cons_of_mem _ hm, hs, hq⟩

/-- **observed_ids_eligible_at_block.**  At every observation point — after `n` heads, or while head
`n` is still being sampled (`stagerAt`) — every identifier that `Observation` can list was returned
by the sampling of a head whose block is the very block the observation carries, as a result that
`Eligible` accepted without error (and `Detail` did not fail), and its key at that block is not
pending.  In particular nothing sampled ineligible at that block, and nothing staged so far for the
head in progress, can appear. -/
theorem observed_ids_eligible_at_block (heads : List Head) (n : Nat) (pend : Bytes → Bool)
    (sh : List (Option Bytes) → List (Option Bytes)) (hsh : ∀ l, ∀ x ∈ sh l, x ∈ l) :
    ∀ id ∈ observationIds sh (observe pend (stagerAt heads n)).2,
      pend (mkKey (stagerAt heads n).block (idBytes id)) = false ∧
      ∃ h ∈ heads.take n, headSampled h = true ∧ h.block = (stagerAt heads n).block ∧
        ∃ r ∈ h.results, r.eligible = true ∧ r.eligErr = false ∧ r.detailErr = false ∧
          id = (splitKey r.key).map (·.2) := by
  intro id hid
  have h1 := (observation_le_one_id sh hsh _).2 id hid
  simp only [observe, List.mem_filter, Bool.not_eq_true'] at h1
  refine ⟨h1.2, ?_⟩
  unfold stagerAt at h1 ⊢
  rcases foldl_processHead_cases (heads.take n) {} with hq | ⟨h, hm, hs, hq⟩
  · rw [hq] at h1; simp at h1
  · rw [hq] at h1 ⊢
    obtain ⟨r, hr, he⟩ := stage_only_eligible h.results id h1.1
    exact ⟨h, hm, hs, rfl, r, hr, he⟩

private theorem lle_nil (block : Bytes) (limit : Nat) :
    limitedLengthEncode block [] limit = encodeObs block [] := by
  simp [limitedLengthEncode]

private theorem lle_one (block : Bytes) (x : Option Bytes) (limit : Nat)
    (h : (encodeObs block [x]).length ≤ limit) :
    limitedLengthEncode block [x] limit = encodeObs block [x] := by
  unfold limitedLengthEncode
  simp only [List.length_cons, List.length_nil, Nat.zero_add, Nat.succ_ne_zero, if_false]
  unfold lleGo
  simp only [Nat.zero_add, List.take_succ_cons, List.take_zero]
  rw [if_neg (by omega)]
  unfold lleGo
  rfl

/-- **observation_fits_and_decodes.**  For a staged block key of at most 20 digits and identifiers
of at most 78 decimal digits (every `uint64` block number, every `uint256` upkeep id), whatever the
coordinator and the shuffle do: the observation is at most 142 ≤ `MaxObservationLength` (1000) bytes
long and strictly decodes to the staged block and exactly the identifiers chosen. -/
theorem observation_fits_and_decodes (sh : List (Option Bytes) → List (Option Bytes))
    (hsh : ∀ l, ∀ x ∈ sh l, x ∈ l) (pend : Bytes → Bool) (st : Stager) (hd : inDomain st = true) :
    (observation sh pend st).length ≤ 142 ∧
    (observation sh pend st).length ≤ Gen.v2MaxObservationLength ∧
    decodeObs (observation sh pend st) = some (st.block, observationIds sh (observe pend st).2) := by
  simp only [inDomain, Bool.and_eq_true, decide_eq_true_eq, List.all_eq_true] at hd
  obtain ⟨⟨hb1, hb2⟩, hids⟩ := hd
  have hb1' : st.block.all isDigit = true := List.all_eq_true.mpr hb1
  obtain ⟨hlen, hmem⟩ := observation_le_one_id sh hsh (observe pend st).2
  have hdom : ∀ x ∈ observationIds sh (observe pend st).2,
      ∃ b, x = some b ∧ b.all isDigit = true ∧ b.length ≤ 78 := by
    intro x hx
    have hx' := ((observe_only_staged_not_pending pend st).2 x (hmem x hx)).1
    have := hids x hx'
    cases x with
    | none => simp at this
    | some b =>
      simp only [Bool.and_eq_true, decide_eq_true_eq, List.all_eq_true] at this
      exact ⟨b, rfl, List.all_eq_true.mpr this.1, this.2⟩
  have hobs : observation sh pend st =
      limitedLengthEncode st.block (observationIds sh (observe pend st).2) Gen.v2MaxObservationLength := rfl
  rw [hobs]
  generalize observationIds sh (observe pend st).2 = ids at hlen hdom ⊢
  match ids, hlen, hdom with
  | [], _, _ =>
    rw [lle_nil, encode_nil_length _ hb1', decode_encode_nil _ hb1']
    simp only [Gen.v2MaxObservationLength]
    exact ⟨by omega, by omega, trivial⟩
  | [x], _, hdom =>
    obtain ⟨b, rfl, hbd, hbl⟩ := hdom x (by simp)
    have hl := encode_one_length st.block b hb1'
    have hle : (encodeObs st.block [some b]).length ≤ 142 := by omega
    rw [lle_one _ _ _ (by simp only [Gen.v2MaxObservationLength]; omega), decode_encode_one _ _ hb1' hbd]
    simp only [Gen.v2MaxObservationLength]
    exact ⟨by omega, by omega, trivial⟩
  | _ :: _ :: _, hlen, _ => simp [Gen.v2ObservationUpkeepsLimit] at hlen

/-- **spec_observation_model.**  In the domain of the size clause the model's observation satisfies
the decidable predicate the oracle evaluates on the implementation's observation bytes. -/
theorem spec_observation_model (sh : List (Option Bytes) → List (Option Bytes))
    (hsh : ∀ l, ∀ x ∈ sh l, x ∈ l) (pend : Bytes → Bool) (st : Stager) (hd : inDomain st = true) :
    specObservation st pend (observation sh pend st) (decodeObs (observation sh pend st)) = true := by
  obtain ⟨_, h2, h3⟩ := observation_fits_and_decodes sh hsh pend st hd
  obtain ⟨hlen, hmem⟩ := observation_le_one_id sh hsh (observe pend st).2
  unfold specObservation
  rw [h3]
  simp only [Bool.and_eq_true, decide_eq_true_eq, List.all_eq_true, Bool.or_eq_true,
    Bool.not_eq_true', Option.isSome_some, beq_self_eq_true, and_true]
  exact ⟨⟨⟨trivial, hlen⟩, fun x hx => List.contains_iff_mem.mpr (hmem x hx)⟩, Or.inr h2⟩

set_option maxRecDepth 20000 in
/-- non-vacuity: two heads (the second sampled), one of three eligible ids in flight, a 78-digit id -/
example :
    let big : Bytes := List.replicate 78 57
    let st := [⟨[49, 48], 3, false, false, [⟨[49, 48, 124, 53], true, false, false⟩]⟩,
               ⟨[49, 49], 3, false, false, [⟨[49, 49, 124, 55], true, false, false⟩,
                 ⟨[49, 49, 124, 56], false, false, false⟩, ⟨[49, 49, 124] ++ big, true, false, false⟩,
                 ⟨[49, 49, 124, 57], true, true, false⟩]⟩].foldl processHead {}
    let pend : Bytes → Bool := fun k => k == [49, 49, 124, 55]
    inDomain st = true ∧ (observe pend st).2 = [some big] ∧
    (observation id pend st).length = 124 ∧
    decodeObs (observation id pend st) = some ([49, 49], [some big]) := by decide

/-! ### every valid block key / upkeep identifier is inside the domain of the size clause -/

private theorem foldl_dec_ge (t : Bytes) (acc : Nat) :
    acc * 10 ^ t.length ≤ t.foldl (fun a c => a * 10 + (c - 48)) acc := by
  induction t generalizing acc with
  | nil => simp
  | cons c t ih =>
    simp only [List.foldl_cons, List.length_cons]
    refine Nat.le_trans ?_ (ih (acc * 10 + (c - 48)))
    rw [Nat.pow_succ, Nat.mul_comm (10 ^ t.length) 10, ← Nat.mul_assoc]
    exact Nat.mul_le_mul_right _ (Nat.le_add_right _ _)

private theorem canon_len (s : Bytes) (M k : Nat) (hk : 1 ≤ k) (hM : M < 10 ^ k)
    (hc : canonDec s = true) (hv : decVal s ≤ M) : s.all isDigit = true ∧ s.length ≤ k := by
  simp only [canonDec, Bool.and_eq_true, Bool.or_eq_true, beq_iff_eq, bne_iff_ne, ne_eq,
    Bool.not_eq_true'] at hc
  obtain ⟨⟨_, hd⟩, hh⟩ := hc
  refine ⟨hd, ?_⟩
  cases s with
  | nil => simp
  | cons h t =>
    rcases hh with hh | hh
    · simp only [List.length_cons] at hh ⊢; omega
    · simp only [List.head?_cons, Option.some.injEq] at hh
      simp only [List.all_cons, Bool.and_eq_true] at hd
      have hh' := (isDigit_iff h).mp hd.1
      have h1 := foldl_dec_ge t (0 * 10 + (h - 48))
      have h2 : 10 ^ t.length ≤ (0 * 10 + (h - 48)) * 10 ^ t.length :=
        Nat.le_mul_of_pos_left _ (by omega)
      have h3 : decVal (h :: t) = t.foldl (fun a c => a * 10 + (c - 48)) (0 * 10 + (h - 48)) := rfl
      have h4 : 10 ^ t.length < 10 ^ k := by omega
      have := (Nat.pow_lt_pow_iff_right (by decide : 1 < 10)).mp h4
      simp only [List.length_cons]; omega

/-- a block key that passes `ValidateBlockKey` has at most 20 digits -/
theorem valid_block_len (s : Bytes) (h : validBlock s = true) : s.all isDigit = true ∧ s.length ≤ 20 := by
  simp only [validBlock, Bool.and_eq_true, decide_eq_true_eq] at h
  exact canon_len s maxBlockNumber 20 (by decide) (by decide) h.1 h.2

/-- an identifier that passes `ValidateUpkeepIdentifier` (any `uint256`) has at most 78 digits -/
theorem valid_id_len (s : Bytes) (h : validId s = true) : s.all isDigit = true ∧ s.length ≤ 78 := by
  simp only [validId, Bool.and_eq_true, decide_eq_true_eq] at h
  exact canon_len s maxUpkeepIdentifier 78 (by decide) (by decide) h.1 h.2

/-- hence a stager holding a valid block key and valid identifiers is in the domain of
`observation_fits_and_decodes` -/
theorem valid_in_domain (st : Stager) (hb : validBlock st.block = true)
    (hi : ∀ x ∈ st.ids, ∃ b, x = some b ∧ validId b = true) : inDomain st = true := by
  have h1 := valid_block_len st.block hb
  simp only [inDomain, Bool.and_eq_true, decide_eq_true_eq, List.all_eq_true]
  refine ⟨⟨List.all_eq_true.mp h1.1, h1.2⟩, ?_⟩
  intro x hx
  obtain ⟨b, rfl, hv⟩ := hi x hx
  have h2 := valid_id_len b hv
  simp only [Bool.and_eq_true, decide_eq_true_eq, List.all_eq_true]
  exact ⟨List.all_eq_true.mp h2.1, h2.2⟩

example : validBlock [49, 56, 52, 52, 54, 55, 52, 52, 48, 55, 51, 55, 48, 57, 53, 53, 49, 54, 49, 53] = true ∧
    validBlock [49, 56, 52, 52, 54, 55, 52, 52, 48, 55, 51, 55, 48, 57, 53, 53, 49, 54, 49, 54] = false ∧
    validBlock [48, 48, 55] = false ∧ validBlock [45, 49] = false ∧ validBlock [] = false ∧
    validBlock [48] = true := by decide

/-! ### the block key of the round is the median, and it is Byzantine-robust -/

private theorem foldl_dec_split (l : Bytes) (a : Nat) :
    l.foldl (fun a c => a * 10 + (c - 48)) a = a * 10 ^ l.length + l.foldl (fun a c => a * 10 + (c - 48)) 0 := by
  induction l generalizing a with
  | nil => simp
  | cons c l ih =>
    simp only [List.foldl_cons, List.length_cons]
    rw [ih (a * 10 + (c - 48)), ih (0 * 10 + (c - 48))]
    rw [Nat.pow_succ, Nat.add_mul, Nat.zero_mul, Nat.zero_add, Nat.mul_assoc, Nat.mul_comm 10 (10 ^ l.length)]
    omega

private theorem decAux_val (fuel n : Nat) (acc : Bytes) (h : n < fuel) :
    decVal (decAux fuel n acc) = n * 10 ^ acc.length + decVal acc := by
  induction fuel generalizing n acc with
  | zero => omega
  | succ fuel ih =>
    unfold decAux
    split
    · unfold decVal
      simp only [List.foldl_cons]
      rw [foldl_dec_split]
      simp
    · rw [ih (n / 10) _ (by omega)]
      unfold decVal
      simp only [List.foldl_cons, List.length_cons]
      rw [foldl_dec_split acc (0 * 10 + (48 + n % 10 - 48))]
      rw [Nat.pow_succ]
      have h1 : 48 + n % 10 - 48 = n % 10 := by omega
      rw [h1, Nat.zero_mul, Nat.zero_add]
      have h2 : n = n / 10 * 10 + n % 10 := by omega
      generalize 10 ^ acc.length = p
      generalize List.foldl (fun a c => a * 10 + (c - 48)) 0 acc = q
      rw [← Nat.mul_assoc (n / 10) p 10, Nat.mul_right_comm (n / 10) p 10, ← Nat.add_assoc, ← Nat.add_mul, ← h2]

/-- `big.Int.String()` followed by `SetString` gives the number back -/
theorem decVal_decOf (n : Nat) : decVal (decOf n) = n := by
  unfold decOf
  rw [decAux_val (n + 1) n [] (by omega)]
  simp [decVal]

/-- **median_block_between_honest.**  The block key carried by every checked key (`checked_keys`)
reads back as the upper median of the valid observations' block numbers; if those are — in any
order — the blocks of honest oracles plus at most `F` faulty ones, `≥ 2F+1` in total, it lies
between two honest oracles' blocks, whatever the faulty ones report ("0", 2^64−1, …). -/
theorem median_block_between_honest (attr : List (Option Obs)) (hs fs : List Nat) (F : Nat)
    (hperm : (validBlocks attr).Perm (hs ++ fs)) (hf : fs.length ≤ F)
    (hm : 2 * F + 1 ≤ (validBlocks attr).length) :
    decVal (medianBlock attr) = median (validBlocks attr) ∧
    ∃ a ∈ hs, ∃ b ∈ hs, a ≤ decVal (medianBlock attr) ∧ decVal (medianBlock attr) ≤ b := by
  have h : decVal (medianBlock attr) = median (validBlocks attr) := decVal_decOf _
  refine ⟨h, ?_⟩
  rw [h]
  exact median_between_honest _ hs fs F hperm hf hm

/-- non-vacuity: honest 100,101,102 and one faulty 2^64−1 → block 102 -/
example :
    let attr : List (Option Obs) := [some ⟨[49, 48, 49], []⟩,
      some ⟨[49, 56, 52, 52, 54, 55, 52, 52, 48, 55, 51, 55, 48, 57, 53, 53, 49, 54, 49, 53], []⟩,
      some ⟨[49, 48, 48], []⟩, some ⟨[49, 48, 50], []⟩]
    (validBlocks attr).Perm ([101, 100, 102] ++ [18446744073709551615]) ∧ medianBlock attr = [49, 48, 50] := by
  decide

end AutoVerif.C16
