import AutoVerif.Props.C18
import AutoVerif.Gen.Consts
/-
C18Tie — the tie theorems of Props/C18.lean (`…_matches_source`): the model's decision functions equal the
decision expressions `AutoVerif.Gen.Src.*` that the extractor regenerates from the Go source on every check run
(docs/TIE_THEOREMS.md).  They live in a module of their own, which nothing but AutoVerif.lean (and another
property's Tie module, where a tie is reused) imports: a source change that breaks a tie here breaks this
property's check (bin/check audits every module `Props/C18*.lean`) and not the build of the theorem
modules of other properties that import Props/C18.lean.
-/
namespace AutoVerif.C18

/-! ### tie theorems: the model's decisions ARE the decision expressions regenerated from the source (`Gen.Src`) -/

/-- `recoverer.Start`: `if m.running.Load() { return ErrServiceAlreadyStarted }` -/
theorem recovererStart_matches_source (c : Core) :
    stepCore c .sInit =
      if c.spc = .init then (if Gen.Src.c18StartRefused c.running then some { c with spc := .done } else some { c with spc := .spawn })
      else none := by
  cases h : c.running <;> simp [stepCore, Gen.Src.c18StartRefused, h]

/-- `recoverer.Close`: `if !m.running.Load() { return ErrServiceNotRunning }` — the test every Close-race theorem
    ((a), (b), the cool-down) hinges on -/
theorem recovererClose_matches_source (c : Core) :
    stepCore c .cLoad =
      if c.cpc = .load then
        (if Gen.Src.c18CloseRefused c.running then some { c with cpc := .ret, cres := .notRunning } else some { c with cpc := .svcClose })
      else none := by
  cases h : c.running <;> simp [stepCore, Gen.Src.c18CloseRefused, h]

/-- `recoverer.serviceStart`, `case err := <-m.stopped`: `err != nil`, then `errors.Is(err, errServiceStopped)` (cool-down and
    restart) and `errors.Is(err, errServiceContextCancelled)` (clear the flag and return) -/
theorem serviceStartRecv_matches_source (m : Msg) :
    afterRecv m =
      if Gen.Src.c18RecvIsError m.errCode 0 then
        (if Gen.Src.c18RecvRestarts (decide (m = .stopped)) then .cool
         else if Gen.Src.c18RecvStops (decide (m = .cancelled)) then .clear else .sel)
      else .sel := by
  cases m <;> simp [afterRecv, Msg.errCode, Gen.Src.c18RecvIsError, Gen.Src.c18RecvRestarts, Gen.Src.c18RecvStops]

/-- the services with their own `running` flag use the recoverer's guard: metadata store, runner (v3) and the v2 report
    coordinator (`if !running { start }` / `if running { stop }`, i.e. the same test with the branches swapped) -/
theorem ownFlagGuards_match_source (running : Bool) :
    flagStartRefuses running = Gen.Src.c18StartRefused running ∧
    flagCloseRefuses running = Gen.Src.c18CloseRefused running ∧
    flagStartRefuses running = Gen.Src.c18MetaStartRefused running ∧
    flagCloseRefuses running = Gen.Src.c18MetaCloseRefused running ∧
    flagStartRefuses running = Gen.Src.c18RunnerStartRefused running ∧
    flagCloseRefuses running = Gen.Src.c18RunnerCloseRefused running ∧
    flagStartRefuses running = !Gen.Src.c18V2StartProceeds running ∧
    flagCloseRefuses running = !Gen.Src.c18V2CloseProceeds running := by
  cases running <;> simp [flagStartRefuses, flagCloseRefuses, Gen.Src.c18StartRefused, Gen.Src.c18CloseRefused,
    Gen.Src.c18MetaStartRefused, Gen.Src.c18MetaCloseRefused, Gen.Src.c18RunnerStartRefused, Gen.Src.c18RunnerCloseRefused,
    Gen.Src.c18V2StartProceeds, Gen.Src.c18V2CloseProceeds]

/-- `timeTicker.Start`: `if t.getterFn == nil { continue }` -/
theorem tickerSkip_matches_source (getter nilFn : Nat) :
    tickSkipped getter nilFn = Gen.Src.c18TickNoGetter getter nilFn := rfl

end AutoVerif.C18
