import AutoVerif.Props.C18
import AutoVerif.Gen.Consts
/-
C18Tie — the tie theorems of Props/C18.lean (`…_matches_source`): the model's decision functions equal the
decision expressions `AutoVerif.Gen.Src.*` that the extractor regenerates from the Go source on every check run
(docs/TIE_THEOREMS.md).  They live in a module of their own, which nothing but AutoVerif.lean (and another
property's Tie module, where a tie is reused) imports: a source change that breaks a tie here breaks this
property's check (bin/check audits every module `Props/C18*.lean`) and not the build of the theorem
modules of other properties that import Props/C18.lean.
-/
namespace AutoVerif.C18

/-! ### tie theorems: the model's decisions ARE the decision expressions regenerated from the source (`Gen.Src`) -/

/-- `recoverer.Start`: `if m.running.Load() { return ErrServiceAlreadyStarted }` -/
theorem recovererStart_matches_source (c : Core) :
    stepCore c .sInit =
      if c.spc = .init then (if Gen.Src.c18StartRefused c.running then some { c with spc := .done } else some { c with spc := .spawn })
      else none := by
  cases h : c.running <;> simp [stepCore, Gen.Src.c18StartRefused, h]

/-- `recoverer.Close`: `if !m.running.Load() { return ErrServiceNotRunning }` — the test every Close-race theorem
    ((a), (b), the cool-down) hinges on -/
theorem recovererClose_matches_source (c : Core) :
    stepCore c .cLoad =
      if c.cpc = .load then
        (if Gen.Src.c18CloseRefused c.running then some { c with cpc := .ret, cres := .notRunning } else some { c with cpc := .svcClose })
      else none := by
  cases h : c.running <;> simp [stepCore, Gen.Src.c18CloseRefused, h]

/-- `recoverer.serviceStart`, `case err := <-m.stopped`: `err != nil`, then `errors.Is(err, errServiceStopped)` (cool-down and
    restart) and `errors.Is(err, errServiceContextCancelled)` (clear the flag and return) -/
theorem serviceStartRecv_matches_source (m : Msg) :
    afterRecv m =
      if Gen.Src.c18RecvIsError m.errCode 0 then
        (if Gen.Src.c18RecvRestarts (decide (m = .stopped)) then .cool
         else if Gen.Src.c18RecvStops (decide (m = .cancelled)) then .clear else .sel)
      else .sel := by
  cases m <;> simp [afterRecv, Msg.errCode, Gen.Src.c18RecvIsError, Gen.Src.c18RecvRestarts, Gen.Src.c18RecvStops]

/-- the services with their own `running` flag use the recoverer's guard: metadata store, runner (v3) and the v2 report
    coordinator (`if !running { start }` / `if running { stop }`, i.e. the same test with the branches swapped) -/
theorem ownFlagGuards_match_source (running : Bool) :
    flagStartRefuses running = Gen.Src.c18StartRefused running ∧
    flagCloseRefuses running = Gen.Src.c18CloseRefused running ∧
    flagStartRefuses running = Gen.Src.c18MetaStartRefused running ∧
    flagCloseRefuses running = Gen.Src.c18MetaCloseRefused running ∧
    flagStartRefuses running = Gen.Src.c18RunnerStartRefused running ∧
    flagCloseRefuses running = Gen.Src.c18RunnerCloseRefused running ∧
    flagStartRefuses running = !Gen.Src.c18V2StartProceeds running ∧
    flagCloseRefuses running = !Gen.Src.c18V2CloseProceeds running := by
  cases running <;> simp [flagStartRefuses, flagCloseRefuses, Gen.Src.c18StartRefused, Gen.Src.c18CloseRefused,
    Gen.Src.c18MetaStartRefused, Gen.Src.c18MetaCloseRefused, Gen.Src.c18RunnerStartRefused, Gen.Src.c18RunnerCloseRefused,
    Gen.Src.c18V2StartProceeds, Gen.Src.c18V2CloseProceeds]

/-- `timeTicker.Start`: `if t.getterFn == nil { continue }` -/
theorem tickerSkip_matches_source (getter nilFn : Nat) :
    tickSkipped getter nilFn = Gen.Src.c18TickNoGetter getter nilFn := rfl

/-- `timeTicker.Start`, after the getter call: `if err != nil { …; continue }` — with `tickerSkip_matches_source`: a tick
    spawns a `Process` goroutine iff there is a getter and it returned no error -/
theorem tickSpawns_matches_source (getter nilFn err nilErr : Nat) :
    tickSpawns getter nilFn err nilErr = (!Gen.Src.c18TickNoGetter getter nilFn && !Gen.Src.c18TickGetterFailed err nilErr) := rfl

/-- OCR2 `ocrPlugin.Close`, body of `for _, proc := range p.subProcs`: an error of a sub-service's Close is recorded
    (`finalErr = errors.Join(…)`, the marked effect) and the body is left neither by `return` nor by `break` — the loop
    goes on to the next sub-service; OCR3 `ocr3Plugin.Close`: the body has no exit at all.  Hence `closeAll`: every
    sub-service is closed, every error reported (and not `closeUntilError`). -/
theorem closeLoops_tree_match_source (closeErr : Bool) :
    (Gen.Src.c18V2CloseLoopKind (Gen.Src.c18V2CloseLoop closeErr) = if closeErr then 4 else 0) ∧
    (Gen.Src.c18V2CloseLoopMark (Gen.Src.c18V2CloseLoop closeErr) = if closeErr then 1 else 0) ∧
    Gen.Src.c18V3CloseLoop = 0 ∧
    (closeAll [closeErr]).2 = (if Gen.Src.c18V2CloseLoopMark (Gen.Src.c18V2CloseLoop closeErr) = 1 then 1 else 0) := by
  cases closeErr <;> simp [Gen.Src.c18V2CloseLoop, Gen.Src.c18V2CloseLoopKind, Gen.Src.c18V2CloseLoopMark, Gen.Src.c18V3CloseLoop, closeAll]

/-- `plugin.newPlugin`: the order of the three error tests, what each exit returns (`nil` instance at the three error
    exits), and that `plugin.startServices()` — the only statement that starts anything — is reached exactly when none of
    them fired -/
theorem newPlugin_tree_matches_source (subErr runnerErr lateErr : Bool) (n : Nat) :
    (newPluginOutcome subErr runnerErr lateErr n).1 =
      (if Gen.Src.c18NewPluginKind (Gen.Src.c18NewPlugin subErr runnerErr lateErr) = 4 then Ctor.built else Ctor.failed) ∧
    ((newPluginOutcome subErr runnerErr lateErr n).1 = .failed ↔
      Gen.Src.c18NewPluginNil1 (Gen.Src.c18NewPlugin subErr runnerErr lateErr) = true) ∧
    (Gen.Src.c18NewPluginMark (Gen.Src.c18NewPlugin subErr runnerErr lateErr) = 1 ↔ (newPluginOutcome subErr runnerErr lateErr n).2 = n ∧
      (newPluginOutcome subErr runnerErr lateErr n).1 = .built) ∧
    Gen.Src.c18NewPluginNil1 5 = false ∧ Gen.Src.c18NewPluginKind 5 = 1 := by
  cases subErr <;> cases runnerErr <;> cases lateErr <;>
    simp [newPluginOutcome, Gen.Src.c18NewPlugin, Gen.Src.c18NewPluginKind, Gen.Src.c18NewPluginNil1, Gen.Src.c18NewPluginMark]

/-- OCR3 `pluginFactory.NewReportingPlugin`: config decode, probability parse, sample ratio, `newPlugin` — in that order,
    a `nil` instance at each of the four error exits -/
theorem newReportingPlugin_tree_matches_source (cfgErr parseErr sampleErr pluginErr : Bool) (n : Nat) :
    ((newReportingPluginOutcome cfgErr parseErr sampleErr pluginErr n).1 = .failed ↔
      Gen.Src.c18NewReportingPluginNil1 (Gen.Src.c18NewReportingPlugin cfgErr parseErr sampleErr pluginErr) = true) ∧
    ((newReportingPluginOutcome cfgErr parseErr sampleErr pluginErr n).1 = .built ↔
      Gen.Src.c18NewReportingPlugin cfgErr parseErr sampleErr pluginErr = 5) ∧
    Gen.Src.c18NewReportingPluginKind (Gen.Src.c18NewReportingPlugin cfgErr parseErr sampleErr pluginErr) = 1 := by
  cases cfgErr <;> cases parseErr <;> cases sampleErr <;> cases pluginErr <;>
    simp [newReportingPluginOutcome, Gen.Src.c18NewReportingPlugin, Gen.Src.c18NewReportingPluginNil1, Gen.Src.c18NewReportingPluginKind]

/-- OCR2 `pluginFactory.NewReportingPlugin`: config decode, coordinator factory, observer factory — all three before the
    loop that starts the sub-services -/
theorem newReportingPluginV2_tree_matches_source (cfgErr coordErr obsErr : Bool) :
    ((newReportingPluginOutcomeV2 cfgErr coordErr obsErr).1 = .failed ↔
      Gen.Src.c18NewReportingPluginV2Nil1 (Gen.Src.c18NewReportingPluginV2 cfgErr coordErr obsErr) = true) ∧
    ((newReportingPluginOutcomeV2 cfgErr coordErr obsErr).1 = .built ↔ Gen.Src.c18NewReportingPluginV2 cfgErr coordErr obsErr = 4) := by
  cases cfgErr <;> cases coordErr <;> cases obsErr <;>
    simp [newReportingPluginOutcomeV2, Gen.Src.c18NewReportingPluginV2, Gen.Src.c18NewReportingPluginV2Nil1]

/-- `metadataStore.Close`: refused iff not running; otherwise `Unsubscribe` is called and after it there is exactly ONE
    way out, the final `return err` (exit 3; there is no exit 4) — no early return between the Unsubscribe call and the
    stop signal, which is what `unsubStops = true` says -/
theorem metaClose_tree_matches_source (running : Bool) :
    (Gen.Src.c18MetaCloseKind (Gen.Src.c18MetaClose running) = 1 ↔ flagCloseRefuses running = true) ∧
    (Gen.Src.c18MetaCloseMark (Gen.Src.c18MetaClose running) = 1 ↔ flagCloseRefuses running = false) ∧
    Gen.Src.c18MetaCloseKind 3 = 1 ∧ Gen.Src.c18MetaCloseKind 4 = 0 ∧ unsubStopsNow = true := by
  cases running <;> simp [Gen.Src.c18MetaClose, Gen.Src.c18MetaCloseKind, Gen.Src.c18MetaCloseMark, flagCloseRefuses, unsubStopsNow]

end AutoVerif.C18
