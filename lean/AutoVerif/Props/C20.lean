import AutoVerif.Spec.C20
/-
C20 — A simulation's verdict is faithful and its run upholds protocol invariants.   (PARTIAL)

Full statement (properties.jsonl): a simulation run exits with success status
exactly when the number of upkeeps performed on the simulated chain reaches the
count the plan expects (and stays zero when the plan expects none), it
terminates and prints its summary without crashing for any valid plan, a saved
plan can be loaded back unchanged, and repository code in the run is free of
data races.  In the run's own record every transmitted upkeep had been checked
at that check block by at least f+1 distinct simulated nodes and no transmitted
report is empty.

Proved here, for all inputs / schedules of the model (Model/C20.lean):
  * verdict   — `track_verdict`, `decision_faithful`, `decision_stable`, `verdict_iff`,
                `ticks_before_register_harmless`, `satisfied_incs_then_done`: whatever the order of selections,
                ticks and the close, `AllProgressComplete()` is true iff every registered counter is satisfied.
                Two defects of the tree before 1f2e429 / b727630 made the verdict vacuous; both were reproduced
                on the real code and the real binary, and are kept as counter-example theorems against
                `stepOld`: `verdict_vacuous_before_register`, `verdict_vacuous_start_race_old`.
  * plan      — `plan_roundtrip`, `plan_roundtrip_loaded` (current encoder, every plan value of the Go types),
                `plan_encode_leading_nulls_old` (the encoder before the fix can never be loaded again).
  * summary   — `findMedian_total`, `stats_total` (no index out of range for ANY length, nested quartile
                calls included), `stats_out_of_range_old` (old code: every input of length 0–5 and 7 panics).
  * expected  — `expectedPerforms_eq_spec` (the registered total is the count the plan expects),
                `expectedPerforms_append`, `expectedPerforms_unexpected`.
  * source    — `…_matches_source` (Props/C20Tie.lean): the model's decision functions equal the decision expressions regenerated from
                the current source (tick condition, track's loop/negative/close tests, exit status, namespace choice,
                expected-perform tests, `expected` default, median branch tests, outlier and IQR comparisons).
  * pipeline  — `isEligible_iff` (what the simulated check decides, for ascending eligible blocks),
                `performHistory_prefix` (the perform history handed to the check goroutines is append-only).
  * transmit  — `transmit_accepts_once`: with `Transmit` one critical section, each (report, round) is accepted
                exactly once in every order of the nodes' calls (the lock discipline itself is a fact about the
                code: checked by an un-timed concurrent stress on the real loader and by the race build).
  * churn     — `hub_locked_never_sends_closed`: with the registry's read lock held from the first step of a broadcast
                to its last send, no schedule of Subscribe / Unsubscribe / broadcast steps sends on a closed channel
                (plugin instances replaced by a later `ocr3config` event while the chain runs);
                `hub_unlocked_sends_closed` (lock released after the channels were taken: four steps crash the process),
                `hub_unlocked_safe_without_unsub` (no Unsubscribe while blocks flow — plans with one config event —
                cannot tell the two apart).  That the code holds the lock is a fact about the code: checked by the
                un-timed churn cases on the real chain pieces and real metadata stores.
NOT proved (no model here expresses them; reported from the runs as support only):
  termination and summary printing of the real simulator under libocr's schedules,
  data-race freedom, and the run-record predicate (`recordOk`) for real runs.
-/
namespace AutoVerif.C20

/-! ### verdict: one counter -/

private theorem foldl_trackStep_done (s : TState) (h : s.tr.done = true) (es : List Sel) :
    es.foldl trackStep s = s := by
  induction es with
  | nil => rfl
  | cons e es ih => simp [List.foldl, trackStep, h, ih]

private theorem track_pos (T : Nat) (hT : 0 < T) (es : List Sel) :
    ∀ (acc : Nat) (h : List Sel), acc < T →
      (es.foldl trackStep { total := T, tr := { total := T, value := acc, done := false, err := false },
                            failed := 0, hist := h }).ok = reachedFrom T acc es := by
  induction es with
  | nil => intro acc h _; simp [TState.ok, reachedFrom]
  | cons e es ih =>
    intro acc h hacc
    cases e with
    | inc n =>
      have hT0 : T ≠ 0 := by omega
      by_cases hr : acc + n ≥ T
      · have : trackStep { total := T, tr := { total := T, value := acc, done := false, err := false },
                           failed := 0, hist := h } (.inc n) =
            { total := T, tr := { total := (if acc + n > T then acc + n else T), value := acc + n, done := true, err := false },
              failed := 0, hist := h ++ [.inc n] } := by
          simp [trackStep, trackBody, hT0, Tracker.increment, Tracker.stop, hT, hr]
        simp only [List.foldl, this]
        rw [foldl_trackStep_done _ rfl]
        simp [TState.ok, reachedFrom, hr]
      · have : trackStep { total := T, tr := { total := T, value := acc, done := false, err := false },
                           failed := 0, hist := h } (.inc n) =
            { total := T, tr := { total := T, value := acc + n, done := false, err := false },
              failed := 0, hist := h ++ [.inc n] } := by
          simp [trackStep, trackBody, hT0, Tracker.increment, hr]
        simp only [List.foldl, this]
        rw [ih (acc + n) _ (by omega)]
        simp [reachedFrom, hr]
    | done =>
      have hT0 : T ≠ 0 := by omega
      have hne : acc ≠ T := by omega
      have : trackStep { total := T, tr := { total := T, value := acc, done := false, err := false },
                         failed := 0, hist := h } .done =
          { total := T, tr := { total := acc, value := acc, done := true, err := true },
            failed := 1, hist := h ++ [.done] } := by
        simp [trackStep, trackBody, hT0, hne, Tracker.markAsErrored, Tracker.stop]
      simp only [List.foldl, this]
      rw [foldl_trackStep_done _ rfl]
      simp [TState.ok, reachedFrom]

private theorem track_zero (es : List Sel) : (track 0 es).ok = satisfied 0 es := by
  cases es with
  | nil => simp [track, TState.ok, TState.init, satisfied]
  | cons e es =>
    cases e with
    | inc n =>
      have : trackStep (TState.init 0) (.inc n) =
          { total := 0, tr := { total := 0, value := 0, done := true, err := true }, failed := 1, hist := [.inc n] } := by
        simp [trackStep, trackBody, TState.init, Tracker.markAsErrored, Tracker.stop]
      simp only [track, List.foldl, this]
      rw [foldl_trackStep_done _ rfl]
      simp [TState.ok, satisfied]
    | done =>
      have : trackStep (TState.init 0) .done =
          { total := 0, tr := { total := 0, value := 0, done := true, err := false }, failed := 0, hist := [.done] } := by
        simp [trackStep, trackBody, TState.init, Tracker.markAsDone, Tracker.stop]
      simp only [track, List.foldl, this]
      rw [foldl_trackStep_done _ rfl]
      simp [TState.ok, satisfied]

/-- **One counter.**  Whatever selections its loop takes, a tracker ends "done and not failed" exactly when
its total was reached before the close was seen — for a zero total: when the close was seen before any
increment. -/
theorem track_verdict (T : Nat) (sels : List Sel) : (track T sels).ok = satisfied T sels := by
  by_cases hT : T = 0
  · subst hT; exact track_zero sels
  · have h := track_pos T (by omega) sels 0 [] (by omega)
    simp only [track, TState.init]
    rw [h]
    simp [satisfied, hT]

/-- **Increments after a counter has wound down change nothing** (its loop has returned; in the code they are
parked in their own goroutines — `go func() { chIncrements <- count }()` — so the caller, the block source,
is never held up, however many arrive). -/
theorem late_selections_ignored (T : Nat) (sels more : List Sel) (h : (track T sels).tr.done = true) :
    track T (sels ++ more) = track T sels := by
  unfold track at *
  rw [List.foldl_append, foldl_trackStep_done _ h]

example : (track 3 [.inc 1, .inc 2, .done]).ok = true := by decide
example : (track 3 [.inc 1, .inc 5, .inc 9]).ok = true := by decide      -- exceeding the total is accepted
example : (track 3 [.inc 1, .done, .inc 2]).ok = false := by decide      -- close seen first
example : (track 0 [.done]).ok = true := by decide
example : (track 0 [.inc 0, .done]).ok = false := by decide             -- even a zero-valued increment fails a zero total

private theorem reachedFrom_incs (T : Nat) (incs : List Nat) (rest : List Sel) :
    ∀ acc, acc < T → (reachedFrom T acc (incs.map .inc ++ .done :: rest) = true ↔ T ≤ acc + incs.sum) := by
  induction incs with
  | nil =>
    intro acc h
    simp [reachedFrom]
    omega
  | cons n ns ih =>
    intro acc h
    by_cases hr : acc + n ≥ T
    · simp [reachedFrom, hr]; omega
    · simp only [List.map_cons, List.cons_append, reachedFrom, hr, if_false, List.sum_cons]
      rw [ih (acc + n) (by omega)]
      omega

/-- **The usual shape of a run** (all increments of a counter are consumed, then the close): the counter is
satisfied iff the increments sum to at least the total — and, for a zero total, iff there was no increment
at all. -/
theorem satisfied_incs_then_done (T : Nat) (incs : List Nat) (rest : List Sel) :
    satisfied T (incs.map .inc ++ .done :: rest) =
      if T = 0 then incs.isEmpty else decide (T ≤ incs.sum) := by
  by_cases hT : T = 0
  · subst hT; cases incs <;> simp [satisfied]
  · simp only [satisfied, hT, if_false]
    have h := reachedFrom_incs T incs rest 0 (by omega)
    simp only [Nat.zero_add] at h
    cases hb : reachedFrom T 0 (incs.map .inc ++ .done :: rest)
    · have : ¬ T ≤ incs.sum := by intro hc; rw [h.mpr hc] at hb; exact Bool.noConfusion hb
      simp [this]
    · simp [h.mp hb]

example : satisfied 32 ([14, 6, 11].map .inc ++ [.done]) = false := by decide   -- only_log_trigger.json: 31 of 32

/-! ### verdict: the whole telemetry object -/

private def TInv (t : TState) : Prop := t = track t.total t.hist

private def PInv (s : PState) : Prop := ∀ t ∈ s.ts, TInv t

private theorem trackStep_total (t : TState) (e : Sel) : (trackStep t e).total = t.total := by
  unfold trackStep
  split
  · rfl
  · cases e with
    | inc n => simp only [trackBody]; split <;> rfl
    | done => simp only [trackBody]; split <;> (split <;> rfl)

private theorem tinv_step (t : TState) (e : Sel) (h : TInv t) : TInv (trackStep t e) := by
  by_cases hd : t.tr.done = true
  · simp [trackStep, hd]; exact h
  · have hh : (trackStep t e).hist = t.hist ++ [e] := by simp [trackStep, hd]
    unfold TInv
    rw [trackStep_total, hh, track, List.foldl_append]
    simp only [List.foldl]
    have : List.foldl trackStep (TState.init t.total) t.hist = t := by
      have := h; unfold TInv track at this; exact this.symm
    rw [this]

private theorem mem_modifyAt {α} (f : α → α) (i : Nat) (l : List α) (y : α) (hy : y ∈ modifyAt f i l) :
    y ∈ l ∨ ∃ x ∈ l, y = f x := by
  induction l generalizing i with
  | nil => simp [modifyAt] at hy
  | cons x xs ih =>
    cases i with
    | zero =>
      simp only [modifyAt, List.mem_cons] at hy
      rcases hy with hy | hy
      · exact Or.inr ⟨x, by simp, hy⟩
      · exact Or.inl (by simp [hy])
    | succ i =>
      simp only [modifyAt, List.mem_cons] at hy
      rcases hy with hy | hy
      · exact Or.inl (by simp [hy])
      · rcases ih i hy with h | ⟨z, hz, hzz⟩
        · exact Or.inl (by simp [h])
        · exact Or.inr ⟨z, by simp [hz], hzz⟩

private theorem pinv_step (s : PState) (ev : Ev) (h : PInv s) : PInv (step s ev) := by
  cases ev with
  | register T =>
    intro t ht
    simp only [step, List.mem_append, List.mem_singleton] at ht
    rcases ht with ht | ht
    · exact h t ht
    · subst ht; simp [TInv, TState.init, track]
  | sel i e =>
    simp only [step]
    split
    · exact h
    · intro t ht
      rcases mem_modifyAt _ _ _ _ ht with ht | ⟨x, hx, rfl⟩
      · exact h t ht
      · exact tinv_step x e (h x hx)
  | tick =>
    simp only [step]
    split
    · exact h
    · split
      · exact h
      · exact h
  | close => exact h
  | finish =>
    simp only [step]
    split
    · exact h
    · exact h
  | earlyExit => exact h

private theorem pinv_run_from (s : PState) (h : PInv s) (evs : List Ev) : PInv (evs.foldl step s) := by
  induction evs generalizing s with
  | nil => exact h
  | cons e es ih => exact ih _ (pinv_step s e h)

private theorem pinv_run (evs : List Ev) : PInv (run evs) :=
  pinv_run_from {} (by intro t ht; simp at ht) evs

private theorem all_ok_iff (ts : List TState) :
    (ts.all (·.tr.done) = true ∧ (ts.map (·.failed)).sum = 0) ↔ ts.all (·.ok) = true := by
  induction ts with
  | nil => simp
  | cons t ts ih =>
    simp only [List.all_cons, Bool.and_eq_true, List.map_cons, List.sum_cons]
    constructor
    · rintro ⟨⟨hd, hds⟩, hs⟩
      have h1 : t.failed = 0 := by omega
      have h2 : (ts.map (·.failed)).sum = 0 := by omega
      exact ⟨by simp [TState.ok, hd, h1], ih.mp ⟨hds, h2⟩⟩
    · rintro ⟨hok, hoks⟩
      have ⟨hds, h2⟩ := ih.mpr hoks
      simp only [TState.ok, Bool.and_eq_true, beq_iff_eq] at hok
      exact ⟨⟨hok.1, hds⟩, by omega⟩

private theorem all_ok_eq_satisfied (s : PState) (h : PInv s) :
    s.ts.all (·.ok) = s.ts.all (fun t => satisfied t.total t.hist) := by
  have hpt : ∀ t ∈ s.ts, t.ok = satisfied t.total t.hist := by
    intro t ht
    have := h t ht
    unfold TInv at this
    rw [← track_verdict, ← this]
  generalize s.ts = l at hpt
  induction l with
  | nil => rfl
  | cons t ts ih =>
    simp only [List.all_cons]
    rw [hpt t (by simp), ih (fun x hx => hpt x (by simp [hx]))]

private theorem decision_from (s : PState) (ev : Ev) (b : Bool) (hinv : PInv s)
    (hnone : s.decided = none) (hdec : (step s ev).decided = some b) :
    b = s.ts.all (fun t => satisfied t.total t.hist) := by
  rw [← all_ok_eq_satisfied s hinv]
  cases ev with
  | earlyExit => simp [step, hnone] at hdec
  | register T => simp [step, hnone] at hdec
  | sel i e =>
    simp only [step] at hdec
    split at hdec <;> simp [hnone] at hdec
  | close => simp [step, hnone] at hdec
  | tick =>
    simp only [step, hnone, Option.isSome_none, Bool.false_eq_true, if_false] at hdec
    split at hdec
    · rename_i hall
      simp only [Bool.and_eq_true] at hall
      simp only [Option.some.injEq] at hdec
      subst hdec
      cases hf : (s.failed == 0)
      · cases hok : s.ts.all (·.ok)
        · rfl
        · have := (all_ok_iff s.ts).mpr hok
          simp [PState.failed, this.2] at hf
      · have hs : (s.ts.map (·.failed)).sum = 0 := by simpa [PState.failed] using hf
        exact ((all_ok_iff s.ts).mp ⟨by simpa [PState.allDone] using hall.2, hs⟩).symm
    · simp [hnone] at hdec
  | finish =>
    simp only [step, hnone, Option.isSome_none, Bool.false_or] at hdec
    split at hdec
    · simp [hnone] at hdec
    · simp only [Option.some.injEq] at hdec
      subst hdec
      cases hok : s.ts.all (·.ok)
      · cases hd : s.allDone
        · rfl
        · cases hf : (s.failed == 0)
          · rfl
          · have hs : (s.ts.map (·.failed)).sum = 0 := by simpa [PState.failed] using hf
            have := (all_ok_iff s.ts).mp ⟨by simpa [PState.allDone] using hd, hs⟩
            rw [this] at hok; exact Bool.noConfusion hok
      · have := (all_ok_iff s.ts).mpr hok
        simp [PState.allDone, PState.failed, this.1, this.2]

/-- **The decision point.**  Whatever happened before (any interleaving of registrations, loop iterations,
ticks — also ticks before anything is registered — and the close): at the event that fixes the verdict, the
verdict equals "every tracker registered so far is satisfied by the selections its loop consumed". -/
theorem decision_faithful (evs : List Ev) (ev : Ev) (b : Bool)
    (hnone : (run evs).decided = none) (hdec : (step (run evs) ev).decided = some b) :
    b = (run evs).ts.all (fun t => satisfied t.total t.hist) :=
  decision_from (run evs) ev b (pinv_run evs) hnone hdec

private theorem step_decided (s : PState) (ev : Ev) (b : Bool) (h : s.decided = some b) :
    (step s ev).decided = some b := by
  cases ev with
  | register T => simp [step, h]
  | sel i e => simp only [step]; split <;> simp [h]
  | tick => simp [step, h]
  | close => simp [step, h]
  | finish => simp [step, h]
  | earlyExit => simp [step, h]

/-- once taken, the verdict never changes (`chComplete` is closed once) -/
theorem decision_stable (evs more : List Ev) (b : Bool) (h : verdict evs = some b) :
    verdict (evs ++ more) = some b := by
  unfold verdict run at *
  rw [List.foldl_append]
  generalize List.foldl step {} evs = s at h
  induction more generalizing s with
  | nil => exact h
  | cons e es ih => exact ih _ (step_decided s e b h)

private theorem modifyAt_map_total (e : Sel) (i : Nat) (l : List TState) :
    (modifyAt (trackStep · e) i l).map (·.total) = l.map (·.total) := by
  induction l generalizing i with
  | nil => cases i <;> rfl
  | cons x xs ih =>
    cases i with
    | zero => simp [modifyAt, trackStep_total]
    | succ i => simp [modifyAt, ih]

private theorem step_totals (s : PState) (ev : Ev) (h : ev.isRegister = false) :
    (step s ev).ts.map (·.total) = s.ts.map (·.total) := by
  cases ev with
  | register T => simp [Ev.isRegister] at h
  | sel i e => simp only [step]; split <;> simp [modifyAt_map_total]
  | tick => simp only [step]; split <;> (try split) <;> rfl
  | close => rfl
  | finish => simp only [step]; split <;> rfl
  | earlyExit => rfl

private theorem run_registers (totals : List Nat) (s : PState) :
    ((totals.map Ev.register).foldl step s).ts.map (·.total) = s.ts.map (·.total) ++ totals := by
  induction totals generalizing s with
  | nil => simp
  | cons T Ts ih =>
    simp only [List.map_cons, List.foldl]
    rw [ih]
    simp [step, TState.init]

private theorem run_totals_rest (s : PState) (pre : List Ev) (h : ∀ e ∈ pre, e.isRegister = false) :
    (pre.foldl step s).ts.map (·.total) = s.ts.map (·.total) := by
  induction pre generalizing s with
  | nil => rfl
  | cons e es ih =>
    simp only [List.foldl]
    rw [ih _ (fun x hx => h x (by simp [hx])), step_totals s e (h e (by simp))]

/-- **`verdict_iff`.**  In a run that registers the plan's counters (`totals`, in the order of `NewGroup`:
performs, OCR3 configs, upkeep creations, log events, blocks) before any of them counts — `checkProgress` may
already have ticked any number of times, `ticks` — the verdict is taken over exactly these counters, and it is
`true` iff every one of them is satisfied: a positive total was reached by the increments its loop consumed
before it saw the close (exceeding it is accepted), a zero total saw the close before any increment.  For the
perform counter this is: success ⇔ the number of performs put into blocks reaches the expected count — and
stays zero when none is expected. -/
theorem verdict_iff (ticks : Nat) (totals : List Nat) (pre : List Ev) (ev : Ev) (b : Bool)
    (hnr : ∀ e ∈ pre, e.isRegister = false)
    (hnone : (run (List.replicate ticks .tick ++ totals.map .register ++ pre)).decided = none)
    (hdec : (step (run (List.replicate ticks .tick ++ totals.map .register ++ pre)) ev).decided = some b) :
    (run (List.replicate ticks .tick ++ totals.map .register ++ pre)).ts.map (·.total) = totals ∧
    (b = true ↔ ∀ t ∈ (run (List.replicate ticks .tick ++ totals.map .register ++ pre)).ts,
        satisfied t.total t.hist = true) := by
  constructor
  · unfold run
    rw [List.foldl_append, List.foldl_append, run_totals_rest _ _ hnr, run_registers,
      run_totals_rest _ _ (by intro e he; rw [List.eq_of_mem_replicate he]; rfl)]
    simp
  · rw [decision_faithful _ ev b hnone hdec]
    simp [List.all_eq_true]

/-- ticks of `checkProgress` before the first registration change nothing (since 1f2e429) -/
theorem ticks_before_register_harmless (k : Nat) (evs : List Ev) :
    run (List.replicate k .tick ++ evs) = run evs := by
  unfold run
  rw [List.foldl_append]
  congr 1
  induction k with
  | zero => rfl
  | succ k ih => rw [List.replicate_succ, List.foldl]; simpa [step, PState.allDone] using ih

/-- the hypotheses of `verdict_iff` are met by a run shaped like the shipped fast-check plan
(17 performs expected and delivered; everything done before the close, decided at a tick) -/
example : verdict (List.replicate 2 .tick ++ [17, 1, 12, 1, 80].map .register ++
    [.sel 1 (.inc 1), .sel 2 (.inc 12), .sel 3 (.inc 1), .sel 0 (.inc 9), .sel 0 (.inc 8), .sel 4 (.inc 80), .tick]) = some true := by
  decide
/-- … and by a run that fails: 31 of 32 performs (only_log_trigger.json), decided after the close -/
example : verdict ([32, 1].map .register ++
    [.sel 1 (.inc 1), .sel 0 (.inc 31), .tick, .close, .sel 0 .done, .finish]) = some false := by
  decide
/-- … a plan that expects no perform and sees none -/
example : verdict ([0, 1].map .register ++ [.sel 1 (.inc 1), .tick, .close, .sel 0 .done, .tick, .finish]) = some true := by
  decide
/-- … late registration is now harmless: 0 of 5 performs ⇒ failure -/
example : verdict [.tick, .register 5, .close, .sel 0 .done, .finish] = some false := by decide

/-- **Counter-example, code before 1f2e429.**  `main.go` calls `progress.Start()` before `node.NewGroup`
registers the counters.  If `checkProgress` ticked (100 ms) before the first `Register`, it found no active
tracker, stopped the writer and stored `success = (0 == 0 && failed == 0) = true`; the later registrations and
the whole run no longer mattered.  Here: 5 performs expected, none delivered, verdict `true` (exit status 0). -/
theorem verdict_vacuous_before_register :
    verdictOld [.tick, .register 5, .close, .sel 0 .done, .finish] = some true ∧
    satisfied 5 [.done] = false ∧
    (runOld [.tick, .register 5, .close, .sel 0 .done, .finish]).ts.map (fun t => (t.total, t.hist, t.failed)) = [(5, [.done], 1)] := by
  decide

/-- **Counter-example, code before b727630 (schedule-dependent; seen on the real binary with one P).**
`Start()` is `go t.writer.Render(); go t.checkProgress()`.  If the second goroutine evaluated
`for t.writer.IsRenderInProgress()` before the first had set the flag, the loop was skipped and
`success = (Length() == LengthDone() && failed == 0)` was stored at once: `true` when nothing was registered
yet (vacuous success, whatever the run does later), `false` when something was (failure, whatever the run
does later). -/
theorem verdict_vacuous_start_race_old :
    verdictOld [.earlyExit, .register 5, .close, .sel 0 .done, .finish] = some true ∧ satisfied 5 [.done] = false ∧
    verdictOld [.register 1, .earlyExit, .sel 0 (.inc 1), .tick, .close, .finish] = some false ∧
    satisfied 1 [.inc 1] = true := by
  decide

/-- in the current tree the same schedules give the faithful verdicts -/
example : verdict [.earlyExit, .register 5, .close, .sel 0 .done, .finish] = some false ∧
    verdict [.register 1, .earlyExit, .sel 0 (.inc 1), .tick, .close, .finish] = some true := by decide

/-! ### plan: save → load -/

private theorem lookup_encode_none (k : String) (fs : List Field) :
    ∀ vs, k ∉ fs.map (·.key) → lookupKey k (encodeFields fs vs) = none := by
  induction fs with
  | nil => intro vs _; cases vs <;> rfl
  | cons f fs ih =>
    intro vs hk
    simp only [List.map_cons, List.mem_cons, not_or] at hk
    cases vs with
    | nil => rfl
    | cons v vs =>
      simp only [encodeFields]
      split
      · exact ih vs hk.2
      · simp only [lookupKey]
        rw [if_neg (fun h => hk.1 h.symm)]
        exact ih vs hk.2

private theorem decodeLeaf_conforms (k : Kind) (v : Leaf) (h : k.conforms v = true) :
    decodeLeaf k (.leaf v) = some v := by
  cases k <;> cases v <;> simp [Kind.conforms] at h <;> simp [decodeLeaf, Kind.zero]

/-- every field reads back its own value from the marshalled struct -/
private theorem decodeField_encode (fs : List Field) :
    ∀ vs, conformsB fs vs = true → (fs.map (·.key)).Nodup →
      ∀ fv ∈ List.zip fs vs, decodeField (encodeFields fs vs) fv.1 = some fv.2 := by
  induction fs with
  | nil => intro vs _ _ fv hfv; simp at hfv
  | cons f fs ih =>
    intro vs hc hnd fv hfv
    cases vs with
    | nil => simp [conformsB] at hc
    | cons v vs =>
      simp only [conformsB, Bool.and_eq_true] at hc
      simp only [List.map_cons, List.nodup_cons] at hnd
      simp only [List.zip_cons_cons, List.mem_cons] at hfv
      rcases hfv with hfv | hfv
      · subst hfv
        simp only [encodeFields]
        split
        · rename_i hom
          simp only [Bool.and_eq_true, isEmptyFor, beq_iff_eq] at hom
          simp only [decodeField, lookup_encode_none f.key fs vs hnd.1, hom.2]
        · simp [decodeField, lookupKey, decodeLeaf_conforms f.kind v hc.1]
      · have hmem : fv.1 ∈ fs := (List.of_mem_zip hfv).1
        have hne : f.key ≠ fv.1.key := by
          intro he
          exact hnd.1 (he ▸ List.mem_map_of_mem (f := (·.key)) hmem)
        have := ih vs hc.2 hnd.2 fv hfv
        simp only [encodeFields]
        split
        · exact this
        · simpa [decodeField, lookupKey, hne] using this

private theorem decodeFields_pointwise (o : List (String × J)) (fs : List Field) :
    ∀ vs, fs.length = vs.length → (∀ fv ∈ List.zip fs vs, decodeField o fv.1 = some fv.2) →
      decodeFields fs o = some vs := by
  induction fs with
  | nil => intro vs hl _; cases vs with
    | nil => rfl
    | cons _ _ => simp at hl
  | cons f fs ih =>
    intro vs hl h
    cases vs with
    | nil => simp at hl
    | cons v vs =>
      simp only [decodeFields]
      rw [h (f, v) (by simp), ih vs (by simpa using hl) (fun fv hfv => h fv (by simp [hfv]))]

private theorem conformsB_length (fs : List Field) : ∀ vs, conformsB fs vs = true → fs.length = vs.length := by
  induction fs with
  | nil => intro vs h; cases vs with
    | nil => rfl
    | cons _ _ => simp [conformsB] at h
  | cons f fs ih =>
    intro vs h
    cases vs with
    | nil => simp [conformsB] at h
    | cons v vs =>
      simp only [conformsB, Bool.and_eq_true] at h
      simp [ih vs h.2]

/-- **One struct.**  Unmarshalling the marshalled form of a struct gives the struct back (distinct keys;
`omitempty` fields that were dropped come back as the zero value they had). -/
private theorem decode_encode_fields (fs : List Field) (vs : List Leaf)
    (hc : conformsB fs vs = true) (hnd : (fs.map (·.key)).Nodup) :
    decodeFields fs (encodeFields fs vs) = some vs :=
  decodeFields_pointwise _ fs vs (conformsB_length fs vs hc) (decodeField_encode fs vs hc hnd)

private theorem conformsB_setType (ext : List Field) (ty : String) (e : List Leaf)
    (hc : conformsB (eventSchema ++ ext) e = true) : conformsB (eventSchema ++ ext) (setType ty e) = true := by
  cases e with
  | nil => simp [eventSchema, conformsB] at hc
  | cons v vs =>
    simp only [eventSchema, List.cons_append, List.nil_append, conformsB, Bool.and_eq_true] at hc
    simp only [eventSchema, List.cons_append, List.nil_append, setType, conformsB, Kind.conforms, Bool.true_and]
    exact hc.2

/-- an event marshalled with its type set reads back (a) as an `Event` whose type is that type and
(b) as the full struct -/
private theorem event_decodes (ext : List Field) (ty : String) (e : List Leaf)
    (hc : conformsB (eventSchema ++ ext) e = true) (hnd : ((eventSchema ++ ext).map (·.key)).Nodup) :
    (∃ hdr, decodeFields eventSchema (encodeFields (eventSchema ++ ext) (setType ty e)) = some hdr ∧
        hdr.head? = some (.str ty)) ∧
    decodeFields (eventSchema ++ ext) (encodeFields (eventSchema ++ ext) (setType ty e)) = some (setType ty e) := by
  have hc' := conformsB_setType ext ty e hc
  refine ⟨?_, decode_encode_fields _ _ hc' hnd⟩
  have hpt := decodeField_encode _ _ hc' hnd
  match e, hc with
  | [], hc => simp [eventSchema, conformsB] at hc
  | [_], hc => simp [eventSchema, conformsB] at hc
  | [_, _], hc => simp [eventSchema, conformsB] at hc
  | v0 :: v1 :: v2 :: r, _ =>
    refine ⟨[.str ty, v1, v2], ?_, rfl⟩
    apply decodeFields_pointwise _ eventSchema [.str ty, v1, v2] rfl
    intro fv hfv
    apply hpt
    simp only [eventSchema, List.zip_cons_cons, List.zip_nil_right, List.mem_cons, List.not_mem_nil, or_false] at hfv
    simp only [eventSchema, setType, List.cons_append, List.zip_cons_cons, List.mem_cons]
    rcases hfv with h | h | h
    · exact Or.inl h
    · exact Or.inr (Or.inl h)
    · exact Or.inr (Or.inr (Or.inl h))

private def configExt : List Field := configSchema.drop 3
private def genExt : List Field := genSchema.drop 3
private def logExt : List Field := logSchema.drop 3

private theorem configSchema_eq : configSchema = eventSchema ++ configExt := by decide
private theorem genSchema_eq : genSchema = eventSchema ++ genExt := by decide
private theorem logSchema_eq : logSchema = eventSchema ++ logExt := by decide

private theorem config_nodup : (configSchema.map (·.key)).Nodup := by decide
private theorem gen_nodup : (genSchema.map (·.key)).Nodup := by decide
private theorem log_nodup : (logSchema.map (·.key)).Nodup := by decide

private theorem decodeEvents_config (l : List (List Leaf)) (hl : ∀ e ∈ l, conformsB configSchema e = true) :
    ∀ (idx : Nat) (acc : Acc) (rest : List J),
      decodeEvents idx (l.map (fun e => J.obj (encodeFields configSchema (setType ocr3ConfigEventType e))) ++ rest) acc =
      decodeEvents (idx + l.length) rest { acc with cfg := acc.cfg ++ l.map (setType ocr3ConfigEventType) } := by
  induction l with
  | nil => intro idx acc rest; simp
  | cons e es ih =>
    intro idx acc rest
    have hc := hl e (by simp)
    have hd := event_decodes configExt ocr3ConfigEventType e (configSchema_eq ▸ hc) (configSchema_eq ▸ config_nodup)
    rw [← configSchema_eq] at hd
    obtain ⟨⟨hdr, h1, h2⟩, h3⟩ := hd
    simp only [List.map_cons, List.cons_append, decodeEvents, h1, h2, h3, if_true]
    rw [ih (fun x hx => hl x (by simp [hx]))]
    simp [Nat.add_assoc, Nat.add_comm 1]

private theorem decodeEvents_gen (l : List (List Leaf)) (hl : ∀ e ∈ l, conformsB genSchema e = true) :
    ∀ (idx : Nat) (acc : Acc) (rest : List J),
      decodeEvents idx (l.map (fun e => J.obj (encodeFields genSchema (setType generateUpkeepEventType e))) ++ rest) acc =
      decodeEvents (idx + l.length) rest
        { acc with gen := acc.gen ++ l.map (fun e => defaultExpected (setType generateUpkeepEventType e)) } := by
  induction l with
  | nil => intro idx acc rest; simp
  | cons e es ih =>
    intro idx acc rest
    have hc := hl e (by simp)
    have hd := event_decodes genExt generateUpkeepEventType e (genSchema_eq ▸ hc) (genSchema_eq ▸ gen_nodup)
    rw [← genSchema_eq] at hd
    obtain ⟨⟨hdr, h1, h2⟩, h3⟩ := hd
    have hne : ¬ generateUpkeepEventType = ocr3ConfigEventType := by decide
    simp only [List.map_cons, List.cons_append, decodeEvents, h1, h2, h3, hne, if_true, if_false]
    rw [ih (fun x hx => hl x (by simp [hx]))]
    simp [Nat.add_assoc, Nat.add_comm 1]

private theorem decodeEvents_log (l : List (List Leaf)) (hl : ∀ e ∈ l, conformsB logSchema e = true) :
    ∀ (idx : Nat) (acc : Acc) (rest : List J),
      decodeEvents idx (l.map (fun e => J.obj (encodeFields logSchema (setType logTriggerEventType e))) ++ rest) acc =
      decodeEvents (idx + l.length) rest { acc with log := acc.log ++ l.map (setType logTriggerEventType) } := by
  induction l with
  | nil => intro idx acc rest; simp
  | cons e es ih =>
    intro idx acc rest
    have hc := hl e (by simp)
    have hd := event_decodes logExt logTriggerEventType e (logSchema_eq ▸ hc) (logSchema_eq ▸ log_nodup)
    rw [← logSchema_eq] at hd
    obtain ⟨⟨hdr, h1, h2⟩, h3⟩ := hd
    have hne1 : ¬ logTriggerEventType = ocr3ConfigEventType := by decide
    have hne2 : ¬ logTriggerEventType = generateUpkeepEventType := by decide
    simp only [List.map_cons, List.cons_append, decodeEvents, h1, h2, h3, hne1, hne2, if_true, if_false]
    rw [ih (fun x hx => hl x (by simp [hx]))]
    simp [Nat.add_assoc, Nat.add_comm 1]

private theorem wf_parts (p : Plan) (h : p.wf = true) :
    conformsB nodeSchema p.node = true ∧ conformsB networkSchema p.network = true ∧
    conformsB rpcSchema p.rpc = true ∧ conformsB blocksSchema p.blocks = true ∧
    (∀ e ∈ p.configEvents, conformsB configSchema e = true) ∧
    (∀ e ∈ p.generateUpkeeps, conformsB genSchema e = true) ∧
    (∀ e ∈ p.logEvents, conformsB logSchema e = true) := by
  simp only [Plan.wf, Bool.and_eq_true, List.all_eq_true] at h
  obtain ⟨⟨⟨⟨⟨⟨h1, h2⟩, h3⟩, h4⟩, h5⟩, h6⟩, h7⟩ := h
  exact ⟨h1, h2, h3, h4, h5, h6, h7⟩

private theorem decode_header (p : Plan) (h : p.wf = true) (evs : J) :
    decodeStruct nodeSchema (header p ++ [("events", evs)]) "node" = some p.node ∧
    decodeStruct networkSchema (header p ++ [("events", evs)]) "p2pNetwork" = some p.network ∧
    decodeStruct rpcSchema (header p ++ [("events", evs)]) "rpc" = some p.rpc ∧
    decodeStruct blocksSchema (header p ++ [("events", evs)]) "blocks" = some p.blocks ∧
    lookupKey "events" (header p ++ [("events", evs)]) = some evs := by
  obtain ⟨h1, h2, h3, h4, -, -, -⟩ := wf_parts p h
  refine ⟨?_, ?_, ?_, ?_, ?_⟩
  · simp [decodeStruct, header, lookupKey, decode_encode_fields nodeSchema p.node h1 (by decide)]
  · simp [decodeStruct, header, lookupKey, decode_encode_fields networkSchema p.network h2 (by decide)]
  · simp [decodeStruct, header, lookupKey, decode_encode_fields rpcSchema p.rpc h3 (by decide)]
  · simp [decodeStruct, header, lookupKey, decode_encode_fields blocksSchema p.blocks h4 (by decide)]
  · simp [header, lookupKey]

/-- **`plan_roundtrip`.**  For every plan value the Go type can hold, loading the saved plan succeeds and
gives the plan back with what a load always establishes: each event's `type` is the one of the list it
sits in, and an empty `expected` reads as `"all"`. -/
theorem plan_roundtrip (p : Plan) (h : p.wf = true) : decode (encode p) = .ok (normalize p) := by
  obtain ⟨-, -, -, -, h5, h6, h7⟩ := wf_parts p h
  obtain ⟨d1, d2, d3, d4, d5⟩ := decode_header p h (.arr (eventObjs p))
  simp only [decode, encode, d1, d2, d3, d4, d5]
  have : decodeEvents 0 (eventObjs p) {} =
      .ok { cfg := p.configEvents.map (setType ocr3ConfigEventType),
            gen := p.generateUpkeeps.map (fun e => defaultExpected (setType generateUpkeepEventType e)),
            log := p.logEvents.map (setType logTriggerEventType) } := by
    unfold eventObjs
    rw [List.append_assoc, decodeEvents_config _ h5, decodeEvents_gen _ h6]
    have := decodeEvents_log p.logEvents h7 (0 + p.configEvents.length + p.generateUpkeeps.length)
      { cfg := [] ++ p.configEvents.map (setType ocr3ConfigEventType),
        gen := [] ++ p.generateUpkeeps.map (fun e => defaultExpected (setType generateUpkeepEventType e)), log := [] } []
    simp only [List.append_nil] at this
    rw [this]
    simp [decodeEvents]
  rw [this]
  rfl

private theorem setType_id (ty : String) (e : List Leaf) (h : e.head? = some (.str ty)) : setType ty e = e := by
  cases e with
  | nil => simp at h
  | cons v vs => simp at h; simp [setType, h]

private theorem defaultExpected_id (e : List Leaf) (h : e.getLast? ≠ some (.str "")) : defaultExpected e = e := by
  unfold defaultExpected
  split
  · rename_i h'; exact absurd h' h
  · rfl

private theorem normalize_saved (p : Plan) (h : p.savedForm = true) : normalize p = p := by
  simp only [Plan.savedForm, Bool.and_eq_true, List.all_eq_true, beq_iff_eq, bne_iff_ne] at h
  obtain ⟨⟨h1, h2⟩, h3⟩ := h
  have e1 : p.configEvents.map (setType ocr3ConfigEventType) = p.configEvents := by
    conv => rhs; rw [← List.map_id p.configEvents]
    exact List.map_congr_left (fun e he => setType_id _ e (h1 e he))
  have e2 : p.generateUpkeeps.map (fun e => defaultExpected (setType generateUpkeepEventType e)) = p.generateUpkeeps := by
    conv => rhs; rw [← List.map_id p.generateUpkeeps]
    exact List.map_congr_left (fun e he => by
      rw [setType_id _ e (h2 e he).1, defaultExpected_id e (h2 e he).2]; rfl)
  have e3 : p.logEvents.map (setType logTriggerEventType) = p.logEvents := by
    conv => rhs; rw [← List.map_id p.logEvents]
    exact List.map_congr_left (fun e he => setType_id _ e (h3 e he))
  simp only [normalize, e1, e2, e3]

/-- **A saved plan can be loaded back unchanged**: for a plan in saved form (in particular any plan that
was read from a file) `load (save p) = p`. -/
theorem plan_roundtrip_loaded (p : Plan) (h : p.wf = true) (hs : p.savedForm = true) :
    decode (encode p) = .ok p := by
  rw [plan_roundtrip p h, normalize_saved p hs]

/-- **The encoder before the fix.**  With at least one OCR3-config or generate-upkeeps event, what it writes
starts with `null`s and can never be loaded: `unrecognized event at index 0` — for every such plan. -/
theorem plan_encode_leading_nulls_old (p : Plan) (h : p.wf = true)
    (hne : 0 < p.configEvents.length + p.generateUpkeeps.length) :
    decode (encodeOld p) = .error (.unrecognized 0) := by
  obtain ⟨d1, d2, d3, d4, d5⟩ := decode_header p h
    (.arr (List.replicate (p.configEvents.length + p.generateUpkeeps.length) (.leaf .null) ++ eventObjs p))
  simp only [decode, encodeOld, d1, d2, d3, d4, d5]
  obtain ⟨n, hn⟩ : ∃ n, p.configEvents.length + p.generateUpkeeps.length = n + 1 := ⟨_, (Nat.succ_pred_eq_of_pos hne).symm⟩
  rw [hn, List.replicate_succ]
  simp [decodeEvents]

/-- **Saving over an older plan** (`O_TRUNC`): whatever `simulation_plan.json` held before, after a save it holds
exactly the new plan's bytes — so `plan_roundtrip` applies to a re-used output directory too.  Without the
flag a shorter plan written over a longer one keeps the old tail (`writeFile_no_trunc_keeps_tail`). -/
theorem writeFile_trunc {α} (old new : List α) : writeFile true old new = new := rfl

theorem writeFile_no_trunc_keeps_tail {α} (old new : List α) (h : new.length < old.length) :
    writeFile false old new ≠ new := by
  intro hc
  have := congrArg List.length hc
  simp [writeFile] at this
  omega

/-- a plan in the shape of the shipped ones (one event of each kind; empty `comment`/`expected` exercised) -/
private def samplePlan : Plan :=
  { node := [.int 4, .int 100, .int 1000], network := [.dur 100000000],
    rpc := [.int 600, .int 300, .flt "0.02", .int 1000],
    blocks := [.int 128943862, .dur 1000000000, .dur 0, .int 60, .int 20],
    configEvents := [[.str "", .int 128943863, .str "initial", .int 1, .str "{}", .int 7,
      .dur 1, .dur 2, .dur 3, .dur 4, .dur 5, .dur 6, .dur 7, .dur 8, .dur 9, .dur 10, .dur 11]],
    generateUpkeeps := [[.str "generateUpkeeps", .int 128943862, .str "", .int 10, .int 200, .str "30x - 15",
      .str "2x + 1", .str "conditional", .str "", .str ""]],
    logEvents := [[.str "logTrigger", .null, .str "c", .str "test_trigger_event"]] }

example : samplePlan.wf = true := by decide
example : decode (encode samplePlan) = .ok (normalize samplePlan) := by decide
example : normalize samplePlan ≠ samplePlan := by decide                         -- type / expected get set by a load
example : (normalize samplePlan).savedForm = true ∧ (normalize samplePlan).wf = true := by decide
example : decode (encode (normalize samplePlan)) = .ok (normalize samplePlan) := by decide
example : decode (encodeOld samplePlan) = .error (.unrecognized 0) := by decide
/-- without OCR3-config and generate events the old encoder wrote no `null` and its output loaded -/
example : decode (encodeOld { samplePlan with configEvents := [], generateUpkeeps := [] }) =
    .ok (normalize { samplePlan with configEvents := [], generateUpkeeps := [] }) := by decide

/-! ### summary statistics -/

private theorem idx_some (v : List Int) (i : Nat) (h : i < v.length) : idx v i = some v[i] := by
  simp [idx, h]

/-- **`findMedianAndSplitData` is total**: every index and slice expression is in range, for every input. -/
theorem findMedian_total (v : List Int) : ∃ r, findMedianAndSplitData v = some r := by
  apply Option.isSome_iff_exists.mp
  unfold findMedianAndSplitData
  by_cases h0 : v.length = 0
  · simp [h0]
  · simp only [h0, if_false]
    by_cases he : v.length % 2 = 0
    · have h1 : v.length / 2 - 1 < v.length := by omega
      have h2 : v.length / 2 < v.length := by omega
      have h3 : v.length / 2 ≤ v.length := by omega
      simp [he, idx_some v _ h1, idx_some v _ h2, sliceTo, sliceFrom, h3]
    · have h2 : v.length / 2 < v.length := by omega
      have h3 : v.length / 2 ≤ v.length := by omega
      have h4 : v.length / 2 + 1 ≤ v.length := by omega
      simp [he, idx_some v _ h2, sliceTo, sliceFrom, h3, h4]

/-- **`stats_total`.**  The statistics block of the run summary — the median call and both nested quartile
calls on the halves it returns, then the outlier scans — evaluates for EVERY list of check counts, of any
length (0, 1, 2, … included): no index or slice expression is out of range. -/
theorem stats_total (data : List Int) : (summary data).isSome = true := by
  obtain ⟨⟨m, a, b⟩, h1⟩ := findMedian_total data
  obtain ⟨⟨q1, lo, x⟩, h2⟩ := findMedian_total a
  obtain ⟨⟨q3, y, hi⟩, h3⟩ := findMedian_total b
  simp [summary, summaryWith, h1, h2, h3]

/-- … also on the sorted vector, which is what `ReportResults` passes -/
theorem stats_total_sorted (data : List Int) : (summary (sortCounts data)).isSome = true :=
  stats_total _

example : summary [] = some ⟨0, 0, 0, 0, 0, 0, 0, -1, 0, -1, 0⟩ := by decide
example : summary [7] = some ⟨0, 14, 0, 0, 0, 0, 0, -1, 0, -1, 0⟩ := by decide
example : (summary [1, 2, 3, 4, 100]).map (fun s => (s.q1x2, s.medx2, s.q3x2, s.highest, s.highOutliers)) =
    some (3, 6, 104, -1, 0) := by decide

/-- **The code before the fix**: for EVERY list of 0–5 check counts — and of 7 — some index is out of range
(the summary panics); the nested quartile calls are what makes 3, 4, 5 and 7 fail. -/
theorem stats_out_of_range_old (data : List Int) (h : data.length ≤ 5 ∨ data.length = 7) :
    summaryOld data = none := by
  match data, h with
  | [], _ => rfl
  | [_], _ => rfl
  | [_, _], _ => simp [summaryOld, summaryWith, findMedianAndSplitDataOld, idx, sliceTo, sliceFrom]
  | [_, _, _], _ => simp [summaryOld, summaryWith, findMedianAndSplitDataOld, idx, sliceTo, sliceFrom]
  | [_, _, _, _], _ => simp [summaryOld, summaryWith, findMedianAndSplitDataOld, idx, sliceTo, sliceFrom]
  | [_, _, _, _, _], _ => simp [summaryOld, summaryWith, findMedianAndSplitDataOld, idx, sliceTo, sliceFrom]
  | [_, _, _, _, _, _], h => simp at h
  | [_, _, _, _, _, _, _], _ => simp [summaryOld, summaryWith, findMedianAndSplitDataOld, idx, sliceTo, sliceFrom]
  | _ :: _ :: _ :: _ :: _ :: _ :: _ :: _ :: _, h => simp at h

/-- the old code did evaluate on 6 and on 8 values (and returned the elements one past the median) -/
example : (summaryOld [1, 2, 3, 4, 5, 6]).isSome = true ∧ (summaryOld [1, 2, 3, 4, 5, 6, 7, 8]).isSome = true := by decide
example : (summaryOld [1, 2, 3, 4, 5, 6]).map (·.medx2) = some 9 ∧ (summary [1, 2, 3, 4, 5, 6]).map (·.medx2) = some 7 := by
  decide

/-! ### expected number of performs -/

theorem expectedPerforms_append (a b : List Upkeep) (logs : List LogEv) :
    expectedPerforms (a ++ b) logs = expectedPerforms a logs + expectedPerforms b logs := by
  simp [expectedPerforms]

/-- upkeeps generated with `expected: "none"` never add to the count: a plan made of such upkeeps is a
negative assertion (total 0) -/
theorem expectedPerforms_unexpected (ups : List Upkeep) (logs : List LogEv) (h : ∀ u ∈ ups, u.expected = false) :
    expectedPerforms ups logs = 0 := by
  induction ups with
  | nil => rfl
  | cons u us ih =>
    have hu := h u (by simp)
    simp only [expectedPerforms, List.map_cons, List.sum_cons] at *
    rw [ih (fun x hx => h x (by simp [hx]))]
    simp [expectedOf, hu]

private theorem logTriggersUpkeep_eq (l : LogEv) (u : Upkeep) : logTriggersUpkeep l u = logCounts u l := by
  unfold logTriggersUpkeep logCounts
  by_cases h1 : u.createInBlock ≤ l.triggerAt <;> by_cases h2 : (l.triggerValue == u.triggeredBy) = true <;>
    by_cases h3 : u.alwaysEligible = true <;> simp [h1, h2, h3, ge_iff_le]

/-- **`calculateExpectedPerformEvents` computes the count the plan expects** (the declarative `expectedSpec`),
for every list of generated upkeeps and logs. -/
theorem expectedPerforms_eq_spec (ups : List Upkeep) (logs : List LogEv) :
    expectedPerforms ups logs = expectedSpec ups logs := by
  have hf : (fun l => logTriggersUpkeep l ·) = fun (u : Upkeep) => fun l => logCounts u l := by
    funext u l; exact logTriggersUpkeep_eq l u
  induction ups with
  | nil => rfl
  | cons u us ih =>
    simp only [expectedPerforms, expectedSpec, List.map_cons, List.sum_cons] at *
    by_cases he : u.expected = true
    · simp only [List.filter_cons, he, if_true, List.map_cons, List.sum_cons]
      rw [ih]
      congr 1
      cases ht : u.type <;> simp [expectedOf, he, ht, logTriggersUpkeep_eq]
    · simp only [List.filter_cons, he, Bool.false_eq_true, if_false]
      rw [ih]
      simp [expectedOf, he]

/-- only_log_trigger.json: 1 upkeep created before three logs, 5 before three, 7 before two: 32 -/
example : expectedPerforms
    ((List.replicate 1 ⟨true, .logTrigger, [], 862, "t", true⟩) ++ (List.replicate 5 ⟨true, .logTrigger, [], 864, "t", true⟩) ++
     (List.replicate 7 ⟨true, .logTrigger, [], 878, "t", true⟩))
    [⟨872, "t"⟩, ⟨882, "t"⟩, ⟨892, "t"⟩] = 32 := by decide

/-! ### transmit loader: every (report, round) is accepted exactly once -/

private theorem acceptedFrom_spec (keys : List String) :
    ∀ s : TLState, (acceptedFrom s keys).Nodup ∧
      (∀ k, k ∈ acceptedFrom s keys ↔ (k ∈ keys ∧ k ∉ s.transmitted)) := by
  induction keys with
  | nil => intro s; simp [acceptedFrom]
  | cons x xs ih =>
    intro s
    by_cases hx : x ∈ s.transmitted
    · have ht : s.transmit x = (s, false) := by simp [TLState.transmit, hx]
      simp only [acceptedFrom, ht, Bool.false_eq_true, if_false]
      refine ⟨(ih s).1, fun k => ?_⟩
      rw [(ih s).2 k]
      constructor
      · rintro ⟨h1, h2⟩; exact ⟨by simp [h1], h2⟩
      · rintro ⟨h1, h2⟩
        rcases List.mem_cons.mp h1 with h | h
        · subst h; exact absurd hx h2
        · exact ⟨h, h2⟩
    · have ht : s.transmit x = ({ transmitted := x :: s.transmitted, queue := s.queue ++ [x] }, true) := by
        simp [TLState.transmit, hx]
      simp only [acceptedFrom, ht, if_true]
      have ih' := ih { transmitted := x :: s.transmitted, queue := s.queue ++ [x] }
      refine ⟨List.nodup_cons.mpr ⟨?_, ih'.1⟩, fun k => ?_⟩
      · intro hmem
        have := (ih'.2 x).mp hmem
        exact this.2 (by simp)
      · simp only [List.mem_cons, ih'.2 k, not_or]
        constructor
        · rintro (h | ⟨h1, h2, h3⟩)
          · subst h; exact ⟨Or.inl rfl, hx⟩
          · exact ⟨Or.inr h1, h3⟩
        · rintro ⟨h1 | h1, h2⟩
          · exact Or.inl h1
          · by_cases hk : k = x
            · exact Or.inl hk
            · exact Or.inr ⟨h1, hk, h2⟩

/-- **Accepted exactly once.**  In whatever order the nodes' `Transmit` calls are served (every call being one
critical section), each submitted `(report, round)` key is accepted exactly once, however often and by however
many nodes it is submitted, and nothing else is accepted. -/
theorem transmit_accepts_once (keys : List String) :
    (accepted keys).Nodup ∧ ∀ k, k ∈ accepted keys ↔ k ∈ keys := by
  have h := acceptedFrom_spec keys {}
  refine ⟨h.1, fun k => ?_⟩
  have := h.2 k
  simpa [accepted] using this

example : accepted ["r1", "r1", "r2", "r1", "r2"] = ["r1", "r2"] := by decide

/-! ### simulated check pipeline and perform history -/

/-- the perform history is append-only: what was handed out earlier is a prefix of every later history, so a
reader holding an earlier slice never sees one of its entries change -/
theorem performHistory_prefix (blocks more : List Int) :
    performHistory blocks <+: performHistory (blocks ++ more) := by
  have h : ∀ (l acc : List Int), l.foldl (fun h b => h ++ [b]) acc = acc ++ l := by
    intro l; induction l with
    | nil => intro acc; simp
    | cons x xs ih => intro acc; simp [List.foldl, ih]
  simp [performHistory, h]

/-- `isEligible` with eligible blocks in ascending order: true iff there is an eligible block `≤ block` and the
upkeep was not performed between the LATEST such block and `block` -/
theorem isEligible_iff (es ps : List Int) (b : Int) (hs : es.Pairwise (· ≤ ·)) :
    isEligible es ps b = true ↔
      ∃ e ∈ es, e ≤ b ∧ (∀ e' ∈ es, e' ≤ b → e' ≤ e) ∧ ∀ p ∈ ps, ¬ (e ≤ p ∧ p ≤ b) := by
  unfold isEligible
  cases hf : es.reverse.find? (fun e => decide (b ≥ e)) with
  | none =>
    simp only [Bool.false_eq_true, false_iff]
    rintro ⟨e, he, heb, -, -⟩
    have := List.find?_eq_none.mp hf e (by simpa using he)
    simp at this; omega
  | some e =>
    have hmem : e ∈ es := by simpa using List.mem_of_find?_eq_some hf
    have hle : e ≤ b := by simpa using List.find?_some hf
    -- e is the last element of `es` that is ≤ b: everything ≤ b in `es` is ≤ e
    have hmax : ∀ e' ∈ es, e' ≤ b → e' ≤ e := by
      intro e' he' hb'
      obtain ⟨l1, l2, hl, hno⟩ := List.find?_eq_some_iff_append.mp hf |>.2
      have hrev : es = l2.reverse ++ e :: l1.reverse := by
        have := congrArg List.reverse hl; simpa using this
      rw [hrev] at he' hs
      rcases List.mem_append.mp he' with h1 | h1
      · have := (List.pairwise_append.mp hs).2.2 e' h1 e (by simp)
        exact this
      · rcases List.mem_cons.mp h1 with h2 | h2
        · omega
        · have := hno e' (by simpa using h2)
          simp at this; omega
    simp only [Bool.not_eq_true', List.any_eq_false, Bool.and_eq_true, decide_eq_true_eq]
    constructor
    · intro h
      exact ⟨e, hmem, hle, hmax, fun p hp => h p hp⟩
    · rintro ⟨e2, he2, he2b, hmax2, hnp⟩
      have : e2 = e := by
        have := hmax e2 he2 he2b; have := hmax2 e hmem hle; omega
      subst this
      intro p hp; exact hnp p hp

example : isEligible [10, 20, 30] [12] 25 = true ∧ isEligible [10, 20, 30] [22] 25 = false ∧
    isEligible [10, 20, 30] [] 9 = false ∧ checkEligible (some ⟨false, false, [10]⟩) [] 5 = false ∧
    checkEligible (some ⟨false, false, [10]⟩) [] 12 = true := by decide

/-! ### run record (specification only — see the header: not provable of real runs from a model) -/

example : recordOk 1 [⟨0, "123456789", 10, true⟩, ⟨2, "123456789", 10, true⟩] [⟨"0xabc", 3⟩]
    [⟨true, 12, 3, "0xabc", "123456789", 10⟩] = true := by decide
example : recordOk 1 [⟨0, "123456789", 10, true⟩, ⟨0, "123456789", 10, false⟩] [⟨"0xabc", 3⟩]
    [⟨true, 12, 3, "0xabc", "123456789", 10⟩] = false := by decide      -- one node only
example : recordOk 1 [] [⟨"0xabc", 3⟩] [] = false := by decide           -- an accepted report without a row: empty

/-! ### subscribers coming and going on a running block source -/

/-- what the read lock held over the whole broadcast maintains: everything still to be sent to is open -/
def Hub.pendingOpen (h : Hub) : Prop := ∀ c ∈ h.pending, c ∈ h.chans

theorem Hub.step_locked_inv (h : Hub) (op : HubOp) (hp : h.pendingOpen) (hc : h.closedSends = 0) :
    (h.step true op).pendingOpen ∧ (h.step true op).closedSends = 0 := by
  cases op with
  | sub =>
    simp only [Hub.step]
    by_cases he : h.pending.isEmpty = true
    · simp only [he, Bool.not_true, Bool.and_false, Bool.false_eq_true, if_false]
      refine ⟨?_, hc⟩
      intro c hcm
      exact List.mem_append_left _ (hp c hcm)
    · simp only [he, Bool.not_false, Bool.and_true, if_true]
      exact ⟨hp, hc⟩
  | unsub id =>
    simp only [Hub.step]
    by_cases he : h.pending.isEmpty = true
    · simp only [he, Bool.not_true, Bool.and_false, Bool.false_eq_true, if_false]
      refine ⟨?_, hc⟩
      intro c hcm
      have : h.pending = [] := List.isEmpty_iff.mp he
      simp [this] at hcm
    · simp only [he, Bool.not_false, Bool.and_true, if_true]
      exact ⟨hp, hc⟩
  | snap =>
    simp only [Hub.step]
    by_cases he : h.pending.isEmpty = true
    · simp only [he, if_true]
      exact ⟨fun c hcm => hcm, hc⟩
    · simp only [he, Bool.false_eq_true, if_false]
      exact ⟨hp, hc⟩
  | send =>
    simp only [Hub.step]
    cases hpe : h.pending with
    | nil => exact ⟨by intro c hcm; simp [hpe] at hcm ⊢, hc⟩
    | cons c rest =>
      have hmem : c ∈ h.chans := hp c (by simp [hpe])
      simp only [hmem, decide_true, if_true]
      refine ⟨?_, hc⟩
      intro d hd
      exact hp d (by simp [hpe, hd])

/-- With the read lock held from the first step of a broadcast to its last send, NO schedule of subscribes,
unsubscribes and broadcast steps ever sends on a closed channel. -/
theorem hub_locked_never_sends_closed (ops : List HubOp) : (Hub.run true ops).crashFree = true := by
  have key : ∀ (ops : List HubOp) (h : Hub), h.pendingOpen → h.closedSends = 0 →
      (ops.foldl (Hub.step true) h).closedSends = 0 := by
    intro ops
    induction ops with
    | nil => intro h _ hc; exact hc
    | cons op rest ih =>
      intro h hp hc
      have := Hub.step_locked_inv h op hp hc
      exact ih _ this.1 this.2
  have h0 : (Hub.run true ops).closedSends = 0 :=
    key ops {} (by intro c hc; simp at hc) rfl
  simp [Hub.crashFree, h0]

/-- Released after the channels have been taken, the lock no longer protects the sends: subscribe, broadcast takes
the channel, unsubscribe (closes it), broadcast sends. -/
theorem hub_unlocked_sends_closed : (Hub.run false [.sub, .snap, .unsub 1, .send]).closedSends = 1 := by decide

/-- … but as long as nobody unsubscribes while blocks flow (a plan with ONE config event: instances are only closed
after the chain has stopped) the unlocked broadcast is never caught: why runs with a single configuration cannot
tell the two apart. -/
theorem hub_unlocked_safe_without_unsub (ops : List HubOp) (hno : ∀ op ∈ ops, ∀ id, op ≠ .unsub id) :
    (Hub.run false ops).crashFree = true := by
  have key : ∀ (ops : List HubOp) (h : Hub), (∀ op ∈ ops, ∀ id, op ≠ .unsub id) → h.pendingOpen → h.closedSends = 0 →
      (ops.foldl (Hub.step false) h).closedSends = 0 := by
    intro ops
    induction ops with
    | nil => intro h _ _ hc; exact hc
    | cons op rest ih =>
      intro h hno hp hc
      have hrest : ∀ op ∈ rest, ∀ id, op ≠ .unsub id := fun o ho => hno o (List.mem_cons_of_mem _ ho)
      have hop : ∀ id, op ≠ .unsub id := hno op (by simp)
      have step : (h.step false op).pendingOpen ∧ (h.step false op).closedSends = 0 := by
        cases op with
        | sub =>
          simp only [Hub.step, Bool.false_and, Bool.false_eq_true, if_false]
          exact ⟨fun c hcm => List.mem_append_left _ (hp c hcm), hc⟩
        | unsub id => exact absurd rfl (hop id)
        | snap =>
          simp only [Hub.step]
          by_cases he : h.pending.isEmpty = true
          · simp only [he, if_true]
            exact ⟨fun c hcm => hcm, hc⟩
          · simp only [he, Bool.false_eq_true, if_false]
            exact ⟨hp, hc⟩
        | send =>
          simp only [Hub.step]
          cases hpe : h.pending with
          | nil => exact ⟨by intro c hcm; simp [hpe] at hcm ⊢, hc⟩
          | cons c rest' =>
            have hmem : c ∈ h.chans := hp c (by simp [hpe])
            simp only [hmem, decide_true, if_true]
            exact ⟨fun d hd => hp d (by simp [hpe, hd]), hc⟩
      exact ih _ hrest step.1 step.2
  have h0 : (Hub.run false ops).closedSends = 0 :=
    key ops {} hno (by intro c hc; simp at hc) rfl
  simp [Hub.crashFree, h0]

/-- the schedule the churn cases aim at: under the lock every instance is served and leaves afterwards … -/
example : (Hub.run true (churnSchedule 2 3)).closedSends = 0 ∧ (Hub.run true (churnSchedule 2 3)).delivered = 9 ∧
    (Hub.run true (churnSchedule 2 3)).chans = [1, 2] := by decide
/-- … without it the very first instance that leaves mid-broadcast is sent to after its channel was closed -/
example : (Hub.run false (churnSchedule 0 1)).closedSends = 1 ∧ (Hub.run false (churnSchedule 2 3)).closedSends = 3 := by decide

theorem earlyExit_noop (s : PState) : step s .earlyExit = s := rfl

end AutoVerif.C20
